package main

// C13 (crash half): after a crash at any write boundary of a commit sequence, the restarted node is mutually
// consistent and loses no acknowledged block.
//
// One case = (history of 1-3 blocks, storage mode, crash model). The history runs once on a real node core
// (verif/minichain) over logging devices; then EVERY crash state of the write log (crashlog.go) is materialised, the real
// start-up recipe runs on it, the oracle compares every component with the SAME prefix of the crash-free run, the
// remaining blocks of the history are committed on the restarted node and the final state must equal the crash-free run.
// Cases run in worker subprocesses (minichain: one goroutine per process).

import (
	"bytes"
	"crypto/sha256"
	"encoding/hex"
	"encoding/json"
	"fmt"
	"io/ioutil"
	"math/big"
	"os"
	"path/filepath"
	"regexp"
	"sort"
	"strings"
	"time"

	"verif/kv"
	"verif/minichain"
	"verif/txkit"
	"verif/vk"

	cs "github.com/lianxiangcloud/linkchain/consensus"
	"github.com/lianxiangcloud/linkchain/libs/common"
	"github.com/lianxiangcloud/linkchain/libs/crypto"
	lktypes "github.com/lianxiangcloud/linkchain/libs/cryptonote/types"
	dbm "github.com/lianxiangcloud/linkchain/libs/db"
	"github.com/lianxiangcloud/linkchain/libs/ser"
	"github.com/lianxiangcloud/linkchain/types"
)

// Block kinds of a history:
//
//	T  two coin transfers
//	O  account -> confidential (three outputs) + one transfer
//	S  confidential -> confidential spend (key image + outputs) + account -> confidential; needs an earlier O
//	E  one transfer + DuplicateVoteEvidence (evidence database)
//	V  one transfer + validator-set change (fixture seam Options.ValidatorsAt: the candidate contracts are not deployed)
//	C  contract storage: the first C block of a history creates a three-slot contract and fills two slots, every later C block
//	   calls it (overwrites one slot, creates one, clears one); flat mode commits two tries (storage, accounts) = two undo-log appends
const kindsQuick = "TOSEV"
const kindsThorough = "TOSEVC"

type crashCase struct {
	Hist  string
	Trie  bool
	Model string // "process": every prefix, reordering, torn append; "power": lost unsynchronised writes
}

func (c crashCase) String() string {
	m := "flat"
	if c.Trie {
		m = "trie"
	}
	return fmt.Sprintf("%s/%s/%s", c.Hist, m, c.Model)
}

func validHistory(h string) bool {
	seenO := false
	for _, k := range h {
		if k == 'O' {
			seenO = true
		}
		if k == 'S' && !seenO {
			return false
		}
	}
	return true
}

func histories(alphabet string, maxLen int) []string {
	var out []string
	var rec func(p string)
	rec = func(p string) {
		if len(p) > 0 && validHistory(p) {
			out = append(out, p)
		}
		if len(p) == maxLen {
			return
		}
		for _, k := range alphabet {
			rec(p + string(k))
		}
	}
	rec("")
	sort.SliceStable(out, func(i, j int) bool { return len(out[i]) < len(out[j]) })
	return out
}

// crashCases is a deterministic function of the tier.
//
//	quick:    every valid history (S needs an earlier O) of 1-3 blocks over {T,O,S,E,V}, plus the histories with the
//	          contract kind C of 1-2 blocks and those of 3 blocks with at least two C blocks (the second C block writes the
//	          storage of a contract that exists since an earlier block); both modes; process-crash model (torn appends cut
//	          at the structural offsets of the record format)
//	thorough: every valid history of 1-3 blocks over {T,O,S,E,V,C}; both modes; process-crash model with EVERY torn
//	          offset, and the power-loss model
func crashCases(quick bool) []crashCase {
	hs := histories(kindsQuick, 3)
	for _, h := range histories(kindsThorough, 3) {
		if n := strings.Count(h, "C"); n > 0 && (!quick || len(h) <= 2 || n >= 2) {
			hs = append(hs, h)
		}
	}
	if only := os.Getenv("C13_HIST"); only != "" { // debugging aid: restrict the histories (the run reports itself as capped)
		var keep []string
		for _, h := range hs {
			for _, o := range strings.Split(only, ",") {
				if h == o {
					keep = append(keep, h)
				}
			}
		}
		hs = keep
	}
	var out []crashCase
	for _, h := range hs {
		for _, trie := range []bool{false, true} {
			out = append(out, crashCase{h, trie, "process"})
			if !quick {
				out = append(out, crashCase{h, trie, "power"})
			}
		}
	}
	return out
}

// ---------------------------------------------------------------------------------------------------------------
// the crash-free run

type obs struct {
	Height uint64
	Block  []string // per height 1..h: digest of block, meta, seen commit, receipts, TxsResult
	State  string   // state root, state hash, receipt hash, digest of every persisted account
	Accts  string   // the account part of State alone (tells WHICH height a deviating state is at)
	Status string   // consensus status (memory and database), validator / parameter records for h+1
	Btio   []string // per height 1..h: first output sequence per token of the block
}

type txRef struct {
	hash  common.Hash
	block uint64
	index uint64
}

type imgRef struct {
	ki    lktypes.Key
	block uint64
}

type outRef struct {
	block uint64
	bz    []byte
}

type world struct {
	cc       crashCase
	tap      *tap
	ref      *minichain.Chain
	from     int
	evs      []event
	blockEnd []int // blockEnd[k-1] = number of events when block k was acknowledged (Commit returned)
	L        uint64
	refs     []obs // refs[h] = observation of the crash-free run at height h
	txs      []txRef
	images   []imgRef
	outputs  []outRef
	hashes   []common.Hash // block hashes, index = height
	scratch  string
}

func digest(parts ...[]byte) string {
	h := sha256.New()
	for _, p := range parts {
		fmt.Fprintf(h, "%d:", len(p))
		h.Write(p)
	}
	return hex.EncodeToString(h.Sum(nil)[:10])
}

// dbDigest hashes the whole content of a database.
func dbDigest(db dbm.DB) string {
	h := sha256.New()
	it := db.Iterator(nil, nil)
	defer it.Close()
	for ; it.Valid(); it.Next() {
		fmt.Fprintf(h, "%d:%x=%d:%x;", len(it.Key()), it.Key(), len(it.Value()), it.Value())
	}
	return hex.EncodeToString(h.Sum(nil)[:8])
}

func enc(v interface{}) []byte {
	bz, err := ser.EncodeToBytes(v)
	if err != nil {
		return []byte("encode error: " + err.Error())
	}
	return bz
}

func accountsDigest(c *minichain.Chain) string {
	acc := c.AllAccounts()
	var addrs []string
	for a := range acc {
		addrs = append(addrs, string(a[:]))
	}
	sort.Strings(addrs)
	h := sha256.New()
	for _, s := range addrs {
		var a common.Address
		copy(a[:], s)
		d := acc[a]
		fmt.Fprintf(h, "%x n=%d b=%s code=%x root=%x;", a[:], d.Nonce, d.Balance, d.CodeHash, d.StorageRoot[:])
		var toks []string
		for t, v := range d.Tokens {
			toks = append(toks, fmt.Sprintf("%x=%s", t[:], v))
		}
		sort.Strings(toks)
		fmt.Fprint(h, toks)
		var slots []string
		for k, v := range d.Storage {
			slots = append(slots, fmt.Sprintf("%x=%x", k[:], v))
		}
		sort.Strings(slots)
		fmt.Fprint(h, slots)
	}
	for _, u := range c.Unattributed() {
		fmt.Fprintf(h, "?%x n=%d b=%s;", u.AddrHash[:], u.Nonce, u.Balance)
	}
	return fmt.Sprintf("%d accounts %s", len(acc), hex.EncodeToString(h.Sum(nil)[:10]))
}

// observe reads every component of c through the node's own read paths. Panics of a reader are part of the observation.
func observe(c *minichain.Chain) (o obs) {
	o.Height = c.Height()
	bs := c.BlockStore()
	for k := uint64(1); k <= o.Height; k++ {
		s := "?"
		if p, v := vk.Catch(func() {
			b, meta, seen := bs.LoadBlock(k), bs.LoadBlockMeta(k), bs.LoadSeenCommit(k)
			if b == nil || meta == nil || seen == nil {
				s = fmt.Sprintf("block %v meta %v seen-commit %v", b != nil, meta != nil, seen != nil)
				return
			}
			tr, err := bs.LoadTxsResult(k)
			if err != nil || tr == nil {
				s = fmt.Sprintf("TxsResult missing (%v)", err)
				return
			}
			rc := bs.GetReceipts(k)
			var rbz []byte
			if rc != nil {
				for _, r := range *rc {
					rbz = append(rbz, enc(r.ForStorage())...)
				}
			}
			bh := b.Hash()
			s = digest(bh[:], meta.BlockID.Hash[:], enc(meta.BlockID.PartsHeader), enc(seen), rbz, enc(tr)) + fmt.Sprintf(" receipts=%v", rc != nil)
		}); p {
			s = fmt.Sprintf("panic: %v", v)
		}
		o.Block = append(o.Block, s)
	}
	if p, v := vk.Catch(func() {
		root, sh, rh := c.StateRoot(), c.StateHash(), c.ReceiptHash()
		o.Accts = accountsDigest(c)
		o.State = fmt.Sprintf("root=%x statehash=%x receipthash=%x %s", root[:6], sh[:6], rh[:6], o.Accts)
	}); p {
		o.State = fmt.Sprintf("panic: %v", v)
	}
	if p, v := vk.Catch(func() {
		db := c.DB("consensus_state")
		mem := c.Status()
		disk, err := cs.LoadStatus(db)
		if err != nil {
			o.Status = "LoadStatus: " + err.Error()
			return
		}
		s := fmt.Sprintf("mem(h=%d %s) disk(h=%d %s)", mem.LastBlockHeight, digest(mem.Bytes()), disk.LastBlockHeight, digest(disk.Bytes()))
		vals, changed, err := cs.LoadValidators(db, o.Height+1)
		if err != nil {
			s += " validators(h+1): " + err.Error()
		} else {
			s += fmt.Sprintf(" validators(h+1)=%x changed@%d", vals.Hash()[:6], changed)
		}
		params, err := cs.LoadConsensusParams(db, o.Height+1)
		if err != nil {
			s += " params(h+1): " + err.Error()
		} else {
			s += fmt.Sprintf(" params(h+1)=%x", params.Hash()[:6])
		}
		o.Status = s
	}); p {
		o.Status = fmt.Sprintf("panic: %v", v)
	}
	for k := uint64(1); k <= o.Height; k++ {
		m := c.UtxoStore().GetBlockTokenUtxoOutputSeq(k)
		var ks []string
		for t, v := range m {
			ks = append(ks, fmt.Sprintf("%s=%d", t, v))
		}
		sort.Strings(ks)
		o.Btio = append(o.Btio, strings.Join(ks, ","))
	}
	return
}

func statusHeight(c *minichain.Chain) (mem, disk uint64) {
	mem = c.Status().LastBlockHeight
	if st, err := cs.LoadStatus(c.DB("consensus_state")); err == nil {
		disk = st.LastBlockHeight
	}
	return
}

type builder struct {
	c     *minichain.Chain
	kit   *txkit.Kit
	led   *txkit.Ledger
	nonce map[*txkit.Account]uint64
	store common.Address
	calls int
}

func (b *builder) n(a *txkit.Account) uint64 {
	v := b.nonce[a]
	b.nonce[a]++
	return v
}

func fakeID(s string) types.BlockID {
	return types.BlockID{Hash: crypto.Keccak256Hash([]byte(s)), PartsHeader: types.PartSetHeader{Total: 1, Hash: crypto.Keccak256([]byte("parts-" + s))}}
}

// block builds the transactions (and evidence) of block number k of the given kind.
func (b *builder) block(kind byte, k uint64) (types.Txs, []types.Evidence) {
	A, B, C := txkit.A, txkit.B, txkit.C
	must := func(err error) {
		if err != nil {
			harnessErr("crash: building block %d (%c): %v", k, kind, err)
		}
	}
	switch kind {
	case 'T':
		return types.Txs{txkit.Transfer(A, b.n(A), B.Addr, txkit.LKC(10)), txkit.Transfer(B, b.n(B), C.Addr, txkit.LKC(3))}, nil
	case 'O':
		ain, err := b.kit.AccountToUTXO(B, b.n(B), []txkit.Dest{txkit.ToWallet(txkit.W0, 0, txkit.LKC(300)), txkit.ToWallet(txkit.W0, 1, txkit.LKC(200)),
			txkit.ToWallet(txkit.W1, 0, txkit.LKC(100))}, nil)
		must(err)
		return types.Txs{ain, txkit.Transfer(A, b.n(A), C.Addr, txkit.LKC(1))}, nil
	case 'S':
		sp := b.led.Spendable(txkit.W0)
		if len(sp) == 0 {
			harnessErr("crash: block %d (S): nothing spendable", k)
		}
		spend, err := b.kit.Transfer(b.led, txkit.W0, sp[:1], 1, []txkit.Dest{txkit.ToWallet(txkit.W2, 0, txkit.LKC(50))}, 2)
		must(err)
		ain, err := b.kit.AccountToUTXO(C, b.n(C), []txkit.Dest{txkit.ToWallet(txkit.W1, 1, txkit.LKC(70))}, nil)
		must(err)
		return types.Txs{spend, ain}, nil
	case 'E':
		eh := k
		if eh > 1 {
			eh--
		}
		f := b.c.Fixture()
		ev := &types.DuplicateVoteEvidence{PubKey: f.Keys[1].PubKey(),
			VoteA: f.Vote(1, eh, int(k), types.VoteTypePrevote, fakeID(fmt.Sprintf("x%d", k))),
			VoteB: f.Vote(1, eh, int(k), types.VoteTypePrevote, fakeID(fmt.Sprintf("y%d", k)))}
		return types.Txs{txkit.Transfer(C, b.n(C), A.Addr, txkit.LKC(2))}, []types.Evidence{ev}
	case 'V':
		return types.Txs{txkit.Transfer(A, b.n(A), B.Addr, txkit.LKC(1))}, nil
	case 'C':
		// contract with three storage slots: sstore(0, calldata[0:32]); sstore(1, calldata[32:64]); sstore(2, calldata[64:96]).
		// First C block of a history: creation + a call that fills slots 0 and 2. Every later C block calls the contract that
		// exists since an earlier block and OVERWRITES one slot, CREATES one and CLEARS one (slots 1 and 2 alternate).
		word := func(v int64) []byte { return txkit.Word(big.NewInt(v)) }
		args := func(s0, s1, s2 int64) []byte { return append(append(word(s0), word(s1)...), word(s2)...) }
		if b.store == (common.Address{}) {
			init := txkit.Deploy(nil, []byte{0x60, 0x00, 0x35, 0x60, 0x00, 0x55, 0x60, 0x20, 0x35, 0x60, 0x01, 0x55, 0x60, 0x40, 0x35, 0x60, 0x02, 0x55, 0x00})
			nonce := b.n(A)
			b.store = txkit.ContractAddress(A.Addr, nonce, init)
			b.calls = 0
			return types.Txs{txkit.Create(A, nonce, init, nil), txkit.Call(A, b.n(A), b.store, nil, args(100+int64(k), 0, 300+int64(k))),
				txkit.Transfer(B, b.n(B), C.Addr, txkit.LKC(1))}, nil
		}
		b.calls++
		s1, s2 := int64(200+k), int64(0) // slot 1 created, slot 2 cleared
		if b.calls%2 == 0 {
			s1, s2 = 0, int64(300+k) // slot 1 cleared, slot 2 created
		}
		return types.Txs{txkit.Call(A, b.n(A), b.store, nil, args(100+int64(k), s1, s2)), txkit.Transfer(B, b.n(B), C.Addr, txkit.LKC(1))}, nil
	}
	harnessErr("crash: unknown block kind %c", kind)
	return nil, nil
}

// changedValidators: validator 0's power becomes 10+height.
func changedValidators(fvals []*types.Validator, height uint64) []*types.Validator {
	var nv []*types.Validator
	for i, v := range fvals {
		cp := *v
		if i == 0 {
			cp.VotingPower = int64(10 + height)
		}
		nv = append(nv, &cp)
	}
	return nv
}

func runHistory(cc crashCase, scratch string) *world {
	w := &world{cc: cc, scratch: scratch, L: uint64(len(cc.Hist))}
	rec := kv.NewRecorder()
	walDir := filepath.Join(scratch, "ref")
	os.RemoveAll(walDir)
	w.tap = &tap{rec: rec, walPath: filepath.Join(walDir, minichain.WalFileName)}
	opts := minichain.Options{IsTrie: cc.Trie, Alloc: txkit.Alloc(nil), WalDir: walDir,
		NewDB: func(n string) dbm.DB { return tapDB{rec.DB(n), w.tap} }}
	var fvals []*types.Validator
	opts.ValidatorsAt = func(h uint64) []*types.Validator {
		if h >= 1 && h <= uint64(len(cc.Hist)) && cc.Hist[h-1] == 'V' {
			return changedValidators(fvals, h)
		}
		return nil
	}
	c, err := minichain.New(opts)
	if err != nil {
		harnessErr("crash %s: New: %v", cc, err)
	}
	fvals = c.Fixture().Vals
	w.ref = c
	w.tap.final()
	w.from = rec.Len()
	snapFrom := len(w.tap.snaps)
	w.refs = append(w.refs, observe(c))
	w.hashes = append(w.hashes, c.LoadBlock(0).Hash())
	b := &builder{c: c, kit: txkit.NewKit(13), led: txkit.NewLedger(), nonce: map[*txkit.Account]uint64{}}
	var unitEnd []int
	for i := 0; i < len(cc.Hist); i++ {
		k := uint64(i + 1)
		txs, ev := b.block(cc.Hist[i], k)
		rec.SetTag(fmt.Sprint(k))
		for _, e := range ev { // the evidence reaches the node's pool first (gossip), the proposer takes it from there
			if err := c.EvidencePool().AddEvidence(e); err != nil {
				harnessErr("crash %s: AddEvidence block %d: %v", cc, k, err)
			}
		}
		blk, parts, err := c.Propose(txs, false, 0, minichain.BlockOpts{})
		if err != nil {
			harnessErr("crash %s: Propose block %d: %v", cc, k, err)
		}
		if err := c.Commit(blk, parts); err != nil {
			harnessErr("crash %s: Commit block %d: %v", cc, k, err)
		}
		w.tap.final()
		unitEnd = append(unitEnd, rec.Len())
		b.led.Sync(c)
		// every transaction must have succeeded (the reference model below assumes it)
		rs := c.Receipts(k)
		if len(rs) != len(txs) {
			harnessErr("crash %s: block %d: %d receipts for %d txs", cc, k, len(rs), len(txs))
		}
		for j, r := range rs {
			if r.Status != types.ReceiptStatusSuccessful {
				harnessErr("crash %s: block %d tx %d failed", cc, k, j)
			}
		}
		if cc.Hist[i] == 'C' { // non-vacuity: the contract exists and holds exactly two slots (one was created, one cleared)
			if acc, ok := c.AllAccounts()[b.store]; !ok || len(acc.Storage) != 2 {
				harnessErr("crash %s: block %d: contract storage has %d slots, expected 2 (account found: %v)", cc, k, len(acc.Storage), ok)
			}
		}
		w.hashes = append(w.hashes, blk.Hash())
		for j, tx := range blk.Data.Txs {
			w.txs = append(w.txs, txRef{tx.Hash(), k, uint64(j)})
			if u, ok := tx.(*types.UTXOTransaction); ok {
				for _, ki := range u.GetInputKeyImages() {
					w.images = append(w.images, imgRef{*ki, k})
				}
				for _, od := range u.GetOutputData(k) {
					w.outputs = append(w.outputs, outRef{k, enc(od)})
				}
			}
		}
		w.refs = append(w.refs, observe(c))
	}
	blockOf := func(u int) int {
		for i, e := range unitEnd {
			if u < e {
				return i + 1
			}
		}
		return len(unitEnd)
	}
	w.evs = buildEvents(w.tap, w.from, snapFrom, blockOf)
	for k := 1; k <= len(unitEnd); k++ {
		n := 0
		for _, e := range w.evs {
			if e.block <= k {
				n++
			}
		}
		w.blockEnd = append(w.blockEnd, n)
	}
	// self-check of the reference model on the crash-free run (a mismatch is a harness error)
	if ms := w.compare(c, w.L); len(ms) > 0 {
		harnessErr("crash %s: the crash-free run does not satisfy the oracle: %v", cc, ms)
	}
	hasImg, hasOut := len(w.images) > 0, len(w.outputs) > 0
	if (strings.ContainsRune(cc.Hist, 'S') && !hasImg) || (strings.ContainsRune(cc.Hist, 'O') && !hasOut) {
		harnessErr("crash %s: history has no key images / outputs", cc)
	}
	return w
}

// ---------------------------------------------------------------------------------------------------------------
// oracle

type mismatch struct {
	comp string // block-store | world-state | utxo-store | tx-index | consensus-status
	dir  string // behind | ahead | differs
	fam  string // utxo-store only: record family (key-images | key-images(earlier-blocks) | outputs | token_muos | btio)
	what string
}

// class is the part of the violation key that names WHAT deviates: component, direction and (utxo store) record family.
// Every family has its own key so that a recorded finding about one family cannot hide a deviation of another family
// in the same crash window.
func (m mismatch) class() string {
	if m.fam != "" {
		return m.comp + "-" + m.dir + ":" + m.fam
	}
	return m.comp + "-" + m.dir
}

func (m mismatch) String() string { return m.class() + ": " + m.what }

func prefixEq(a, b []string) bool {
	if len(a) != len(b) {
		return false
	}
	for i := range a {
		if a[i] != b[i] {
			return false
		}
	}
	return true
}

// compare checks every component of c against height h of the crash-free run.
func (w *world) compare(c *minichain.Chain, h uint64) (ms []mismatch) {
	if h > w.L {
		return []mismatch{{comp: "block-store", dir: "ahead", what: fmt.Sprintf("height %d beyond the history", h)}}
	}
	o := observe(c)
	ref := w.refs[h]
	// block store: every block up to h complete and identical
	if !prefixEq(o.Block, ref.Block) {
		for k := range o.Block {
			if k >= len(ref.Block) || o.Block[k] != ref.Block[k] {
				ms = append(ms, mismatch{comp: "block-store", dir: "differs", what: fmt.Sprintf("records of block %d: %s", k+1, o.Block[k])})
				break
			}
		}
	}
	// world state
	if o.State != ref.State {
		dir, extra := "differs", ""
		for k := range w.refs { // which height is the persisted account state at?
			if w.refs[k].Accts == o.Accts && o.Accts != "" {
				extra = fmt.Sprintf(" (accounts = crash-free state at height %d)", k)
				if uint64(k) < h {
					dir = "behind"
				} else if uint64(k) > h {
					dir = "ahead"
				}
				break
			}
		}
		ms = append(ms, mismatch{comp: "world-state", dir: dir, what: fmt.Sprintf("block store at %d, state %s%s, crash-free run at %d has %s", h, o.State, extra, h, ref.State)})
	}
	// UTXO store, one record family at a time; within a family one mismatch per direction
	reported := map[string]bool{}
	utxo := func(fam, dir, what string) {
		if !reported[fam+dir] {
			reported[fam+dir] = true
			ms = append(ms, mismatch{comp: "utxo-store", dir: dir, fam: fam, what: what})
		}
	}
	// family 1: spent key images (utxo database, key = key image)
	for _, im := range w.images {
		spent := false
		if p, v := vk.Catch(func() { spent = c.KeyImageSpent(im.ki) }); p {
			utxo("key-images", "differs", fmt.Sprintf("HaveTxKeyimgAsSpent panics: %v", v))
			break
		}
		if spent != (im.block <= h) {
			dir := "behind"
			if spent {
				dir = "ahead"
			}
			// the start-up repair (fix 1c274d5) re-records the key images of the LAST stored block only: those of earlier blocks
			// (they can only be missing after a power loss) are a family of their own
			fam := "key-images"
			if im.block < h {
				fam = "key-images(earlier-blocks)"
			}
			utxo(fam, dir, fmt.Sprintf("key image %x of block %d: spent=%v with the block store at %d", im.ki[:4], im.block, spent, h))
		}
	}
	// family 2: output records (utxo_output database, key = sequence number), read by key, independently of the maximum
	want := int64(-1)
	for seq, od := range w.outputs {
		if od.block <= h {
			want++
		}
		var got *types.UTXOOutputData
		var err error
		if p, v := vk.Catch(func() { got, err = c.UtxoStore().GetUtxoOutput(common.EmptyAddress, uint64(seq)) }); p {
			utxo("outputs", "differs", fmt.Sprintf("GetUtxoOutput(%d) panics: %v", seq, v))
			break
		}
		present := err == nil && got != nil
		switch {
		case od.block <= h && !present:
			utxo("outputs", "behind", fmt.Sprintf("output %d (block %d) not readable with the block store at %d (%v)", seq, od.block, h, err))
		case od.block <= h && !bytes.Equal(enc(got), od.bz):
			utxo("outputs", "differs", fmt.Sprintf("output %d (block %d) differs from the output of the crash-free run", seq, od.block))
		case od.block > h && present:
			utxo("outputs", "ahead", fmt.Sprintf("output %d (block %d) stored with the block store at %d", seq, od.block, h))
		}
	}
	// family 3: maximum output sequence (utxo database, token_muos_<token>; loaded into memory at start-up)
	if got := c.MaxUtxoOutputSeq(); got != want {
		dir := "behind"
		if got > want {
			dir = "ahead"
		}
		utxo("token_muos", dir, fmt.Sprintf("max output sequence %d, outputs of blocks <= %d end at %d", got, h, want))
	}
	// family 4: per-block first output sequences (utxo database, btio_<height>)
	if !prefixEq(o.Btio, ref.Btio) {
		dir := "differs"
		for k := range o.Btio {
			if k < len(ref.Btio) && o.Btio[k] == "" && ref.Btio[k] != "" {
				dir = "behind"
			}
		}
		utxo("btio", dir, fmt.Sprintf("per-block first output sequences (btio_<h>) %q, crash-free %q", o.Btio, ref.Btio))
	}
	for k := h + 1; k <= w.L; k++ {
		if m := c.UtxoStore().GetBlockTokenUtxoOutputSeq(k); len(m) > 0 {
			utxo("btio", "ahead", fmt.Sprintf("btio_%d stored with the block store at %d", k, h))
		}
	}
	// transaction index, through the block store's own lookups (what the RPC layer serves)
	bs := c.BlockStore()
	for _, t := range w.txs {
		var tx types.Tx
		var e *types.TxEntry
		var rcpt *types.Receipt
		if p, v := vk.Catch(func() {
			tx, e = bs.GetTx(t.hash)
			rcpt, _, _, _ = bs.GetTransactionReceipt(t.hash)
		}); p {
			ms = append(ms, mismatch{comp: "tx-index", dir: "differs", what: fmt.Sprintf("lookup of tx %x panics: %v", t.hash[:4], v)})
			break
		}
		if t.block > h && (e != nil || tx != nil || rcpt != nil) {
			ms = append(ms, mismatch{comp: "tx-index", dir: "ahead", what: fmt.Sprintf("tx %x of block %d with the block store at %d: GetTx returns entry=%v tx=%v, GetTransactionReceipt returns receipt=%v",
				t.hash[:4], t.block, h, e != nil, tx != nil, rcpt != nil)})
			break
		}
		if t.block <= h {
			if e == nil || tx == nil || rcpt == nil {
				ms = append(ms, mismatch{comp: "tx-index", dir: "behind", what: fmt.Sprintf("tx %x of block %d with the block store at %d: GetTx returns entry=%v tx=%v, GetTransactionReceipt returns receipt=%v",
					t.hash[:4], t.block, h, e != nil, tx != nil, rcpt != nil)})
				break
			}
			if e.BlockHeight != t.block || e.Index != t.index || e.BlockHash != w.hashes[t.block] || tx.Hash() != t.hash {
				ms = append(ms, mismatch{comp: "tx-index", dir: "differs", what: fmt.Sprintf("tx %x: entry %d/%d, expected %d/%d", t.hash[:4], e.BlockHeight, e.Index, t.block, t.index)})
				break
			}
		}
	}
	// consensus status
	if o.Status != ref.Status {
		dir := "differs"
		mem, disk := statusHeight(c)
		if mem < h || disk < h {
			dir = "behind"
		} else if mem > h || disk > h {
			dir = "ahead"
		}
		ms = append(ms, mismatch{comp: "consensus-status", dir: dir, what: fmt.Sprintf("block store at %d, status %s, crash-free %s", h, o.Status, ref.Status)})
	}
	return ms
}

var reNum = regexp.MustCompile(`0x[0-9a-fA-F]+|[0-9a-fA-F]{16,}|[0-9]+`)

var reRange = regexp.MustCompile(`(index out of range|slice bounds out of range) \[[^\]]*\]( with (length|capacity) [0-9]+)?`)

func normalize(s string) string {
	s = reRange.ReplaceAllString(s, "index or slice bounds out of range")
	s = reNum.ReplaceAllString(s, "N")
	s = strings.TrimPrefix(s, "minichain: ")
	if len(s) > 90 {
		s = s[:90]
	}
	return s
}

// window names the part of the commit sequence the crash fell into: "<last milestone reached>|<next milestone>" of the
// block in flight; milestones are taken from the log (last state write, height descriptor, last utxo write, last
// status write), in the order they occurred.
func (w *world) window(cp crashPoint) (acked int, win string) {
	for acked < len(w.blockEnd) && cp.prefix >= w.blockEnd[acked] {
		acked++
	}
	if acked == len(w.blockEnd) {
		return acked, "after-last-commit"
	}
	blk := acked + 1
	start := 0
	if acked > 0 {
		start = w.blockEnd[acked-1]
	}
	if cp.prefix == start && len(cp.extra) == 0 && cp.torn < 0 {
		return acked, "between-commits"
	}
	type ms struct {
		pos  int
		name string
	}
	last := map[string]int{}
	for i := start; i < w.blockEnd[acked]; i++ {
		e := w.evs[i]
		if e.block != blk {
			continue
		}
		switch e.phase {
		case "state":
			last["state-committed"] = i
		case "descriptor":
			last["block-stored"] = i
		case "utxo":
			last["utxo-saved"] = i
		case "status":
			last["status-saved"] = i
		}
	}
	var list []ms
	for n, p := range last {
		list = append(list, ms{p, n})
	}
	sort.Slice(list, func(i, j int) bool { return list[i].pos < list[j].pos })
	prev, next := "commit-start", "commit-end"
	for _, m := range list {
		if m.pos < cp.prefix {
			prev = m.name
		} else {
			next = m.name
			break
		}
	}
	return acked, prev + "|" + next
}

// hErr is a harness error raised inside a worker case: it travels to the parent in the case result and ends the check
// with exit code 2 there (a worker that exits inside a case would be counted as an observation of that case).
type hErr string

func harnessErr(f string, a ...interface{}) { panic(hErr(fmt.Sprintf(f, a...))) }

type vio struct {
	Key    string                 `json:"key"`
	What   string                 `json:"what"`
	Replay map[string]interface{} `json:"replay"`
}

type crashResult struct {
	Case        string         `json:"case"`
	Events      int            `json:"events"`
	Appends     int            `json:"appends"`
	Points      map[string]int `json:"points"`   // crash states by kind
	Outcomes    map[string]int `json:"outcomes"` // what the restart did
	Recommitted int            `json:"recommitted"`
	Restarts    int            `json:"restarts"`
	Vios        []vio          `json:"vios"`
	VioCount    map[string]int `json:"vio_count"`
	Capped      int            `json:"capped"` // crash states not evaluated (deadline)
	Harness     string         `json:"harness,omitempty"`
	Log         []string       `json:"log,omitempty"`
}

func (w *world) replay(cp crashPoint) map[string]interface{} {
	m := map[string]interface{}{"case": w.cc.String(), "crash": cp.String()}
	if cp.prefix > 0 {
		m["last_completed"] = describeEvent(w.tap.rec.Log, w.evs[cp.prefix-1])
	}
	if cp.prefix < len(w.evs) {
		m["next"] = describeEvent(w.tap.rec.Log, w.evs[cp.prefix])
	}
	var ex []string
	for _, i := range cp.extra {
		ex = append(ex, describeEvent(w.tap.rec.Log, w.evs[i]))
	}
	if ex != nil {
		m["also_written"] = ex
	}
	var lost []string
	for _, i := range cp.lost {
		lost = append(lost, describeEvent(w.tap.rec.Log, w.evs[i]))
	}
	if lost != nil {
		m["lost"] = lost
	}
	return m
}

// verdict of the oracle on one crash state.
type verdict struct {
	outcome     string   // what the restart did (non-vacuity statistics)
	classes     []string // empty = held; otherwise every violated part of the oracle (component, direction, record family / normalised error)
	what        string
	recommitted int // blocks committed on the restarted node
}

// classesOf turns the mismatches of one comparison into verdict classes (one per component / direction / family).
func classesOf(prefix string, ms []mismatch) (out []string) {
	seen := map[string]bool{}
	for _, m := range ms {
		if c := prefix + m.class(); !seen[c] {
			seen[c] = true
			out = append(out, c)
		}
	}
	return
}

// where names the position of the crash in the commit sequence (part of the violation key in the process-crash model).
func (w *world) where(cp crashPoint) string {
	_, win := w.window(cp)
	s := "crash-between:" + win
	if cp.torn >= 0 {
		s += ":torn-undo-log-append"
	}
	return s
}

// evaluate restarts the node on one crash state and applies the oracle.
func (w *world) evaluate(cp crashPoint, curFile string) (v verdict) {
	if curFile != "" {
		ioutil.WriteFile(curFile, []byte(w.cc.String()+" "+cp.String()), 0600)
	}
	dbs, wal, _ := materialize(w.tap, w.from, w.evs, cp)
	acked, _ := w.window(cp)
	dir, err := minichain.NewWalDir(w.scratch)
	if err != nil {
		harnessErr("crash: wal dir: %v", err)
	}
	defer os.RemoveAll(dir)
	if !w.cc.Trie {
		if wal == nil {
			wal = []byte{}
		}
		if err := minichain.PutWal(dir, wal); err != nil {
			harnessErr("crash: PutWal: %v", err)
		}
	}
	stateBefore := dbDigest(dbs["state"])
	rc, err := w.ref.RestartOnCopies(dbs, dir)
	if err != nil {
		return verdict{outcome: "restart-fails", classes: []string{"restart-fails:" + normalize(err.Error())}, what: "the node does not start: " + err.Error()}
	}
	defer rc.Close()
	h := rc.Height()
	v.outcome = fmt.Sprintf("acked=%d restart-at=acked+%d", acked, int(h)-acked)
	if rc.RebuiltStatus {
		v.outcome += " status-rebuilt"
	}
	if dbDigest(dbs["state"]) != stateBefore {
		v.outcome += " state-rolled-back"
	}
	if h < uint64(acked) {
		v.classes, v.what = []string{"acknowledged-block-lost"}, fmt.Sprintf("%d blocks were acknowledged, the restarted node is at height %d", acked, h)
		return
	}
	join := func(ms []mismatch) string {
		var all []string
		for _, m := range ms {
			all = append(all, m.String())
		}
		return strings.Join(all, " || ")
	}
	if ms := w.compare(rc, h); len(ms) > 0 {
		v.outcome += " inconsistent"
		v.classes = classesOf("", ms)
		v.what = fmt.Sprintf("after restart the block store is at height %d (acknowledged: %d) but: %s", h, acked, join(ms))
		return
	}
	// the remaining blocks of the history are committed on the restarted node
	for k := h + 1; k <= w.L; k++ {
		parts, err := w.ref.LoadParts(k)
		if err != nil {
			harnessErr("crash: reference block %d: %v", k, err)
		}
		b, err := minichain.BlockFromParts(parts, w.ref.Status().ConsensusParams.BlockSize.MaxBytes)
		if err != nil {
			harnessErr("crash: reference block %d: %v", k, err)
		}
		for _, e := range b.Evidence.Evidence { // as in the crash-free run: the node knows the evidence before it commits it
			if _, ok := e.(*types.DuplicateVoteEvidence); ok {
				rc.EvidencePool().AddEvidence(e)
			}
		}
		if err := rc.CommitWithSeen(b, parts, w.ref.BlockStore().LoadSeenCommit(k)); err != nil {
			v.outcome += " cannot-continue"
			v.classes = []string{"history-cannot-continue:" + normalize(err.Error())}
			v.what = fmt.Sprintf("restarted at height %d consistently, but block %d of the history is refused: %v", h, k, err)
			return
		}
		v.recommitted++
	}
	if ms := w.compare(rc, w.L); len(ms) > 0 {
		v.outcome += " final-differs"
		v.classes = classesOf("final-state-differs:", ms)
		v.what = fmt.Sprintf("restarted at height %d consistently and committed blocks %d..%d, but the final state differs from the crash-free run: %s", h, h+1, w.L, join(ms))
	}
	return
}

// points enumerates the crash states of the case's model, simplest first.
func (w *world) points(quick bool) (pts []crashPoint) {
	if w.cc.Model == "process" {
		pts = append(pts, linearPoints(w.evs)...)
		pts = append(pts, idealPoints(w.evs)...)
		pts = append(pts, tornPoints(w.evs, !quick)...)
		return
	}
	return powerLossPoints(w.evs, w.tap.rec.Log, 4)
}

// component reduces a verdict class to what deviates without the direction / message: component and record family
// (used for power-loss keys, where direction and message vary with the depth of the loss).
func component(class string) string {
	for _, c := range []string{"restart-fails", "history-cannot-continue", "final-state-differs", "acknowledged-block-lost"} {
		if strings.HasPrefix(class, c) {
			return c
		}
	}
	first, fam := class, ""
	if i := strings.IndexByte(class, ':'); i >= 0 {
		first, fam = class[:i], class[i:]
	}
	if i := strings.LastIndexByte(first, '-'); i > 0 {
		first = first[:i]
	}
	return first + fam
}

func components(classes []string) map[string]bool {
	m := map[string]bool{}
	for _, c := range classes {
		m[component(c)] = true
	}
	return m
}

func runCrashCase(cc crashCase, quick bool, deadline time.Time) (res crashResult) {
	res = crashResult{Case: cc.String(), Points: map[string]int{}, Outcomes: map[string]int{}, VioCount: map[string]int{}}
	defer func() {
		if e := recover(); e != nil {
			if he, ok := e.(hErr); ok {
				res.Harness = string(he)
				return
			}
			panic(e)
		}
	}()
	scratch := os.Getenv("C13_SCRATCH")
	if scratch == "" {
		scratch = fmt.Sprintf("/dev/shm/C13-solo-%d", os.Getpid())
	}
	scratch = filepath.Join(scratch, fmt.Sprintf("w%d", os.Getpid()))
	if err := os.MkdirAll(scratch, 0700); err != nil {
		harnessErr("crash: scratch: %v", err)
	}
	defer os.RemoveAll(scratch)
	w := runHistory(cc, scratch)
	defer w.ref.Close()
	res.Events = len(w.evs)
	for _, e := range w.evs {
		if e.kind == evAppend {
			res.Appends++
		}
	}
	if *dumpLog {
		for i, e := range w.evs {
			res.Log = append(res.Log, fmt.Sprintf("%3d chain=%d %s", i, e.chain, describeEvent(w.tap.rec.Log, e)))
		}
	}
	pts := w.points(quick)
	cur := filepath.Join(filepath.Dir(scratch), fmt.Sprintf("cur-%d", os.Getpid()))
	defer os.Remove(cur)
	seen := map[string]bool{}
	report := func(key string, cp crashPoint, v verdict) {
		res.VioCount[key]++
		if !seen[key] {
			seen[key] = true
			res.Vios = append(res.Vios, vio{Key: key, What: fmt.Sprintf("%s [%s]: %s", w.cc, cp, v.what), Replay: w.replay(cp)})
		}
	}
	// power-loss model: per prefix the lossless state is evaluated first. If it already violates the oracle (a process-crash
	// finding), the lossy variants of that prefix are not expanded (their verdicts could not be told apart from it). Otherwise
	// every deviation of a lossy state is a power-loss finding; in a two-device loss each deviation is attributed to the
	// device whose loss alone (same depth) shows the same deviation, to both if neither does.
	baseBad := false
	single := map[string]map[string]bool{}
	for i, cp := range pts {
		if time.Now().After(deadline) {
			res.Capped = len(pts) - i
			break
		}
		if cc.Model == "power" && len(cp.lostBy) > 0 && baseBad {
			res.Points["power-loss states not expanded (the lossless state already violates)"]++
			continue
		}
		v := w.evaluate(cp, cur)
		res.Points[cp.kind]++
		res.Restarts++
		res.Recommitted += v.recommitted
		if cc.Model == "process" {
			res.Outcomes[v.outcome]++
			for _, c := range v.classes {
				report(c+":"+w.where(cp), cp, v)
			}
			continue
		}
		if len(cp.lostBy) == 0 {
			baseBad = len(v.classes) > 0
			single = map[string]map[string]bool{}
			res.Outcomes["no loss: "+v.outcome]++
			continue
		}
		ids := components(v.classes)
		if len(cp.lostBy) == 1 {
			single[cp.lostBy[0].String()] = ids
		}
		if len(ids) == 0 {
			res.Outcomes["loss tolerated"]++
			continue
		}
		var sorted []string
		for id := range ids {
			sorted = append(sorted, id)
		}
		sort.Strings(sorted)
		for _, id := range sorted {
			devs := cp.lostBy[0].dev
			if len(cp.lostBy) == 2 {
				a, b := cp.lostBy[0], cp.lostBy[1]
				switch inA, inB := single[a.String()][id], single[b.String()][id]; {
				case inA:
					devs = a.dev
				case inB:
					devs = b.dev
				default:
					devs = a.dev + "+" + b.dev
				}
			}
			res.Outcomes["loss of "+devs+": "+id]++
			report("power-loss:unsynced-writes-lost-on="+devs+":"+id, cp, v)
		}
	}
	if cc.Model == "process" && strings.ContainsRune(cc.Hist, 'E') && !time.Now().After(deadline) {
		outcome, v := w.unseenEvidence(cur)
		res.Points["commit by a node that never received the evidence"]++
		res.Outcomes["evidence not received: "+outcome]++
		res.Restarts++
		for _, c := range v.classes {
			key := c + ":after-panic-in-commit:block-carries-evidence-the-node-never-received"
			res.VioCount[key]++
			res.Vios = append(res.Vios, vio{Key: key, What: fmt.Sprintf("%s: %s", w.cc, v.what), Replay: map[string]interface{}{"case": cc.String(),
				"scenario": "a second node commits the blocks of the history without having received the duplicate-vote evidence; it is restarted on what reached its devices when Commit panicked"}})
		}
	}
	return res
}

// unseenEvidence: evidence gossip is best effort, so a validator may have to commit a block whose DuplicateVoteEvidence it
// never received itself. A second node (same genesis) commits the blocks of the crash-free run without AddEvidence. If its
// Commit panics, the process dies at that write boundary: the node is restarted on what reached the devices and the same
// oracle applies (restart succeeds, consistent at its height, the rest of the history commits, final state equal).
func (w *world) unseenEvidence(curFile string) (outcome string, v verdict) {
	rec := kv.NewRecorder()
	opts := w.ref.Options()
	opts.NewDB = func(n string) dbm.DB { return rec.DB(n) }
	opts.WalDir = filepath.Join(w.scratch, "victim")
	os.RemoveAll(opts.WalDir)
	defer os.RemoveAll(opts.WalDir)
	victim, err := minichain.New(opts)
	if err != nil {
		harnessErr("crash %s: second node: %v", w.cc, err)
	}
	defer victim.Close()
	victim.Track(w.ref.Universe()...)
	load := func(k uint64) (*types.Block, *types.PartSet) {
		parts, err := w.ref.LoadParts(k)
		if err != nil {
			harnessErr("crash: reference block %d: %v", k, err)
		}
		b, err := minichain.BlockFromParts(parts, w.ref.Status().ConsensusParams.BlockSize.MaxBytes)
		if err != nil {
			harnessErr("crash: reference block %d: %v", k, err)
		}
		return b, parts
	}
	join := func(ms []mismatch) string {
		var all []string
		for _, m := range ms {
			all = append(all, m.String())
		}
		return strings.Join(all, " || ")
	}
	for k := uint64(1); k <= w.L; k++ {
		b, parts := load(k)
		cerr := victim.CommitWithSeen(b, parts, w.ref.BlockStore().LoadSeenCommit(k))
		if cerr == nil {
			continue
		}
		// the node died inside finalizeCommit of block k
		if curFile != "" {
			ioutil.WriteFile(curFile, []byte(w.cc.String()+" restart after the commit of block "+fmt.Sprint(k)+" panicked"), 0600)
		}
		dir, err := minichain.NewWalDir(w.scratch)
		if err != nil {
			harnessErr("crash: wal dir: %v", err)
		}
		defer os.RemoveAll(dir)
		if !w.cc.Trie {
			minichain.PutWal(dir, append([]byte{}, victim.WalBytes()...))
		}
		rc, rerr := w.ref.RestartOnCopies(rec.Materialize(rec.Len()), dir)
		if rerr != nil {
			return "commit panics, restart fails", verdict{classes: []string{"restart-fails:" + normalize(rerr.Error())},
				what: fmt.Sprintf("the commit of block %d (DuplicateVoteEvidence the node never received) panics (%v) after the block store was written; the restarted node does not start: %v", k, cerr, rerr)}
		}
		defer rc.Close()
		h := rc.Height()
		if h+1 < k {
			return "commit panics, block lost", verdict{classes: []string{"acknowledged-block-lost"}, what: fmt.Sprintf("%d blocks acknowledged, restarted at %d", k-1, h)}
		}
		if ms := w.compare(rc, h); len(ms) > 0 {
			return "commit panics, restart inconsistent", verdict{classes: classesOf("", ms),
				what: fmt.Sprintf("the commit of block %d panics (%v); after restart the block store is at height %d but: %s", k, cerr, h, join(ms))}
		}
		for j := h + 1; j <= w.L; j++ {
			b, parts := load(j)
			if err := rc.CommitWithSeen(b, parts, w.ref.BlockStore().LoadSeenCommit(j)); err != nil {
				return "commit panics, restart consistent, cannot continue", verdict{classes: []string{"history-cannot-continue:" + normalize(err.Error())},
					what: fmt.Sprintf("the commit of block %d panics (%v); restarted consistently at %d, but block %d is refused: %v", k, cerr, h, j, err)}
			}
		}
		if ms := w.compare(rc, w.L); len(ms) > 0 {
			return "commit panics, final differs", verdict{classes: classesOf("final-state-differs:", ms), what: join(ms)}
		}
		return "commit panics, node recovers", verdict{}
	}
	if ms := w.compare(victim, w.L); len(ms) > 0 {
		return "no panic, state differs", verdict{classes: classesOf("final-state-differs:", ms), what: "a node that never received the evidence ends in a different state: " + join(ms)}
	}
	return "no panic, same state", verdict{}
}

func crashWorker(quick bool) {
	cases := crashCases(quick)
	dl := time.Now().Add(35 * time.Minute)
	if s := os.Getenv("C13_DEADLINE"); s != "" {
		var ns int64
		fmt.Sscan(s, &ns)
		dl = time.Unix(0, ns)
	}
	vk.WorkerLoop(len(cases), func(i int) interface{} { return runCrashCase(cases[i], quick, dl) })
}

// sweepScratch removes the scratch directories of C13 runs whose process no longer exists.
func sweepScratch() {
	ents, err := ioutil.ReadDir("/dev/shm")
	if err != nil {
		return
	}
	for _, e := range ents {
		var pid int
		name := e.Name()
		if k, _ := fmt.Sscanf(name, "C13-solo-%d", &pid); k != 1 {
			if k, _ := fmt.Sscanf(name, "C13-%d", &pid); k != 1 {
				continue
			}
		}
		if _, err := os.Stat(fmt.Sprintf("/proc/%d", pid)); os.IsNotExist(err) {
			os.RemoveAll(filepath.Join("/dev/shm", name))
		}
	}
}

// replayCrash re-runs one recorded crash state (./check C13 --replay <file>) in this process and prints the verdict.
func replayCrash(r *vk.Run) {
	var rp struct {
		Case  string `json:"case"`
		Crash string `json:"crash"`
	}
	r.LoadReplay(&rp)
	full := map[string]interface{}{}
	r.LoadReplay(&full)
	f := strings.Split(rp.Case, "/")
	if len(f) != 3 {
		vk.Fatalf("replay: %q is not a crash case (pruning cases are re-run by --part prune)", rp.Case)
	}
	cc := crashCase{f[0], f[1] == "trie", f[2]}
	scratch := fmt.Sprintf("/dev/shm/C13-solo-%d", os.Getpid())
	os.MkdirAll(scratch, 0700)
	defer os.RemoveAll(scratch)
	func() {
		defer func() {
			if e := recover(); e != nil {
				os.RemoveAll(scratch)
				vk.Fatalf("replay: %v", e)
			}
		}()
		w := runHistory(cc, scratch)
		defer w.ref.Close()
		for i, e := range w.evs {
			fmt.Printf("%3d %s\n", i, describeEvent(w.tap.rec.Log, e))
		}
		if rp.Crash == "" { // the commit-panic scenario
			outcome, v := w.unseenEvidence("")
			fmt.Printf("%s: %s\n", cc, outcome)
			for _, c := range v.classes {
				r.Violation(c+":after-panic-in-commit:block-carries-evidence-the-node-never-received", v.what, full)
			}
			return
		}
		for _, cp := range w.points(false) {
			if cp.String() != rp.Crash {
				continue
			}
			v := w.evaluate(cp, "")
			fmt.Printf("%s [%s]: %s; verdict: %q %s\n", cc, cp, v.outcome, v.classes, v.what)
			for _, c := range v.classes {
				key := c + ":" + w.where(cp)
				if cc.Model == "power" {
					key = "power-loss:" + component(c)
				}
				r.Violation(key, v.what, full)
			}
			return
		}
		vk.Fatalf("replay: crash state %q not found in case %s", rp.Crash, cc)
	}()
}

// runCrash is the parent side: shards the cases over worker processes and merges their results.
func runCrash(r *vk.Run) (evaluated int) {
	cases := crashCases(r.Quick())
	sweepScratch()
	scratch := fmt.Sprintf("/dev/shm/C13-%d", os.Getpid())
	os.MkdirAll(scratch, 0700)
	defer os.RemoveAll(scratch)
	os.Setenv("C13_SCRATCH", scratch)
	os.Setenv("C13_DEADLINE", fmt.Sprint(time.Now().Add(r.Remaining()-20*time.Second).UnixNano()))
	if !minichain.RecipeFingerprintOK() {
		r.Assume(minichain.RecipeAssumption)
	}
	points, outcomes, vioCount := map[string]int{}, map[string]int{}, map[string]int{}
	events, restarts, recommitted, capped, appends := 0, 0, 0, 0, 0
	perModel := map[string]int{}
	var results []crashResult
	extra := []string{"--part", "crash"}
	if *dumpLog {
		extra = append(extra, "--dump-log")
	}
	done := r.RunIsolated(len(cases), vk.IsoOpts{CaseTimeout: 15 * time.Minute, ExtraArgs: extra}, func(i int, raw json.RawMessage, fatal string) {
		c := cases[i]
		if fatal != "" {
			// the worker died inside a restart: find out which crash state it was working on
			where := ""
			if ents, err := ioutil.ReadDir(scratch); err == nil {
				for _, e := range ents {
					if strings.HasPrefix(e.Name(), "cur-") {
						if bz, err := ioutil.ReadFile(filepath.Join(scratch, e.Name())); err == nil && strings.HasPrefix(string(bz), c.String()+" ") {
							where = string(bz)
							os.Remove(filepath.Join(scratch, e.Name()))
						}
					}
				}
			}
			r.Violation("restart-kills-process:"+normalize(fatal), fmt.Sprintf("%s: worker died while restarting on crash state [%s]: %s", c, where, fatal),
				map[string]interface{}{"case": c.String(), "crash": where})
			return
		}
		var res crashResult
		if err := json.Unmarshal(raw, &res); err != nil {
			os.RemoveAll(scratch)
			vk.Fatalf("crash result: %v", err)
		}
		if res.Harness != "" {
			os.RemoveAll(scratch)
			vk.Fatalf("%s", res.Harness)
		}
		results = append(results, res)
	})
	sort.Slice(results, func(i, j int) bool { // shortest history first: the first replay kept per key is a minimal one
		li, lj := strings.IndexByte(results[i].Case, '/'), strings.IndexByte(results[j].Case, '/')
		if li != lj {
			return li < lj
		}
		for k := 0; k < li; k++ {
			if a, b := strings.IndexByte(kindsThorough, results[i].Case[k]), strings.IndexByte(kindsThorough, results[j].Case[k]); a != b {
				return a < b
			}
		}
		return results[i].Case < results[j].Case
	})
	for _, res := range results {
		events += res.Events
		appends += res.Appends
		restarts += res.Restarts
		recommitted += res.Recommitted
		capped += res.Capped
		for k, v := range res.Points {
			points[k] += v
		}
		for k, v := range res.Outcomes {
			outcomes[k] += v
		}
		for k, v := range res.VioCount {
			vioCount[k] += v
		}
		perModel[res.Case[strings.LastIndexByte(res.Case, '/')+1:]] += res.Restarts
		for _, v := range res.Vios {
			for n := 0; n < res.VioCount[v.Key]; n++ { // keep the case counts
				r.Violation(v.Key, v.What, v.Replay)
			}
		}
		if *dumpLog {
			fmt.Println(res.Case)
			for _, l := range res.Log {
				fmt.Println("   ", l)
			}
			fmt.Println("    outcomes:", res.Outcomes)
		}
	}
	if os.Getenv("C13_HIST") != "" {
		r.Capped("crash: histories restricted by C13_HIST=" + os.Getenv("C13_HIST"))
	}
	if done < len(cases) || capped > 0 {
		r.Capped(fmt.Sprintf("crash: %d of %d (history, mode, model) cases returned, %d crash states not evaluated before the deadline", done, len(cases), capped))
	}
	r.Set("states", restarts)
	r.Set("transitions", recommitted+events)
	r.Set("traces_validated_against_impl", restarts)
	r.Set("distinct_restart_outcomes", len(outcomes))
	r.Set("crash_cases", done)
	r.Set("crash_log_events", events)
	r.Set("undo_log_appends", appends)
	r.Set("crash_states_by_kind", points)
	r.Set("crash_states_by_model", perModel)
	r.Set("restarts_executed", restarts)
	r.Set("blocks_committed_on_restarted_nodes", recommitted)
	r.Set("restart_outcomes", outcomes)
	r.Set("crash_states_violating_by_key", vioCount)
	if len(results) > 0 {
		r.Sample(map[string]interface{}{"crash_case": results[0].Case, "events": results[0].Events, "outcomes": results[0].Outcomes})
		r.Sample(map[string]interface{}{"crash_case": results[len(results)/2].Case, "events": results[len(results)/2].Events, "outcomes": results[len(results)/2].Outcomes})
	}
	r.Assume("crash model: a database write unit (single Set/Delete or a whole batch) is atomic on its device (true for goleveldb/bolt with db_counts=1; with db_counts>1 the repository splits a batch over several stores); completed units survive a process crash")
	r.Assume("kvState.wal is only ever truncated to 0 or appended to (O_APPEND) and each append is fsync'ed before the next database unit, as state/keyvalue.go does; file operations are derived from snapshots taken before every database unit")
	r.Assume("the interleaving of the three BlockStore.SaveBlock goroutines is replaced by the set of order ideals of their units (every reachable set of completed units), not by the one order observed")
	r.Assume("validator-set changes are injected at the fixture seam minichain.Options.ValidatorsAt (same answer before and after the restart); consensus WAL, ConsensusState replay and system contracts are outside this check")
	if !r.Quick() {
		r.Assume("power-loss model: a device may lose a suffix (at most 4 units) of the writes it received after its last synchronous write (sync marks as recorded by kv.LogDB: SetSync/DeleteSync/WriteSync, incl. the empty-key flush markers); at most two devices lag; only writes after genesis are candidates; the undo-log file is covered by the torn-append states (each append is fsync'ed, truncation is taken as durable); lossy variants are expanded only for prefixes whose lossless state satisfies the oracle")
	}
	return restarts
}
