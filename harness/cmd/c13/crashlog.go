package main

// C13 (crash half): the global write log of a commit sequence and the crash states derived from it.
//
// Devices: every database of the node is a kv.LogDB of ONE kv.Recorder (atomic write units, sync marks) behind a thin
// tap that snapshots the flat-state undo log (kvState.wal, a FILE outside the databases) immediately before every
// write unit is recorded. The file operations are derived from consecutive snapshots: the repository only ever
// truncates the file to 0 or appends to it (O_APPEND), so "next == previous + suffix" is one append and anything else
// is a truncation (followed by an append when non-empty). File operations and database units alternate on one
// goroutine (StateDB.Commit), so the merged event list is exact.

import (
	"bytes"
	"fmt"
	"io/ioutil"
	"sort"
	"strings"
	"sync"

	"verif/kv"

	dbm "github.com/lianxiangcloud/linkchain/libs/db"
)

type walSnap struct {
	at  int // number of units in the recorder when the snapshot was taken (= index of the unit about to be written)
	wal []byte
}

type tap struct {
	mu      sync.Mutex
	rec     *kv.Recorder
	walPath string
	snaps   []walSnap
}

func (t *tap) readWal() []byte {
	bz, err := ioutil.ReadFile(t.walPath)
	if err != nil {
		return nil
	}
	return bz
}

// unit runs one mutation of a device with the tap's lock held (the three SaveBlock goroutines write concurrently;
// serialising them keeps snapshot and unit index together and does not restrict the orders that can be observed:
// the units are atomic on their devices anyway).
func (t *tap) unit(f func()) {
	t.mu.Lock()
	defer t.mu.Unlock()
	n := t.rec.Len()
	w := t.readWal()
	if k := len(t.snaps); k == 0 || t.snaps[k-1].at != n || !bytes.Equal(t.snaps[k-1].wal, w) {
		t.snaps = append(t.snaps, walSnap{n, w})
	}
	f()
}

// final records the file content after the last unit.
func (t *tap) final() {
	t.unit(func() {})
}

type tapDB struct {
	*kv.LogDB
	t *tap
}

func (d tapDB) Set(k, v []byte)     { d.t.unit(func() { d.LogDB.Set(k, v) }) }
func (d tapDB) SetSync(k, v []byte) { d.t.unit(func() { d.LogDB.SetSync(k, v) }) }
func (d tapDB) Put(k, v []byte) (err error) {
	d.t.unit(func() { err = d.LogDB.Put(k, v) })
	return
}
func (d tapDB) Delete(k []byte)     { d.t.unit(func() { d.LogDB.Delete(k) }) }
func (d tapDB) DeleteSync(k []byte) { d.t.unit(func() { d.LogDB.DeleteSync(k) }) }
func (d tapDB) Del(k []byte) (err error) {
	d.t.unit(func() { err = d.LogDB.Del(k) })
	return
}
func (d tapDB) NewBatch() dbm.Batch { return tapBatch{d.LogDB.NewBatch(), d.t} }

type tapBatch struct {
	dbm.Batch
	t *tap
}

func (b tapBatch) Write()     { b.t.unit(func() { b.Batch.Write() }) }
func (b tapBatch) WriteSync() { b.t.unit(func() { b.Batch.WriteSync() }) }
func (b tapBatch) Commit() (err error) {
	b.t.unit(func() { err = b.Batch.Commit() })
	return
}

// ---------------------------------------------------------------------------------------------------------------
// events

type evKind int

const (
	evUnit   evKind = iota // database write unit rec.Log[unit]
	evTrunc                // kvState.wal truncated to 0
	evAppend               // data appended to kvState.wal (followed by fsync before the next database unit)
)

type event struct {
	kind  evKind
	unit  int
	data  []byte
	block int    // 1-based number of the block whose commit wrote it
	phase string // coarse step of the commit sequence (see phaseOf)
	chain int    // >0: member of a concurrent section, number of its goroutine
}

// phaseOf names the step of the commit sequence a unit belongs to.
func phaseOf(u kv.Unit) string {
	key := ""
	if len(u.Ops) > 0 {
		key = string(u.Ops[0].Key)
	}
	switch u.DB {
	case "state":
		return "state"
	case "balance_record":
		return "balance-record"
	case "txmgr":
		return "tx-index"
	case "blockstore":
		switch {
		case len(u.Ops) == 1 && strings.HasPrefix(key, "BR:"):
			return "receipts"
		case len(u.Ops) == 1 && strings.HasPrefix(key, "BTR:"):
			return "txs-result"
		case len(u.Ops) == 1 && key == "blockStore":
			return "descriptor"
		case len(u.Ops) == 1 && key == "":
			return "blockstore-flush"
		}
		return "block-batch"
	case "utxo", "utxo_output", "utxo_output_token":
		return "utxo"
	case "evidence":
		return "evidence"
	case "consensus_state":
		return "status"
	}
	return u.DB
}

// concurrentChain: the three goroutines of BlockStore.SaveBlock (tx index + flush marker, receipts, TxsResult).
func concurrentChain(phase string) int {
	switch phase {
	case "tx-index":
		return 1
	case "receipts":
		return 2
	case "txs-result":
		return 3
	}
	return 0
}

// buildEvents merges units [from, len) and the derived file operations into one list and brings every concurrent
// section (maximal run of units written by the SaveBlock goroutines) into canonical order: chain 1, chain 2, chain 3,
// each in recorded order. The recorded interleaving varies from run to run; the SET of reachable crash states does
// not: it is the set of order ideals of the section, enumerated by crashPoints.
func buildEvents(t *tap, from, snapFrom int, blockOf func(unit int) int) []event {
	log := t.rec.Log
	var evs []event
	// file content at the start of the enumerated span: the snapshot taken by tap.final() right after start-up
	prev := []byte(nil)
	if snapFrom > 0 {
		prev = t.snaps[snapFrom-1].wal
	}
	si := snapFrom
	fileOps := func(next []byte, blk int) {
		if bytes.Equal(prev, next) {
			return
		}
		if len(next) >= len(prev) && bytes.Equal(next[:len(prev)], prev) {
			evs = append(evs, event{kind: evAppend, data: append([]byte{}, next[len(prev):]...), block: blk, phase: "state"})
		} else {
			evs = append(evs, event{kind: evTrunc, block: blk, phase: "state"})
			if len(next) > 0 {
				evs = append(evs, event{kind: evAppend, data: append([]byte{}, next...), block: blk, phase: "state"})
			}
		}
		prev = next
	}
	for u := from; u <= len(log); u++ {
		blk := blockOf(u)
		for si < len(t.snaps) && t.snaps[si].at == u {
			fileOps(t.snaps[si].wal, blk)
			si++
		}
		if u < len(log) {
			ph := phaseOf(log[u])
			evs = append(evs, event{kind: evUnit, unit: u, block: blk, phase: ph, chain: concurrentChain(ph)})
		}
	}
	// canonical order inside concurrent sections
	for i := 0; i < len(evs); {
		if evs[i].chain == 0 {
			i++
			continue
		}
		j := i
		for j < len(evs) && evs[j].chain != 0 && evs[j].block == evs[i].block {
			j++
		}
		sort.SliceStable(evs[i:j], func(a, b int) bool { return evs[i+a].chain < evs[i+b].chain })
		i = j
	}
	return evs
}

// ---------------------------------------------------------------------------------------------------------------
// crash points

// crashPoint is one state a crash can leave behind: events[0:prefix) happened, plus the units in extra (members of
// the concurrent section that starts at prefix, written by goroutines that ran ahead), minus the units in lost
// (power loss: unsynchronised writes that never reached the disk); torn >= 0: event `prefix` is a file append of
// which only the first torn bytes are in the file.
type crashPoint struct {
	prefix int
	extra  []int // event indices
	torn   int
	lost   []int     // event indices (power-loss tier)
	lostBy []lostDev // the same, as (device, number of trailing unsynchronised units lost)
	kind   string
}

type lostDev struct {
	dev   string
	depth int
}

func (l lostDev) String() string { return fmt.Sprintf("%s/%d", l.dev, l.depth) }

func (cp crashPoint) String() string {
	s := fmt.Sprintf("%s prefix=%d", cp.kind, cp.prefix)
	if len(cp.extra) > 0 {
		s += fmt.Sprintf(" +%v", cp.extra)
	}
	if cp.torn >= 0 {
		s += fmt.Sprintf(" torn=%dB", cp.torn)
	}
	if len(cp.lost) > 0 {
		s += fmt.Sprintf(" lost=%v", cp.lost)
	}
	return s
}

// linearPoints: every prefix of the canonical event list.
func linearPoints(evs []event) []crashPoint {
	var out []crashPoint
	for p := 0; p <= len(evs); p++ {
		out = append(out, crashPoint{prefix: p, torn: -1, kind: "prefix"})
	}
	return out
}

// idealPoints: for every concurrent section, every order ideal (product of per-goroutine prefixes) that is not a
// prefix of the canonical order.
func idealPoints(evs []event) []crashPoint {
	var out []crashPoint
	for i := 0; i < len(evs); {
		if evs[i].chain == 0 {
			i++
			continue
		}
		j := i
		chains := map[int][]int{}
		var order []int
		for j < len(evs) && evs[j].chain != 0 && evs[j].block == evs[i].block {
			if _, ok := chains[evs[j].chain]; !ok {
				order = append(order, evs[j].chain)
			}
			chains[evs[j].chain] = append(chains[evs[j].chain], j)
			j++
		}
		// odometer over prefix lengths
		lens := make([]int, len(order))
		for {
			// is it a canonical prefix? (all earlier chains complete before a later one starts)
			canonical := true
			for a := 0; a < len(order); a++ {
				if lens[a] < len(chains[order[a]]) {
					for b := a + 1; b < len(order); b++ {
						if lens[b] > 0 {
							canonical = false
						}
					}
					break
				}
			}
			if !canonical {
				var extra []int
				for a, c := range order {
					extra = append(extra, chains[c][:lens[a]]...)
				}
				out = append(out, crashPoint{prefix: i, extra: extra, torn: -1, kind: "reordered"})
			}
			k := len(order) - 1
			for k >= 0 {
				lens[k]++
				if lens[k] <= len(chains[order[k]]) {
					break
				}
				lens[k] = 0
				k--
			}
			if k < 0 {
				break
			}
		}
		i = j
	}
	return out
}

// walRecordOffsets returns, for undo-log bytes, the cut offsets that fall on or next to a structural boundary of the
// record format [4-byte key length][key][4-byte value length][value]: inside and right after each length field, in the
// middle of and right after key and value.
func walRecordOffsets(data []byte) []int {
	set := map[int]bool{}
	add := func(o int) {
		if o > 0 && o < len(data) {
			set[o] = true
		}
	}
	off := 0
	for off < len(data) {
		field := func() bool { // one length-prefixed field
			for k := 1; k <= 4; k++ {
				add(off + k)
			}
			if off+4 > len(data) {
				off = len(data)
				return false
			}
			n := int(uint32(data[off])<<24 | uint32(data[off+1])<<16 | uint32(data[off+2])<<8 | uint32(data[off+3]))
			off += 4
			if n > 0 {
				add(off + 1)
				add(off + n/2)
				add(off + n - 1)
			}
			off += n
			add(off)
			return off <= len(data)
		}
		if !field() || !field() {
			break
		}
	}
	var out []int
	for o := range set {
		out = append(out, o)
	}
	sort.Ints(out)
	return out
}

// tornPoints: the append in flight reached the file only up to a byte prefix. all: every offset; otherwise the
// structural offsets of walRecordOffsets.
func tornPoints(evs []event, all bool) []crashPoint {
	var out []crashPoint
	for p, e := range evs {
		if e.kind != evAppend {
			continue
		}
		if all {
			for o := 1; o < len(e.data); o++ {
				out = append(out, crashPoint{prefix: p, torn: o, kind: "torn-append"})
			}
		} else {
			for _, o := range walRecordOffsets(e.data) {
				out = append(out, crashPoint{prefix: p, torn: o, kind: "torn-append"})
			}
		}
	}
	return out
}

// powerLossPoints: for every prefix first the lossless state (the reference for attribution), then every state in which
// one device, then two devices lost a non-empty suffix of the writes they received after their last synchronous write
// (devices persist in order). Only writes issued after genesis are candidates (the enumeration starts from an
// initialised, flushed node). maxDepth bounds how many units one device may lose.
func powerLossPoints(evs []event, log []kv.Unit, maxDepth int) []crashPoint {
	var out []crashPoint
	tails := map[string][]int{}
	var names []string
	for p := 0; p <= len(evs); p++ {
		if p > 0 {
			e := evs[p-1]
			if e.kind == evUnit {
				u := log[e.unit]
				if _, ok := tails[u.DB]; !ok {
					names = append(names, u.DB)
					sort.Strings(names)
				}
				if u.Sync {
					tails[u.DB] = nil
				} else {
					tails[u.DB] = append(append([]int{}, tails[u.DB]...), p-1)
				}
			}
		}
		out = append(out, crashPoint{prefix: p, torn: -1, kind: "power-loss(lossless reference)"})
		var devs []string
		for _, n := range names {
			if len(tails[n]) > 0 {
				devs = append(devs, n)
			}
		}
		drop := func(dev string, d int) []int {
			t := tails[dev]
			return append([]int{}, t[len(t)-d:]...)
		}
		depth := func(dev string) int {
			if len(tails[dev]) < maxDepth {
				return len(tails[dev])
			}
			return maxDepth
		}
		for _, a := range devs {
			for da := 1; da <= depth(a); da++ {
				out = append(out, crashPoint{prefix: p, torn: -1, lost: drop(a, da), lostBy: []lostDev{{a, da}}, kind: "power-loss(1 device)"})
			}
		}
		for ai, a := range devs {
			for da := 1; da <= depth(a); da++ {
				for _, b := range devs[ai+1:] {
					for db := 1; db <= depth(b); db++ {
						out = append(out, crashPoint{prefix: p, torn: -1, lost: append(drop(a, da), drop(b, db)...), lostBy: []lostDev{{a, da}, {b, db}}, kind: "power-loss(2 devices)"})
					}
				}
			}
		}
	}
	return out
}

// materialize builds the surviving databases and undo-log content of a crash point.
func materialize(t *tap, from int, evs []event, cp crashPoint) (map[string]*kv.CopyDB, []byte, []string) {
	applied := map[int]bool{}
	var wal []byte
	var lostDevs []string
	lost := map[int]bool{}
	for _, i := range cp.lost {
		lost[i] = true
		d := t.rec.Log[evs[i].unit].DB
		found := false
		for _, x := range lostDevs {
			found = found || x == d
		}
		if !found {
			lostDevs = append(lostDevs, d)
		}
	}
	sort.Strings(lostDevs)
	for i := 0; i < cp.prefix; i++ {
		switch evs[i].kind {
		case evUnit:
			if !lost[i] {
				applied[evs[i].unit] = true
			}
		case evTrunc:
			wal = wal[:0]
		case evAppend:
			wal = append(wal, evs[i].data...)
		}
	}
	for _, i := range cp.extra {
		applied[evs[i].unit] = true
	}
	if cp.torn >= 0 {
		wal = append(wal, evs[cp.prefix].data[:cp.torn]...)
	}
	skip := map[int]bool{}
	n := len(t.rec.Log)
	for u := from; u < n; u++ {
		if !applied[u] {
			skip[u] = true
		}
	}
	return t.rec.MaterializeSkipping(n, skip), wal, lostDevs
}

func describeEvent(log []kv.Unit, e event) string {
	switch e.kind {
	case evTrunc:
		return fmt.Sprintf("block %d: kvState.wal truncate(0)", e.block)
	case evAppend:
		return fmt.Sprintf("block %d: kvState.wal append(%dB)+fsync", e.block, len(e.data))
	}
	u := log[e.unit]
	key := ""
	if len(u.Ops) > 0 {
		key = string(u.Ops[0].Key)
		for _, r := range key {
			if r < 0x20 || r > 0x7e {
				key = fmt.Sprintf("0x%x", u.Ops[0].Key)
				break
			}
		}
		if len(key) > 20 {
			key = key[:20] + ".."
		}
	}
	s := ""
	if u.Sync {
		s = " sync"
	}
	return fmt.Sprintf("block %d: %s[%s] %d op(s)%s first key %q", e.block, u.DB, e.phase, len(u.Ops), s, key)
}
