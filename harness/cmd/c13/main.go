// C13 — committed history survives crashes and pruning.
package main

import (
	"flag"

	"verif/vk"

	"github.com/lianxiangcloud/linkchain/libs/log"
)

var part = flag.String("part", "all", "prune|crash|all")

func main() {
	log.Root().SetHandler(log.DiscardHandler())
	r := vk.Start("C13", "fault_enumeration")
	if vk.IsWorker() {
		switch *part {
		case "prune":
			pruneWorker(r.Quick())
		}
		vk.Fatalf("unknown worker part %q", *part)
	}
	evals := 0
	if *part == "all" || *part == "prune" {
		n, _ := runPruning(r)
		evals += n
		r.Set("pruning_configurations", n)
	}
	r.Set("evaluations", evals)
	r.Set("distinct_nontrivial", evals)
	r.Set("rule", "pruning: chain length x retention window x validator-change height x (once | twice with one more block); every record needed for the retained heights is probed after each pruner")
	r.Finish()
}
