// C13 — committed history survives crashes and pruning.
package main

import (
	"flag"

	"verif/vk"

	"github.com/lianxiangcloud/linkchain/libs/log"
)

var part = flag.String("part", "all", "prune|crash|all")
var dumpLog = flag.Bool("dump-log", false, "crash part: print the canonical write log and the restart outcomes of every case")

func main() {
	log.Root().SetHandler(log.DiscardHandler())
	r := vk.Start("C13", "fault_enumeration")
	if vk.IsWorker() {
		switch *part {
		case "prune":
			pruneWorker(r.Quick())
		case "crash":
			crashWorker(r.Quick())
		}
		vk.Fatalf("unknown worker part %q", *part)
	}
	if r.ReplayPath != "" {
		replayCrash(r)
		r.Finish()
	}
	evals := 0
	rule := ""
	if *part == "all" || *part == "crash" {
		n := runCrash(r)
		evals += n
		rule += "crash: every history of 1-3 blocks over the block kinds x storage mode runs on the real node core over logging devices; every crash state of its write log (every prefix, every reachable reordering of the concurrent SaveBlock writes, torn undo-log appends; thorough: lost unsynchronised writes of up to two devices) is materialised, the real start-up recipe runs on it, every component is compared with the same prefix of the crash-free run, the rest of the history is committed and the final state compared. "
	}
	if *part == "all" || *part == "prune" {
		n, _ := runPruning(r)
		evals += n
		r.Set("pruning_configurations", n)
		rule += "pruning: chain length x retention window x every set of <= 2 validator-change heights x (once | twice with one more block); every record needed for the retained heights is probed after each pruner (present, and the validator set equal to the one recorded before pruning)"
	}
	r.Set("evaluations", evals)
	r.Set("distinct_nontrivial", r.Get("distinct_restart_outcomes")+r.Get("pruning_configurations"))
	r.Set("rule", rule)
	r.Finish()
}
