// Self-test of the cooperative scheduler + preemption-bounded explorer (not a property check).
package main

import (
	"fmt"
	"os"
	"sync"

	"verif/schedx"
	"verif/vk"

	"github.com/lianxiangcloud/linkchain/libs/clist"
	vatomic "github.com/lianxiangcloud/linkchain/libs/vsched/atomic"
	vsync "github.com/lianxiangcloud/linkchain/libs/vsched/sync"
)

var mu sync.Mutex

func main() {
	r := vk.Start("ZSCHEDX", "exploration")
	fail := false
	// 1. lost update: load; store(load+1) by two threads. Final value 1 needs exactly one preemption.
	for bound := 0; bound <= 2; bound++ {
		finals := map[int32]int{}
		st := schedx.Explore(r, "lost-update", bound, func() ([]schedx.Thread, func(schedx.Outcome) (string, string)) {
			var x int32
			inc := func() { v := vatomic.LoadInt32(&x); vatomic.StoreInt32(&x, v+1) }
			return []schedx.Thread{{"a", inc}, {"b", inc}}, func(o schedx.Outcome) (string, string) { mu.Lock(); finals[x]++; mu.Unlock(); return "", "" }
		})
		fmt.Printf("lost-update bound=%d executions=%d finals=%v\n", bound, st.Executions, finals)
		if (bound == 0 && finals[1] != 0) || (bound >= 1 && finals[1] == 0) || finals[2] == 0 {
			fail = true
		}
	}
	// 2. deadlock: opposite lock order needs one preemption
	for bound := 0; bound <= 1; bound++ {
		dl := 0
		st := schedx.Explore(r, "deadlock", bound, func() ([]schedx.Thread, func(schedx.Outcome) (string, string)) {
			var m1, m2 vsync.Mutex
			return []schedx.Thread{
					{"a", func() { m1.Lock(); m2.Lock(); m2.Unlock(); m1.Unlock() }},
					{"b", func() { m2.Lock(); m1.Lock(); m1.Unlock(); m2.Unlock() }}}, func(o schedx.Outcome) (string, string) {
					if o.Deadlock {
						mu.Lock()
						dl++
						mu.Unlock()
					}
					return "", ""
				}
		})
		fmt.Printf("deadlock bound=%d executions=%d deadlocks=%d\n", bound, st.Executions, dl)
		if (bound == 0 && dl != 0) || (bound == 1 && dl == 0) {
			fail = true
		}
	}
	// 3. instrumented repo code: concurrent PushBack on the real (instrumented) CList
	lens := map[int]int{}
	st := schedx.Explore(r, "clist", 2, func() ([]schedx.Thread, func(schedx.Outcome) (string, string)) {
		l := clist.New()
		return []schedx.Thread{{"a", func() { l.PushBack(1) }}, {"b", func() { l.PushBack(2) }}, {"c", func() {
				if e := l.Front(); e != nil {
					l.Remove(e)
				}
			}}}, func(o schedx.Outcome) (string, string) {
				n := 0
				for e := l.Front(); e != nil; e = e.Next() {
					n++
				}
				if n != l.Len() {
					return "clist-len-mismatch", fmt.Sprintf("walk %d Len %d", n, l.Len())
				}
				mu.Lock()
				lens[n]++
				mu.Unlock()
				return "", ""
			}
	})
	fmt.Printf("clist bound=2 executions=%d choicepoints=%d lens=%v\n", st.Executions, st.ChoicePoints, lens)
	if len(lens) < 2 {
		fail = true
	}
	if fail || r.NViolations() > 0 {
		fmt.Println("SELFTEST FAILED")
		os.Exit(1)
	}
	fmt.Println("SELFTEST OK")
}
