package main

import (
	"fmt"
	"strings"
)

// ---- bounds of the alphabet ----

const (
	nAddr   = 2 // accounts A, B
	nTok    = 2 // tokens T1, T2 (token index -1 = the native coin, routed to the balance by the repo code)
	nKey    = 2 // storage keys K1, K2
	maxInst = 3 // original + two copies (sibling copies or copy of copy)
	maxSnap = 3 // open snapshots per instance
)

type okind uint8

const (
	kAddBal okind = iota
	kSubBal
	kSetBal
	kAddTok
	kSubTok
	kSetTok
	kSetNonce
	kSetCode
	kSetState
	kCreate
	kSuicide
	kAddLog
	kAddRefund
	kPrepare
	kSnapshot
	kRevert
	kCopyStay
	kCopySwitch
	kSwitch
	kIRoot
	kCommit
	kCommitReset // Commit, flush, Reset(root): what app.CommitBlock does; every cached object is dropped and re-read
)

var kindName = map[okind]string{
	kAddBal: "AddBalance", kSubBal: "SubBalance", kSetBal: "SetBalance", kAddTok: "AddTokenBalance", kSubTok: "SubTokenBalance",
	kSetTok: "SetTokenBalance", kSetNonce: "SetNonce", kSetCode: "SetCode", kSetState: "SetState", kCreate: "CreateAccount",
	kSuicide: "Suicide", kAddLog: "AddLog", kAddRefund: "AddRefund", kPrepare: "Prepare", kSnapshot: "Snapshot", kRevert: "RevertToSnapshot",
	kCopyStay: "Copy", kCopySwitch: "Copy+Switch", kSwitch: "Switch", kIRoot: "IntermediateRoot", kCommit: "Commit", kCommitReset: "Commit+Reset",
}

// op is one letter of the alphabet. a = account index, t = token index (-1 native), s = storage key index,
// v = amount / nonce / value index / code index / snapshot-stack index / instance index / tx-hash index.
type op struct {
	k    okind
	a    int
	t    int
	s    int
	v    int64
	name string
}

func (o op) String() string { return o.name }

func mk(k okind, a, t, s int, v int64) op {
	an := string(rune('A' + a))
	var n string
	switch k {
	case kAddBal, kSubBal, kSetBal, kSetNonce:
		n = fmt.Sprintf("%s(%s,%d)", kindName[k], an, v)
	case kAddTok, kSubTok, kSetTok:
		tn := fmt.Sprintf("T%d", t+1)
		if t < 0 {
			tn = "native"
		}
		n = fmt.Sprintf("%s(%s,%s,%d)", kindName[k], an, tn, v)
	case kSetCode:
		n = fmt.Sprintf("SetCode(%s,code%d)", an, v)
	case kSetState:
		n = fmt.Sprintf("SetState(%s,K%d,val%d)", an, s+1, v)
	case kCreate, kSuicide:
		n = fmt.Sprintf("%s(%s)", kindName[k], an)
	case kAddLog:
		n = "AddLog"
	case kAddRefund:
		n = fmt.Sprintf("AddRefund(%d)", v)
	case kPrepare:
		n = fmt.Sprintf("Prepare(txhash%d)", v)
	case kSnapshot:
		n = "Snapshot"
	case kRevert:
		n = fmt.Sprintf("RevertToSnapshot(open#%d)", v)
	case kCopyStay:
		n = "Copy(stay on source)"
	case kCopySwitch:
		n = "Copy(continue on the copy)"
	case kSwitch:
		n = fmt.Sprintf("Switch(instance%d)", v)
	case kIRoot:
		n = "IntermediateRoot(false)"
	case kCommit:
		n = "Commit(false)"
	case kCommitReset:
		n = "Commit(false)+Reset(root)"
	}
	return op{k: k, a: a, t: t, s: s, v: v, name: n}
}

// ---- reference model: plain values; a snapshot is a deep copy ----

type macct struct {
	exists   bool
	bal      int64
	tok      [nTok]int64
	tokSet   [nTok]bool // an entry for the token exists in the account record (an effective, un-reverted write happened)
	nonce    uint64
	credits  uint64
	code     int64 // 0 = none
	stor     [nKey]int64
	suicided bool
}

func (a *macct) empty() bool { return a.nonce == 0 && a.bal == 0 && a.code == 0 }

type mlog struct {
	th   int64 // tx-hash index current when the log was added
	data int64
}

// mstate is everything Snapshot/RevertToSnapshot must restore and Copy must duplicate.
type mstate struct {
	acc [nAddr]macct
	// jd: the account has an un-reverted journalled change since the last finalisation (it will be written
	// or removed by the next IntermediateRoot); od: written/removed by the next Commit. Not observables;
	// they decide when a pending self-destruct takes effect and are part of the state key.
	jd, od [nAddr]bool
	// reset: the account was replaced by CreateAccount over an existing account and nothing has marked it
	// pending since (diagnosis only: the repo does not journal that replacement as a pending change)
	reset [nAddr]bool
	// gen: identity of the account object currently standing for the account (a new object is made when an
	// account is created, re-created after destruction, or replaced by CreateAccount). State key only: whether
	// the object a snapshot would bring back is still the current one decides where later writes leave traces.
	gen    [nAddr]int
	logs   []mlog
	refund uint64
}

func (s *mstate) clone() mstate {
	c := *s
	c.logs = append([]mlog(nil), s.logs...)
	return c
}

// effRec: one letter of a lineage: alphabet index (-1 = Copy, continue on the copy) and, for AddLog, the payload
// the log was given.
type effRec struct{ op, arg int }

// nextPayload: payload of the next log: one more than every payload alive anywhere in the world (instances and
// their open snapshots), so that the logs of a world are pairwise distinct and the payload depends on the state only.
func (w *mworld) nextPayload() int {
	max := int64(0)
	scan := func(l []mlog) {
		for _, x := range l {
			if x.data > max {
				max = x.data
			}
		}
	}
	for _, in := range w.inst {
		scan(in.logs)
		for i := range in.snaps {
			scan(in.snaps[i].st.logs)
		}
	}
	return int(max) + 1
}

type msnap struct {
	st     mstate
	effLen int
	th     int64
}

type minst struct {
	mstate
	th    int64 // current tx-hash index (not journalled, not copied by Copy)
	snaps []msnap
	// eff: the instance's effective lineage: indices of the ops that built its state, with reverted
	// segments and the Snapshot/Revert/Switch letters removed. -1 = "Copy, continue on the copy".
	eff []effRec
	// reverted: some op of this instance was undone by a revert, or the instance lives in a world with
	// other instances; otherwise the twin is identical to the instance by construction.
	touched bool
	genCtr  int
	// disk: the account records as last written into the instance's trie (state key only: an account that is
	// neither pending nor to-be-committed is re-read from there by a copy)
	disk [nAddr]macct
	// foreign: another instance committed to the shared database while this instance (or the instance it
	// was copied from) was alive (diagnosis of the flat key-value mode only)
	foreign bool
	// lostStor: the instance is a copy (or a copy of such a copy) taken while the account had storage that was
	// flushed but not committed (diagnosis of the flat key-value mode only)
	lostStor [nAddr]bool
}

type mworld struct {
	inst []*minst
	act  int
	// flat: key-value mode without tries (one flat database under all instances). diskStor[a]: some instance
	// committed non-empty storage under account a.
	flat     bool
	diskStor [nAddr]bool
	prep     []int // alphabet index of Prepare(v) (the current tx hash is not journalled: it survives a revert)
}

func newMWorld() *mworld { return &mworld{inst: []*minst{{}}} }

func (s *mstate) getOrNew(a int) *macct {
	ac := &s.acc[a]
	if !ac.exists {
		*ac = macct{exists: true, credits: 1}
		s.jd[a] = true
		s.gen[a] = -1 // numbered by apply
	}
	return ac
}

func (s *mstate) setBal(a int, v int64) {
	ac := &s.acc[a]
	ac.credits++
	ac.bal = v
	s.jd[a] = true
}

func (s *mstate) setTok(a, t int, v int64) {
	if t < 0 {
		s.setBal(a, v)
		return
	}
	ac := &s.acc[a]
	ac.credits++
	ac.tok[t] = v
	ac.tokSet[t] = true
	s.jd[a] = true
}

func (a *macct) tokBal(t int) int64 {
	if t < 0 {
		return a.bal
	}
	return a.tok[t]
}

// finalise: what IntermediateRoot(false) does to the observables.
func (in *minst) finalise() {
	for a := 0; a < nAddr; a++ {
		if !in.jd[a] {
			continue
		}
		if in.acc[a].exists && in.acc[a].suicided {
			in.acc[a] = macct{}
		}
		in.disk[a] = in.acc[a]
		in.jd[a] = false
		in.od[a] = true
	}
	in.refund = 0
	in.snaps = nil
}

func (in *minst) commit() {
	for a := 0; a < nAddr; a++ {
		if in.acc[a].exists && in.acc[a].suicided {
			in.acc[a] = macct{}
			in.disk[a] = macct{}
		}
		if in.jd[a] || in.od[a] {
			in.disk[a] = in.acc[a]
		}
		in.jd[a] = false
		in.od[a] = false
	}
	in.refund = 0
	in.snaps = nil
}

// enabled reports whether o is inside the explored space in the current model state.
func (w *mworld) enabled(o op) bool {
	in := w.inst[w.act]
	if w.flat {
		// Bound of the flat key-value mode: storage slots written to the flat database are never removed when
		// their account is destroyed or replaced, so a NEW account object at such an address reads the old
		// slots. That is independent of snapshots and copies (it happens in a plain run), hence outside this
		// property: sequences that create a new object over committed storage are not explored.
		switch o.k {
		case kAddBal, kSubBal, kSetBal, kAddTok, kSubTok, kSetTok, kSetNonce, kSetCode, kSetState:
			if !in.acc[o.a].exists && w.diskStor[o.a] {
				return false
			}
		case kCreate:
			if w.diskStor[o.a] {
				return false
			}
		}
	}
	switch o.k {
	case kSubBal:
		// balances never go negative in the explored space (every caller in the repo checks first)
		return in.acc[o.a].exists && in.acc[o.a].bal >= o.v
	case kSubTok:
		return in.acc[o.a].exists && in.acc[o.a].tokBal(o.t) >= o.v
	case kSnapshot:
		return len(in.snaps) < maxSnap
	case kRevert:
		return int(o.v) < len(in.snaps)
	case kCopyStay, kCopySwitch:
		return len(w.inst) < maxInst
	case kSwitch:
		return int(o.v) < len(w.inst) && int(o.v) != w.act
	case kPrepare:
		return in.th != o.v
	}
	return true
}

// apply executes o on the model. opIdx is the index of o in the search's alphabet (for the lineage).
func (w *mworld) apply(o op, opIdx int) {
	arg := 0
	in := w.inst[w.act]
	s := &in.mstate
	record := true
	switch o.k {
	case kAddBal:
		ac := s.getOrNew(o.a)
		if o.v == 0 {
			if ac.empty() {
				s.jd[o.a] = true // "touch"
			}
		} else {
			s.setBal(o.a, ac.bal+o.v)
		}
	case kSubBal:
		ac := s.getOrNew(o.a)
		if o.v != 0 {
			s.setBal(o.a, ac.bal-o.v)
		}
	case kSetBal:
		s.getOrNew(o.a)
		s.setBal(o.a, o.v)
	case kAddTok:
		ac := s.getOrNew(o.a)
		if o.v == 0 {
			if ac.empty() {
				s.jd[o.a] = true
			}
		} else {
			s.setTok(o.a, o.t, ac.tokBal(o.t)+o.v)
		}
	case kSubTok:
		ac := s.getOrNew(o.a)
		if o.v != 0 {
			s.setTok(o.a, o.t, ac.tokBal(o.t)-o.v)
		}
	case kSetTok:
		s.getOrNew(o.a)
		s.setTok(o.a, o.t, o.v)
	case kSetNonce:
		s.getOrNew(o.a).nonce = uint64(o.v)
		s.jd[o.a] = true
	case kSetCode:
		s.getOrNew(o.a).code = o.v
		s.jd[o.a] = true
	case kSetState:
		ac := s.getOrNew(o.a)
		if ac.stor[o.s] != o.v {
			ac.stor[o.s] = o.v
			s.jd[o.a] = true
		}
	case kCreate:
		ac := &s.acc[o.a]
		if ac.exists {
			// the balance is carried over, everything else starts afresh
			*ac = macct{exists: true, credits: 1, bal: ac.bal}
			if !s.jd[o.a] && !s.od[o.a] {
				s.reset[o.a] = true
			}
		} else {
			*ac = macct{exists: true, credits: 1}
			s.jd[o.a] = true
		}
		s.gen[o.a] = -1
	case kSuicide:
		ac := &s.acc[o.a]
		if ac.exists {
			ac.suicided = true
			ac.bal = 0
			ac.tok = [nTok]int64{}
			ac.tokSet = [nTok]bool{}
			s.jd[o.a] = true
		}
	case kAddLog:
		arg = w.nextPayload()
		s.logs = append(s.logs, mlog{in.th, int64(arg)})
	case kAddRefund:
		s.refund += uint64(o.v)
	case kPrepare:
		in.th = o.v
	case kSnapshot:
		in.snaps = append(in.snaps, msnap{st: s.clone(), effLen: len(in.eff), th: in.th})
		record = false
	case kRevert:
		sn := in.snaps[o.v]
		if len(in.eff) != sn.effLen {
			in.touched = true
		}
		in.mstate = sn.st.clone()
		in.eff = in.eff[:sn.effLen:sn.effLen]
		if in.th != sn.th {
			in.eff = append(in.eff, effRec{w.prep[in.th], 0})
		}
		in.snaps = in.snaps[:o.v]
		record = false
	case kCopyStay, kCopySwitch:
		c := &minst{mstate: s.clone()}
		for a := 0; a < nAddr; a++ {
			// the copy inherits pending changes as "to be written by Commit"
			c.od[a] = c.od[a] || c.jd[a]
			c.jd[a] = false
		}
		c.eff = append(append([]effRec(nil), in.eff...), effRec{-1, 0})
		c.touched = true
		c.foreign = in.foreign
		for a := 0; a < nAddr; a++ {
			c.lostStor[a] = in.lostStor[a] || (in.od[a] && in.acc[a].exists && in.acc[a].stor != [nKey]int64{})
		}
		c.genCtr = in.genCtr
		c.disk = in.disk
		w.inst = append(w.inst, c)
		if o.k == kCopySwitch {
			w.act = len(w.inst) - 1
		}
		record = false
	case kSwitch:
		w.act = int(o.v)
		record = false
	case kIRoot:
		in.finalise()
	case kCommit, kCommitReset:
		writes := false
		for a := 0; a < nAddr; a++ {
			writes = writes || in.jd[a] || in.od[a] || in.reset[a]
			ac := &in.acc[a]
			if ac.exists && !ac.suicided && (in.jd[a] || in.od[a]) && ac.stor != [nKey]int64{} {
				w.diskStor[a] = true
			}
		}
		if writes {
			for j, other := range w.inst {
				if j != w.act {
					other.foreign = true
				}
			}
		}
		in.commit()
		if o.k == kCommitReset {
			// Reset also forgets the logs and the current tx hash
			in.logs = nil
			in.th = 0
		}
	}
	for a := 0; a < nAddr; a++ {
		if s.jd[a] {
			s.reset[a] = false
		}
		if s.gen[a] == -1 {
			in.genCtr++
			s.gen[a] = in.genCtr
		}
	}
	if record {
		in.eff = append(in.eff, effRec{opIdx, arg})
	}
}

func (a *macct) str(b *strings.Builder) {
	if !a.exists {
		b.WriteString("-;")
		return
	}
	fmt.Fprintf(b, "b%d,t%v%v,n%d,c%d,k%d,s%v,x%v;", a.bal, a.tok, a.tokSet, a.nonce, a.credits, a.code, a.stor, a.suicided)
}

func (s *mstate) str(b *strings.Builder) {
	for a := range s.acc {
		s.acc[a].str(b)
	}
	fmt.Fprintf(b, "jd%v,od%v,rs%v,l%v,r%d|", s.jd, s.od, s.reset, s.logs, s.refund)
}

// key: canonical model state of the whole world.
func (w *mworld) key() string {
	var b strings.Builder
	fmt.Fprintf(&b, "act%d,ds%v|", w.act, w.diskStor)
	for _, in := range w.inst {
		in.mstate.str(&b)
		b.WriteString("disk:")
		for a := range in.disk {
			in.disk[a].str(&b)
		}
		fmt.Fprintf(&b, "th%d,f%v,snaps%d:", in.th, in.foreign, len(in.snaps))
		for i := range in.snaps {
			in.snaps[i].st.str(&b)
			for a := 0; a < nAddr; a++ {
				if in.snaps[i].st.gen[a] != in.gen[a] {
					b.WriteString("R") // the object this snapshot brings back has been replaced since
				} else {
					b.WriteString("=")
				}
			}
		}
		b.WriteString("||")
	}
	return b.String()
}
