package main

import (
	"fmt"
	"math/big"

	"verif/kv"

	"github.com/lianxiangcloud/linkchain/libs/common"
	"github.com/lianxiangcloud/linkchain/state"
)

// Straight-line reproductions of every root cause the search reports on the unchanged tree, written against the
// repository API only (no model, no engine). Run with:  C09_PROBE=1 /verif/check C09
func probes() {
	a := common.HexToAddress("0xa1")
	t1, t2 := common.HexToAddress("0x71"), common.HexToAddress("0x72")
	k := common.HexToHash("0x01")
	caching := func() *state.StateDB {
		s, _ := state.New(common.EmptyHash, state.NewDatabase(kv.NewCopyDB()))
		return s
	}
	flat := func() *state.StateDB {
		s, _ := state.New(common.EmptyHash, state.NewKeyValueDBWithCache(kv.NewCopyDB(), 0, false, 0))
		return s
	}

	{ // copy-aliasing:token-balance (F2)
		s := caching()
		s.AddTokenBalance(a, t1, big.NewInt(100))
		c := s.Copy()
		c.AddTokenBalance(a, t1, big.NewInt(5))
		fmt.Printf("F2  copy-aliasing:token-balance                 original after copy.AddTokenBalance(+5): %v (want 100)\n", s.GetTokenBalance(a, t1))
	}
	{ // root-twin:stale-zero-token-entry (F3)
		s, twin := caching(), caching()
		s.AddTokenBalance(a, t1, big.NewInt(5))
		twin.AddTokenBalance(a, t1, big.NewInt(5))
		id := s.Snapshot()
		s.AddTokenBalance(a, t2, big.NewInt(5))
		s.RevertToSnapshot(id)
		fmt.Printf("F3  root-twin:stale-zero-token-entry            T2 balance %v/%v, tokens %v vs twin %v, roots equal: %v\n", s.GetTokenBalance(a, t2), twin.GetTokenBalance(a, t2),
			len(s.GetAccount(a).Tokens), len(twin.GetAccount(a).Tokens), s.IntermediateRoot(false) == twin.IntermediateRoot(false))
	}
	{ // root-twin:lost-zero-token-entry
		s, twin := caching(), caching()
		s.SetTokenBalance(a, t1, big.NewInt(0))
		twin.SetTokenBalance(a, t1, big.NewInt(0))
		id := s.Snapshot()
		s.Suicide(a)
		s.RevertToSnapshot(id)
		fmt.Printf("new root-twin:lost-zero-token-entry             tokens %v vs twin %v, roots equal: %v\n", len(s.GetAccount(a).Tokens), len(twin.GetAccount(a).Tokens),
			s.IntermediateRoot(false) == twin.IntermediateRoot(false))
	}
	{ // copy-differs-from-source:account-replaced-by-CreateAccount-not-marked-dirty
		s := caching()
		s.SetNonce(a, 7)
		s.Commit(false, 1)
		s.CreateAccount(a)
		c := s.Copy()
		fmt.Printf("new copy-differs-from-source:account-replaced…  source nonce %d, copy nonce %d (want equal)\n", s.GetNonce(a), c.GetNonce(a))
	}
	{ // copy-leak:commit-of-one-instance-visible-in-another@kv-flat-only
		s := flat()
		c := s.Copy()
		c.AddBalance(a, big.NewInt(3))
		c.Commit(false, 1)
		fmt.Printf("new copy-leak:commit…@kv-flat-only              original sees balance %v after the copy's Commit (want 0)\n", s.GetBalance(a))
	}
	{ // revert-inexact:existence@kv-flat-only
		s := flat()
		s.AddBalance(a, big.NewInt(3))
		s.Commit(false, 1)
		s.Suicide(a)
		s.IntermediateRoot(false)
		before := s.Exist(a)
		id := s.Snapshot()
		s.AddBalance(a, big.NewInt(3))
		s.RevertToSnapshot(id)
		fmt.Printf("new revert-inexact:existence@kv-flat-only       Exist before snapshot %v, after revert %v, balance %v\n", before, s.Exist(a), s.GetBalance(a))
	}
	{ // copy-differs-from-source:storage@kv-flat-only
		s := flat()
		s.SetState(a, k, []byte{1})
		s.IntermediateRoot(false)
		c := s.Copy()
		c.Commit(false, 1)
		cc := c.Copy()
		fmt.Printf("new copy-differs-from-source:storage@kv-flat    copy reads %x, copy of the committed copy reads %x (want 01)\n", c.GetState(a, k), cc.GetState(a, k))
	}
}
