// C09 — state snapshots revert exactly and state copies are fully independent.
//
// Explicit-state search (engine opx) over operation sequences of the REAL state.StateDB, in the three ways the
// repository constructs its backing state.Database (state.NewDatabase; NewKeyValueDBWithCache with isTrie=true and
// isTrie=false), against a plain-Go reference model whose snapshot is a deep copy and whose Copy is a deep copy.
//
// Oracle 1 (getters): after every explored sequence, every observable of EVERY live instance (original, copies,
// copies of copies) equals the model, and so does a throw-away Copy() of every instance. Key families:
//
//	revert-inexact:<observable>            the instance that executed RevertToSnapshot differs from the snapshot state
//	copy-aliasing:<observable>             an instance changed although the letter ran on another instance
//	copy-differs-from-source:<what>        a fresh copy does not show what its source shows
//	copy-leak:<what>                       Commit/IntermediateRoot of one instance shows through in another
//	residue-after-revert-or-copy:<op>:<observable>   late effect: the untouched twin agrees with the model, the instance does not
//	model-mismatch:<op>:<observable>       twin and instance agree with each other but not with the model: plain
//	                                       semantics, not a revert/copy effect (harness model to be corrected)
//
// Oracle 2 (roots, own key family root-twin:<record field>): IntermediateRoot, and then the Commit root, of every
// instance equals that of an untouched twin: a fresh StateDB over a fresh database that executed only the instance's
// effective lineage (its un-reverted operations; no Snapshot/Revert at all, no other instances). Getters are equal in
// these cases by construction (oracle 1 passed first), so this family is exactly the root-only differences.
// A key found in a key-value mode that the same sequence does not produce over the plain caching trie database
// carries the suffix @kv-trie-only / @kv-flat-only.
//
// Extras: C09_PROBE=1 prints straight-line reproductions of every finding; C09_ONLY=<substr>, C09_DEPTH=<n> restrict /
// deepen by hand (run is then reported as capped); C09_MERGECHECK=<n> switches the engine's state-key self-test on.
package main

import (
	"crypto/sha256"
	"encoding/json"
	"fmt"
	"io/ioutil"
	"os"
	"runtime/debug"
	"runtime/pprof"
	"strconv"
	"strings"
	"sync"
	"sync/atomic"
	"time"

	"verif/vk"

	"github.com/lianxiangcloud/linkchain/libs/log"
	"github.com/lianxiangcloud/linkchain/state"
)

type search struct {
	name  string
	mode  int
	ops   []op
	depth int
	prep  []int // alphabet index of Prepare(v), -1 if absent
	slice string
	used  observed
	// start state: ops[nAlpha:] are the letters of a scripted prefix (not part of the alphabet) that every explored
	// sequence starts with; they run through the same model/real/twin code as explored letters.
	nAlpha int
	prefix []int
}

// taints: root-only deviations (oracle 2) found on the way to a state, inherited by its successors: a later root
// difference that the account records cannot explain ("written-set": the polluted record sits in the trie or in
// the pending change set already) is attributed to the deviation that caused it instead of getting a key of its own.
var taints sync.Map // slice|mode|history -> []string

func (s *search) taintKey(hist []int) string {
	var b strings.Builder
	fmt.Fprintf(&b, "%s|%d|", s.slice, s.mode)
	for _, h := range hist {
		b.WriteByte(byte(h))
	}
	return b.String()
}

var (
	executed   int64 // op sequences executed on the real code
	realOps    int64 // single operations executed on real instances (twins included)
	getterEval int64 // instance-vs-model getter comparisons
	rootEval   int64 // instance-vs-twin root comparisons
	reloadEval int64 // reloaded-instance-vs-reloaded-twin getter comparisons
)

func (s *search) newModel() *mworld {
	m := newMWorld()
	m.prep = s.prep
	m.flat = s.mode == 2
	return m
}

// twin: fresh database, fresh StateDB, only the effective lineage.
func (s *search) twin(eff []effRec) (*state.StateDB, *world) {
	w := newWorld(s.mode)
	st := w.inst[0]
	for _, e := range eff {
		atomic.AddInt64(&realOps, 1)
		if e.op == -1 {
			st = st.Copy()
			continue
		}
		o := s.ops[e.op]
		switch o.k {
		case kIRoot:
			st.IntermediateRoot(false)
		case kCommit, kCommitReset:
			root, err := w.commit(st)
			if err != nil {
				panic("twin commit: " + err.Error())
			}
			if o.k == kCommitReset {
				if err := st.Reset(root); err != nil {
					panic("twin reset: " + err.Error())
				}
			}
		default:
			applyMut(st, o, e.arg)
		}
	}
	return st, w
}

func (s *search) exec(hist []int, verbose *strings.Builder) (out vk.Outcome) {
	m := s.newModel()
	w := newWorld(s.mode)
	var last op
	defer func() {
		if e := recover(); e != nil {
			out = vk.Outcome{Err: "panic:" + kindName[last.k], What: fmt.Sprintf("%s: panic: %v", last.name, e)}
		}
	}()
	actBefore := 0
	explored := hist
	hist = append(append(make([]int, 0, len(s.prefix)+len(explored)), s.prefix...), explored...)
	args := make([]int, len(hist))
	for i, oi := range hist {
		o := s.ops[oi]
		last = o
		if !m.enabled(o) {
			return vk.Outcome{}
		}
		actBefore = m.act
		args[i] = m.nextPayload()
		err := w.apply(o, args[i])
		m.apply(o, oi)
		atomic.AddInt64(&realOps, 1)
		if err != nil {
			if i == len(hist)-1 {
				return vk.Outcome{Err: "commit-error", What: err.Error()}
			}
			return vk.Outcome{}
		}
	}
	atomic.AddInt64(&executed, 1)
	mode := modeNames[s.mode]
	if len(s.prefix) > 0 {
		mode += ", start state " + strings.Join(s.effNamesIdx(s.prefix), ";")
	}

	// ---- oracle 1: every getter of every live instance ----
	wants := make([]iobs, len(w.inst))
	for i := range w.inst {
		got, want := observe(w.inst[i], s.used), mobserve(m.inst[i])
		wants[i] = want
		atomic.AddInt64(&getterEval, 1)
		if verbose != nil {
			fmt.Fprintf(verbose, "instance%d real : %+v\ninstance%d model: %+v\n", i, got, i, want)
		}
		obs, det, acct := diffA(&got, &want)
		if obs == "" {
			continue
		}
		key := s.classify(m, i, actBefore, last, obs, acct, &want)
		return vk.Outcome{Err: key, What: fmt.Sprintf("[%s] after %s on instance%d: instance%d %s", mode, last.name, actBefore, i, det)}
	}
	hidden, shared := w.hidden()

	// ---- oracle 1b: a copy taken now shows the same observables as its source (the copy is discarded) ----
	var soft [][2]string
	var hb strings.Builder
	hb.WriteString(hidden)
	for i := range w.inst {
		got := observe(w.inst[i].Copy(), s.used)
		atomic.AddInt64(&getterEval, 1)
		fmt.Fprintf(&hb, "#%+v", got)
		if obs, det, acct := diffA(&got, &wants[i]); obs != "" {
			soft = append(soft, [2]string{s.copyKey(m, i, obs, acct), fmt.Sprintf("[%s] a Copy() of instance%d taken after %s: %s", mode, i, last.name, det)})
		}
	}

	// What the open snapshots hold is hidden state too (the undo log keeps whole replaced account objects). A
	// second replay of the sequence is unwound snapshot by snapshot and the token-entry layout found at each
	// level goes into the state key.
	open := false
	for i := range m.inst {
		open = open || len(m.inst[i].snaps) > 0
	}
	if open {
		w2 := newWorld(s.mode)
		for i, oi := range hist {
			w2.apply(s.ops[oi], args[i])
			atomic.AddInt64(&realOps, 1)
		}
		for i, st := range w2.inst {
			for k := len(w2.revs[i]) - 1; k >= 0; k-- {
				st.RevertToSnapshot(w2.revs[i][k])
				fmt.Fprintf(&hb, "#i%ds%d:", i, k)
				for a := 0; a < nAddr; a++ {
					if s.used[a] {
						hb.WriteString(rawOf(st, a).tokStr() + ";")
					}
				}
			}
		}
	}

	// ---- oracle 2: roots against the untouched twin (destructive; the world is discarded afterwards) ----
	for i := range w.inst {
		if len(w.inst) == 1 && !m.inst[i].touched {
			continue // the twin would execute exactly the same calls
		}
		tw, tww := s.twin(m.inst[i].eff)
		atomic.AddInt64(&rootEval, 1)
		r, t := w.inst[i].IntermediateRoot(false), tw.IntermediateRoot(false)
		if verbose != nil {
			fmt.Fprintf(verbose, "instance%d IntermediateRoot %x twin %x\n", i, r, t)
		}
		which := "IntermediateRoot"
		if r == t {
			var err1, err2 error
			which = "Commit root"
			r, err1 = w.commit(w.inst[i])
			t, err2 = tww.commit(tw)
			if err1 != nil || err2 != nil {
				soft = append(soft, [2]string{"commit-error", fmt.Sprint(err1, err2)})
				continue
			}
			if verbose != nil {
				fmt.Fprintf(verbose, "instance%d Commit root %x twin %x\n", i, r, t)
			}
		}
		if r == t && which == "Commit root" && (s.mode != 2 || len(w.inst) == 1) {
			// ---- oracle 2b: what a fresh StateDB opened on the committed root reads (reload after commit) ----
			// (flat mode: one database under all instances, so only judged when there is a single instance)
			rl, err1 := state.New(r, w.db)
			rt, err2 := state.New(t, tww.db)
			if err1 != nil || err2 != nil {
				soft = append(soft, [2]string{"reload-error", fmt.Sprint(err1, err2)})
				continue
			}
			atomic.AddInt64(&reloadEval, 1)
			got, want := observe(rl, s.used), observe(rt, s.used)
			if obs, det := diff(&got, &want); obs != "" {
				soft = append(soft, [2]string{"reload-twin:" + obs, fmt.Sprintf("[%s] instance%d committed and re-opened at its root: %s (want = the re-opened untouched twin, lineage %s)", mode, i, det, s.effNames(m.inst[i].eff))})
			}
		}
		if r != t {
			f, det := rawDiff(w.inst[i], tw, shared[i])
			if s.mode == 2 && m.inst[i].foreign {
				f = "" // flat mode: the base under this instance was changed by another instance's Commit
			}
			key := "root-twin:" + f
			if f == "" {
				key = leakKey
			}
			soft = append(soft, [2]string{key, fmt.Sprintf("[%s] %s of instance%d = %x, untouched twin (lineage %s) = %x: %s", mode, which, i, r[:6], s.effNames(m.inst[i].eff), t[:6], det)})
		}
	}
	h := sha256.Sum256([]byte(m.key() + "#" + hb.String()))
	return vk.Outcome{Key: string(h[:16]), Soft: soft}
}

const leakKey = "copy-leak:commit-of-one-instance-visible-in-another"

// copyKey names the root-cause class of "a fresh copy of instance i differs from instance i".
func (s *search) copyKey(m *mworld, i int, obs string, acct int) string {
	if s.mode == 2 && m.inst[i].foreign {
		return leakKey
	}
	if acct >= 0 && m.inst[i].reset[acct] {
		return "copy-differs-from-source:account-replaced-by-CreateAccount-not-marked-dirty"
	}
	return "copy-differs-from-source:" + obs
}

// execTagged runs exec; a violation found in a key-value mode that the same sequence does not produce over the
// plain caching trie database gets the suffix "@<mode>-only", so that mode-specific root causes have their own keys.
func (s *search) execTagged(hist []int, verbose *strings.Builder) vk.Outcome {
	out := s.exec(hist, verbose)
	var inherited []string
	if len(hist) > 0 {
		if v, ok := taints.Load(s.taintKey(hist[:len(hist)-1])); ok {
			inherited = v.([]string)
		}
	}
	if out.Err == "" && len(out.Soft) == 0 {
		if len(inherited) > 0 && out.Key != "" {
			taints.Store(s.taintKey(hist), inherited)
		}
		return out
	}
	has := map[string]bool{}
	if s.mode != 0 {
		ref := *s
		ref.mode = 0
		o0 := ref.exec(hist, nil)
		has[o0.Err] = true
		for _, sv := range o0.Soft {
			has[sv[0]] = true
		}
	}
	tag := "@" + modeNames[s.mode] + "-only"
	if out.Err != "" && s.mode != 0 && !has[out.Err] {
		out.Err += tag
	}
	mine := append([]string(nil), inherited...)
	var soft [][2]string
	for _, sv := range out.Soft {
		if sv[0] == "root-twin:written-set" && len(inherited) > 0 {
			for _, k := range inherited {
				soft = append(soft, [2]string{k, sv[1] + " (downstream of an earlier " + k + " on this path)"})
			}
			continue
		}
		if s.mode != 0 && !has[sv[0]] {
			sv[0] += tag
		}
		if strings.HasPrefix(sv[0], "root-twin:") {
			dup := false
			for _, k := range mine {
				dup = dup || k == sv[0]
			}
			if !dup {
				mine = append(mine, sv[0])
			}
		}
		soft = append(soft, sv)
	}
	out.Soft = soft
	if len(mine) > 0 && out.Err == "" && out.Key != "" {
		taints.Store(s.taintKey(hist), mine)
	}
	return out
}

func (s *search) effNamesIdx(idx []int) []string {
	l := []string{}
	for _, i := range idx {
		l = append(l, s.ops[i].name)
	}
	return l
}

func (s *search) effNames(eff []effRec) string {
	var l []string
	for _, e := range eff {
		if e.op == -1 {
			l = append(l, "Copy")
		} else {
			l = append(l, s.ops[e.op].name)
		}
	}
	return "[" + strings.Join(l, " ") + "]"
}

// classify names the root-cause class of a getter mismatch on instance i after `last` ran on instance actBefore.
func (s *search) classify(m *mworld, i, actBefore int, last op, obs string, acct int, want *iobs) string {
	if (last.k == kCopyStay || last.k == kCopySwitch) && i == len(m.inst)-1 {
		// the source is the instance the copy was taken from; the model copy carries its flags
		return s.copyKey(m, i, obs, acct)
	}
	if s.mode == 2 && m.inst[i].foreign {
		// flat key-value mode: one database under all instances, another instance committed into it
		return leakKey
	}
	if s.mode == 2 && last.k == kCommitReset && i == actBefore && acct >= 0 && obs == "storage" && m.inst[i].lostStor[acct] {
		// flat mode, known root cause: the copy's storage change set started empty, the flushed-but-uncommitted slots
		// of its source never reach the database through it; dropping the caches shows that on the copy itself
		return "copy-differs-from-source:storage"
	}
	if last.k == kCommitReset && i == actBefore && acct >= 0 && m.inst[i].reset[acct] {
		// same root cause as the copy form: the replaced account was never written, the reload shows the old one
		return "copy-differs-from-source:account-replaced-by-CreateAccount-not-marked-dirty"
	}
	switch {
	case i != actBefore && (last.k == kCommit || last.k == kCommitReset):
		return leakKey
	case i != actBefore && last.k == kIRoot:
		return "copy-leak:intermediate-root-of-one-instance-visible-in-another"
	case i != actBefore:
		return "copy-aliasing:" + obs
	}
	// the instance that executed the letter. Ask the untouched twin whether the model is right about plain
	// (snapshot-free, copy-free) execution.
	tw, _ := s.twin(m.inst[i].eff)
	tobs := observe(tw, s.used)
	if o2, _ := diff(&tobs, want); o2 != "" {
		// the twin disagrees with the model as well: not a revert/copy effect
		return "model-mismatch:" + kindName[last.k] + ":" + obs
	}
	if last.k == kRevert {
		return "revert-inexact:" + obs
	}
	return "residue-after-revert-or-copy:" + kindName[last.k] + ":" + obs
}

func (s *search) spec() vk.Spec {
	mc := mergeCheckEvery
	if s.mode == 2 {
		mc = 0 // flat mode: what each instance has cached decides what it sees of the shared database (copy-leak)
	}
	return vk.Spec{
		Name:   s.name,
		NumOps: s.nAlpha,
		OpName: func(i int) string { return s.ops[i].name },
		Depth:  s.depth,
		Exec:   func(hist []int) vk.Outcome { return s.execTagged(hist, nil) },
		Enabled: func(hist []int, o int) bool {
			m := s.newModel()
			for _, oi := range s.prefix {
				m.apply(s.ops[oi], oi)
			}
			for _, oi := range hist {
				m.apply(s.ops[oi], oi)
			}
			return m.enabled(s.ops[o])
		},
		MergeCheckEvery: mc,
	}
}

// mergeCheckEvery: state-key adequacy self-test of the engine (re-expand both representatives of every n-th merge).
// Off by default: on the unchanged tree the known defects (shared token maps, stale zero token entries, replaced
// accounts not marked dirty) create hidden state no model key can follow, and the engine reports that as a harness
// error. Run it (C09_MERGECHECK=200) on a tree where those are repaired.
var mergeCheckEvery = func() int {
	n, _ := strconv.Atoi(os.Getenv("C09_MERGECHECK"))
	return n
}()

// ---- alphabets ----

func ctrl(snaps int, copyStay bool, insts int) []op {
	out := []op{mk(kSnapshot, 0, 0, 0, 0)}
	for i := 0; i < snaps; i++ {
		out = append(out, mk(kRevert, 0, 0, 0, int64(i)))
	}
	out = append(out, mk(kCopySwitch, 0, 0, 0, 0))
	if copyStay {
		out = append(out, mk(kCopyStay, 0, 0, 0, 0))
	}
	for i := 0; i < insts; i++ {
		out = append(out, mk(kSwitch, 0, 0, 0, int64(i)))
	}
	out = append(out, mk(kIRoot, 0, 0, 0, 0), mk(kCommit, 0, 0, 0, 0))
	return out
}

func acctOps(a int, full bool) []op {
	out := []op{
		mk(kAddBal, a, 0, 0, 3),
		mk(kSubBal, a, 0, 0, 3),
		mk(kAddTok, a, 0, 0, 5),
		mk(kSubTok, a, 0, 0, 5),
		mk(kAddTok, a, 1, 0, 5),
		mk(kSetNonce, a, 0, 0, 1),
		mk(kSetCode, a, 0, 0, 1),
		mk(kSetState, a, 0, 0, 1),
		mk(kSetState, a, 0, 0, 2),
		mk(kSetState, a, 0, 0, 0),
		mk(kCreate, a, 0, 0, 0),
		mk(kSuicide, a, 0, 0, 0),
	}
	if full {
		out = append(out,
			mk(kAddBal, a, 0, 0, 0),
			mk(kSetBal, a, 0, 0, 7),
			mk(kSetTok, a, 0, 0, 0),
			mk(kSubTok, a, 1, 0, 5),
			mk(kAddTok, a, -1, 0, 2),
			mk(kSetCode, a, 0, 0, 2),
			mk(kSetState, a, 0, 1, 1),
			mk(kSetState, a, 0, 1, 0),
			mk(kSetBal, a, 0, 0, 0),
			mk(kSetNonce, a, 0, 0, 0),
			mk(kSetCode, a, 0, 0, 0),
		)
	}
	return out
}

func cat(l ...[]op) []op {
	var out []op
	for _, x := range l {
		out = append(out, x...)
	}
	return out
}

type slice struct {
	name          string
	ops           []op
	quickD, thorD int // depth from the empty start state
	// depth from the prepared start states (committed / flushed / reloaded); 0 = not run from them
	quickS, thorS int
}

func slices(quick bool) []slice {
	A, B := 0, 1
	global := []op{mk(kAddLog, 0, 0, 0, 0), mk(kAddRefund, 0, 0, 0, 2)}
	prepare := []op{mk(kPrepare, 0, 0, 0, 1), mk(kPrepare, 0, 0, 0, 0)}
	reset := []op{mk(kCommitReset, 0, 0, 0, 0)}
	var out []slice
	// the whole alphabet, shallow
	if quick {
		out = append(out, slice{name: "all-small", ops: cat(acctOps(A, false), []op{mk(kAddBal, B, 0, 0, 3), mk(kAddTok, B, 0, 0, 5), mk(kSuicide, B, 0, 0, 0)}, global, ctrl(2, true, 2), reset), quickD: 4, quickS: 3})
	} else {
		out = append(out, slice{name: "all", ops: cat(acctOps(A, true), acctOps(B, true), global, prepare, ctrl(3, true, 3), reset), thorD: 4, thorS: 3})
	}
	// focused alphabets, deeper. Every alphabet that writes a kind of value also has the letter that writes its
	// zero (empty slot, balance/token back to 0, nonce 0, empty code).
	out = append(out,
		slice{name: "logs", ops: []op{
			mk(kAddLog, 0, 0, 0, 0), mk(kCopySwitch, 0, 0, 0, 0), mk(kSwitch, 0, 0, 0, 0), mk(kSwitch, 0, 0, 0, 1), mk(kSnapshot, 0, 0, 0, 0), mk(kRevert, 0, 0, 0, 0)},
			quickD: 7, thorD: 10},
		slice{name: "selfdestruct-recreate", ops: []op{
			mk(kAddBal, A, 0, 0, 3), mk(kSuicide, A, 0, 0, 0), mk(kSnapshot, 0, 0, 0, 0), mk(kRevert, 0, 0, 0, 0), mk(kIRoot, 0, 0, 0, 0), mk(kCommit, 0, 0, 0, 0)},
			quickD: 7, thorD: 10},
		slice{name: "storage-code", ops: cat([]op{
			mk(kSetState, A, 0, 0, 1), mk(kSetState, A, 0, 0, 2), mk(kSetState, A, 0, 0, 0), mk(kSetState, A, 0, 1, 1), mk(kSetState, A, 0, 1, 0),
			mk(kSetCode, A, 0, 0, 1), mk(kSetCode, A, 0, 0, 0), mk(kSuicide, A, 0, 0, 0), mk(kCreate, A, 0, 0, 0)},
			ctrl(2, false, 2)), quickD: 5, thorD: 6, quickS: 4, thorS: 6},
		slice{name: "balance-nonce-logs-refund", ops: cat([]op{
			mk(kAddBal, A, 0, 0, 3), mk(kAddBal, A, 0, 0, 0), mk(kSubBal, A, 0, 0, 3), mk(kSetNonce, A, 0, 0, 1), mk(kSetNonce, A, 0, 0, 0),
			mk(kSuicide, A, 0, 0, 0)}, global, []op{mk(kPrepare, 0, 0, 0, 1)},
			ctrl(2, false, 2)), quickD: 5, thorD: 6, quickS: 4, thorS: 5},
		slice{name: "copies-of-copies", ops: cat([]op{
			mk(kAddTok, A, 0, 0, 5), mk(kSetState, A, 0, 0, 1), mk(kSetState, A, 0, 0, 0), mk(kAddBal, A, 0, 0, 3), mk(kAddLog, 0, 0, 0, 0), mk(kSuicide, A, 0, 0, 0)},
			[]op{mk(kSnapshot, 0, 0, 0, 0), mk(kRevert, 0, 0, 0, 0), mk(kCopySwitch, 0, 0, 0, 0), mk(kCopyStay, 0, 0, 0, 0),
				mk(kSwitch, 0, 0, 0, 0), mk(kSwitch, 0, 0, 0, 1), mk(kSwitch, 0, 0, 0, 2), mk(kIRoot, 0, 0, 0, 0), mk(kCommit, 0, 0, 0, 0)}),
			quickD: 5, thorD: 6, quickS: 4, thorS: 5},
		slice{name: "two-accounts", ops: cat([]op{
			mk(kAddBal, A, 0, 0, 3), mk(kSubBal, A, 0, 0, 3), mk(kAddBal, B, 0, 0, 3), mk(kAddTok, A, 0, 0, 5), mk(kAddTok, B, 0, 0, 5),
			mk(kSubTok, B, 0, 0, 5), mk(kSuicide, A, 0, 0, 0)},
			ctrl(2, false, 2)), quickD: 5, thorD: 6, quickS: 4, thorS: 5},
		// the largest search last: under a tight budget the deadline cuts here
		slice{name: "tokens", ops: cat([]op{
			mk(kAddTok, A, 0, 0, 5), mk(kSubTok, A, 0, 0, 5), mk(kAddTok, A, 1, 0, 5), mk(kSetTok, A, 0, 0, 0),
			mk(kAddBal, A, 0, 0, 3), mk(kSuicide, A, 0, 0, 0), mk(kCreate, A, 0, 0, 0)},
			ctrl(2, false, 2)), quickD: 5, thorD: 7, quickS: 4, thorS: 5},
	)
	return out
}

// Prepared start states. The content is derived from the alphabet: every (account, kind of value) the alphabet can
// write already holds a non-zero value (balance 3, token T1 5, nonce 1, code1, every written slot val1), so that the
// "clear a value that is already persisted, then snapshot / copy" sequences start at depth 1. The three states differ
// in where that content lives:
//
//	committed  Commit: in the database AND in the instance's object caches
//	flushed    IntermediateRoot: written into the tries (out of the pending sets), not committed
//	reloaded   Commit+Reset: in the database only, every read comes from the committed trie
var startNames = []string{"committed", "flushed", "reloaded"}

func startPrefix(alpha []op, start string) []op {
	var p []op
	has := func(o op) bool {
		for _, x := range p {
			if x.name == o.name {
				return true
			}
		}
		return false
	}
	add := func(o op) {
		if !has(o) {
			p = append(p, o)
		}
	}
	for _, o := range alpha {
		switch o.k {
		case kAddBal, kSubBal, kSetBal:
			add(mk(kAddBal, o.a, 0, 0, 3))
		case kAddTok, kSubTok, kSetTok:
			if o.t >= 0 {
				add(mk(kAddTok, o.a, 0, 0, 5))
			} else {
				add(mk(kAddBal, o.a, 0, 0, 3))
			}
		case kSetNonce:
			add(mk(kSetNonce, o.a, 0, 0, 1))
		case kSetCode:
			add(mk(kSetCode, o.a, 0, 0, 1))
		case kSetState:
			add(mk(kSetState, o.a, 0, o.s, 1))
		case kAddLog:
			add(mk(kAddLog, 0, 0, 0, 0))
		}
	}
	switch start {
	case "committed":
		p = append(p, mk(kCommit, 0, 0, 0, 0))
	case "flushed":
		p = append(p, mk(kIRoot, 0, 0, 0, 0))
	case "reloaded":
		p = append(p, mk(kCommitReset, 0, 0, 0, 0))
	}
	return p
}

func buildSearches(quick bool) []*search {
	var out []*search
	mkSearch := func(sl slice, start string, mode, depth int) *search {
		name := sl.name
		if start != "" {
			name += "+" + start
		}
		s := &search{name: name + "/" + modeNames[mode], slice: name, mode: mode, ops: sl.ops, nAlpha: len(sl.ops), depth: depth, prep: []int{-1, -1}}
		if start != "" {
			for _, o := range startPrefix(sl.ops, start) {
				s.prefix = append(s.prefix, len(s.ops))
				s.ops = append(s.ops[:len(s.ops):len(s.ops)], o)
			}
		}
		for i, o := range s.ops {
			switch o.k {
			case kPrepare:
				if i < s.nAlpha {
					s.prep[o.v] = i
				}
			case kAddBal, kSubBal, kSetBal, kAddTok, kSubTok, kSetTok, kSetNonce, kSetCode, kSetState, kCreate, kSuicide:
				s.used[o.a] = true
			}
		}
		return s
	}
	for _, sl := range slices(quick) {
		d, ds := sl.thorD, sl.thorS
		if quick {
			d, ds = sl.quickD, sl.quickS
		}
		for mode := range modeNames {
			if d > 0 {
				out = append(out, mkSearch(sl, "", mode, d))
			}
		}
		if ds > 0 {
			hasStorage := false
			for _, o := range sl.ops {
				hasStorage = hasStorage || o.k == kSetState
			}
			for _, st := range startNames {
				if quick && st == "committed" && !hasStorage {
					continue // quick tier: flushed + reloaded only (thorough runs all three)
				}
				for mode := range modeNames {
					out = append(out, mkSearch(sl, st, mode, ds))
				}
			}
		}
	}
	return out
}

func main() {
	log.Root().SetHandler(log.DiscardHandler())
	debug.SetGCPercent(800) // every executed sequence builds and drops whole databases; trade memory for GC time
	if os.Getenv("C09_PROBE") != "" {
		probes()
		return
	}
	r := vk.Start("C09", "model_checking")
	if r.ReplayPath != "" {
		replay(r)
		return
	}
	if pf := os.Getenv("C09_PROF"); pf != "" {
		f, _ := os.Create(pf)
		pprof.StartCPUProfile(f)
		defer pprof.StopCPUProfile()
	}
	searches := buildSearches(r.Quick())
	if only := os.Getenv("C09_ONLY"); only != "" {
		var f []*search
		for _, s := range searches {
			if strings.Contains(s.name, only) {
				f = append(f, s)
			}
		}
		searches = f
		r.Capped("C09_ONLY=" + only + ": only a subset of the searches was run")
	}
	if d, err := strconv.Atoi(os.Getenv("C09_DEPTH")); err == nil && d > 0 {
		for _, s := range searches {
			s.depth = d
		}
		r.Capped(fmt.Sprintf("C09_DEPTH=%d: depth overridden by hand", d))
	}
	states, trans, merges := 0, 0, 0
	var per []interface{}
	for _, s := range searches {
		t0 := time.Now()
		res := r.Explore(s.spec())
		states += res.States
		trans += res.Transitions
		merges += res.MergeChecks
		per = append(per, map[string]interface{}{"search": s.name, "alphabet": s.nAlpha, "start_prefix": s.effNamesIdx(s.prefix), "depth": s.depth, "depth_completed": res.DepthCompleted,
			"states": res.States, "transitions": res.Transitions, "per_depth": res.PerDepth, "merge_checks": res.MergeChecks, "capped": res.Capped})
		fmt.Printf("%-40s alphabet=%d depth=%d/%d states=%d transitions=%d %.1fs\n", s.name, s.nAlpha, res.DepthCompleted, s.depth, res.States, res.Transitions, time.Since(t0).Seconds())
	}
	r.Set("searches", per)
	r.Set("states", states)
	r.Set("transitions", trans)
	r.Set("traces_validated_against_impl", trans)
	r.Set("sequences_executed_on_real_code", int(atomic.LoadInt64(&executed))) // transitions + mode cross-checks + merge checks
	r.Set("real_operations_executed", int(atomic.LoadInt64(&realOps)))
	r.Set("getter_comparisons", int(atomic.LoadInt64(&getterEval)))
	r.Set("root_comparisons_with_twin", int(atomic.LoadInt64(&rootEval)))
	r.Set("reload_comparisons_with_twin", int(atomic.LoadInt64(&reloadEval)))
	r.Set("evaluations", int(atomic.LoadInt64(&getterEval)+atomic.LoadInt64(&rootEval)+atomic.LoadInt64(&reloadEval)))
	r.Set("distinct_nontrivial", states)
	r.Set("state_key_merge_checks", merges)
	r.Set("rule", "BFS over op sequences on real state.StateDB worlds (original + up to 2 copies, up to 3 open snapshots each) in 3 database modes; "+
		"state = reference model of every instance + snapshot stack + pending-write flags + hidden token-entry layout; every transition is executed on the real code; "+
		"non-trivial = distinct canonical state")
	r.Assume("reference model: plain Go values; snapshot = deep copy, Copy = deep copy; twin = fresh StateDB over a fresh database executing the un-reverted operations only")
	r.Assume("balances and token balances never go negative (SubBalance/SubTokenBalance only explored when covered), as every caller in the repo guarantees")
	r.Assume("IntermediateRoot/Commit with deleteEmptyObjects=false only (the only value the repo passes)")
	r.Assume("a copy inherits its source's pending changes as to-be-written-by-Commit only: IntermediateRoot on a copy does not yet remove an account whose self-destruct it inherited (Commit does); modelled as such, not judged")
	r.Assume("kv modes opened with cache=0 (no undo-log file); crash recovery is outside this property")
	pprof.StopCPUProfile()
	r.Finish()
}

func replay(r *vk.Run) {
	var rp struct {
		Search string `json:"search"`
		OpIDs  []int  `json:"op_ids"`
	}
	r.LoadReplay(&rp)
	data, _ := ioutil.ReadFile(r.ReplayPath)
	var meta struct {
		Key string `json:"key"`
	}
	json.Unmarshal(data, &meta)
	for _, quick := range []bool{true, false} {
		for _, s := range buildSearches(quick) {
			if s.name != rp.Search {
				continue
			}
			ok := true
			for _, oi := range rp.OpIDs {
				if oi >= len(s.ops) {
					ok = false
				}
			}
			if !ok {
				continue
			}
			var b strings.Builder
			out := s.execTagged(rp.OpIDs, &b)
			for i, oi := range rp.OpIDs {
				fmt.Printf("%2d. %s\n", i+1, s.ops[oi].name)
			}
			fmt.Print(b.String())
			reproduced := out.Err == meta.Key
			if out.Err != "" {
				fmt.Printf("VIOLATION property=C09 key=%s :: %s\n", out.Err, out.What)
			}
			for _, sv := range out.Soft {
				fmt.Printf("VIOLATION property=C09 key=%s :: %s\n", sv[0], sv[1])
				if sv[0] == meta.Key {
					reproduced = true
				}
			}
			fmt.Printf("replayed %s: recorded key %q reproduced=%v\n", s.name, meta.Key, reproduced)
			if out.Err != "" || len(out.Soft) > 0 {
				os.Exit(1)
			}
			os.Exit(0)
		}
	}
	vk.Fatalf("replay: search %q not found", rp.Search)
}
