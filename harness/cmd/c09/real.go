package main

import (
	"fmt"
	"math/big"
	"reflect"
	"sort"
	"strings"

	"verif/kv"

	"github.com/lianxiangcloud/linkchain/libs/common"
	"github.com/lianxiangcloud/linkchain/libs/crypto"
	"github.com/lianxiangcloud/linkchain/state"
	"github.com/lianxiangcloud/linkchain/types"
)

// ---- concrete values of the alphabet ----

var (
	addrs = [nAddr]common.Address{
		common.HexToAddress("0xa1000000000000000000000000000000000000a1"),
		common.HexToAddress("0xb2000000000000000000000000000000000000b2"),
	}
	toks = [nTok]common.Address{
		common.HexToAddress("0x7100000000000000000000000000000000000071"),
		common.HexToAddress("0x7200000000000000000000000000000000000072"),
	}
	skeys = [nKey]common.Hash{
		common.HexToHash("0x01"),
		common.HexToHash("0x02"),
	}
	// storage values have no leading zero byte (the repo stores them left-trimmed)
	svals  = [][]byte{{}, {0x01}, {0x02, 0x03}}
	codes  = [][]byte{nil, {0x60, 0x01}, {0x60, 0x02, 0x00}}
	thashs = []common.Hash{{}, common.HexToHash("0xee01")}
)

func tokAddr(t int) common.Address {
	if t < 0 {
		return common.EmptyAddress
	}
	return toks[t]
}

// ---- storage modes ----

var modeNames = []string{"caching-trie", "kv-trie", "kv-flat"}

// newDatabase builds the state.Database the way the repo does: state.NewDatabase (state tests, vm runtime) or
// state.NewKeyValueDBWithCache(db, _, isTrie, _) (app.NewLinkApplication, cmd init), over a MemDB with
// copying batches. cache=0: no undo-log file is opened (crash recovery is not part of this property).
func newDatabase(mode int) (state.Database, *kv.CopyDB) {
	disk := kv.NewCopyDB()
	switch mode {
	case 0:
		return state.NewDatabase(disk), disk
	case 1:
		return state.NewKeyValueDBWithCache(disk, 0, true, 0), disk
	default:
		return state.NewKeyValueDBWithCache(disk, 0, false, 0), disk
	}
}

// ---- a world of real StateDB instances ----

type world struct {
	mode   int
	db     state.Database
	disk   *kv.CopyDB
	inst   []*state.StateDB
	revs   [][]int // open snapshot ids per instance
	act    int
	height uint64
}

func newWorld(mode int) *world {
	db, disk := newDatabase(mode)
	st, err := state.New(common.EmptyHash, db)
	if err != nil {
		panic(err)
	}
	return &world{mode: mode, db: db, disk: disk, inst: []*state.StateDB{st}, revs: [][]int{nil}}
}

func (w *world) commit(st *state.StateDB) (common.Hash, error) {
	w.height++
	root, err := st.Commit(false, w.height)
	if err != nil {
		return root, err
	}
	// as app.CommitBlock does (kv-flat has no node database to flush; the app ignores that error too)
	st.Database().TrieDB().Commit(root, false)
	return root, nil
}

// applyMut applies a state-mutating letter (everything except the instance/snapshot control letters) to st.
// arg is the payload of a log.
func applyMut(st *state.StateDB, o op, arg int) {
	switch o.k {
	case kAddBal:
		st.AddBalance(addrs[o.a], big.NewInt(o.v))
	case kSubBal:
		st.SubBalance(addrs[o.a], big.NewInt(o.v))
	case kSetBal:
		st.SetBalance(addrs[o.a], big.NewInt(o.v))
	case kAddTok:
		st.AddTokenBalance(addrs[o.a], tokAddr(o.t), big.NewInt(o.v))
	case kSubTok:
		st.SubTokenBalance(addrs[o.a], tokAddr(o.t), big.NewInt(o.v))
	case kSetTok:
		st.SetTokenBalance(addrs[o.a], tokAddr(o.t), big.NewInt(o.v))
	case kSetNonce:
		st.SetNonce(addrs[o.a], uint64(o.v))
	case kSetCode:
		st.SetCode(addrs[o.a], append([]byte(nil), codes[o.v]...))
	case kSetState:
		st.SetState(addrs[o.a], skeys[o.s], append([]byte{}, svals[o.v]...))
	case kCreate:
		st.CreateAccount(addrs[o.a])
	case kSuicide:
		st.Suicide(addrs[o.a])
	case kAddLog:
		st.AddLog(&types.Log{Address: addrs[0], Data: []byte{byte(arg)}})
	case kAddRefund:
		st.AddRefund(uint64(o.v))
	case kPrepare:
		st.Prepare(thashs[o.v], common.EmptyHash, 0)
	default:
		panic("applyMut: control letter " + o.name)
	}
}

// apply executes o on the real world (arg: payload of a log).
func (w *world) apply(o op, arg int) error {
	st := w.inst[w.act]
	switch o.k {
	case kSnapshot:
		w.revs[w.act] = append(w.revs[w.act], st.Snapshot())
	case kRevert:
		st.RevertToSnapshot(w.revs[w.act][o.v])
		w.revs[w.act] = w.revs[w.act][:o.v]
	case kCopyStay, kCopySwitch:
		w.inst = append(w.inst, st.Copy())
		w.revs = append(w.revs, nil)
		if o.k == kCopySwitch {
			w.act = len(w.inst) - 1
		}
	case kSwitch:
		w.act = int(o.v)
	case kIRoot:
		st.IntermediateRoot(false)
		w.revs[w.act] = nil
	case kCommit:
		w.revs[w.act] = nil
		if _, err := w.commit(st); err != nil {
			return err
		}
	case kCommitReset:
		w.revs[w.act] = nil
		root, err := w.commit(st)
		if err != nil {
			return err
		}
		if err := st.Reset(root); err != nil {
			return err
		}
	default:
		applyMut(st, o, arg)
	}
	return nil
}

// ---- observables ----

type aobs struct {
	exist, suicided bool
	bal             string
	tok             [nTok]string
	native          string // GetTokenBalance(addr, EmptyAddress)
	tlist           string // GetTokenBalances, sorted
	nonce, credits  uint64
	code            string
	codeSize        int
	codeHash        string
	isContract      bool
	stor            [nKey]string
	empty           bool
}

type iobs struct {
	acc    [nAddr]aobs
	logs   []string // GetLogs per tx hash
	all    string   // Logs(), by index
	refund uint64
}

func logStr(l *types.Log) string {
	return fmt.Sprintf("[i%d,tx%x,d%x]", l.Index, l.TxHash[30:], l.Data)
}

// observed: accounts the getters are evaluated on. An account no letter of the running search's alphabet names
// is only asked for existence (every other getter of the repo goes through the same lookup and returns the
// zero value for a missing account; each costs a trie lookup).
type observed [nAddr]bool

func observe(st *state.StateDB, used observed) iobs {
	var o iobs
	for a := 0; a < nAddr; a++ {
		ad := addrs[a]
		x := &o.acc[a]
		x.exist = st.Exist(ad)
		if !used[a] && !x.exist {
			x.bal, x.native = "0", "0"
			for t := 0; t < nTok; t++ {
				x.tok[t] = "0"
			}
			x.codeHash = common.EmptyHash.Hex()
			x.empty = true
			continue
		}
		x.suicided = st.HasSuicided(ad)
		x.bal = st.GetBalance(ad).String()
		for t := 0; t < nTok; t++ {
			x.tok[t] = st.GetTokenBalance(ad, toks[t]).String()
		}
		x.native = st.GetTokenBalance(ad, common.EmptyAddress).String()
		tv := st.GetTokenBalances(ad)
		var l []string
		for _, e := range tv {
			l = append(l, fmt.Sprintf("%x:%s", e.TokenAddr[:1], e.Value))
		}
		sort.Strings(l)
		x.tlist = strings.Join(l, ",")
		x.nonce = st.GetNonce(ad)
		x.credits = st.GetCredits(ad)
		x.code = string(st.GetCode(ad))
		x.codeSize = st.GetCodeSize(ad)
		x.codeHash = st.GetCodeHash(ad).Hex()
		x.isContract = st.IsContract(ad)
		for k := 0; k < nKey; k++ {
			x.stor[k] = string(st.GetState(ad, skeys[k]))
		}
		x.empty = st.Empty(ad)
	}
	for _, h := range thashs {
		var b strings.Builder
		for _, l := range st.GetLogs(h) {
			b.WriteString(logStr(l))
		}
		o.logs = append(o.logs, b.String())
	}
	all := st.Logs()
	sort.Slice(all, func(i, j int) bool { return all[i].Index < all[j].Index })
	var b strings.Builder
	for _, l := range all {
		b.WriteString(logStr(l))
	}
	o.all = b.String()
	o.refund = st.GetRefund()
	return o
}

var (
	emptyCodeHashHex = crypto.Keccak256Hash(nil).Hex()
	codeHashHex      = func() []string {
		out := make([]string, len(codes))
		for i, c := range codes {
			out[i] = crypto.Keccak256Hash(c).Hex()
		}
		return out
	}()
)

// mobserve: the observables the model predicts.
func mobserve(in *minst) iobs {
	var o iobs
	for a := 0; a < nAddr; a++ {
		m := &in.acc[a]
		x := &o.acc[a]
		x.bal, x.native = "0", "0"
		for t := 0; t < nTok; t++ {
			x.tok[t] = "0"
		}
		x.codeHash = common.EmptyHash.Hex()
		x.empty = true
		if !m.exists {
			continue
		}
		x.exist = true
		x.suicided = m.suicided
		x.bal = fmt.Sprint(m.bal)
		x.native = x.bal
		var l []string
		if m.bal > 0 {
			l = append(l, fmt.Sprintf("%x:%d", common.EmptyAddress[:1], m.bal))
		}
		for t := 0; t < nTok; t++ {
			x.tok[t] = fmt.Sprint(m.tok[t])
			if m.tok[t] > 0 {
				l = append(l, fmt.Sprintf("%x:%d", toks[t][:1], m.tok[t]))
			}
		}
		sort.Strings(l)
		x.tlist = strings.Join(l, ",")
		x.nonce, x.credits = m.nonce, m.credits
		x.code = string(codes[m.code])
		x.codeSize = len(codes[m.code])
		x.codeHash = emptyCodeHashHex
		if m.code != 0 {
			x.codeHash = codeHashHex[m.code]
			x.isContract = true
		}
		for k := 0; k < nKey; k++ {
			x.stor[k] = string(svals[m.stor[k]])
		}
		x.empty = m.empty()
	}
	per := make([]strings.Builder, len(thashs))
	var all strings.Builder
	for i, l := range in.logs {
		s := fmt.Sprintf("[i%d,tx%x,d%x]", i, thashs[l.th][30:], []byte{byte(l.data)})
		per[l.th].WriteString(s)
		all.WriteString(s)
	}
	for i := range per {
		o.logs = append(o.logs, per[i].String())
	}
	o.all = all.String()
	o.refund = in.refund
	return o
}

// diff names the first observable (in a fixed order, most specific first) in which got differs from want.
func diff(got, want *iobs) (observable, detail string) {
	o, d, _ := diffA(got, want)
	return o, d
}

// diffA additionally returns the account index the difference is in (-1: logs/refund).
func diffA(got, want *iobs) (observable, detail string, acct int) {
	for a := 0; a < nAddr; a++ {
		g, w := &got.acc[a], &want.acc[a]
		an := string(rune('A' + a))
		switch {
		case g.exist != w.exist:
			return "existence", fmt.Sprintf("Exist(%s)=%v want %v", an, g.exist, w.exist), a
		case g.suicided != w.suicided:
			return "self-destruct-mark", fmt.Sprintf("HasSuicided(%s)=%v want %v", an, g.suicided, w.suicided), a
		case g.bal != w.bal:
			return "balance", fmt.Sprintf("GetBalance(%s)=%s want %s", an, g.bal, w.bal), a
		case g.native != w.native:
			return "balance", fmt.Sprintf("GetTokenBalance(%s,native)=%s want %s", an, g.native, w.native), a
		}
		for t := 0; t < nTok; t++ {
			if g.tok[t] != w.tok[t] {
				return "token-balance", fmt.Sprintf("GetTokenBalance(%s,T%d)=%s want %s", an, t+1, g.tok[t], w.tok[t]), a
			}
		}
		switch {
		case g.tlist != w.tlist:
			return "token-balance-list", fmt.Sprintf("GetTokenBalances(%s)=[%s] want [%s]", an, g.tlist, w.tlist), a
		case g.nonce != w.nonce:
			return "nonce", fmt.Sprintf("GetNonce(%s)=%d want %d", an, g.nonce, w.nonce), a
		case g.credits != w.credits:
			return "credits", fmt.Sprintf("GetCredits(%s)=%d want %d", an, g.credits, w.credits), a
		case g.code != w.code:
			return "code", fmt.Sprintf("GetCode(%s)=%x want %x", an, g.code, w.code), a
		case g.codeSize != w.codeSize:
			return "code", fmt.Sprintf("GetCodeSize(%s)=%d want %d", an, g.codeSize, w.codeSize), a
		case g.codeHash != w.codeHash:
			return "code", fmt.Sprintf("GetCodeHash(%s)=%s want %s", an, g.codeHash, w.codeHash), a
		case g.isContract != w.isContract:
			return "code", fmt.Sprintf("IsContract(%s)=%v want %v", an, g.isContract, w.isContract), a
		}
		for k := 0; k < nKey; k++ {
			if g.stor[k] != w.stor[k] {
				return "storage", fmt.Sprintf("GetState(%s,K%d)=%x want %x", an, k+1, g.stor[k], w.stor[k]), a
			}
		}
		if g.empty != w.empty {
			return "emptiness", fmt.Sprintf("Empty(%s)=%v want %v", an, g.empty, w.empty), a
		}
	}
	for i := range want.logs {
		if got.logs[i] != want.logs[i] {
			return "logs", fmt.Sprintf("GetLogs(txhash%d)=%s want %s", i, got.logs[i], want.logs[i]), -1
		}
	}
	if got.all != want.all {
		return "logs", fmt.Sprintf("Logs()=%s want %s", got.all, want.all), -1
	}
	if got.refund != want.refund {
		return "refund", fmt.Sprintf("GetRefund()=%d want %d", got.refund, want.refund), -1
	}
	return "", "", -1
}

// ---- raw account records (what is hashed into the root), for the root oracle's diagnosis and the state key ----

type rawAcct struct {
	present bool
	nonce   uint64
	credits uint64
	bal     string
	toks    map[string]string // every entry of Account.Tokens, including zero-valued ones
	root    string
	code    string
	mapID   uintptr
}

func rawOf(st *state.StateDB, a int) rawAcct {
	ac := st.GetAccount(addrs[a])
	if ac == nil {
		return rawAcct{}
	}
	r := rawAcct{present: true, nonce: ac.Nonce, credits: ac.Credits, bal: ac.Balance.String(), toks: map[string]string{},
		root: ac.Root.Hex(), code: fmt.Sprintf("%x", ac.CodeHash)}
	for k, v := range ac.Tokens {
		r.toks[fmt.Sprintf("%x", k[:1])] = v.String()
	}
	if ac.Tokens != nil {
		r.mapID = reflect.ValueOf(ac.Tokens).Pointer()
	}
	return r
}

func (r rawAcct) tokStr() string {
	ks := make([]string, 0, len(r.toks))
	for k := range r.toks {
		ks = append(ks, k)
	}
	sort.Strings(ks)
	var b strings.Builder
	for _, k := range ks {
		fmt.Fprintf(&b, "%s=%s,", k, r.toks[k])
	}
	return b.String()
}

// hidden: the part of the real world that no getter of the instances shows but that decides future roots,
// aliasing and what a later copy sees: which token entries exist in the account records (zero-valued ones
// included), which instances share one token map, and (flat key-value mode) the content of the shared
// database. Part of the state key so that states differing only there are not merged. shared[i][a] reports
// that instance i's token map of account a is also referenced by another instance.
func (w *world) hidden() (string, [][nAddr]bool) {
	var b strings.Builder
	ids := map[uintptr]int{}
	count := map[uintptr]int{}
	raws := make([][nAddr]rawAcct, len(w.inst))
	for i, st := range w.inst {
		for a := 0; a < nAddr; a++ {
			r := rawOf(st, a)
			raws[i][a] = r
			if !r.present {
				b.WriteString("-;")
				continue
			}
			cls := 0
			if r.mapID != 0 {
				count[r.mapID]++
				if c, ok := ids[r.mapID]; ok {
					cls = c
				} else {
					cls = len(ids) + 1
					ids[r.mapID] = cls
				}
			}
			fmt.Fprintf(&b, "{%s}m%d;", r.tokStr(), cls)
		}
		b.WriteString("|")
	}
	shared := make([][nAddr]bool, len(w.inst))
	for i := range raws {
		for a := 0; a < nAddr; a++ {
			shared[i][a] = raws[i][a].present && count[raws[i][a].mapID] > 1
		}
	}
	if w.mode == 2 {
		var l []string
		for _, k := range w.disk.Keys() {
			l = append(l, fmt.Sprintf("%x=%x", k, w.disk.Get(k)))
		}
		sort.Strings(l)
		b.WriteString(strings.Join(l, ","))
	}
	return b.String(), shared
}

// rawDiff names the account-record field in which the instance and its twin differ (after both were finalised).
func rawDiff(got, twin *state.StateDB, shared [nAddr]bool) (string, string) {
	for a := 0; a < nAddr; a++ {
		g, t := rawOf(got, a), rawOf(twin, a)
		an := string(rune('A' + a))
		if shared[a] && g.present && t.present && g.tokStr() != t.tokStr() {
			return "token-map-shared-with-copy", fmt.Sprintf("account %s holds token entries {%s}, twin {%s}; its token map is the very map object of another instance's account", an, g.tokStr(), t.tokStr())
		}
		if g.present != t.present {
			return "account-presence", fmt.Sprintf("account %s present=%v, twin %v", an, g.present, t.present)
		}
		if !g.present {
			continue
		}
		// token entries first: an entry that exists on one side only
		for k, v := range g.toks {
			if tv, ok := t.toks[k]; !ok {
				if v == "0" {
					return "stale-zero-token-entry", fmt.Sprintf("account %s carries a token entry %s=0 that the twin does not have (tokens {%s} vs twin {%s})", an, k, g.tokStr(), t.tokStr())
				}
				return "token-entry", fmt.Sprintf("account %s token entry %s=%s missing in twin", an, k, v)
			} else if tv != v {
				return "token-entry", fmt.Sprintf("account %s token entry %s=%s, twin %s", an, k, v, tv)
			}
		}
		for k, v := range t.toks {
			if _, ok := g.toks[k]; !ok {
				if v == "0" {
					return "lost-zero-token-entry", fmt.Sprintf("account %s lacks the token entry %s=0 that the twin has (tokens {%s} vs twin {%s})", an, k, g.tokStr(), t.tokStr())
				}
				return "token-entry", fmt.Sprintf("account %s lacks token entry %s=%s of the twin", an, k, v)
			}
		}
		switch {
		case g.nonce != t.nonce:
			return "nonce", fmt.Sprintf("account %s nonce %d, twin %d", an, g.nonce, t.nonce)
		case g.credits != t.credits:
			return "credits", fmt.Sprintf("account %s credits %d, twin %d", an, g.credits, t.credits)
		case g.bal != t.bal:
			return "balance", fmt.Sprintf("account %s balance %s, twin %s", an, g.bal, t.bal)
		case g.code != t.code:
			return "code-hash", fmt.Sprintf("account %s code hash %s, twin %s", an, g.code, t.code)
		case g.root != t.root:
			return "storage-root", fmt.Sprintf("account %s storage root %s, twin %s", an, g.root, t.root)
		}
	}
	return "written-set", "account records are equal; the set of records written since the last root differs"
}
