// C02 — honest validators vote only for fully valid blocks; committed blocks apply.
//
// One REAL ConsensusState (+ real BlockExecutor) and three puppet validators. For every height in 1..3 and
// round in 0..1 the puppet proposer of that round takes the honest block and applies ONE corruption (thorough:
// every pair) from an alphabet covering every header field, the previous-commit, the evidence list and the
// data section, re-deriving dependent hashes so that the block stays internally consistent wherever that is
// possible; application-level execution stays valid (trivial app). The corrupted block is proposed to the real
// node through handleMsg. Oracle: the node signs a non-nil prevote/precommit only for blocks that pass full
// validation (the repository's own ValidateBlock conjoined with an independent predicate); then the puppets
// supply the missing votes and the committed block must apply (no panic, no kill request, status advances).
package main

import (
	"bytes"
	"fmt"
	"math/big"
	"os"
	"os/signal"
	"sort"
	"strings"
	"sync"
	"syscall"

	"verif/csnet"
	"verif/vk"

	cs "github.com/lianxiangcloud/linkchain/consensus"
	cmn "github.com/lianxiangcloud/linkchain/libs/common"
	"github.com/lianxiangcloud/linkchain/libs/crypto"
	"github.com/lianxiangcloud/linkchain/libs/log"
	"github.com/lianxiangcloud/linkchain/libs/ser"
	"github.com/lianxiangcloud/linkchain/types"
)

type world struct {
	f      *csnet.Fixture
	self   int
	others []int
	n      *csnet.Node
	h      uint64
}

func newWorld(f *csnet.Fixture, self int) *world {
	w := &world{f: f, self: self, h: 1}
	for i := range f.Keys {
		if i != self {
			w.others = append(w.others, i)
		}
	}
	w.n = f.NewNode(self, 0)
	return w
}

func (w *world) status() cs.NewStatus { return w.n.VerifStatus() }
func (w *world) proposer(r int) int   { return w.f.ProposerAt(w.status(), r) }
func (w *world) T()                   { w.n.FireTimeout(); w.n.Drain() }
func (w *world) in(m cs.ConsensusMessage) {
	w.n.Deliver(m, "puppet")
	w.n.Drain()
}

// honestBlock: the block an honest proposer of the current height builds.
func (w *world) honestBlock(proposer int, variant uint64) (*types.Block, *types.PartSet) {
	st := w.status()
	var lc *types.Commit
	if st.LastBlockHeight > 0 {
		// a complete commit: every validator's precommit for the previous block (round of the node's seen commit)
		seen := w.n.App.Seen[st.LastBlockHeight]
		lc = &types.Commit{BlockID: st.LastBlockID}
		for i := range w.f.Keys {
			lc.Precommits = append(lc.Precommits, w.f.Vote(i, st.LastBlockHeight, seen.Round(), types.VoteTypePrecommit, st.LastBlockID))
		}
	}
	app := csnet.NewTrivApp(w.f.Vals, variant)
	for h, blk := range w.n.App.Blocks {
		app.Blocks[h] = blk
	}
	return w.f.MakeBlock(st, app, proposer, lc, nil)
}

func (w *world) propose(r, pol int, b *types.Block, ps *types.PartSet) {
	polID := types.BlockID{}
	if pol >= 0 {
		polID = types.BlockID{Hash: b.Hash(), PartsHeader: ps.Header()}
	}
	p := w.f.Proposal(w.proposer(r), w.h, r, ps.Header(), pol, polID)
	w.in(&cs.ProposalMessage{Proposal: p})
	for i := 0; i < ps.Total(); i++ {
		w.in(&cs.BlockPartMessage{Height: w.h, Round: r, Part: ps.GetPart(i)})
	}
}

func (w *world) votes(t byte, r int, id types.BlockID) {
	for _, j := range w.others {
		w.in(&cs.VoteMessage{Vote: w.f.Vote(j, w.h, r, t, id)})
	}
}

// ownVote returns the node's own vote of (round, type) at the current height, if it signed one.
func (w *world) ownVote(r int, t byte) *types.Vote {
	for _, m := range w.n.Sent {
		if vm, ok := m.(*cs.VoteMessage); ok && vm.Vote.ValidatorIndex == w.self && vm.Vote.Height == w.h && vm.Vote.Round == r && vm.Vote.Type == t {
			return vm.Vote
		}
	}
	return nil
}

type honestFailure string

// commitHonest drives one honest height to its commit at round 0.
func (w *world) commitHonest() {
	w.T() // NewHeight -> Propose
	var id types.BlockID
	if w.proposer(0) == w.self {
		pv := w.ownVote(0, types.VoteTypePrevote)
		if pv == nil {
			vk.Fatalf("own proposal was not prevoted at height %d", w.h)
		}
		id = pv.BlockID
	} else {
		b, ps := w.honestBlock(w.proposer(0), 7)
		w.propose(0, -1, b, ps)
		id = csnet.BlockID(b, ps)
	}
	w.votes(types.VoteTypePrevote, 0, id)
	w.votes(types.VoteTypePrecommit, 0, id)
	if w.n.App.Height() != w.h || w.status().LastBlockHeight != w.h {
		panic(honestFailure(fmt.Sprintf("honest height %d (proposal by its proposer, then every validator's prevote and precommit for it) did not commit: app height %d, status height %d", w.h, w.n.App.Height(), w.status().LastBlockHeight)))
	}
	w.h++
}

// toRound brings the node to (h, r) in step Propose without a proposal. With seen, the honest proposer of round r-1
// proposed its (fully valid) block there, the node validated and prevoted it, and the round ended without a polka:
// the round-r proposer then builds its proposal from THAT block (same header unless the corruption changes it).
func (w *world) toRound(r int, seen bool) bool {
	w.T() // NewHeight -> round 0 Propose
	for cur := 0; cur < r; cur++ {
		if w.proposer(cur) == w.self {
			return false // the node itself proposed in an earlier round: not a scenario of this check
		}
		if seen && cur == r-1 {
			b, ps := w.honestBlock(w.proposer(cur), 3)
			w.propose(cur, -1, b, ps)
			if pv := w.ownVote(cur, types.VoteTypePrevote); pv == nil || pv.BlockID.IsZero() {
				vk.Fatalf("h%d r%d: the node did not prevote the honest block of the earlier round", w.h, cur)
			}
		} else {
			w.T() // propose timeout -> prevote nil
		}
		w.votes(types.VoteTypePrevote, cur, types.BlockID{})
		w.votes(types.VoteTypePrecommit, cur, types.BlockID{})
		// +2/3 nil precommits: the node moves to the next round
	}
	rs := w.n.CS.GetRoundState()
	if rs.Round != r || rs.Height != w.h {
		vk.Fatalf("could not reach height %d round %d (at %d/%d/%v)", w.h, r, rs.Height, rs.Round, rs.Step)
	}
	return w.proposer(r) != w.self
}

// ---- corruptions ----

type corruption struct {
	name  string
	minH  uint64
	apply func(w *world, b *types.Block) bool // false: not applicable
}

func garbageHash(b byte) cmn.Hash { return cmn.BytesToHash(bytes.Repeat([]byte{b}, 32)) }

// rederive recomputes the dependent hashes of the header. Commit, Data and EvidenceData cache their hash, so
// the hashes are computed on fresh decoded copies of the sections (what a receiver of the block computes).
func rederive(b *types.Block) {
	defer func() { recover() }()
	if b.LastCommit != nil {
		var c *types.Commit
		if bz, err := ser.EncodeToBytes(b.LastCommit); err == nil && ser.DecodeBytes(bz, &c) == nil {
			b.LastCommitHash = c.Hash()
		}
	}
	var ev types.EvidenceData
	if bz, err := ser.EncodeToBytes(&b.Evidence); err == nil && ser.DecodeBytes(bz, &ev) == nil {
		b.EvidenceHash = ev.Hash()
	}
	if b.Data != nil {
		var d *types.Data
		if bz, err := ser.EncodeToBytes(b.Data); err == nil && ser.DecodeBytes(bz, &d) == nil {
			b.DataHash = d.Hash()
		}
	}
}

func cloneCommit(c *types.Commit) *types.Commit {
	n := &types.Commit{BlockID: c.BlockID}
	for _, v := range c.Precommits {
		if v == nil {
			n.Precommits = append(n.Precommits, nil)
		} else {
			cp := *v
			n.Precommits = append(n.Precommits, &cp)
		}
	}
	return n
}

func corruptions() []corruption {
	var cs_ []corruption
	add := func(name string, minH uint64, f func(w *world, b *types.Block) bool) {
		cs_ = append(cs_, corruption{name, minH, f})
	}
	hdr := func(name string, f func(w *world, b *types.Block)) {
		add("Header."+name, 1, func(w *world, b *types.Block) bool { f(w, b); return true })
	}
	hdr("ChainID=other", func(w *world, b *types.Block) { b.ChainID = "other-chain" })
	hdr("ChainID=empty", func(w *world, b *types.Block) { b.ChainID = "" })
	hdr("Time=0", func(w *world, b *types.Block) { b.Header.Time = 0 })
	hdr("Time+1", func(w *world, b *types.Block) { b.Header.Time++ })
	hdr("NumTxs+1", func(w *world, b *types.Block) { b.NumTxs++ })
	hdr("TotalTxs+1", func(w *world, b *types.Block) { b.TotalTxs++ })
	hdr("TotalTxs+2^32", func(w *world, b *types.Block) { b.TotalTxs += 1 << 32 })
	hdr("LastBlockID=zero", func(w *world, b *types.Block) { b.LastBlockID = types.BlockID{} })
	hdr("LastBlockID.Hash=garbage", func(w *world, b *types.Block) { b.LastBlockID.Hash = garbageHash(0x11) })
	hdr("LastBlockID.Parts.Total+1", func(w *world, b *types.Block) { b.LastBlockID.PartsHeader.Total++ })
	hdr("LastBlockID.Parts.Hash=garbage", func(w *world, b *types.Block) { b.LastBlockID.PartsHeader.Hash = bytes.Repeat([]byte{0x22}, 20) })
	hdr("Coinbase=other", func(w *world, b *types.Block) { b.Header.Coinbase = cmn.BytesToAddress([]byte{9, 9, 9}) })
	hdr("LastCommitHash=garbage", func(w *world, b *types.Block) { b.LastCommitHash = garbageHash(0x33) })
	hdr("EvidenceHash=garbage", func(w *world, b *types.Block) { b.EvidenceHash = garbageHash(0x44) })
	hdr("ValidatorsHash=garbage", func(w *world, b *types.Block) { b.ValidatorsHash = garbageHash(0x55) })
	hdr("ValidatorsHash=zero", func(w *world, b *types.Block) { b.ValidatorsHash = cmn.Hash{} })
	hdr("ConsensusHash=garbage", func(w *world, b *types.Block) { b.ConsensusHash = garbageHash(0x66) })
	hdr("ConsensusHash=zero", func(w *world, b *types.Block) { b.ConsensusHash = cmn.Hash{} })
	hdr("Recover=1", func(w *world, b *types.Block) { b.Recover = 1 })
	hdr("Recover=1+ValidatorsHash=garbage", func(w *world, b *types.Block) { b.Recover = 1; b.ValidatorsHash = garbageHash(0x77) })
	hdr("StateHash=garbage(app-level,valid)", func(w *world, b *types.Block) { b.StateHash = garbageHash(0x88) })
	hdr("GasUsed+1(app-level,valid)", func(w *world, b *types.Block) { b.Header.GasUsed++ })
	// decoded-nil components
	add("Data=nil", 1, func(w *world, b *types.Block) bool { b.Data = nil; return true })
	add("LastCommit=nil", 1, func(w *world, b *types.Block) bool { b.LastCommit = nil; return true })
	add("Header=nil", 1, func(w *world, b *types.Block) bool { b.Header = nil; return true })
	// data section
	add("Data.nil-tx-entry(counts consistent)", 1, func(w *world, b *types.Block) bool {
		b.Data.Txs = append(b.Data.Txs, nil)
		b.NumTxs++
		b.TotalTxs++
		return true
	})
	add("Data.extra-tx(NumTxs unchanged)", 1, func(w *world, b *types.Block) bool {
		b.Data.Txs = append(b.Data.Txs, mkTx(0))
		rederive(b)
		return true
	})
	add("Data.extra-tx(NumTxs+1,TotalTxs unchanged)", 1, func(w *world, b *types.Block) bool {
		b.Data.Txs = append(b.Data.Txs, mkTx(0))
		b.NumTxs++
		rederive(b)
		return true
	})
	add("Data.extra-tx(consistent)(valid)", 1, func(w *world, b *types.Block) bool {
		b.Data.Txs = append(b.Data.Txs, mkTx(0))
		b.NumTxs++
		b.TotalTxs++
		rederive(b)
		return true
	})
	add("Data.duplicate-tx(counts consistent)(valid at this level)", 1, func(w *world, b *types.Block) bool {
		b.Data.Txs = append(b.Data.Txs, mkTx(0), mkTx(0))
		b.NumTxs += 2
		b.TotalTxs += 2
		rederive(b)
		return true
	})
	add("Data.DataHash-stale", 1, func(w *world, b *types.Block) bool {
		b.Data.Txs = append(b.Data.Txs, mkTx(0))
		b.NumTxs++
		b.TotalTxs++
		return true
	})
	// previous commit (height >= 2)
	lc := func(name string, f func(w *world, b *types.Block, c *types.Commit) *types.Commit) {
		add("LastCommit."+name, 2, func(w *world, b *types.Block) bool {
			b.LastCommit = f(w, b, cloneCommit(b.LastCommit))
			rederive(b)
			return true
		})
	}
	lc("no-precommits", func(w *world, b *types.Block, c *types.Commit) *types.Commit { c.Precommits = nil; return c })
	lc("all-nil", func(w *world, b *types.Block, c *types.Commit) *types.Commit {
		for i := range c.Precommits {
			c.Precommits[i] = nil
		}
		return c
	})
	lc("only-2-of-4", func(w *world, b *types.Block, c *types.Commit) *types.Commit {
		c.Precommits[0], c.Precommits[1] = nil, nil
		return c
	})
	lc("3-of-4(valid)", func(w *world, b *types.Block, c *types.Commit) *types.Commit { c.Precommits[0] = nil; return c })
	lc("3-of-4-one-bad-signature", func(w *world, b *types.Block, c *types.Commit) *types.Commit {
		c.Precommits[0] = nil
		c.Precommits[1].Signature = crypto.SignatureEd25519FromBytes(bytes.Repeat([]byte{1}, 64))
		return c
	})
	lc("one-signature-transplanted", func(w *world, b *types.Block, c *types.Commit) *types.Commit {
		c.Precommits[0] = nil
		c.Precommits[1].Signature = c.Precommits[2].Signature
		return c
	})
	lc("votes-for-another-block", func(w *world, b *types.Block, c *types.Commit) *types.Commit {
		other := types.BlockID{Hash: garbageHash(0x99), PartsHeader: c.BlockID.PartsHeader}
		for i := range c.Precommits {
			c.Precommits[i] = w.f.Vote(i, w.h-1, c.Precommits[i].Round, types.VoteTypePrecommit, other)
		}
		return c
	})
	lc("votes-for-another-block+BlockID", func(w *world, b *types.Block, c *types.Commit) *types.Commit {
		other := types.BlockID{Hash: garbageHash(0x99), PartsHeader: c.BlockID.PartsHeader}
		for i := range c.Precommits {
			c.Precommits[i] = w.f.Vote(i, w.h-1, c.Precommits[i].Round, types.VoteTypePrecommit, other)
		}
		c.BlockID = other
		return c
	})
	lc("Commit.BlockID=other(votes genuine)", func(w *world, b *types.Block, c *types.Commit) *types.Commit {
		c.BlockID = types.BlockID{Hash: garbageHash(0x99), PartsHeader: c.BlockID.PartsHeader}
		return c
	})
	lc("mixed-rounds", func(w *world, b *types.Block, c *types.Commit) *types.Commit {
		c.Precommits[3] = w.f.Vote(3, w.h-1, 1, types.VoteTypePrecommit, c.BlockID)
		return c
	})
	lc("all-round-1(valid signatures, other round)", func(w *world, b *types.Block, c *types.Commit) *types.Commit {
		for i := range c.Precommits {
			c.Precommits[i] = w.f.Vote(i, w.h-1, 1, types.VoteTypePrecommit, c.BlockID)
		}
		return c
	})
	lc("wrong-height-votes", func(w *world, b *types.Block, c *types.Commit) *types.Commit {
		for i := range c.Precommits {
			c.Precommits[i] = w.f.Vote(i, w.h, 0, types.VoteTypePrecommit, c.BlockID)
		}
		return c
	})
	lc("prevote-typed", func(w *world, b *types.Block, c *types.Commit) *types.Commit {
		for i := range c.Precommits {
			c.Precommits[i] = w.f.Vote(i, w.h-1, 0, types.VoteTypePrevote, c.BlockID)
		}
		return c
	})
	lc("size-3", func(w *world, b *types.Block, c *types.Commit) *types.Commit {
		c.Precommits = c.Precommits[:3]
		return c
	})
	lc("size-5", func(w *world, b *types.Block, c *types.Commit) *types.Commit {
		c.Precommits = append(c.Precommits, c.Precommits[0])
		return c
	})
	lc("duplicated-slot", func(w *world, b *types.Block, c *types.Commit) *types.Commit {
		c.Precommits[0] = c.Precommits[1]
		c.Precommits[2] = c.Precommits[1]
		return c
	})
	lc("wrong-chain-signatures", func(w *world, b *types.Block, c *types.Commit) *types.Commit {
		for i := range c.Precommits {
			v := *c.Precommits[i]
			sig, _ := w.f.Keys[i].Sign(v.SignBytes("other-chain"))
			v.Signature = sig
			c.Precommits[i] = &v
		}
		return c
	})
	lc("nil-votes-for-nil-block", func(w *world, b *types.Block, c *types.Commit) *types.Commit {
		for i := range c.Precommits {
			c.Precommits[i] = w.f.Vote(i, w.h-1, 0, types.VoteTypePrecommit, types.BlockID{})
		}
		return c
	})
	// evidence (height >= 2)
	ev := func(name string, f func(w *world, b *types.Block)) {
		add("Evidence."+name, 2, func(w *world, b *types.Block) bool { f(w, b); rederive(b); return true })
	}
	fve := func(b *types.Block) *types.FaultValidatorsEvidence {
		for _, e := range b.Evidence.Evidence {
			if f, ok := e.(*types.FaultValidatorsEvidence); ok {
				cp := *f
				return &cp
			}
		}
		return nil
	}
	ev("fault-record-missing", func(w *world, b *types.Block) { b.Evidence.Evidence = nil })
	ev("two-fault-records", func(w *world, b *types.Block) { b.Evidence.Evidence = append(b.Evidence.Evidence, fve(b)) })
	ev("fault-record-wrong-proposer", func(w *world, b *types.Block) {
		f := fve(b)
		f.Proposer = w.f.Keys[(w.f.ProposerAt(w.status(), 0)+1)%4].PubKey()
		if bytes.Equal(f.Proposer.Address(), w.status().LastValidators.GetProposer().Address) {
			f.Proposer = w.f.Keys[(w.f.ProposerAt(w.status(), 0)+2)%4].PubKey()
		}
		b.Evidence.Evidence = []types.Evidence{f}
	})
	ev("fault-record-wrong-round", func(w *world, b *types.Block) {
		f := fve(b)
		f.Round = 1
		b.Evidence.Evidence = []types.Evidence{f}
	})
	ev("fault-record-wrong-height", func(w *world, b *types.Block) {
		f := fve(b)
		f.BlockHeight++
		b.Evidence.Evidence = []types.Evidence{f}
	})
	ev("fault-record-faultval-at-round0", func(w *world, b *types.Block) {
		f := fve(b)
		f.FaultVal = w.f.Keys[0].PubKey()
		b.Evidence.Evidence = []types.Evidence{f}
	})
	ev("fault-record-nil-proposer", func(w *world, b *types.Block) {
		f := fve(b)
		f.Proposer = nil
		b.Evidence.Evidence = []types.Evidence{f}
	})
	ev("bogus-duplicate-vote(unsigned)", func(w *world, b *types.Block) {
		va := *w.f.Vote(0, w.h-1, 0, types.VoteTypePrevote, types.BlockID{Hash: garbageHash(1)})
		vb := *w.f.Vote(0, w.h-1, 0, types.VoteTypePrevote, types.BlockID{Hash: garbageHash(2)})
		vb.Signature = crypto.SignatureEd25519FromBytes(bytes.Repeat([]byte{3}, 64))
		b.Evidence.Evidence = append(b.Evidence.Evidence, &types.DuplicateVoteEvidence{PubKey: w.f.Keys[0].PubKey(), VoteA: &va, VoteB: &vb})
	})
	ev("duplicate-vote-same-vote-twice", func(w *world, b *types.Block) {
		va := *w.f.Vote(0, w.h-1, 0, types.VoteTypePrevote, types.BlockID{Hash: garbageHash(1)})
		b.Evidence.Evidence = append(b.Evidence.Evidence, &types.DuplicateVoteEvidence{PubKey: w.f.Keys[0].PubKey(), VoteA: &va, VoteB: &va})
	})
	ev("genuine-duplicate-vote(valid)", func(w *world, b *types.Block) {
		va := w.f.Vote(0, w.h-1, 0, types.VoteTypePrevote, types.BlockID{Hash: garbageHash(1)})
		vb := w.f.Vote(0, w.h-1, 0, types.VoteTypePrevote, types.BlockID{Hash: garbageHash(2)})
		b.Evidence.Evidence = append(b.Evidence.Evidence, &types.DuplicateVoteEvidence{PubKey: w.f.Keys[0].PubKey(), VoteA: va, VoteB: vb})
	})
	ev("duplicate-vote-unknown-validator", func(w *world, b *types.Block) {
		k := crypto.GenPrivKeyEd25519FromSecret([]byte("stranger"))
		mk := func(h byte) *types.Vote {
			v := &types.Vote{ValidatorAddress: k.PubKey().Address(), ValidatorIndex: 0, ValidatorSize: 4, Height: w.h - 1, Round: 0, Type: types.VoteTypePrevote, BlockID: types.BlockID{Hash: garbageHash(h)}}
			sig, _ := k.Sign(v.SignBytes(csnet.ChainID))
			v.Signature = sig
			return v
		}
		b.Evidence.Evidence = append(b.Evidence.Evidence, &types.DuplicateVoteEvidence{PubKey: k.PubKey(), VoteA: mk(1), VoteB: mk(2)})
	})
	ev("duplicate-vote-nil-votes", func(w *world, b *types.Block) {
		b.Evidence.Evidence = append(b.Evidence.Evidence, &types.DuplicateVoteEvidence{PubKey: w.f.Keys[0].PubKey()})
	})
	// height-1 specific
	add("LastCommit.nonempty-at-height-1", 1, func(w *world, b *types.Block) bool {
		if b.Height != 1 {
			return false
		}
		b.LastCommit = &types.Commit{BlockID: types.BlockID{Hash: garbageHash(5)}, Precommits: []*types.Vote{w.f.Vote(0, 1, 0, types.VoteTypePrecommit, types.BlockID{Hash: garbageHash(5)})}}
		rederive(b)
		return true
	})
	add("Evidence.fault-record-at-height-1", 1, func(w *world, b *types.Block) bool {
		if b.Height != 1 {
			return false
		}
		b.Evidence.Evidence = append(b.Evidence.Evidence, &types.FaultValidatorsEvidence{BlockHeight: 0, Proposer: w.f.Keys[0].PubKey()})
		rederive(b)
		return true
	})
	add("Header.Height+1", 1, func(w *world, b *types.Block) bool { b.Header.Height++; return true })
	add("Header.Height-1", 2, func(w *world, b *types.Block) bool { b.Header.Height--; return true })
	add("none(honest block)", 1, func(w *world, b *types.Block) bool { return true })
	return cs_
}

var txKey = crypto.GenPrivKeyEd25519FromSecret([]byte("x"))

func mkTx(nonce uint64) types.Tx {
	to := cmn.BytesToAddress([]byte{7})
	return types.NewTransaction(nonce, to, big.NewInt(1), 21000, big.NewInt(1e11), nil)
}

// ---- reference predicate (independent of consensus/validation.go) ----

const recoverWhy = "recover flag set while the chain is not in recover mode"

func refValid(w *world, b *types.Block) (ok bool, why string) {
	st := w.status()
	defer func() {
		if e := recover(); e != nil {
			ok, why = false, fmt.Sprintf("malformed block (reference predicate panicked: %v)", e)
		}
	}()
	if b == nil || b.Header == nil || b.Data == nil || b.LastCommit == nil {
		return false, "missing component"
	}
	if b.ChainID != st.ChainID {
		return false, "chain id"
	}
	if b.Height != st.LastBlockHeight+1 {
		return false, "height"
	}
	if !b.LastBlockID.Equals(st.LastBlockID) {
		return false, "previous block id"
	}
	if b.NumTxs != uint64(len(b.Data.Txs)) || b.TotalTxs != st.LastBlockTotalTx+uint64(len(b.Data.Txs)) {
		return false, "transaction totals"
	}
	// Recover mode is never entered in this check (the node's own recover count is 0 throughout): a block that claims a
	// recover round is not a block of this chain state, whatever else it carries. (validateBlock itself waives the
	// validators-hash comparison for such blocks; what keeps them out is the recover-count guard at reassembly.)
	if b.Recover != 0 {
		return false, recoverWhy
	}
	if !bytes.Equal(b.ValidatorsHash.Bytes(), st.Validators.Hash()) {
		return false, "validators hash"
	}
	if !bytes.Equal(b.ConsensusHash.Bytes(), st.ConsensusParams.Hash()) {
		return false, "consensus params hash"
	}
	if b.LastCommitHash != b.LastCommit.Hash() || b.DataHash != b.Data.Hash() || b.EvidenceHash != b.Evidence.Hash() {
		return false, "internal hash consistency"
	}
	nFve := 0
	if b.Height == 1 {
		if len(b.LastCommit.Precommits) != 0 {
			return false, "previous commit at first height"
		}
	} else {
		vals := st.LastValidators
		if len(b.LastCommit.Precommits) != vals.Size() {
			return false, "previous commit size"
		}
		// > 2/3 of the previous validators' power, correctly signed precommits for exactly the previous block id,
		// at the previous height, in one common round, on this chain
		round := -1
		tally, total := new(big.Int), new(big.Int)
		for i, val := range vals.Validators {
			total.Add(total, big.NewInt(val.VotingPower))
			v := b.LastCommit.Precommits[i]
			if v == nil {
				continue
			}
			if v.Type != types.VoteTypePrecommit || v.Height != b.Height-1 {
				return false, "previous commit vote type/height"
			}
			if round == -1 {
				round = v.Round
			} else if v.Round != round {
				return false, "previous commit mixed rounds"
			}
			if !val.PubKey.VerifyBytes(v.SignBytes(st.ChainID), v.Signature) {
				return false, "previous commit signature"
			}
			if v.BlockID.Equals(st.LastBlockID) {
				tally.Add(tally, big.NewInt(val.VotingPower))
			}
		}
		// (Commit.BlockID, a redundant copy of the id the votes carry, is not part of the statement: not checked)
		if new(big.Int).Mul(tally, big.NewInt(3)).Cmp(new(big.Int).Mul(total, big.NewInt(2))) <= 0 {
			return false, "previous commit below two thirds"
		}
		// evidence: exactly one well-formed fault-validator record for the previous height/round
		for _, e := range b.Evidence.Evidence {
			switch x := e.(type) {
			case *types.FaultValidatorsEvidence:
				nFve++
				if x.BlockHeight != b.Height-1 || x.Round != round {
					return false, "fault record height/round"
				}
				exp := vals.GetProposer()
				if round == 0 {
					if x.FaultVal != nil || x.Proposer == nil || !bytes.Equal(x.Proposer.Address(), exp.Address) {
						return false, "fault record proposer"
					}
				} else {
					vs := vals.Copy()
					vs.IncrementAccum(round)
					if x.FaultVal == nil || x.Proposer == nil || !bytes.Equal(x.FaultVal.Address(), exp.Address) || !bytes.Equal(x.Proposer.Address(), vs.GetProposer().Address) {
						return false, "fault record proposer"
					}
				}
			case *types.DuplicateVoteEvidence:
				if x.VoteA == nil || x.VoteB == nil || x.PubKey == nil {
					return false, "duplicate-vote evidence malformed"
				}
				_, val := st.LastValidators.GetByAddress(x.PubKey.Address())
				if val == nil {
					return false, "duplicate-vote evidence from a non-validator"
				}
				if x.Verify(st.ChainID, val.PubKey) != nil {
					return false, "duplicate-vote evidence does not verify"
				}
			default:
				return false, "unknown evidence"
			}
		}
		if nFve != 1 && !st.LastRecover {
			return false, "fault record count"
		}
	}
	if b.Height == 1 && len(b.Evidence.Evidence) != 0 {
		// nothing can have happened before the first height
		for _, e := range b.Evidence.Evidence {
			if _, ok := e.(*types.FaultValidatorsEvidence); ok {
				return false, "fault record at first height"
			}
		}
	}
	return true, ""
}

type result struct {
	applicable             bool
	refOK, repoOK          bool
	refWhy, repoWhy        string
	prevoted, precommitted bool
	committed, applied     bool
	viol                   [2]string
	preViol                [2]string // found in the honest scripted prefix, before any corruption was proposed
	note                   string
	encodable              bool
	killed                 bool
}

var killCount int
var killMu sync.Mutex

func runCase(f *csnet.Fixture, self int, h uint64, r, pol int, seen bool, cors []corruption, vch bool) result {
	var res result
	w := newWorld(f, self)
	defer w.n.Close()
	// the scripted prefix is fully honest: if the node panics in it, or an honest height does not commit, that is a
	// finding about the node (a correct node aborted or wedged without any Byzantine input), not a harness error
	if vch && h >= 2 {
		// what the application returns from the commit of height h-1: the same validators, slots 2 and 3 with ten times the
		// power (2 of 4 slots of the old set, 20 of 22 of the new power)
		var nv []*types.Validator
		for i, v := range w.status().Validators.Validators {
			c := v.Copy()
			c.Accum = 0
			if i >= 2 {
				c.VotingPower *= 10
			}
			nv = append(nv, c)
		}
		w.n.App.NextVals[h-1] = nv
	}
	reached := false
	if p, v := vk.Catch(func() {
		for w.h < h {
			w.commitHonest()
		}
		reached = w.toRound(r, seen)
	}); p {
		txt := fmt.Sprint(v)
		if hf, ok := v.(honestFailure); ok {
			res.preViol = [2]string{"honest-height-does-not-commit", string(hf)}
		} else {
			if len(txt) > 90 {
				txt = txt[:90]
			}
			res.preViol = [2]string{"honest-run-panics-node:" + txt, fmt.Sprintf("fully honest prefix towards height %d round %d (node %d): the node panics at height %d: %v", h, r, self, w.h, v)}
		}
		return res
	}
	if !reached {
		return res
	}
	if vch && h >= 2 {
		if st := w.status(); st.Validators.TotalVotingPower() == st.LastValidators.TotalVotingPower() {
			vk.Fatalf("validator-change case at height %d is vacuous: the set in force (power %d) equals the set that committed the previous block", h, st.Validators.TotalVotingPower())
		}
	}
	base := w.proposer(r)
	if seen {
		base = w.proposer(r - 1) // the block the node validated in the earlier round is the raw material
	}
	b, _ := w.honestBlock(base, 3)
	var pristine types.Header
	if seen {
		pristine = *b.Header
	}
	var names []string
	for _, c := range cors {
		names = append(names, c.name)
		if h < c.minH {
			return res
		}
		okc := false
		if p, _ := vk.Catch(func() { okc = c.apply(w, b) }); p || !okc {
			return res // not applicable (e.g. second corruption of a component the first one removed)
		}
	}
	if seen {
		// the proposer keeps the header the node has already validated and changes only what is underneath it
		// (corruptions of header fields become the honest block again: valid, and prevoted as such)
		h := pristine
		b.Header = &h
		names = append(names, "under-the-header-validated-in-the-earlier-round")
	}
	res.applicable = true
	tag := strings.Join(names, " + ")
	var ps *types.PartSet
	if p, _ := vk.Catch(func() { ps = b.MakePartSet(w.status().ConsensusParams.BlockGossip.BlockPartSizeBytes) }); p {
		return res // cannot be encoded: cannot be proposed
	}
	res.encodable = true
	// both oracles look at the block as a receiver decodes it from the parts (no cached hashes)
	var rb *types.Block
	if _, err := ser.DecodeReader(ps.GetReader(), &rb, int64(w.status().ConsensusParams.BlockSize.MaxBytes)); err != nil {
		res.encodable = false
		return res
	}
	res.refOK, res.refWhy = refValid(w, rb)
	if p, pv := vk.Catch(func() {
		var rb2 *types.Block
		ser.DecodeReader(ps.GetReader(), &rb2, int64(w.status().ConsensusParams.BlockSize.MaxBytes))
		err := w.n.VerifBlockExec().ValidateBlock(w.status(), rb2)
		res.repoOK = err == nil
		if err != nil {
			res.repoWhy = err.Error()
		}
	}); p {
		res.repoOK, res.repoWhy = false, fmt.Sprintf("ValidateBlock panicked: %v", pv)
	}
	id := types.BlockID{Hash: rb.Hash(), PartsHeader: ps.Header()}
	killMu.Lock()
	k0 := killCount
	killMu.Unlock()
	if p, pv := vk.Catch(func() { w.propose(r, pol, b, ps) }); p {
		res.viol = [2]string{"proposal-panics-node:" + names[0] + ":" + short(pv), fmt.Sprintf("h%d r%d: proposing a block with [%s] makes the state machine panic: %v", h, r, tag, short(pv))}
		return res
	}
	pv := w.ownVote(r, types.VoteTypePrevote)
	if pv == nil {
		w.T() // propose timeout
		pv = w.ownVote(r, types.VoteTypePrevote)
	}
	res.prevoted = pv != nil && !pv.BlockID.IsZero()
	valid := res.refOK && res.repoOK
	if res.prevoted && !valid {
		why := res.refWhy
		if why == "" {
			why = res.repoWhy
		}
		res.viol = [2]string{"prevote-for-invalid-block:" + names[0], fmt.Sprintf("h%d r%d: the correct node prevotes a block with [%s] that fails full validation (%s)", h, r, tag, why)}
	}
	// (a recover-flagged block is kept out by the recover-count guard at reassembly, not by ValidateBlock: the two oracles
	// differ there by construction)
	if res.refOK != res.repoOK && res.refWhy != recoverWhy {
		res.note = fmt.Sprintf("oracle-disagreement [%s]: independent predicate valid=%v (%s), ValidateBlock valid=%v (%s)", tag, res.refOK, res.refWhy, res.repoOK, res.repoWhy)
	}
	if !res.prevoted {
		return res // every correct validator rejects it: it cannot gather a polka (the others are correct too)
	}
	// consequence: the other (correct, hence equally behaving) validators supply their votes for the block
	if p, pvv := vk.Catch(func() {
		w.votes(types.VoteTypePrevote, r, id)
		pc := w.ownVote(r, types.VoteTypePrecommit)
		res.precommitted = pc != nil && !pc.BlockID.IsZero()
		w.votes(types.VoteTypePrecommit, r, id)
	}); p {
		if res.viol[0] == "" {
			res.viol = [2]string{"commit-path-panics-node:" + names[0] + ":" + short(pvv), fmt.Sprintf("h%d r%d: after a block with [%s] gathered votes the state machine panics: %v", h, r, tag, short(pvv))}
		}
		return res
	}
	if res.precommitted && !valid && res.viol[0] == "" {
		res.viol = [2]string{"precommit-for-invalid-block:" + names[0], fmt.Sprintf("h%d r%d: precommit for a block with [%s] that fails full validation", h, r, tag)}
	}
	res.committed = w.n.App.Height() == h
	res.applied = w.status().LastBlockHeight == h
	killMu.Lock()
	res.killed = killCount != k0
	killMu.Unlock()
	if res.committed && !res.applied && res.viol[0] == "" {
		_, aerr := w.n.VerifBlockExec().ApplyBlock(w.status().Copy(), id, w.n.App.Blocks[h], nil)
		res.viol = [2]string{"committed-block-does-not-apply:" + names[0], fmt.Sprintf("h%d r%d: a block with [%s] was committed to the block store but ApplyBlock failed (%v): node wedged at status height %d, block store at %d (process kill requested)", h, r, tag, aerr, w.status().LastBlockHeight, w.n.App.Height())}
	}
	return res
}

func short(v interface{}) string {
	s := fmt.Sprint(v)
	if len(s) > 80 {
		s = s[:80]
	}
	return s
}

func main() {
	log.Root().SetHandler(log.DiscardHandler())
	// finalizeCommit asks the process to kill itself (SIGTERM) when ApplyBlock fails: latch it instead of dying
	sig := make(chan os.Signal, 64)
	signal.Notify(sig, syscall.SIGTERM)
	go func() {
		for range sig {
			killMu.Lock()
			killCount++
			killMu.Unlock()
		}
	}()
	r := vk.Start("C02", "model_checking")
	f := csnet.NewFixture([]int64{1, 1, 1, 1})
	cors := corruptions()
	type job struct {
		h    uint64
		r    int
		pol  int // proof-of-lock round the proposer claims (-1 none; an earlier round that ended in a nil polka)
		self int
		seen bool // the node validated and prevoted the honest block in round r-1; the corrupted proposal is built from it
		cs   []corruption
		vch  bool // the block at height h-1 changed the validators' powers: the set in force at h differs from the set that committed h-1
	}
	var jobs []job
	st := f.GenesisStatus()
	_ = st
	for h := uint64(1); h <= 3; h++ {
		for rd := 0; rd <= 1; rd++ {
			for self := 0; self < 4; self++ {
				for pol := -1; pol < rd; pol++ {
					for _, c := range cors {
						jobs = append(jobs, job{h, rd, pol, self, false, []corruption{c}, false})
						if rd > 0 && pol == -1 {
							jobs = append(jobs, job{h, rd, pol, self, true, []corruption{c}, false})
						}
					}
				}
			}
		}
	}
	// the same single corruptions where the previous block changed the validators' powers (heights 2..3, round 0): the last
	// commit is judged by the set that signed it, everything else by the set in force now
	for h := uint64(2); h <= 3; h++ {
		for self := 0; self < 4; self++ {
			for _, c := range cors {
				jobs = append(jobs, job{h, 0, -1, self, false, []corruption{c}, true})
			}
		}
	}
	single := len(jobs)
	// all unordered pairs: height 2 round 0 in the quick tier, every height/round in the thorough tier
	for h := uint64(1); h <= 3; h++ {
		for rd := 0; rd <= 1; rd++ {
			if r.Quick() && !(h == 2 && rd == 0) {
				continue
			}
			for _, a := range cors {
				for _, b := range cors {
					if a.name < b.name {
						jobs = append(jobs, job{h, rd, rd - 1, 3, false, []corruption{a, b}, false})
					}
				}
			}
		}
	}
	if r.ReplayPath != "" {
		var rep struct {
			Height      uint64   `json:"height"`
			Round       int      `json:"round"`
			Pol         int      `json:"pol_round"`
			Node        int      `json:"node"`
			Seen        bool     `json:"honest_block_validated_in_earlier_round"`
			Corruptions []string `json:"corruptions"`
			VCh         bool     `json:"validator_powers_changed_at_previous_height"`
		}
		r.LoadReplay(&rep)
		var sel []corruption
		for _, n := range rep.Corruptions {
			for _, c := range cors {
				if c.name == n {
					sel = append(sel, c)
				}
			}
		}
		if len(sel) != len(rep.Corruptions) {
			vk.Fatalf("replay: unknown corruption in %v", rep.Corruptions)
		}
		for i := 0; i < 5; i++ {
			res := runCase(f, rep.Node, rep.Height, rep.Round, rep.Pol, rep.Seen, sel, rep.VCh)
			fmt.Printf("replay run %d: prevoted=%v precommitted=%v committed=%v applied=%v refValid=%v repoValid=%v\n", i, res.prevoted, res.precommitted, res.committed, res.applied, res.refOK, res.repoOK)
			if res.viol[0] != "" {
				r.Violation(res.viol[0], res.viol[1], rep)
			}
			if res.preViol[0] != "" {
				r.Violation(res.preViol[0], res.preViol[1], rep)
			}
		}
		r.Finish()
	}
	var mu sync.Mutex
	done, applicable, invalidBlocks, prevotedValid, rejected := 0, 0, 0, 0, 0
	notes := map[string]bool{}
	vk.ParallelFor(len(jobs), func(i int) {
		if r.Expired() {
			return
		}
		j := jobs[i]
		res := runCase(f, j.self, j.h, j.r, j.pol, j.seen, j.cs, j.vch)
		mu.Lock()
		defer mu.Unlock()
		done++
		if res.preViol[0] != "" {
			r.Violation(res.preViol[0], res.preViol[1], map[string]interface{}{"height": j.h, "round": j.r, "pol_round": j.pol, "node": j.self, "honest_block_validated_in_earlier_round": j.seen, "corruptions": []string{}, "validator_powers_changed_at_previous_height": j.vch})
			return
		}
		if !res.applicable || !res.encodable {
			return
		}
		applicable++
		if !(res.refOK && res.repoOK) {
			invalidBlocks++
			if !res.prevoted {
				rejected++
			}
		} else if res.prevoted {
			prevotedValid++
		}
		if res.note != "" {
			notes[res.note] = true
		}
		names := []string{}
		for _, c := range j.cs {
			names = append(names, c.name)
		}
		if res.viol[0] != "" {
			r.Violation(res.viol[0], res.viol[1], map[string]interface{}{"height": j.h, "round": j.r, "pol_round": j.pol, "node": j.self, "honest_block_validated_in_earlier_round": j.seen, "corruptions": names, "validator_powers_changed_at_previous_height": j.vch})
		}
		if i%97 == 0 {
			r.Sample(map[string]interface{}{"height": j.h, "round": j.r, "corruptions": names, "reference_valid": res.refOK, "ValidateBlock_valid": res.repoOK,
				"prevoted": res.prevoted, "precommitted": res.precommitted, "committed": res.committed, "applied": res.applied})
		}
	})
	if done < len(jobs) {
		r.Capped(fmt.Sprintf("deadline: %d of %d cases", done, len(jobs)))
	}
	var ns []string
	for n := range notes {
		ns = append(ns, n)
	}
	sort.Strings(ns)
	for _, n := range ns {
		// a disagreement between the two oracles is reported as a violation of its own kind
		key := "oracle-disagreement:" + n[strings.Index(n, "[")+1:strings.Index(n, "]")]
		r.Violation(key, n, map[string]interface{}{"note": n})
	}
	killMu.Lock()
	kc := killCount
	killMu.Unlock()
	r.Set("states", 6*4)
	r.Set("transitions", done)
	r.Set("traces_validated_against_impl", applicable)
	r.Set("evaluations", done)
	r.Set("distinct_nontrivial", applicable)
	r.Set("rule", "heights 1..3 x rounds 0..1 x node position x corruption alphabet (single at every position; all pairs at height 2 round 0, thorough: at every height/round); non-trivial = the corrupted block could be encoded and proposed to the real node")
	r.Set("corruptions_in_alphabet", len(cors))
	r.Set("single_corruption_cases", single)
	r.Set("proposals_delivered", applicable)
	r.Set("invalid_blocks_proposed", invalidBlocks)
	r.Set("invalid_blocks_prevoted_nil", rejected)
	r.Set("valid_blocks_prevoted", prevotedValid)
	r.Set("process_kill_requests_latched", kc)
	r.Assume("application-level execution is kept valid by a trivial in-memory application: only consensus-level validation is decided here")
	r.Assume("the consequence part (restart after a failed ApplyBlock) is observed as 'block store ahead of status'; the restart recipe itself is exercised by C13")
	r.Assume("recover mode is never triggered")
	r.Finish()
}
