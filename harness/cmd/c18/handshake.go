package main

import (
	"bytes"
	"crypto/sha256"
	"encoding/binary"
	"fmt"

	"verif/vk"

	"github.com/lianxiangcloud/linkchain/libs/crypto"
	"github.com/lianxiangcloud/linkchain/libs/p2p/conn"
)

// ---- part 2: the handshake authenticates ----
//
// ONE real side (A: the real MakeSecretConnection with a seeded ephemeral key) talks to a SCRIPTED peer:
// the peer's bytes are the transcript a real peer produced in a recorded honest session, tampered with in
// one enumerated way. The oracle is the property's second sentence: MakeSecretConnection may return
// success only if the transcript still carries a proof of possession for the key it presents, i.e. only
// for the enumerated cases that are semantically an honest peer; those must succeed with exactly that key.
//
// The peer's two messages are delivered as two segments (a Read never spans them), like the io.Pipe the
// package's own tests use; see the note on coalesced reads in phaseHandshake.

type session struct {
	seedA, seedB uint64
	idB          string
	keyB         crypto.PrivKey
	aSegs, bSegs [][]byte
}

func (s *session) name() string {
	return fmt.Sprintf("A(eph %d)<->%s(eph %d)", s.seedA, s.idB, s.seedB)
}

func ephOf(seg0 []byte) (k [32]byte, ok bool) {
	if len(seg0) != 33 || seg0[0] != 0xa0 {
		return k, false
	}
	copy(k[:], seg0[1:])
	return k, true
}

// recordSession runs both REAL sides and records what each wrote.
func recordSession(seedA uint64, idB string, kB crypto.PrivKey, seedB uint64) (*session, error) {
	a, b, ra, rb := handshakePair(keyA, seedA, kB, seedB, true)
	if ra.err != nil || rb.err != nil {
		return nil, fmt.Errorf("A: %v, %s: %v", ra.err, idB, rb.err)
	}
	if !ra.sc.RemotePubKey().Equals(kB.PubKey()) || !rb.sc.RemotePubKey().Equals(keyA.PubKey()) {
		return nil, fmt.Errorf("remote keys are not the peers' identity keys")
	}
	return &session{seedA: seedA, seedB: seedB, idB: idB, keyB: kB, aSegs: a.out.hist, bSegs: b.out.hist}, nil
}

// frame is the scripted peer's own framing of a plaintext (version00|compress header + snappy block).
func frame(plain []byte) []byte {
	body := conn.VerifC18SnappyEncode(plain)
	out := make([]byte, 5+len(body))
	out[0] = 0xFF
	binary.BigEndian.PutUint32(out[1:], uint32(len(body)))
	copy(out[5:], body)
	return out
}

// unframe is the harness's own reading of one frame: the plaintext, or nil if it is not a well-formed
// compress-mode frame followed by nothing.
func unframe(raw []byte) []byte {
	if len(raw) < 5 || raw[0] != 0xFF {
		return nil
	}
	n := binary.BigEndian.Uint32(raw[1:5])
	if uint64(n) != uint64(len(raw)-5) {
		return nil
	}
	if hdr, k := binary.Uvarint(raw[5:]); k <= 0 || hdr > 1<<16 {
		return nil // declared length absurd: do not even try
	}
	p, err := conn.VerifC18SnappyDecode(raw[5:])
	if err != nil {
		return nil
	}
	return p
}

func challengeOf(x, y [32]byte) []byte {
	lo, hi := x, y
	if bytes.Compare(lo[:], hi[:]) >= 0 {
		lo, hi = y, x
	}
	h := sha256.Sum256(append(append([]byte{}, lo[:]...), hi[:]...))
	return h[:]
}

type hsCase struct {
	class  string   // tamper class (part of the violation key)
	detail string   // which instance
	seedA  uint64   // A's ephemeral seed
	segs   [][]byte // what the peer sends
	// expectation: nil = the transcript carries no valid proof -> MakeSecretConnection must fail;
	// non-nil = semantically an honest peer with this key -> must succeed with this key.
	okKey    crypto.PubKey
	loopback bool // the peer echoes every segment A writes
	// either: the outcome is decided by the harness's own reading of the bytes (raw flips)
	either bool
}

type hsOutcome struct {
	res hsResult
}

// runScript runs the real A against the scripted peer.
func runScript(c *hsCase) hsOutcome {
	a, b := newConnPair()
	if c.loopback {
		a.in = a.out // whatever A writes is what A reads, segment by segment
		res := makeSecret(a, keyA, c.seedA)
		a.Close()
		return hsOutcome{res: res}
	}
	for _, s := range c.segs {
		b.out.write(s)
	}
	b.out.close() // after the script: EOF
	res := makeSecret(a, keyA, c.seedA)
	a.Close()
	return hsOutcome{res: res}
}

func judge(r *vk.Run, c *hsCase, o hsOutcome, counts map[string]int) {
	replay := map[string]interface{}{"part": "handshake", "tamper": c.class, "instance": c.detail, "A_eph_seed": c.seedA, "peer_segments_hex": hexAll(c.segs)}
	outcome := "rejected"
	switch {
	case o.res.panic != nil:
		outcome = "panic"
		r.Violation("handshake:panic:"+c.class, fmt.Sprintf("MakeSecretConnection panics on tampered transcript (%s, %s): %v", c.class, c.detail, o.res.panic), replay)
	case o.res.err == nil:
		outcome = "accepted"
		got := o.res.sc.RemotePubKey()
		if c.okKey == nil {
			r.Violation("handshake:accepted:"+c.class, fmt.Sprintf("MakeSecretConnection succeeds (remote key %v) although the peer's transcript (%s, %s) carries no proof of possession for that key", got, c.class, c.detail), replay)
		} else if got == nil || !got.Equals(c.okKey) {
			r.Violation("handshake:wrong-remote-key:"+c.class, fmt.Sprintf("RemotePubKey() = %v, the peer proved possession of %v (%s, %s)", got, c.okKey, c.class, c.detail), replay)
		}
	default:
		if c.okKey != nil && !c.either {
			r.Violation("handshake:honest-peer-rejected:"+c.class, fmt.Sprintf("MakeSecretConnection fails with %q for a peer that proves possession of its key (%s, %s)", o.res.err, c.class, c.detail), replay)
		}
	}
	counts[c.class+"/"+outcome]++
}

func hexAll(segs [][]byte) []string {
	out := make([]string, len(segs))
	for i, s := range segs {
		out[i] = fmt.Sprintf("%x", s)
	}
	return out
}

var flipMasks = []byte{0x01, 0x02, 0x04, 0x08, 0x10, 0x20, 0x40, 0x80, 0xff}

func phaseHandshake(r *vk.Run) {
	// ---- recorded honest sessions ----
	seedsA := []uint64{21, 23}
	seedsB := []uint64{22, 24, 26}
	var sess []*session
	for _, sa := range seedsA {
		for _, sb := range seedsB {
			s, err := recordSession(sa, "B", keyB, sb)
			if err != nil {
				r.Violation("handshake:honest-peer-rejected:plain", "honest handshake between two real sides fails: "+err.Error(), map[string]interface{}{"part": "handshake", "session": fmt.Sprintf("A(%d) B(%d)", sa, sb)})
				return
			}
			if len(s.aSegs) != 2 || len(s.bSegs) != 2 {
				vk.Fatalf("handshake: a side wrote %d/%d segments, the scripted peer models 2 (ephemeral key, auth frame)", len(s.aSegs), len(s.bSegs))
			}
			sess = append(sess, s)
		}
	}
	contexts := sess
	if r.Quick() {
		contexts = []*session{sess[0], sess[4]}
	}
	var cases []*hsCase
	add := func(c *hsCase) { cases = append(cases, c) }
	cp := func(b []byte) []byte { return append([]byte{}, b...) }

	// ---- transcript-only tampers (no model of the message format needed) ----
	for _, x := range contexts {
		ctx := x.name()
		// control: the recorded transcript itself
		add(&hsCase{class: "none", detail: ctx, seedA: x.seedA, segs: x.bSegs, okKey: keyB.PubKey()})
		// ephemeral key: every single-bit flip and whole-byte inversion
		for i := 1; i < len(x.bSegs[0]); i++ {
			for _, m := range flipMasks {
				s0 := cp(x.bSegs[0])
				s0[i] ^= m
				add(&hsCase{class: "ephemeral-key-flip", detail: fmt.Sprintf("%s byte %d ^%#x", ctx, i, m), seedA: x.seedA, segs: [][]byte{s0, x.bSegs[1]}})
			}
		}
		// messages replayed from other sessions
		for _, y := range sess {
			if y == x {
				continue
			}
			add(&hsCase{class: "replayed-auth-message", detail: fmt.Sprintf("%s: auth frame recorded in %s", ctx, y.name()), seedA: x.seedA, segs: [][]byte{x.bSegs[0], y.bSegs[1]}})
			if y.seedA != x.seedA {
				add(&hsCase{class: "replayed-session", detail: fmt.Sprintf("%s: both peer messages recorded in %s", ctx, y.name()), seedA: x.seedA, segs: y.bSegs})
			}
			if y.seedB != x.seedB {
				add(&hsCase{class: "replayed-ephemeral-key", detail: fmt.Sprintf("%s: ephemeral key recorded in %s", ctx, y.name()), seedA: x.seedA, segs: [][]byte{y.bSegs[0], x.bSegs[1]}})
			}
		}
		// reflection: the peer echoes A's own messages back. A's messages are deterministic (fixed key, seeded
		// ephemeral key), so the recorded A transcript of this session is what A sends when the peer uses B's
		// recorded ephemeral key; the full echo needs a live loop-back (A's challenge then covers its own key twice).
		add(&hsCase{class: "reflected-auth-message", detail: ctx + ": peer sends an ephemeral key of its own and echoes A's auth frame", seedA: x.seedA, segs: [][]byte{x.bSegs[0], x.aSegs[1]}})
		add(&hsCase{class: "reflected-auth-message", detail: ctx + ": peer echoes every byte A sends (loop-back)", seedA: x.seedA, loopback: true})
		add(&hsCase{class: "reflected-ephemeral-key", detail: ctx + ": peer echoes A's ephemeral key, sends its own auth frame", seedA: x.seedA, segs: [][]byte{x.aSegs[0], x.bSegs[1]}})
		// truncation at every byte
		all := append(cp(x.bSegs[0]), x.bSegs[1]...)
		for k := 0; k < len(all); k++ {
			var segs [][]byte
			if k <= len(x.bSegs[0]) {
				segs = [][]byte{all[:k]}
			} else {
				segs = [][]byte{x.bSegs[0], all[len(x.bSegs[0]):k]}
			}
			add(&hsCase{class: "truncated", detail: fmt.Sprintf("%s: first %d of %d bytes", ctx, k, len(all)), seedA: x.seedA, segs: segs})
		}
		// raw flips of the auth frame: accepted only if the harness's own reading still yields the honest plaintext
		honest := unframe(x.bSegs[1])
		for i := 0; i < len(x.bSegs[1]); i++ {
			for _, m := range flipMasks {
				s1 := cp(x.bSegs[1])
				s1[i] ^= m
				c := &hsCase{class: "auth-frame-byte-flip", detail: fmt.Sprintf("%s raw byte %d ^%#x", ctx, i, m), seedA: x.seedA, segs: [][]byte{x.bSegs[0], s1}}
				if p := unframe(s1); p != nil && honest != nil && bytes.Equal(p, honest) {
					c.okKey, c.either = keyB.PubKey(), true
				}
				add(c)
			}
		}
		// hostile frame headers in front of the honest body (C11 byte set: every leading byte, boundary lengths)
		body := x.bSegs[1][5:]
		for lead := 0; lead < 256; lead++ {
			if lead == 0xFF {
				continue
			}
			s1 := cp(x.bSegs[1])
			s1[0] = byte(lead)
			add(&hsCase{class: "auth-frame-header", detail: fmt.Sprintf("%s leading byte %#x", ctx, lead), seedA: x.seedA, segs: [][]byte{x.bSegs[0], s1}})
		}
		for _, n := range []uint32{0, 1, uint32(len(body)) - 1, uint32(len(body)) + 1, 65529, 65530, 65531, 65535, 65536, 0x7fffffff, 0x80000000, 0xffffffff} {
			s1 := cp(x.bSegs[1])
			binary.BigEndian.PutUint32(s1[1:], n)
			add(&hsCase{class: "auth-frame-header", detail: fmt.Sprintf("%s length field %d (body %d)", ctx, n, len(body)), seedA: x.seedA, segs: [][]byte{x.bSegs[0], s1}})
		}
	}
	nTranscriptOnly := len(cases)

	// ---- tampers built with the harness's model of the message (scripted attacker) ----
	modelOK := true
	for _, x := range contexts {
		ctx := x.name()
		ephA, ok1 := ephOf(x.aSegs[0])
		ephB, ok2 := ephOf(x.bSegs[0])
		honest := unframe(x.bSegs[1])
		if !ok1 || !ok2 || honest == nil {
			modelOK = false
			break
		}
		ch := challengeOf(ephA, ephB)
		sigB, _ := keyB.Sign(ch)
		sigC, _ := keyC.Sign(ch)
		enc := func(k crypto.PubKey, s crypto.Signature) []byte {
			bz, err := conn.VerifC18EncodeAuthSig(k, s)
			if err != nil {
				vk.Fatalf("handshake: cannot encode a scripted auth message: %v", err)
			}
			return bz
		}
		if !bytes.Equal(enc(keyB.PubKey(), sigB), honest) || !bytes.Equal(frame(honest), x.bSegs[1]) {
			modelOK = false
			break
		}
		mk := func(class, detail string, plain []byte, ok crypto.PubKey) {
			add(&hsCase{class: class, detail: ctx + ": " + detail, seedA: x.seedA, segs: [][]byte{x.bSegs[0], frame(plain)}, okKey: ok})
		}
		// a different identity proving possession of ITS key is an honest peer
		mk("none", "peer C signs with its own key", enc(keyC.PubKey(), sigC), keyC.PubKey())
		secp := crypto.GenPrivKeySecp256k1FromSecret([]byte("c18-S"))
		sigS, _ := secp.Sign(ch)
		mk("none", "secp256k1 peer signs with its own key", enc(secp.PubKey(), sigS), secp.PubKey())
		mk("signature-of-another-key", "key B, signature by C", enc(keyB.PubKey(), sigC), nil)
		mk("key-is-not-the-signer", "key C, signature by B", enc(keyC.PubKey(), sigB), nil)
		mk("key-is-not-the-signer", "key A (the local key), signature by B", enc(keyA.PubKey(), sigB), nil)
		mk("signature-of-another-key", "ed25519 key B, secp256k1 signature", enc(keyB.PubKey(), sigS), nil)
		mk("signature-of-another-key", "secp256k1 key, ed25519 signature by B", enc(secp.PubKey(), sigB), nil)
		mk("nil-key", "nil key, signature by B", enc(nil, sigB), nil)
		mk("nil-signature", "key B, nil signature", enc(keyB.PubKey(), nil), nil)
		mk("nil-key", "nil key, nil signature", enc(nil, nil), nil)
		// signatures over something else than this session's challenge
		for _, wm := range []struct {
			what string
			msg  []byte
		}{{"the local ephemeral key", ephA[:]}, {"the peer's ephemeral key", ephB[:]}, {"hi||lo instead of lo||hi", nil}, {"the empty message", []byte{}}} {
			what, msg := wm.what, wm.msg
			if msg == nil {
				lo, hi := ephA, ephB
				if bytes.Compare(lo[:], hi[:]) >= 0 {
					lo, hi = ephB, ephA
				}
				h := sha256.Sum256(append(append([]byte{}, hi[:]...), lo[:]...))
				msg = h[:]
			}
			s, _ := keyB.Sign(msg)
			mk("signature-over-wrong-challenge", "key B signs "+what, enc(keyB.PubKey(), s), nil)
		}
		// every single-bit flip of the plaintext auth message, framed afresh
		for i := 0; i < len(honest); i++ {
			for _, m := range flipMasks {
				p := cp(honest)
				p[i] ^= m
				mk("auth-message-byte-flip", fmt.Sprintf("plaintext byte %d ^%#x", i, m), p, nil)
			}
		}
		// the honest auth message cut into two frames at every position (peer-side write chunking): still honest
		for k := 1; k < len(honest); k++ {
			add(&hsCase{class: "none", detail: fmt.Sprintf("%s: honest auth message written as two frames (%d+%d bytes)", ctx, k, len(honest)-k), seedA: x.seedA,
				segs: [][]byte{x.bSegs[0], frame(honest[:k]), frame(honest[k:])}, okKey: keyB.PubKey()})
		}
		// trailing garbage after an honest message must not turn a proof into a different identity
		add(&hsCase{class: "none", detail: ctx + ": honest auth message followed by extra bytes in the same frame", seedA: x.seedA,
			segs: [][]byte{x.bSegs[0], frame(append(cp(honest), 0x00, 0x01, 0x02))}, okKey: keyB.PubKey(), either: true})
	}

	counts := map[string]int{}
	run := func(lo, hi int) {
		outs := make([]hsOutcome, hi-lo)
		vk.ParallelFor(hi-lo, func(i int) { outs[i] = runScript(cases[lo+i]) })
		for i := range outs { // judged in enumeration order: the first replay kept per key is deterministic
			judge(r, cases[lo+i], outs[i], counts)
		}
	}
	run(0, nTranscriptOnly)
	if !modelOK {
		if r.NViolations() == 0 {
			vk.Fatalf("handshake: the harness's model of the peer messages (sha256(lo||hi) challenge, auth message encoding, frame) does not reproduce the recorded honest transcript")
		}
		r.Note("handshake: scripted-attacker cases skipped: the recorded honest transcript is not what the message model predicts (see violations)")
	} else {
		run(nTranscriptOnly, len(cases))
	}

	// ---- observation (outside the statement): coalesced delivery of the peer's two messages ----
	{
		x := sess[0]
		c := &hsCase{class: "none", seedA: x.seedA, segs: [][]byte{append(cp(x.bSegs[0]), x.bSegs[1]...)}}
		o := runScript(c)
		r.Set("observation_honest_handshake_when_both_peer_messages_arrive_in_one_read", fmt.Sprintf("err=%v (shareEphPubKey decodes through a throw-away bufio.Reader, see detection/C18.md)", o.res.err))
	}

	// ---- observation (cryptographic, outside the bound): the neutral-element ed25519 key ----
	if modelOK {
		x := sess[0]
		var weak crypto.PubKeyEd25519
		var sig crypto.SignatureEd25519
		weak[0], sig[0] = 1, 1 // A = R = the neutral element, S = 0: verifies for every message in x/crypto's ed25519
		bz, err := conn.VerifC18EncodeAuthSig(weak, sig)
		if err == nil {
			o := runScript(&hsCase{class: "none", seedA: x.seedA, segs: [][]byte{x.bSegs[0], frame(bz)}})
			r.Set("observation_small_order_ed25519_key_with_fixed_signature", fmt.Sprintf("err=%v (a key nobody holds a private key for; property of the signature library, not counted)", o.res.err))
		}
	}

	classes := map[string]bool{}
	accepted, rejected := 0, 0
	for k, n := range counts {
		classes[k] = true
		if len(k) > 9 && k[len(k)-9:] == "/accepted" {
			accepted += n
		} else {
			rejected += n
		}
	}
	r.Set("handshake_cases", len(cases))
	r.Set("handshake_outcomes_by_class", counts)
	r.Set("handshake_sessions_recorded", len(sess))
	r.Set("handshake_accepted", accepted)
	r.Set("handshake_rejected", rejected)
	r.Add("transitions", len(cases))
	r.Add("states", len(classes))
	fmt.Printf("handshake: cases=%d accepted=%d rejected/other=%d classes=%d\n", len(cases), accepted, rejected, len(classes))
}
