package main

import (
	"errors"
	"fmt"
	"io"
	"net"
	"sync"
	"time"

	"verif/vk"
)

// ---- the harness connection ----
//
// A wire is ONE direction of a connection: an unbounded queue of bytes written by one endpoint and read
// by the other. Its Read answers are the environment of the code under test:
//
//   segment mode (coalesce=false): a Read returns bytes of ONE Write only (like io.Pipe, which the
//       package's own tests use); it blocks while nothing is queued. Used while both real sides of a
//       handshake run freely, and for scripted peers.
//   stream mode (coalesce=true): the queue is a byte stream (like TCP). The default answer is the full
//       read min(len(p), available); every shorter answer out of shortAlts() is a deviation of cost 1
//       taken when the Chooser says so. With nonblock=true a Read on an empty queue returns
//       errWouldBlock (single-threaded stepping: the harness only reads when the model says bytes are
//       outstanding, so this means the implementation asked for more than was written). With
//       nonblock=false it blocks and REPORTS that it is blocked, so the harness knows the reading
//       goroutine is quiescent without any wall-clock wait.

var errWouldBlock = errors.New("c18-harness: read on an empty wire (more bytes requested than were ever written)")
var errClosed = errors.New("c18-harness: wire closed")

type wire struct {
	mu   sync.Mutex
	cond *sync.Cond

	segs   [][]byte // queued segments (one per Write), head first
	queued int      // total queued bytes
	closed bool

	coalesce bool
	nonblock bool
	ch       *vk.Chooser

	blocked bool // a reader waits in Read on an empty queue
	hist    [][]byte
	record  bool

	reads, short int
	devlog       []string
}

func newWire() *wire {
	w := &wire{}
	w.cond = sync.NewCond(&w.mu)
	return w
}

// shortAlts lists the deviating answers to a read whose default answer is full bytes.
func shortAlts(full int) []int {
	if full <= 1 {
		return nil
	}
	if full <= 8 {
		out := make([]int, 0, full-1)
		for k := 1; k < full; k++ {
			out = append(out, k)
		}
		return out
	}
	return []int{1, full / 2, full - 1}
}

func (w *wire) write(p []byte) (int, error) {
	w.mu.Lock()
	defer w.mu.Unlock()
	if w.closed {
		return 0, errClosed
	}
	if len(p) == 0 {
		return 0, nil
	}
	cp := append([]byte(nil), p...)
	w.segs = append(w.segs, cp)
	w.queued += len(cp)
	if w.record {
		w.hist = append(w.hist, cp)
	}
	w.cond.Broadcast()
	return len(p), nil
}

func (w *wire) read(p []byte) (int, error) {
	w.mu.Lock()
	defer w.mu.Unlock()
	for w.queued == 0 {
		if w.closed {
			return 0, io.EOF
		}
		if w.nonblock {
			return 0, errWouldBlock
		}
		w.blocked = true
		w.cond.Broadcast()
		w.cond.Wait()
	}
	w.blocked = false
	if len(p) == 0 {
		return 0, nil
	}
	w.reads++
	if !w.coalesce {
		n := copy(p, w.segs[0])
		w.consume(n)
		return n, nil
	}
	full := len(p)
	if w.queued < full {
		full = w.queued
	}
	n := full
	if w.ch != nil {
		alts := shortAlts(full)
		costs := make([]int, 1+len(alts))
		for i := range alts {
			costs[i+1] = 1
		}
		if k := w.ch.Choose(costs); k > 0 {
			n = alts[k-1]
			w.short++
			w.devlog = append(w.devlog, devString(w.reads, len(p), full, n))
		}
	}
	got := 0
	for got < n {
		c := copy(p[got:n], w.segs[0])
		w.consume(c)
		got += c
	}
	return n, nil
}

func devString(read, want, full, got int) string {
	return fmt.Sprintf("raw read #%d (buffer %d, full answer %d) answered with %d bytes", read, want, full, got)
}

func (w *wire) consume(n int) {
	w.queued -= n
	if n == len(w.segs[0]) {
		w.segs[0] = nil
		w.segs = w.segs[1:]
	} else {
		w.segs[0] = w.segs[0][n:]
	}
}

// take removes and returns the first n queued bytes (harness-side transfer between wires).
func (w *wire) take(n int) []byte {
	w.mu.Lock()
	defer w.mu.Unlock()
	if n > w.queued {
		n = w.queued
	}
	out := make([]byte, 0, n)
	for len(out) < n {
		c := min(n-len(out), len(w.segs[0]))
		out = append(out, w.segs[0][:c]...)
		w.consume(c)
	}
	return out
}

func (w *wire) close() {
	w.mu.Lock()
	w.closed = true
	w.cond.Broadcast()
	w.mu.Unlock()
}

// waitBlocked returns when a reader is blocked on the empty queue (quiescent) or the wire is closed.
func (w *wire) waitBlocked() {
	w.mu.Lock()
	for !(w.blocked && w.queued == 0) && !w.closed {
		w.cond.Wait()
	}
	w.mu.Unlock()
}

func (w *wire) pending() int {
	w.mu.Lock()
	defer w.mu.Unlock()
	return w.queued
}

func (w *wire) setStream(nonblock bool, ch *vk.Chooser) {
	w.mu.Lock()
	w.coalesce, w.nonblock, w.ch = true, nonblock, ch
	w.mu.Unlock()
}

// endpoint is one side of a harness connection; it implements net.Conn.
type endpoint struct {
	in, out *wire
	name    string
}

func newConnPair() (a, b *endpoint) {
	ab, ba := newWire(), newWire()
	return &endpoint{in: ba, out: ab, name: "A"}, &endpoint{in: ab, out: ba, name: "B"}
}

type addr string

func (a addr) Network() string { return "c18" }
func (a addr) String() string  { return string(a) }

func (e *endpoint) Read(p []byte) (int, error)  { return e.in.read(p) }
func (e *endpoint) Write(p []byte) (int, error) { return e.out.write(p) }
func (e *endpoint) Close() error {
	e.in.close()
	e.out.close()
	return nil
}
func (e *endpoint) LocalAddr() net.Addr                { return addr("local-" + e.name) }
func (e *endpoint) RemoteAddr() net.Addr               { return addr("remote-" + e.name) }
func (e *endpoint) SetDeadline(t time.Time) error      { return nil }
func (e *endpoint) SetReadDeadline(t time.Time) error  { return nil }
func (e *endpoint) SetWriteDeadline(t time.Time) error { return nil }
