// C18 — peer connections deliver each channel's messages intact, in order, authenticated.
//
// Five parts, all on the real code of libs/p2p/conn and libs/p2p (see the file of each part):
//
//	stream    SecretConnection Write/Read byte stream; the raw connection's Read answers are the environment
//	          (deviation-bounded exhaustive exploration of short reads) x write sequences x read-size patterns
//	handshake MakeSecretConnection against a scripted peer: every enumerated tampering of the peer's messages
//	mconn     explicit-state search over send/step/flush/deliver events of a stepped sending MConnection and a
//	          real receiving MConnection (its own recvRoutine on a wire that reports "blocked in Read")
//	stack     MConnection over SecretConnection over the raw wire (what peer.go builds) under short raw reads
//	peer      the production inbound-peer path of the Switch: the NodeInfo key vs the authenticated key
package main

import (
	"fmt"
	"os"
	"runtime"
	"runtime/debug"

	"verif/vk"

	"github.com/lianxiangcloud/linkchain/libs/log"
	"github.com/lianxiangcloud/linkchain/libs/p2p/conn"
)

func main() {
	log.Root().SetHandler(log.DiscardHandler())
	installDetRand()
	debug.SetGCPercent(400) // executions allocate and drop 32 KiB frames and 100 KiB buffers; trade memory for GC time
	r := vk.Start("C18", "model_checking")
	if r.ReplayPath != "" {
		vk.Fatalf("replay: a C18 replay file names the part, the configuration/events and the deviations (choice list); the check is deterministic, re-run it to reproduce")
	}
	if v, t := conn.VerifC18FrameMode(); v != 0xF0 || t != 0x0F {
		vk.Fatalf("compiled-in frame mode is %#x|%#x; the harness's scripted peer speaks version00|compress (the property fixes the compiled-in default)", v, t)
	}
	g0 := runtime.NumGoroutine()
	only := os.Getenv("C18_ONLY") // development aid: run one part
	if only == "" || only == "handshake" {
		phaseHandshake(r)
	}
	if only == "" || only == "peer" {
		phasePeer(r)
	}
	if only == "" || only == "stream" {
		phaseStream(r)
	}
	if only == "" || only == "mconn" {
		phaseMconn(r)
	}
	if only == "" || only == "stack" { // after mconn: the event search yields the shorter replay for a shared key
		phaseStack(r)
	}
	if only != "" {
		r.Capped("C18_ONLY=" + only + ": only one part was run")
	}
	runtime.GC()
	r.Set("goroutines_start_end", []int{g0, runtime.NumGoroutine()})
	trans := r.Get("transitions")
	r.Set("traces_validated_against_impl", trans)
	r.Set("evaluations", trans)
	r.Set("distinct_nontrivial", r.Get("states"))
	r.Set("rule", "every transition is executed on the real code and compared with a plain Go reference (byte-stream prefix model, per-channel message lists, expected accept/reject per tamper class). "+
		"states = executions of the deviation searches (stream, stack) + distinct canonical states of the event search (mconn) + distinct (tamper class, outcome) pairs (handshake, peer); "+
		"transitions = Read/Write calls (stream) + choice points (stack) + event-search transitions (mconn) + tamper cases (handshake, peer)")
	r.Assume("the frame mode is the compiled-in default (version00|compress); sealed and raw frames are never produced (the property says the same)")
	r.Assume("cryptographic hardness (ed25519, curve25519, SHA-256) is trusted; ephemeral keys are drawn from a seeded stream substituted for crypto/rand.Reader")
	r.Assume("stream part: every execution starts from a deep copy of the state produced once by a real two-sided handshake; all other parts run a fresh real handshake per execution")
	r.Assume("handshake part: the peer's two messages arrive as two segments (a raw Read never spans both), like the io.Pipe of the package's tests; coalesced arrival is reported as an observation only")
	r.Assume("mconn part: the sending MConnection is not started; its core is stepped through hooks calling trySendBytes, sendPacketMsg, sendSomePacketMsgs, flush, updateStats; the select/timer glue of sendRoutine, ping/pong and flow-rate throttling are outside the bound (timers are configured to hours)")
	r.Assume("a short write is not an environment answer (io.Writer forbids it without an error); write chunking is modelled as partial availability at the reader, i.e. short reads")
	r.Assume("peer part: a Switch built by a hook with the fields NewP2pManager sets (no listener, no discovery table, not started) runs the production addInboundPeerWithConfig")
	fmt.Printf("C18 states=%d transitions=%d\n", r.Get("states"), trans)
	r.Finish()
}
