// C18 — peer connections deliver each channel's messages intact, in order, authenticated.
package main

import (
	"fmt"
	"os"
	"runtime/debug"

	"verif/vk"

	"github.com/lianxiangcloud/linkchain/libs/log"
	"github.com/lianxiangcloud/linkchain/libs/p2p/conn"
)

func main() {
	log.Root().SetHandler(log.DiscardHandler())
	installDetRand()
	debug.SetGCPercent(400) // executions allocate and drop 32 KiB frames; trade some memory for GC time
	r := vk.Start("C18", "model_checking")
	if r.ReplayPath != "" {
		vk.Fatalf("replay: the replay file names the part, configuration and deviations; re-run the check to reproduce")
	}
	if v, t := conn.VerifC18FrameMode(); v != 0xF0 || t != 0x0F {
		vk.Fatalf("compiled-in frame mode is %#x|%#x, the harness models version00|compress (the property fixes the default mode)", v, t)
	}
	only := os.Getenv("C18_ONLY")
	if only == "" || only == "stream" {
		phaseStream(r)
	}
	if only == "" || only == "handshake" {
		phaseHandshake(r)
	}
	if only == "" || only == "mconn" {
		phaseMconn(r)
	}
	if only == "" || only == "stack" {
		phaseStack(r)
	}
	if only == "" || only == "peer" {
		phasePeer(r)
	}
	fmt.Println("done")
	r.Finish()
}
