package main

import (
	"encoding/hex"
	"fmt"
	"time"

	"github.com/lianxiangcloud/linkchain/libs/log"
	"github.com/lianxiangcloud/linkchain/libs/p2p/conn"
)

func main() {
	log.Root().SetHandler(log.DiscardHandler())
	installDetRand()
	v, t := conn.VerifC18FrameMode()
	fmt.Printf("mode %x %x\n", v, t)
	a, b, ra, rb := handshakePair(keyA, 1, keyB, 2, true)
	fmt.Println(ra.err, rb.err)
	for _, s := range a.out.hist {
		fmt.Println("A:", len(s), hex.EncodeToString(s))
	}
	for _, s := range b.out.hist {
		fmt.Println("B:", len(s), hex.EncodeToString(s))
	}
	fmt.Println(ra.sc.RemotePubKey().Equals(keyB.PubKey()), rb.sc.RemotePubKey().Equals(keyA.PubKey()))
	t0 := time.Now()
	for i := 0; i < 1000; i++ {
		handshakePair(keyA, 1, keyB, 2, false)
	}
	fmt.Println("handshake pair:", time.Since(t0)/1000)
	for _, c := range [][2]interface{}{} {
		_ = c
	}
	bz, err := conn.VerifC18EncodeAuthSig(nil, nil)
	fmt.Println("nil/nil", hex.EncodeToString(bz), err)
	sig, _ := keyB.Sign([]byte("x"))
	bz, err = conn.VerifC18EncodeAuthSig(keyB.PubKey(), sig)
	fmt.Println("B", hex.EncodeToString(bz), err)
	bz, err = conn.VerifC18EncodeAuthSig(nil, sig)
	fmt.Println("nil key", hex.EncodeToString(bz), err)
}
