package main

import (
	"fmt"
	"sync"

	"verif/vk"

	"github.com/lianxiangcloud/linkchain/libs/p2p/conn"
)

// ---- part 4: the composition peer.go builds: MConnection over SecretConnection over the raw connection ----
//
// Scripted send/step/flush/transfer scenarios; every raw Read the receiving SecretConnection issues is a
// choice point (short reads), explored exhaustively up to the deviation bound. The receiving side is the
// real recvRoutine goroutine; the harness waits for "blocked in Read" after every transfer, so choices are
// made on one goroutine at a time and executions are deterministic.

type stackScenario struct {
	name   string
	cfg    *mcCfg
	script []mcEvent
}

const evBatchReal mcEventKind = 100 // the production batch function sendSomePacketMsgs

func stackScenarios(r *vk.Run) []stackScenario {
	two := []byte{0x01, 0x02}
	send := func(ch, size int) mcEvent { return mcEvent{kind: evSend, ch: ch, size: size} }
	step, batch, flush := mcEvent{kind: evStep}, mcEvent{kind: evBatchReal}, mcEvent{kind: evFlush}
	all, half, one := mcEvent{kind: evDeliverAll}, mcEvent{kind: evDeliverHalf}, mcEvent{kind: evDeliverOne}
	var out []stackScenario
	for _, P := range []int{1024, 32768} {
		for _, prios := range [][]int{{1, 1}, {1, 10}} {
			c := &mcCfg{name: fmt.Sprintf("payload%d,prio%v", P, prios), chIDs: two, prios: prios, payload: P, queueCap: 4}
			out = append(out,
				stackScenario{"interleaved-multi-packet", c, []mcEvent{send(0, 3*P+1), send(1, P), send(0, 1), send(1, P+1), batch, flush, all}},
				stackScenario{"stepwise-with-partial-transfers", c, []mcEvent{send(0, 3*P), step, step, flush, half, send(1, P-1), step, flush, one, all, send(1, 2*P), batch, flush, half, all}},
			)
		}
	}
	if r.Quick() {
		return out[:8:8]
	}
	return out
}

func phaseStack(r *vk.Run) {
	scen := stackScenarios(r)
	bound := r.Pick(2, 3)
	zero := make([]int, len(scen))
	var mu sync.Mutex
	msgs, short := 0, 0
	outcomes := map[string]int{}
	var agg violAgg
	defer agg.flush(r)
	st := r.ExploreDeviations(bound, func(ch *vk.Chooser) {
		si := ch.Choose(zero)
		sc := scen[si]
		in := newMcInst(sc.cfg, true, ch)
		defer in.close()
		if in.rx == nil { // the honest handshake failed: nothing to run
			agg.add(in.viol[0], in.viol[1], map[string]interface{}{"part": "stack", "config": sc.cfg.name, "step": "handshake"}, 0, si)
			return
		}
		pan, pv := vk.Catch(func() {
			for _, e := range sc.script {
				if in.viol[0] != "" {
					return
				}
				if e.kind == evBatchReal {
					conn.VerifC18SendSome(in.tx)
					in.absorb()
				} else {
					in.apply(e)
				}
			}
			if in.viol[0] == "" {
				in.closingDrain()
			}
		})
		if pan && in.txTap != nil && in.txTap.failed != "" {
			in.fail("mconn:sender-connection-error", "%s (then: %v)", in.txTap.failed, pv)
		} else if pan {
			in.fail("mconn:panic", "%v", pv)
		}
		n := 0
		for _, g := range in.got {
			n += g
		}
		mu.Lock()
		msgs += n
		short += in.feedTo.short
		outcomes[fmt.Sprintf("%s/%s: %d messages delivered", sc.cfg.name, sc.name, n)]++
		mu.Unlock()
		if in.viol[0] != "" {
			key := in.viol[0]
			var names []string
			for _, e := range sc.script {
				if e.kind == evBatchReal {
					names = append(names, "sendSomePacketMsgs")
				} else {
					names = append(names, sc.cfg.evName(e))
				}
			}
			agg.add(key, in.viol[1], map[string]interface{}{"part": "stack", "config": sc.cfg.name, "scenario": sc.name, "events": names, "short_reads": in.feedTo.devlog, "choices": append([]int{}, ch.Choices...)}, in.feedTo.short, si)
		}
	})
	if st.Capped {
		r.Capped(fmt.Sprintf("stack: deadline after %d executions (bound %d not completed)", st.Executions, bound))
	}
	r.Set("stack_search", map[string]interface{}{"scenarios": len(scen), "deviation_bound": bound, "executions": st.Executions, "choice_points": st.ChoicePoints, "by_cost": st.ByCost,
		"messages_delivered": msgs, "short_reads_taken": short, "outcomes": outcomes})
	r.Add("states", st.Executions)
	r.Add("transitions", st.ChoicePoints)
	fmt.Printf("stack: scenarios=%d bound=%d executions=%d by_cost=%v messages=%d short=%d\n", len(scen), bound, st.Executions, st.ByCost, msgs, short)
}
