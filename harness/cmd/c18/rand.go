package main

import (
	"bytes"
	crand "crypto/rand"
	"crypto/sha256"
	"encoding/binary"
	"io"
	"runtime"
	"strconv"
	"sync"
)

// MakeSecretConnection draws its ephemeral key pair from crypto/rand.Reader (genEphKeys, on the calling
// goroutine). For reproducible handshakes the harness replaces that exported variable by a reader that
// serves a goroutine that registered a seed from its own SHA-256 counter stream and everybody else from
// the original reader. Nothing else in an execution draws randomness (ed25519 signing is deterministic).

type seededReader struct {
	orig io.Reader
	mu   sync.Mutex
	by   map[uint64]*seedStream
}

type seedStream struct {
	seed uint64
	ctr  uint64
	buf  []byte
}

var detRand = &seededReader{by: map[uint64]*seedStream{}}

func installDetRand() {
	detRand.orig = crand.Reader
	crand.Reader = detRand
}

func goid() uint64 {
	var b [64]byte
	n := runtime.Stack(b[:], false)
	f := bytes.Fields(b[:n])
	id, _ := strconv.ParseUint(string(f[1]), 10, 64)
	return id
}

// withSeed runs f on the calling goroutine with crypto/rand.Reader answering from the seed's stream.
func withSeed(seed uint64, f func()) {
	id := goid()
	detRand.mu.Lock()
	detRand.by[id] = &seedStream{seed: seed}
	detRand.mu.Unlock()
	defer func() {
		detRand.mu.Lock()
		delete(detRand.by, id)
		detRand.mu.Unlock()
	}()
	f()
}

func (r *seededReader) Read(p []byte) (int, error) {
	id := goid()
	r.mu.Lock()
	s := r.by[id]
	r.mu.Unlock()
	if s == nil {
		return r.orig.Read(p)
	}
	for len(s.buf) < len(p) {
		var in [16]byte
		binary.BigEndian.PutUint64(in[:8], s.seed)
		binary.BigEndian.PutUint64(in[8:], s.ctr)
		s.ctr++
		h := sha256.Sum256(in[:])
		s.buf = append(s.buf, h[:]...)
	}
	n := copy(p, s.buf)
	s.buf = s.buf[n:]
	return n, nil
}
