package main

import (
	"sort"
	"sync"

	"verif/vk"
)

// violAgg collects the violations of a deviation search and reports, per key, the SIMPLEST failing case
// (fewest deviations, then cheapest configuration): the explorer is depth-first, so the first case it
// meets is not the shortest one.
type violAgg struct {
	mu sync.Mutex
	m  map[string]*aggEntry
}

type aggEntry struct {
	score  [2]int
	what   string
	replay interface{}
	count  int
}

func (a *violAgg) add(key, what string, replay interface{}, devs, cost int) {
	a.mu.Lock()
	defer a.mu.Unlock()
	if a.m == nil {
		a.m = map[string]*aggEntry{}
	}
	e := a.m[key]
	sc := [2]int{devs, cost}
	if e == nil {
		a.m[key] = &aggEntry{score: sc, what: what, replay: replay, count: 1}
		return
	}
	e.count++
	if sc[0] < e.score[0] || (sc[0] == e.score[0] && sc[1] < e.score[1]) {
		e.score, e.what, e.replay = sc, what, replay
	}
}

func (a *violAgg) flush(r *vk.Run) {
	a.mu.Lock()
	defer a.mu.Unlock()
	keys := make([]string, 0, len(a.m))
	for k := range a.m {
		keys = append(keys, k)
	}
	sort.Strings(keys)
	for _, k := range keys {
		e := a.m[k]
		for i := 0; i < e.count; i++ { // the first call carries the replay, the others only count
			r.Violation(k, e.what, e.replay)
		}
	}
}
