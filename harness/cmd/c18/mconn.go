package main

import (
	"bytes"
	"fmt"
	"net"
	"strings"
	"sync"
	"time"

	"verif/vk"

	"github.com/lianxiangcloud/linkchain/libs/p2p/conn"
)

// ---- part 3: MConnection packetisation, per-channel reassembly, channel scheduling ----
//
// Explicit-state search (engine opx) over event sequences. The SENDING MConnection is real but not
// started: its packetisation core is stepped through add-only hooks that call the unexported functions
// sendRoutine calls (trySendBytes, sendPacketMsg, sendSomePacketMsgs, flush, updateStats). Its connection
// is a capture buffer ("the wire"). The RECEIVING MConnection is real and started: its own recvRoutine
// goroutine reads from a harness wire that reports when the routine is blocked in Read, so "deliver k
// bytes" is a synchronous step. Oracle: per channel, the messages handed to onReceive are exactly the
// accepted messages, whole, in order; after a closing drain nothing is missing.

type mcCfg struct {
	name     string
	chIDs    []byte
	prios    []int
	payload  int // MaxPacketMsgPayloadSize
	queueCap int
	sizes    []int
	depth    int
	maxState int
	stats    bool // include the stats-tick event
	partial  bool // include partial deliveries (1 byte, half)
}

type mcEventKind int

const (
	evSend mcEventKind = iota
	evStep
	evBatch
	evFlush
	evDeliverAll
	evDeliverOne
	evDeliverHalf
	evStats
)

type mcEvent struct {
	kind mcEventKind
	ch   int
	size int
}

func (c *mcCfg) events() []mcEvent {
	var out []mcEvent
	out = append(out, mcEvent{kind: evStep}, mcEvent{kind: evFlush}, mcEvent{kind: evDeliverAll})
	for ch := range c.chIDs {
		for _, s := range c.sizes {
			out = append(out, mcEvent{kind: evSend, ch: ch, size: s})
		}
	}
	out = append(out, mcEvent{kind: evBatch})
	if c.partial {
		out = append(out, mcEvent{kind: evDeliverOne}, mcEvent{kind: evDeliverHalf})
	}
	if c.stats {
		out = append(out, mcEvent{kind: evStats})
	}
	return out
}

func (c *mcCfg) evName(e mcEvent) string {
	switch e.kind {
	case evSend:
		return fmt.Sprintf("Send(ch %#x, %d bytes)", c.chIDs[e.ch], e.size)
	case evStep:
		return "sendPacketMsg"
	case evBatch:
		return "sendPacketMsg until exhausted"
	case evFlush:
		return "flush"
	case evDeliverAll:
		return "deliver all wire bytes"
	case evDeliverOne:
		return "deliver 1 wire byte"
	case evDeliverHalf:
		return "deliver half of the wire bytes"
	case evStats:
		return "updateStats tick"
	}
	return "?"
}

// message content: every message of a channel differs from every other message of any channel in its
// first byte (and in every byte for equal sizes), so merging, splitting, reordering and cross-channel
// delivery all change what arrives.
func mcMsg(ch, seq, size int) []byte {
	out := make([]byte, size)
	for j := range out {
		out[j] = byte(ch*64 + seq + j*131 + (j>>8)*17)
	}
	return out
}

// writeTap records the first failed or short Write of the sender's connection: an MConnection that is not
// started stops itself on a write error (stopForError), and stopping an unstarted MConnection panics on
// its nil timers, which would hide the cause.
type writeTap struct {
	net.Conn
	failed string
}

func (t *writeTap) Write(p []byte) (int, error) {
	n, err := t.Conn.Write(p)
	if (err != nil || n != len(p)) && t.failed == "" {
		t.failed = fmt.Sprintf("Write(%d bytes) on the sender's connection = (%d, %v)", len(p), n, err)
	}
	return n, err
}

type delivery struct {
	ch  byte
	msg []byte
}

type packetRec struct {
	ch   int
	size int // encoded size on the wire
}

type mcInst struct {
	c      *mcCfg
	tx     *conn.MConnection
	rx     *conn.MConnection
	txTap  *writeTap
	stage  *wire // what the sender's connection wrote and the harness has not delivered yet
	feedTo *wire // the wire the receiver's connection reads from
	ends   []*endpoint

	mu        sync.Mutex
	delivered []delivery
	rxErr     []string
	txErr     []string

	// model
	sent    [][][]byte // per channel: accepted messages
	got     []int      // per channel: number delivered
	packets []packetRec
	fed     int // bytes delivered to the receiver so far
	viol    [2]string
}

func mconnConfig(payload int) conn.MConnConfig {
	cfg := conn.DefaultMConnConfig()
	cfg.MaxPacketMsgPayloadSize = payload
	cfg.SendRate = 1 << 50
	cfg.RecvRate = 1 << 50
	cfg.FlushThrottle = 10 * time.Hour // never fires within an execution
	cfg.PingInterval = 20 * time.Hour
	cfg.PongTimeout = 10 * time.Hour
	return cfg
}

// newMcInst builds a fresh sender/receiver pair. Without ch the two MConnections sit directly on harness
// connections; with secure=true each sits on a REAL SecretConnection (fresh real handshake) the way
// peer.go stacks them, and the raw reads of the receiving side are choice points of ch.
func newMcInst(c *mcCfg, secure bool, ch *vk.Chooser) *mcInst {
	in := &mcInst{c: c}
	descs := func() []*conn.ChannelDescriptor {
		var d []*conn.ChannelDescriptor
		for i, id := range c.chIDs {
			d = append(d, &conn.ChannelDescriptor{ID: id, Priority: c.prios[i], SendQueueCapacity: c.queueCap, RecvBufferCapacity: 4, RecvMessageCapacity: 1 << 20})
		}
		return d
	}
	in.sent = make([][][]byte, len(c.chIDs))
	in.got = make([]int, len(c.chIDs))
	var txConn, rxConn net.Conn
	if !secure {
		a, b := newConnPair()
		txConn, rxConn = a, b
		in.ends = []*endpoint{a, b}
	} else {
		a, b, ra, rb := handshakePair(keyA, 31, keyB, 32, false)
		in.ends = []*endpoint{a, b}
		if ra.err != nil || rb.err != nil {
			in.fail("handshake:honest-peer-rejected:plain", "honest handshake failed: A: %v, B: %v", ra.err, rb.err)
			return in
		}
		txConn, rxConn = ra.sc, rb.sc
	}
	in.txTap = &writeTap{Conn: txConn}
	txConn = in.txTap
	a, b := in.ends[0], in.ends[1]
	in.stage = newWire()
	in.stage.coalesce = true
	a.out = in.stage // the sender's writes are staged; the harness moves them to b.in
	in.feedTo = b.in
	in.feedTo.setStream(false, ch)
	in.tx = conn.NewMConnectionWithConfig(txConn, descs(), func(byte, []byte) {}, func(e interface{}) {
		in.mu.Lock()
		in.txErr = append(in.txErr, fmt.Sprint(e))
		in.mu.Unlock()
	}, mconnConfig(c.payload))
	conn.VerifC18PrepareSender(in.tx)
	in.rx = conn.NewMConnectionWithConfig(rxConn, descs(), func(ch byte, msg []byte) {
		in.mu.Lock()
		in.delivered = append(in.delivered, delivery{ch, append([]byte{}, msg...)}) // the slice is only valid during the call
		in.mu.Unlock()
	}, func(e interface{}) {
		in.mu.Lock()
		in.rxErr = append(in.rxErr, fmt.Sprint(e))
		in.mu.Unlock()
	}, mconnConfig(c.payload))
	if err := in.rx.Start(); err != nil {
		vk.Fatalf("mconn: receiver does not start: %v", err)
	}
	in.feedTo.waitBlocked()
	return in
}

func (in *mcInst) close() {
	if in.tx != nil {
		conn.VerifC18ReleaseSender(in.tx)
	}
	if in.rx != nil {
		in.rx.Stop()
	}
	for _, e := range in.ends {
		e.Close()
	}
}

func (in *mcInst) fail(key, format string, a ...interface{}) {
	if in.viol[0] == "" {
		in.viol = [2]string{key, fmt.Sprintf(format, a...)}
	}
}

func (in *mcInst) chIndex(id byte) int {
	for i, c := range in.c.chIDs {
		if c == id {
			return i
		}
	}
	return -1
}

// senderStep performs one sendPacketMsg and records which channel emitted a packet of which encoded
// size; with batch=true it repeats until the channels are exhausted, which is the loop of
// sendSomePacketMsgs unrolled (the real sendSomePacketMsgs runs in every closing drain; unrolling keeps
// the packet log, and with it the state key, exact).
func (in *mcInst) senderStep(batch bool) {
	for i := 0; i < 1000; i++ {
		before := conn.VerifC18ChanStates(in.tx)
		exhausted := conn.VerifC18SendPacketMsg(in.tx)
		after := conn.VerifC18ChanStates(in.tx)
		for i := range after {
			if d := after[i].RecentlySent - before[i].RecentlySent; d > 0 {
				in.packets = append(in.packets, packetRec{i, int(d)})
			}
		}
		if !batch || exhausted {
			return
		}
	}
}

func (in *mcInst) deliver(n int) {
	if n <= 0 {
		return
	}
	in.feedTo.write(in.stage.take(n))
	in.fed += n
	in.feedTo.waitBlocked()
	in.absorb()
}

// absorb compares what onReceive got so far with the model.
func (in *mcInst) absorb() {
	in.mu.Lock()
	del := in.delivered
	in.delivered = nil
	rxErr := append([]string{}, in.rxErr...)
	in.mu.Unlock()
	for _, d := range del {
		ci := in.chIndex(d.ch)
		if ci < 0 {
			in.fail("mconn:delivery-on-unknown-channel", "onReceive(ch %#x, %d bytes): no such channel", d.ch, len(d.msg))
			continue
		}
		k := in.got[ci]
		if k < len(in.sent[ci]) && bytes.Equal(d.msg, in.sent[ci][k]) {
			in.got[ci]++
			continue
		}
		// classify
		want := []byte(nil)
		if k < len(in.sent[ci]) {
			want = in.sent[ci][k]
		}
		class := "mconn:message-bytes-differ"
		switch {
		case want == nil:
			class = "mconn:message-never-sent-or-duplicated"
		case len(d.msg) != len(want):
			class = "mconn:message-boundaries-differ"
		}
		for j, m := range in.sent[ci] {
			if j != k && bytes.Equal(m, d.msg) {
				class = "mconn:out-of-order-or-duplicate-on-channel"
			}
		}
		for oc := range in.sent {
			if oc == ci {
				continue
			}
			for _, m := range in.sent[oc] {
				if bytes.Equal(m, d.msg) {
					class = "mconn:delivered-on-wrong-channel"
				}
			}
		}
		in.fail(class, "channel %#x delivery #%d: got %d bytes %s, sent %d bytes %s", d.ch, k, len(d.msg), head(d.msg), len(want), head(want))
		in.got[ci]++
	}
	if len(rxErr) > 0 {
		in.fail("mconn:receiver-connection-error", "receiving MConnection stopped with error: %s", rxErr[0])
	}
	in.mu.Lock()
	if len(in.txErr) > 0 {
		in.fail("mconn:sender-connection-error", "sending MConnection stopped with error: %s", in.txErr[0])
	}
	in.mu.Unlock()
}

func head(b []byte) string {
	if len(b) > 12 {
		return fmt.Sprintf("%x..", b[:12])
	}
	return fmt.Sprintf("%x", b)
}

func (in *mcInst) apply(e mcEvent) {
	switch e.kind {
	case evSend:
		msg := mcMsg(e.ch, len(in.sent[e.ch]), e.size)
		if conn.VerifC18Enqueue(in.tx, in.c.chIDs[e.ch], msg) {
			in.sent[e.ch] = append(in.sent[e.ch], append([]byte{}, msg...)) // the sender owns msg from now on
		}
	case evStep:
		in.senderStep(false)
	case evBatch:
		in.senderStep(true)
	case evFlush:
		conn.VerifC18Flush(in.tx)
	case evDeliverAll:
		in.deliver(in.stage.pending())
	case evDeliverOne:
		in.deliver(min(1, in.stage.pending()))
	case evDeliverHalf:
		in.deliver((in.stage.pending() + 1) / 2)
	case evStats:
		conn.VerifC18UpdateStats(in.tx)
	}
	in.absorb()
}

// key is the canonical state: the real packetisation state of both sides plus the part of the model the
// future depends on (undelivered messages, packets not yet completely delivered).
func (in *mcInst) key() string {
	var b strings.Builder
	tx := conn.VerifC18ChanStates(in.tx)
	rx := conn.VerifC18ChanStates(in.rx)
	for i := range tx {
		fmt.Fprintf(&b, "c%d:q%d/%d,s%d,r%d,rv%d,n%d,g%d[", i, tx[i].Queued, tx[i].QueueSize, tx[i].Sending, tx[i].RecentlySent, rx[i].Recving, len(in.sent[i]), in.got[i])
		for k := in.got[i]; k < len(in.sent[i]); k++ {
			fmt.Fprintf(&b, "%d,", len(in.sent[i][k]))
		}
		b.WriteString("]")
	}
	fmt.Fprintf(&b, "|buf%d|wire%d|", conn.VerifC18Buffered(in.tx), in.stage.pending())
	// packets whose last byte has not reached the receiver
	off := 0
	for _, p := range in.packets {
		end := off + p.size
		if end > in.fed {
			if off < in.fed {
				fmt.Fprintf(&b, "partial%d;", in.fed-off)
			}
			fmt.Fprintf(&b, "%d:%d;", p.ch, p.size)
		}
		off = end
	}
	return b.String()
}

// closingDrain sends, flushes and delivers everything that is still on its way, then requires completeness.
func (in *mcInst) closingDrain() {
	for i := 0; i < 64 && !conn.VerifC18SendSome(in.tx); i++ {
	}
	conn.VerifC18Flush(in.tx)
	in.deliver(in.stage.pending())
	in.absorb()
	if in.viol[0] != "" {
		return
	}
	for i := range in.sent {
		if in.got[i] != len(in.sent[i]) {
			in.fail("mconn:message-lost", "channel %#x: %d messages accepted, %d delivered after everything was sent, flushed and delivered", in.c.chIDs[i], len(in.sent[i]), in.got[i])
			return
		}
	}
}

var mcExecs, mcEvents int64
var mcMu sync.Mutex

func runMconnSearch(r *vk.Run, c *mcCfg) vk.Result {
	evs := c.events()
	spec := vk.Spec{
		Name:            "mconn/" + c.name,
		NumOps:          len(evs),
		OpName:          func(i int) string { return c.evName(evs[i]) },
		Depth:           c.depth,
		MaxState:        c.maxState,
		MergeCheckEvery: 500,
		Exec: func(hist []int) (out vk.Outcome) {
			in := newMcInst(c, false, nil)
			defer in.close()
			defer func() {
				if e := recover(); e != nil {
					out = vk.Outcome{Err: "mconn:panic", What: fmt.Sprint(e)}
					if in.txTap != nil && in.txTap.failed != "" {
						out = vk.Outcome{Err: "mconn:sender-connection-error", What: fmt.Sprintf("%s (then: %v)", in.txTap.failed, e)}
					}
				}
			}()
			for _, oi := range hist {
				in.apply(evs[oi])
				if in.viol[0] != "" {
					return vk.Outcome{Err: in.viol[0], What: in.viol[1]}
				}
			}
			key := in.key()
			in.closingDrain()
			mcMu.Lock()
			mcExecs++
			mcEvents += int64(len(hist))
			mcMu.Unlock()
			if in.viol[0] != "" {
				return vk.Outcome{Err: in.viol[0], What: in.viol[1] + " (found by the closing drain after the listed events)"}
			}
			return vk.Outcome{Key: key}
		},
	}
	return r.Explore(spec)
}

func phaseMconn(r *vk.Run) {
	var cfgs []*mcCfg
	two, three := []byte{0x01, 0x02}, []byte{0x01, 0x02, 0x30}
	small := []int{1, 3, 4, 5, 12}              // 1, max-1, max, max+1, 3*max for payload 4
	big := []int{1, 32767, 32768, 32769, 98304} // the same five sizes for the default payload 32768
	if r.Quick() {
		cfgs = []*mcCfg{
			{name: "2ch(1,10),payload4", chIDs: two, prios: []int{1, 10}, payload: 4, queueCap: 2, sizes: small, depth: 6, partial: true, stats: true},
			{name: "2ch(1,1),payload4", chIDs: two, prios: []int{1, 1}, payload: 4, queueCap: 2, sizes: small, depth: 5, partial: true},
			{name: "2ch(1,10),payload32768", chIDs: two, prios: []int{1, 10}, payload: 32768, queueCap: 2, sizes: big, depth: 4, partial: true},
		}
	} else {
		cfgs = []*mcCfg{
			{name: "2ch(1,10),payload4", chIDs: two, prios: []int{1, 10}, payload: 4, queueCap: 2, sizes: small, depth: 7, partial: true, stats: true},
			{name: "2ch(1,1),payload4", chIDs: two, prios: []int{1, 1}, payload: 4, queueCap: 2, sizes: small, depth: 6, partial: true, stats: true},
			{name: "3ch(1,5,10),payload4", chIDs: three, prios: []int{1, 5, 10}, payload: 4, queueCap: 2, sizes: small, depth: 6, partial: true},
			{name: "2ch(1,10),payload32768", chIDs: two, prios: []int{1, 10}, payload: 32768, queueCap: 2, sizes: big, depth: 5, partial: true},
		}
	}
	var per []interface{}
	states, trans := 0, 0
	for _, c := range cfgs {
		res := runMconnSearch(r, c)
		states += res.States
		trans += res.Transitions
		per = append(per, map[string]interface{}{"search": "mconn/" + c.name, "alphabet": len(c.events()), "depth": c.depth, "depth_completed": res.DepthCompleted,
			"states": res.States, "transitions": res.Transitions, "per_depth": res.PerDepth, "merge_checks": res.MergeChecks})
		fmt.Printf("mconn/%s: alphabet=%d depth=%d/%d states=%d transitions=%d per_depth=%v mergechecks=%d\n", c.name, len(c.events()), res.DepthCompleted, c.depth, res.States, res.Transitions, res.PerDepth, res.MergeChecks)
	}
	r.Set("mconn_searches", per)
	r.Set("mconn_states", states)
	r.Set("mconn_transitions", trans)
	r.Set("mconn_events_executed", int(mcEvents))
	r.Add("states", states)
	r.Add("transitions", trans)
}
