package main

import (
	"bytes"
	"encoding/binary"
	"fmt"
	"sort"
	"sync"
	"time"

	"verif/vk"

	"github.com/lianxiangcloud/linkchain/libs/p2p/conn"
)

// ---- part 1: SecretConnection byte stream under read/write chunking ----
//
// One execution: a fresh pair of SecretConnections (deep copies of the state a real two-sided handshake
// with fixed identity keys and seeded ephemeral keys produced, see streamTemplates), then a sequence of
// Write calls on one side and Read calls with a cyclic pattern of buffer sizes on the other,
// single-threaded. The raw connection underneath is the harness
// wire in stream mode: every raw Read issued by SecretConnection.Read is a choice point whose default
// answer is a full read; the explorer runs every execution with at most `bound` short reads. The first
// choice point of an execution selects the configuration (zero cost), so one call of the explorer covers
// a whole group of configurations.

var writeSizes = []int{1, 2, 1023, 32767, 32768, 32769, 65537}
var readSizes = []int{1, 7, 1024, 32768, 70000}

type streamCfg struct {
	writes    []int  // sizes of the Write calls, in order
	pattern   []int  // cyclic sequence of Read buffer sizes
	drainEach bool   // read everything back after each Write (else after the last one)
	duplex    bool   // also send the same writes B->A, reads alternating between the directions
	content   uint32 // payload family (0: 4-byte counters = compressible, 1: hashed = incompressible)
}

func (c streamCfg) String() string {
	return fmt.Sprintf("writes=%v reads=%v drainEach=%v duplex=%v content=%d", c.writes, c.pattern, c.drainEach, c.duplex, c.content)
}

// The payload of a direction is a slice of one long fixed stream, so the expected bytes at every stream
// offset are known. Family 0: the aligned 4-byte words are consecutive counters (all distinct, snappy finds
// matches); family 1: the counters run through a mixing function (incompressible). A lost, duplicated,
// displaced or foreign byte range changes the bytes seen at some offset.
const maxStream = 3*65537 + 8

var streams [2][2][]byte

func init() {
	for family := uint32(0); family < 2; family++ {
		for dir := uint32(0); dir < 2; dir++ {
			out := make([]byte, maxStream+4)
			for p := 0; p < maxStream; p += 4 {
				x := uint32(p/4) + dir<<28
				if family == 1 {
					x = (x+0x9e3779b9)*2654435761 ^ (x*40503)>>7
					x ^= x >> 15
					x *= 2246822519
					x ^= x >> 13
				}
				binary.BigEndian.PutUint32(out[p:], x)
			}
			streams[family][dir] = out[:maxStream]
		}
	}
}

func payload(family uint32, dir uint32, off, n int) []byte {
	return streams[family][dir][off : off+n : off+n]
}

type direction struct {
	name      string
	w, r      rw
	rawIn     *wire // the wire the reading side's SecretConnection reads from
	sent      []byte
	got       int
	reads     int
	patternAt int
}

type rw interface {
	Read([]byte) (int, error)
	Write([]byte) (int, error)
}

type streamViol struct{ key, what string }

var bufPool = sync.Pool{New: func() interface{} { b := make([]byte, 70000); return &b }}

// The post-handshake state every execution starts from: produced ONCE by the real handshake on both
// sides (fixed identity keys, seeded ephemeral keys) and deep-copied per execution by a hook.
var tmplA, tmplB *conn.SecretConnection

func streamTemplates(r *vk.Run) bool {
	_, _, ra, rb := handshakePair(keyA, 11, keyB, 12, false)
	if ra.err != nil || rb.err != nil {
		r.Violation("handshake:honest-peer-rejected:plain", fmt.Sprintf("honest handshake failed: A: %v, B: %v", ra.err, rb.err), map[string]interface{}{"part": "stream", "step": "template handshake"})
		return false
	}
	tmplA, tmplB = ra.sc, rb.sc
	return true
}

// runStream executes one configuration under the chooser; returns a violation or nil.
func runStream(cfg streamCfg, ch *vk.Chooser, stats *streamStats) (v *streamViol, devs []string) {
	a, b := newConnPair()
	scA := conn.VerifC18CloneFresh(tmplA, a)
	scB := conn.VerifC18CloneFresh(tmplB, b)
	defer a.Close()
	a.in.setStream(true, ch)
	b.in.setStream(true, ch)
	dirs := []*direction{{name: "A->B", w: scA, r: scB, rawIn: b.in}}
	if cfg.duplex {
		dirs = append(dirs, &direction{name: "B->A", w: scB, r: scA, rawIn: a.in})
	}
	bp := bufPool.Get().(*[]byte)
	defer bufPool.Put(bp)
	buf := *bp
	fail := func(key, format string, args ...interface{}) *streamViol {
		return &streamViol{key, fmt.Sprintf(format, args...)}
	}
	// readOne performs one Read on d; done=true when nothing is outstanding.
	readOne := func(di int, d *direction) (*streamViol, bool) {
		if d.got == len(d.sent) {
			return nil, true
		}
		size := cfg.pattern[d.patternAt%len(cfg.pattern)]
		d.patternAt++
		p := buf[:size]
		var n int
		var err error
		if pan, pv := vk.Catch(func() { n, err = d.r.Read(p) }); pan {
			return fail("stream:read-panic", "%s: Read(buf %d) panics: %v", d.name, size, pv), false
		}
		d.reads++
		stats.reads++
		if err == errWouldBlock {
			return fail("stream:reader-needs-more-than-written", "%s: after %d of %d bytes Read(buf %d) asks the raw connection for bytes that were never written", d.name, d.got, len(d.sent), size), false
		}
		if err != nil {
			return fail("stream:read-error", "%s: after %d of %d bytes Read(buf %d) = (%d, %v)", d.name, d.got, len(d.sent), size, n, err), false
		}
		if n < 0 || n > size || d.got+n > len(d.sent) {
			return fail("stream:read-overrun", "%s: Read(buf %d) = %d with %d bytes outstanding", d.name, size, n, len(d.sent)-d.got), false
		}
		if n == 0 {
			return fail("stream:read-no-progress", "%s: Read(buf %d) = (0, nil) with %d bytes outstanding", d.name, size, len(d.sent)-d.got), false
		}
		if !bytes.Equal(p[:n], d.sent[d.got:d.got+n]) {
			at := 0
			for at < n && p[at] == d.sent[d.got+at] {
				at++
			}
			return fail("stream:bytes-differ", "%s: stream offset %d: read %x, written %x (Read #%d, buf %d, n %d)", d.name, d.got+at, p[at:min(n, at+8)], d.sent[d.got+at:min(len(d.sent), d.got+at+8)], d.reads, size, n), false
		}
		d.got += n
		return nil, false
	}
	drain := func() *streamViol {
		for {
			alldone := true
			for di, d := range dirs {
				v, done := readOne(di, d)
				if v != nil {
					return v
				}
				if !done {
					alldone = false
				}
			}
			if alldone {
				return nil
			}
		}
	}
	collect := func() []string {
		return append(append([]string{}, prefixAll("A.in ", a.in.devlog)...), prefixAll("B.in ", b.in.devlog)...)
	}
	for _, size := range cfg.writes {
		for di, d := range dirs {
			data := payload(cfg.content, uint32(di), len(d.sent), size)
			var n int
			var err error
			if pan, pv := vk.Catch(func() { n, err = d.w.Write(data) }); pan {
				return fail("stream:write-panic", "%s: Write(%d bytes) panics: %v", d.name, size, pv), collect()
			}
			stats.writes++
			if err != nil || n != size {
				return fail("stream:write-result", "%s: Write(%d bytes) = (%d, %v)", d.name, size, n, err), collect()
			}
			d.sent = streams[cfg.content][di][:len(d.sent)+size] // the stream is contiguous: no copy
		}
		if cfg.drainEach {
			if v := drain(); v != nil {
				return v, collect()
			}
		}
	}
	if v := drain(); v != nil {
		return v, collect()
	}
	for _, d := range dirs {
		if left := d.rawIn.pending(); left != 0 {
			return fail("stream:raw-bytes-left-over", "%s: everything written was read back but %d raw bytes are still queued", d.name, left), collect()
		}
		stats.bytes += len(d.sent)
	}
	stats.short += a.in.short + b.in.short
	stats.rawReads += a.in.reads + b.in.reads
	return nil, collect()
}

func prefixAll(p string, s []string) []string {
	out := make([]string, len(s))
	for i := range s {
		out[i] = p + s[i]
	}
	return out
}

type streamStats struct {
	reads, writes, bytes, short, rawReads int
}

func (s *streamStats) add(o *streamStats) {
	s.reads += o.reads
	s.writes += o.writes
	s.bytes += o.bytes
	s.short += o.short
	s.rawReads += o.rawReads
}

// writeSeqs returns all sequences of length 1..maxLen over sizes.
func writeSeqs(sizes []int, maxLen int) [][]int {
	var out [][]int
	var rec func(cur []int)
	rec = func(cur []int) {
		if len(cur) > 0 {
			out = append(out, append([]int{}, cur...))
		}
		if len(cur) == maxLen {
			return
		}
		for _, s := range sizes {
			rec(append(cur, s))
		}
	}
	rec(nil)
	sort.SliceStable(out, func(i, j int) bool { return len(out[i]) < len(out[j]) })
	return out
}

func readPatterns(pairs bool) [][]int {
	var out [][]int
	for _, s := range readSizes {
		out = append(out, []int{s})
	}
	if pairs {
		for _, s := range readSizes {
			for _, t := range readSizes {
				if s != t {
					out = append(out, []int{s, t})
				}
			}
		}
	}
	return out
}

type streamGroup struct {
	name  string
	bound int
	cfgs  []streamCfg
}

// estReads estimates the number of Read calls of a configuration (its cost).
func (c streamCfg) estReads() int {
	total, frames := 0, 0
	for _, w := range c.writes {
		total += w
		frames += (w + 32767) / 32768
	}
	per := 0
	for _, p := range c.pattern {
		per += min(p, 32768)
	}
	n := total*len(c.pattern)/per + frames*len(c.pattern)
	if c.duplex {
		n *= 2
	}
	return n
}

// The quick tier uses the 5 fixed read sizes and 6 mixed pairs; the thorough tier all 25 patterns.
var quickPairs = [][]int{{1, 32768}, {32768, 1}, {7, 1024}, {1024, 7}, {70000, 1}, {1, 70000}}

func streamGroups(r *vk.Run) []streamGroup {
	var patterns [][]int
	if r.Quick() {
		patterns = append(readPatterns(false), quickPairs...)
	} else {
		patterns = readPatterns(true)
	}
	byBound := map[int][]streamCfg{}
	for _, w := range writeSeqs(writeSizes, 3) {
		for _, p := range patterns {
			for _, drainEach := range []bool{false, true} {
				if drainEach && len(w) == 1 {
					continue // same as draining at the end
				}
				for _, variant := range []int{0, 1} { // 0: one direction, compressible; 1: duplex, incompressible
					cfg := streamCfg{writes: w, pattern: p, drainEach: drainEach, duplex: variant == 1, content: uint32(variant)}
					if variant == 1 && (len(p) > 1 || drainEach) {
						continue
					}
					est := cfg.estReads()
					bound := 0
					if r.Quick() {
						if len(w) == 3 && (len(p) > 1 || drainEach || variant == 1) {
							continue // quick tier: 3 writes only with the 5 fixed read sizes, one direction
						}
						switch {
						case len(w) <= 2 && est <= 48:
							bound = 2
						case len(w) <= 2 && est <= 2500, est <= 300:
							bound = 1
						}
					} else {
						switch {
						case len(w) == 1 && est <= 64:
							bound = 3
						case len(w) <= 2 && est <= 600, len(p) == 1 && !drainEach && est <= 100:
							bound = 2
						case est <= 70000:
							bound = 1
						}
					}
					byBound[bound] = append(byBound[bound], cfg)
				}
			}
		}
	}
	var out []streamGroup
	for _, b := range []int{3, 2, 1, 0} {
		if len(byBound[b]) > 0 {
			out = append(out, streamGroup{fmt.Sprintf("short-reads<=%d", b), b, byBound[b]})
		}
	}
	return out
}

func phaseStream(r *vk.Run) {
	if !streamTemplates(r) {
		return
	}
	groups := streamGroups(r)
	var per []interface{}
	totalExec, totalCfg := 0, 0
	var total streamStats
	var agg violAgg
	defer agg.flush(r)
	for _, g := range groups {
		g := g
		t0 := time.Now()
		var mu sync.Mutex
		var gs streamStats
		cfgSeen := map[int]int{}
		sampled := map[int]int{}
		zero := make([]int, len(g.cfgs))
		st := r.ExploreDeviations(g.bound, func(ch *vk.Chooser) {
			ci := ch.Choose(zero)
			cfg := g.cfgs[ci]
			var s streamStats
			v, devs := runStream(cfg, ch, &s)
			mu.Lock()
			gs.add(&s)
			if len(devs) == g.bound {
				sampled[ci]++
			}
			first := sampled[ci] == 1
			cfgSeen[ci]++
			mu.Unlock()
			if v != nil {
				agg.add(v.key, v.what, map[string]interface{}{"part": "stream", "group": g.name, "config": cfg.String(), "short_reads": devs, "choices": append([]int{}, ch.Choices...)}, len(devs), cfg.estReads())
			} else if len(devs) == g.bound && ci%97 == 3 && s.short == g.bound && first {
				r.Sample(map[string]interface{}{"part": "stream", "config": cfg.String(), "short_reads": devs, "result": "identical"})
			}
		})
		if st.Capped {
			r.Capped(fmt.Sprintf("stream/%s: deadline after %d executions (bound %d not completed)", g.name, st.Executions, g.bound))
		}
		per = append(per, map[string]interface{}{"search": "stream/" + g.name, "configs": len(g.cfgs), "configs_run": len(cfgSeen), "deviation_bound": g.bound,
			"executions": st.Executions, "choice_points": st.ChoicePoints, "by_cost": st.ByCost, "reads": gs.reads, "writes": gs.writes, "bytes_verified": gs.bytes, "short_reads_taken": gs.short, "raw_reads": gs.rawReads})
		fmt.Printf("stream/%s: configs=%d executions=%d by_cost=%v reads=%d short=%d t=%.1fs\n", g.name, len(g.cfgs), st.Executions, st.ByCost, gs.reads, gs.short, time.Since(t0).Seconds())
		totalExec += st.Executions
		totalCfg += len(g.cfgs)
		total.add(&gs)
	}
	r.Set("stream_searches", per)
	r.Set("stream_executions", totalExec)
	r.Set("stream_configs", totalCfg)
	r.Set("stream_reads", total.reads)
	r.Set("stream_writes", total.writes)
	r.Set("stream_short_reads_taken", total.short)
	r.Add("transitions", total.reads+total.writes)
	r.Add("states", totalExec)
}

func min(a, b int) int {
	if a < b {
		return a
	}
	return b
}
