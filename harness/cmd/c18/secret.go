package main

import (
	"fmt"

	"verif/vk"

	"github.com/lianxiangcloud/linkchain/libs/crypto"
	"github.com/lianxiangcloud/linkchain/libs/p2p/conn"
)

// fixed identity keys
var (
	keyA = crypto.GenPrivKeyEd25519FromSecret([]byte("c18-A"))
	keyB = crypto.GenPrivKeyEd25519FromSecret([]byte("c18-B"))
	keyC = crypto.GenPrivKeyEd25519FromSecret([]byte("c18-C"))
)

type hsResult struct {
	sc    *conn.SecretConnection
	err   error
	panic interface{}
}

// makeSecret runs the REAL MakeSecretConnection on the calling goroutine with a seeded ephemeral key.
func makeSecret(e *endpoint, key crypto.PrivKey, seed uint64) (res hsResult) {
	withSeed(seed, func() {
		p, pv := vk.Catch(func() { res.sc, res.err = conn.MakeSecretConnection(e, key) })
		if p {
			res.panic = pv
			res.err = fmt.Errorf("panic: %v", pv)
		}
	})
	return
}

// handshakePair runs both real sides of the handshake concurrently over a fresh segment-mode pair.
func handshakePair(kA crypto.PrivKey, seedA uint64, kB crypto.PrivKey, seedB uint64, record bool) (a, b *endpoint, ra, rb hsResult) {
	a, b = newConnPair()
	a.out.record, b.out.record = record, record
	done := make(chan struct{})
	go func() {
		ra = makeSecret(a, kA, seedA)
		if ra.err != nil {
			a.Close() // unblock the other side
		}
		close(done)
	}()
	rb = makeSecret(b, kB, seedB)
	if rb.err != nil {
		b.Close()
	}
	<-done
	return
}
