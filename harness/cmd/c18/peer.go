package main

import (
	"fmt"
	"time"

	"verif/vk"

	"github.com/lianxiangcloud/linkchain/config"
	"github.com/lianxiangcloud/linkchain/libs/crypto"
	"github.com/lianxiangcloud/linkchain/libs/p2p"
	"github.com/lianxiangcloud/linkchain/types"
	"github.com/lianxiangcloud/linkchain/version"
)

// ---- part 5: the peer-level handshake (libs/p2p/peer.go, handshake.go) ----
//
// The production inbound path (newInboundPeerConn: secret handshake; addPeer: NodeInfo handshake and the
// Switch's admission checks) runs on a harness connection against a remote that authenticates the secret
// connection with key M (real MakeSecretConnection) and then presents a NodeInfo whose PubKey is
// enumerated. The peer's identity in the Switch (peer.ID()) is derived from NodeInfo.PubKey, so the
// property requires: admitted => presented key == the key whose possession was proved.

func nodeInfo(moniker string, key crypto.PubKeyEd25519) p2p.NodeInfo {
	return p2p.NodeInfo{
		PubKey:   key,
		Network:  "c18-chain",
		Version:  version.Version,
		Channels: []byte{0x40},
		Moniker:  moniker,
		Other:    []string{"p2p_version=1"},
		Type:     types.NodeValidator,
	}
}

func phasePeer(r *vk.Run) {
	ed := func(k crypto.PrivKey) crypto.PubKeyEd25519 { return k.PubKey().(crypto.PubKeyEd25519) }
	type pcase struct {
		name      string
		auth      crypto.PrivKey       // key the remote proves possession of in the secret handshake
		presented crypto.PubKeyEd25519 // NodeInfo.PubKey
		honest    bool
	}
	cases := []pcase{
		{"NodeInfo carries the authenticated key", keyC, ed(keyC), true},
		{"NodeInfo carries another node's key", keyC, ed(keyB), false},
		{"NodeInfo carries the local node's key", keyC, ed(keyA), false},
		{"NodeInfo carries the all-zero key", keyC, crypto.PubKeyEd25519{}, false},
		{"NodeInfo carries the authenticated key (peer B)", keyB, ed(keyB), true},
		{"NodeInfo carries another node's key (peer B claims C)", keyB, ed(keyC), false},
	}
	outcomes := map[string]int{}
	for i, c := range cases {
		cfg := config.DefaultP2PConfig()
		cfg.HandshakeTimeout = 10 * time.Hour // deadlines are no-ops on the harness connection anyway
		sw := p2p.VerifC18Switch(keyA, nodeInfo("local", ed(keyA)), cfg)
		a, b := newConnPair()
		done := make(chan error, 1)
		go func() {
			var err error
			if p, pv := vk.Catch(func() { err = p2p.VerifC18AddInbound(sw, a) }); p {
				err = fmt.Errorf("panic: %v", pv)
			}
			if err != nil {
				a.Close()
			}
			done <- err
		}()
		var remoteErr error
		res := makeSecret(b, c.auth, uint64(40+i))
		if res.err != nil {
			remoteErr = res.err
			b.Close()
		} else {
			_, remoteErr = p2p.HandShakeFunc(res.sc, nodeInfo("remote", c.presented), 10*time.Hour, false)
		}
		err := <-done
		b.Close()
		admitted := p2p.VerifC18PeerKeys(sw)
		replay := map[string]interface{}{"part": "peer", "case": c.name, "authenticated_key": fmt.Sprint(c.auth.PubKey()), "presented_key": fmt.Sprint(c.presented)}
		switch {
		case err == nil && len(admitted) == 1 && !c.honest:
			outcomes["admitted-without-proof"]++
			r.Violation("peer:nodeinfo-key-not-bound-to-authenticated-key", fmt.Sprintf("the Switch admits a peer with identity key %v (%s) although the remote proved possession of %v only (addPeer never compares NodeInfo.PubKey with SecretConnection.RemotePubKey())", admitted[0], c.name, c.auth.PubKey()), replay)
		case err == nil && len(admitted) == 1 && c.honest:
			if !admitted[0].Equals(c.auth.PubKey()) {
				r.Violation("peer:wrong-identity-recorded", fmt.Sprintf("admitted peer is recorded with key %v, it proved %v", admitted[0], c.auth.PubKey()), replay)
			}
			outcomes["admitted-honest"]++
		case err != nil && c.honest:
			outcomes["honest-rejected"]++
			r.Violation("peer:honest-peer-rejected", fmt.Sprintf("the production inbound path rejects an honest peer: %v (remote side: %v)", err, remoteErr), replay)
		case err != nil:
			outcomes["rejected"]++
		default:
			vk.Fatalf("peer: inbound path returned nil but %d peers are in the set", len(admitted))
		}
	}
	r.Set("peer_cases", len(cases))
	r.Set("peer_outcomes", outcomes)
	r.Add("transitions", len(cases))
	r.Add("states", len(outcomes))
	fmt.Printf("peer: cases=%d outcomes=%v\n", len(cases), outcomes)
}
