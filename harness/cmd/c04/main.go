// C04 - a validator key never signs conflicting votes or proposals, even across restarts.
//
// Engine E3 ("crashx"): every history of <= D signing requests (SignVote / SignProposal /
// SignVoteWithoutSave x height x round x step x block x timestamp) is run on the REAL types.FilePV whose key
// file lives on the logging in-memory file system verif/vfs. The signer's own file I/O reaches the shim
// through the identifier-level redirect of cmn.WriteFileAtomic and types.LoadFilePV (tools/gen_c04_vfs.py,
// dispatch in hooks/libs/common/vfs_hook.go; every other line is the file on disk).
//
// Then EVERY crash state of the file-system log is materialised - every operation boundary inside a call
// (open, write, torn write, close, rename, remove) and between calls, and, in the power-loss model, every
// loss of unsynced file data -, the real LoadFilePV is run on the surviving bytes and the remaining requests
// are issued to the reloaded signer.
//
// Oracle (judge), over everything RELEASED in both process lifetimes - a release is a signature stored in
// the caller's Vote/Proposal, observed at every file-system operation boundary and at return:
//   - per (height, round, step) at most one distinct signed payload (a repeat must come back with identical
//     sign-bytes - i.e. the original timestamp - and the identical signature, or be refused);
//   - nothing signed for a height/round/step below one already released;
//   - a released signature verifies over the payload handed back with it;
//   - LoadFilePV never fails on the bytes a crash leaves behind.
//
// Replay: ./check C04 --replay <file> re-runs the recorded history with all its crash scenarios.
package main

import (
	"fmt"
	"hash/fnv"
	"regexp"
	"sort"
	"strings"
	"sync"
	"time"

	"verif/vfs"
	"verif/vk"

	cmn "github.com/lianxiangcloud/linkchain/libs/common"
	"github.com/lianxiangcloud/linkchain/libs/crypto"
	"github.com/lianxiangcloud/linkchain/libs/log"
	"github.com/lianxiangcloud/linkchain/types"
)

const chainID = "c04-chain"

// ---------------------------------------------------------------------------------------------------------
// alphabet

type api int

const (
	apiSignVote api = iota
	apiSignProposal
	apiSignVoteWithoutSave
)

var apiNames = [...]string{"SignVote", "SignProposal", "SignVoteWithoutSave"}

// steps as types/priv_validator.go numbers them
const (
	stepPropose   = 1
	stepPrevote   = 2
	stepPrecommit = 3
)

var stepNames = map[int]string{stepPropose: "propose", stepPrevote: "prevote", stepPrecommit: "precommit"}

type request struct {
	api  api
	h    uint64
	r    int
	step int
	blk  int // 0 = A, 1 = B, 2 = nil
	ts   int
}

var (
	blkNames = [...]string{"A", "B", "nil"}
	blocks   = [...]types.BlockID{
		{Hash: cmn.BytesToHash([]byte("block-A")), PartsHeader: types.PartSetHeader{Total: 1, Hash: []byte("parts-of-block-A....")}},
		{Hash: cmn.BytesToHash([]byte("block-B")), PartsHeader: types.PartSetHeader{Total: 2, Hash: []byte("parts-of-block-B....")}},
		{},
	}
	t0     = time.Date(2019, 7, 1, 12, 0, 0, 0, time.UTC)
	stamps = [...]time.Time{t0, t0.Add(1234 * time.Millisecond)}
)

func (q request) String() string {
	return fmt.Sprintf("%s(h%d,r%d,%s,%s,t%d)", apiNames[q.api], q.h, q.r, stepNames[q.step], blkNames[q.blk], q.ts+1)
}

func (q request) hrs() [3]int64 { return [3]int64{int64(q.h), int64(q.r), int64(q.step)} }

func alphabet(heights []uint64, rounds []int, nblk, nts int, withoutSave bool) []request {
	var out []request
	apis := []api{apiSignVote, apiSignProposal}
	if withoutSave {
		apis = append(apis, apiSignVoteWithoutSave)
	}
	for _, a := range apis {
		steps := []int{stepPrevote, stepPrecommit}
		if a == apiSignProposal {
			steps = []int{stepPropose}
		}
		for _, h := range heights {
			for _, r := range rounds {
				for _, s := range steps {
					for b := 0; b < nblk; b++ {
						for t := 0; t < nts; t++ {
							out = append(out, request{a, h, r, s, b, t})
						}
					}
				}
			}
		}
	}
	return out
}

// ---------------------------------------------------------------------------------------------------------
// releases and the oracle

// release: one signed payload that left the signer (stored into the caller's Vote/Proposal).
type release struct {
	life     int // 0 = before the crash, 1 = after the reload
	idx      int // request index in the history
	api      api
	hrs      [3]int64
	bytes    string // sign-bytes of the object as handed back (timestamp possibly rewritten by the signer)
	payload  string // sign-bytes with the timestamp blanked: the payload "modulo timestamp"
	sig      string
	sigObj   crypto.Signature
	inflight bool // observed in the caller's object while the call was still running (crash inside the call)
}

func cmpHRS(a, b [3]int64) int {
	for i := 0; i < 3; i++ {
		if a[i] < b[i] {
			return -1
		}
		if a[i] > b[i] {
			return 1
		}
	}
	return 0
}

type finding struct {
	key, what string
}

// keyF11: the one class that is attributed to the API of the EARLIER release (see judge).
const keyF11 = "SignVoteWithoutSave:hrs-not-recorded"

// record is the last-signed record a signer holds right after LoadFilePV.
type record struct {
	hrs   [3]int64
	bytes string
}

// covers: the record is at or beyond the release (same HRS: it holds exactly those sign-bytes).
func (rec *record) covers(e release) bool {
	c := cmpHRS(rec.hrs, e.hrs)
	return c > 0 || c == 0 && rec.bytes == e.bytes
}

// judge compares a new release with an earlier one. This is the whole safety oracle:
//   - per (height, round, step) at most one distinct signed payload: same HRS => identical sign-bytes and
//     identical signature (a repeat may come back with the ORIGINAL timestamp, which makes the bytes identical);
//   - nothing is signed for an HRS below one already released.
//
// The key names the root-cause class: the broken rule for in-process defects, the way the earlier release
// got lost for restart defects.
func judge(e, n release, powerLoss bool, loaded *record) *finding {
	var rule, what string
	switch c := cmpHRS(n.hrs, e.hrs); {
	case c == 0 && n.payload != e.payload:
		rule, what = "double-sign:conflicting-payload", "two different payloads signed for one height/round/step"
	case c == 0 && n.bytes != e.bytes:
		rule, what = "double-sign:same-payload-second-timestamp", "the same vote/proposal signed twice with two timestamps (two distinct signed payloads for one height/round/step)"
	case c == 0 && n.sig != e.sig:
		rule, what = "double-sign:second-signature-same-bytes", "two different signatures released over identical sign-bytes"
	case c < 0:
		rule, what = "hrs-regression", "a payload was signed for a height/round/step BELOW one already released"
	default:
		return nil
	}
	switch {
	case e.api == apiSignVoteWithoutSave:
		// root cause independent of rule and of crashes: the call never records what it signed
		return &finding{keyF11, "FilePV.SignVoteWithoutSave releases a signature without recording the height/round/step (neither in memory nor on disk): " + what}
	case e.life == n.life:
		// a defect of the in-process checks: the broken rule is the root-cause class
		return &finding{rule, what + " (within one process lifetime)"}
	case loaded != nil && loaded.covers(e):
		// the restarted signer HAD the record of the earlier release and signed anyway: same class
		return &finding{rule, what + " (the earlier release was made before a restart; the reloaded record covers it)"}
	}
	// the earlier release was forgotten by the restart: the durability defect is the root-cause class,
	// whichever rule it then breaks
	how := "completed-release-forgotten"
	desc := "a signature handed out by a call that had returned is not covered by the record the restarted signer loads"
	if e.inflight {
		how = "signature-visible-before-record-durable"
		desc = "a signature was stored in the caller's object before the last-signed record was durable; after a crash at that point the restarted signer does not know about it"
	}
	if powerLoss {
		how += ":power-loss"
		desc += " (state after a power loss that drops unsynced data)"
	}
	return &finding{"across-restart:" + how, desc + ": " + what + " (" + rule + ")"}
}

// ---------------------------------------------------------------------------------------------------------
// running requests on the real signer

type outcome struct {
	api      api
	class    string // signed | signed:original-timestamp-handed-back | refused:<reason> | panic:<reason>
	released *release
}

var (
	reTemp  = regexp.MustCompile(`write-file-atomic-[0-9A-Za-z]+`)
	reMount = regexp.MustCompile(regexp.QuoteMeta(vfs.Root) + `c04-(w[0-9]+|init)/`)
)

// canon removes what differs between runs and workers from a message: the random temp-file suffix and the
// worker's mount name.
func canon(s string) string {
	return reMount.ReplaceAllString(reTemp.ReplaceAllString(s, "write-file-atomic-*"), "<datadir>/")
}

func classify(err string) string {
	for _, k := range []string{"Height regression", "Round regression", "Step regression", "Conflicting data", "No LastSignature found"} {
		if strings.Contains(err, k) {
			return "refused:" + strings.ToLower(strings.Replace(k, " ", "-", -1))
		}
	}
	return "refused:other"
}

type worker struct {
	id    int
	mount string
	dir   string
	path  string
	pub   crypto.PubKey
	addr  crypto.Address
	alpha []request

	// the request being executed (read by the FS annotation callback, same goroutine)
	curIdx   int
	curVote  *types.Vote
	curProp  *types.Proposal
	early    *release // first observation of a signature in the caller's object while the call is running
	verified map[string]bool

	// statistics (merged at the end)
	outcomes  map[string]int
	states    map[[4]uint64]struct{}
	nScen     int
	nPL       int
	nHist     int
	nReleases int
	nMemo     int
	nPruned   int
	nFallback int
	// distinct executions (independent of worker timing): first lifetimes, plus second lifetimes that are not
	// shared between histories; the shared ones are counted from the shared table at the end of a phase
	lLoads, lReqs int
	nLocalChecked int // memoised runs (within a history) re-executed and compared
	// what this worker really executed (depends on which worker got to a shared run first)
	rawReq, rawLoad, rawSharedChecked int
	sbCache                           map[sbKey][2]string
}

func (w *worker) count(o outcome) { w.outcomes[apiNames[o.api]+":"+o.class]++ }

// sbKey holds every field that enters the sign-bytes of a vote / proposal (the cache below only saves
// re-marshalling identical objects; it is keyed by what the signer handed back, not by the request).
type sbKey struct {
	vote       bool
	h          uint64
	r, typ     int
	bh         cmn.Hash
	pt         int
	ph         string
	polr       int
	polbh      cmn.Hash
	polpt      int
	polph      string
	ts         int64
	tsLocation string
}

func h64(b []byte) uint64 {
	h := fnv.New64a()
	h.Write(b)
	return h.Sum64()
}

func (w *worker) snapshot(life int) *release {
	var hrs [3]int64
	var sig crypto.Signature
	var k sbKey
	if w.curVote != nil {
		v := w.curVote
		sig = v.Signature
		step := stepPrevote
		if v.Type == types.VoteTypePrecommit {
			step = stepPrecommit
		}
		hrs = [3]int64{int64(v.Height), int64(v.Round), int64(step)}
		k = sbKey{vote: true, h: v.Height, r: v.Round, typ: int(v.Type), bh: v.BlockID.Hash, pt: v.BlockID.PartsHeader.Total,
			ph: string(v.BlockID.PartsHeader.Hash), ts: v.Timestamp.UnixNano(), tsLocation: v.Timestamp.Location().String()}
	} else {
		p := w.curProp
		sig = p.Signature
		hrs = [3]int64{int64(p.Height), int64(p.Round), stepPropose}
		k = sbKey{h: p.Height, r: p.Round, pt: p.BlockPartsHeader.Total, ph: string(p.BlockPartsHeader.Hash), polr: p.POLRound,
			polbh: p.POLBlockID.Hash, polpt: p.POLBlockID.PartsHeader.Total, polph: string(p.POLBlockID.PartsHeader.Hash),
			ts: p.Timestamp.UnixNano(), tsLocation: p.Timestamp.Location().String()}
	}
	sb, ok := w.sbCache[k]
	if !ok {
		if w.curVote != nil {
			c := *w.curVote
			sb[0] = string(c.SignBytes(chainID))
			c.Timestamp = time.Time{}
			sb[1] = string(c.SignBytes(chainID))
		} else {
			c := *w.curProp
			sb[0] = string(c.SignBytes(chainID))
			c.Timestamp = time.Time{}
			sb[1] = string(c.SignBytes(chainID))
		}
		w.sbCache[k] = sb
	}
	return &release{life: life, idx: w.curIdx, hrs: hrs, bytes: sb[0], payload: sb[1], sig: string(sig.Bytes()), sigObj: sig}
}

func (w *worker) sigVisible() bool {
	if w.curVote != nil {
		return w.curVote.Signature != nil
	}
	if w.curProp != nil {
		return w.curProp.Signature != nil
	}
	return false
}

// annot tags every FS operation with (request index, signature already visible in the caller's object).
func (w *worker) annot() int64 {
	a := int64(w.curIdx+1) << 1
	if w.sigVisible() {
		a |= 1
		if w.early == nil {
			w.early = w.snapshot(0)
			w.early.inflight = true
		}
	}
	return a
}

// exec issues one request to pv and reports what happened.
func (w *worker) exec(pv *types.FilePV, q request, idx, life int) outcome {
	w.curIdx, w.curVote, w.curProp, w.early = idx, nil, nil, nil
	var err error
	var panicked bool
	var pval interface{}
	switch q.api {
	case apiSignVote, apiSignVoteWithoutSave:
		typ := types.VoteTypePrevote
		if q.step == stepPrecommit {
			typ = types.VoteTypePrecommit
		}
		v := &types.Vote{ValidatorAddress: w.addr, ValidatorIndex: 0, ValidatorSize: 1, Height: q.h, Round: q.r,
			Timestamp: stamps[q.ts], Type: typ, BlockID: blocks[q.blk]}
		w.curVote = v
		if q.api == apiSignVote {
			panicked, pval = vk.Catch(func() { err = pv.SignVote(chainID, v) })
		} else {
			panicked, pval = vk.Catch(func() { err = pv.SignVoteWithoutSave(chainID, v) })
		}
	case apiSignProposal:
		p := &types.Proposal{Type: types.ProposalTypeNormal, Height: q.h, Round: q.r, Timestamp: stamps[q.ts],
			BlockPartsHeader: blocks[q.blk].PartsHeader, POLRound: -1}
		w.curProp = p
		panicked, pval = vk.Catch(func() { err = pv.SignProposal(chainID, p) })
	}
	w.rawReq++
	out := outcome{api: q.api}
	switch {
	case panicked:
		msg := canon(fmt.Sprint(pval))
		if strings.Contains(msg, vfs.Root) && strings.Contains(msg, "no such file or directory") && !strings.Contains(msg, "write-file-atomic-*") {
			vk.Fatalf("file I/O of the signer escaped the vfs redirect (%s): update tools/gen_c04_vfs.py", msg)
		}
		if len(msg) > 80 {
			msg = msg[:80]
		}
		out.class = "panic:" + msg
	case err != nil:
		out.class = classify(err.Error())
	case !w.sigVisible():
		out.class = "ok-without-signature"
	default:
		rel := w.snapshot(life)
		rel.api = q.api
		out.released = rel
		out.class = "signed"
		if (w.curVote != nil && !w.curVote.Timestamp.Equal(stamps[q.ts])) || (w.curProp != nil && !w.curProp.Timestamp.Equal(stamps[q.ts])) {
			out.class = "signed:original-timestamp-handed-back"
		}
	}
	// a call that failed or panicked may still have left a signature in the caller's object; that is a
	// release as well (the object is the caller's memory)
	if out.released == nil && w.sigVisible() {
		rel := w.snapshot(life)
		rel.api = q.api
		out.released = rel
		out.class += "+signature-left-in-object"
	}
	if w.early != nil {
		w.early.api = q.api
	}
	return out
}

// load runs the real LoadFilePV; a failure (cmn.Exit inside LoadFilePV, turned into a panic by the redirect)
// is reported as a string.
func (w *worker) load() (pv *types.FilePV, fail string) {
	w.rawLoad++
	w.curIdx, w.curVote, w.curProp, w.early = -1, nil, nil, nil
	if p, v := vk.Catch(func() { pv = types.LoadFilePV(w.path) }); p {
		if e, ok := v.(cmn.VerifExitPanic); ok {
			return nil, canon(e.Msg)
		}
		return nil, canon(fmt.Sprintf("panic: %v", v))
	}
	return pv, ""
}

func (w *worker) noteState(pv *types.FilePV, fs *vfs.FS) {
	disk, _ := fs.Content(w.path)
	k := [4]uint64{pv.LastHeight, uint64(pv.LastRound)<<8 | uint64(pv.LastStep), h64(pv.LastSignBytes), h64(disk)}
	w.states[k] = struct{}{}
}

// ---------------------------------------------------------------------------------------------------------
// one history with all its crash scenarios

type violation struct {
	finding
	scenario string
	replay   map[string]interface{}
}

type histResult struct {
	viol       []violation
	incomplete bool // the deadline passed inside this history
	foreign    bool // a second lifetime looked at a path other than the key file that it had not created itself
}

// lifeRun is what the second process lifetime did: reload, then the remaining requests.
type lifeRun struct {
	fail    string
	loaded  record // the record right after the reload
	outs    []outcome
	foreign bool
}

type memoKey struct {
	content string // key file content ("\x00absent" if the file does not exist)
	resume  int
}

func sameRun(a, b *lifeRun) bool {
	if a.fail != b.fail || len(a.outs) != len(b.outs) || a.loaded != b.loaded {
		return false
	}
	for i := range a.outs {
		x, y := a.outs[i], b.outs[i]
		if x.class != y.class || (x.released == nil) != (y.released == nil) {
			return false
		}
		if x.released != nil && (x.released.bytes != y.released.bytes || x.released.sig != y.released.sig) {
			return false
		}
	}
	return true
}

// recoverAndResume mounts the crash state st, runs the real LoadFilePV and issues requests resume.. to the
// reloaded signer. What the second lifetime does is a function of the bytes it reads and of the requests; it
// reads only the key file (checked on every execution: any look at another pre-existing path sets foreign
// and the caller repeats the history without memoisation), so within one history the run is memoised by
// (key file content, resume) - e.g. all crash points before the rename share one execution. One hit in 64
// (chosen by history and scenario index) is executed anyway and compared. Runs whose surviving bytes are the initial key file, or that have at
// most one remaining request, are also shared BETWEEN histories (cfg.gmemo), and the run "reload the initial
// file, then the whole history" is the first lifetime itself. Releases in a memoised run carry indices
// relative to resume.
func (w *worker) recoverAndResume(cfg *config, st *vfs.FS, hist []int, resume int, memo map[memoKey]*lifeRun, sel, fallback bool) *lifeRun {
	var key memoKey
	var gkey string
	if memo != nil {
		c, ok := st.Content(w.path)
		key = memoKey{string(c), resume}
		if !ok {
			key.content = "\x00absent"
		}
		run, hit := memo[key]
		local := hit
		if !hit && cfg.gmemo != nil && (key.content == cfg.c0 || len(hist)-resume <= 1) {
			// shared between histories: same surviving bytes, same remaining requests
			gkey = fmt.Sprint(hist[resume:]) + key.content
			if v, ok := cfg.gmemo.Load(gkey); ok {
				run, hit = v.(*lifeRun), true
				memo[key] = run
			}
		}
		if hit {
			if local {
				w.nMemo++
			}
			if !sel {
				return run
			}
			again := w.recoverAndResume(cfg, st, hist, resume, nil, false, false)
			if !sameRun(run, again) {
				vk.Fatalf("memoisation self-check failed: two crash states with the same key file content and the same remaining requests behaved differently (history %v, resume %d): %+v vs %+v", hist, resume, *run, *again)
			}
			if local {
				w.nLocalChecked++
			} else {
				w.rawSharedChecked++
			}
			return run
		}
	}
	st.Annot = w.annot
	vfs.Mount(w.mount, st)
	run := &lifeRun{}
	pv2, fail := w.load()
	if fail != "" {
		run.fail = fail
	} else {
		w.noteState(pv2, st)
		run.loaded = record{[3]int64{int64(pv2.LastHeight), int64(pv2.LastRound), int64(pv2.LastStep)}, string(pv2.LastSignBytes)}
		for j := resume; j < len(hist); j++ {
			run.outs = append(run.outs, w.exec(pv2, w.alpha[hist[j]], j-resume, 1))
			w.noteState(pv2, st)
		}
	}
	// read-set check
	created := map[string]bool{}
	for _, o := range st.Log() {
		if o.Kind == vfs.OpOpen && o.Created {
			created[o.Path] = true
		}
		for _, p := range []string{o.Path, o.Path2} {
			if p != "" && p != w.path && !created[p] {
				run.foreign = true
			}
		}
	}
	if memo != nil {
		memo[key] = run
		if gkey != "" {
			cfg.gmemo.Store(gkey, run)
		} else {
			w.lLoads++
			w.lReqs += len(run.outs)
		}
	} else if fallback {
		w.lLoads++ // un-memoised mode: every scenario is an execution
		w.lReqs += len(run.outs)
	}
	return run
}

type span struct{ start, end int }

func (w *worker) verify(rel *release) bool {
	k := rel.bytes + "|" + rel.sig
	ok, seen := w.verified[k]
	if !seen {
		ok = w.pub.VerifyBytes([]byte(rel.bytes), rel.sigObj)
		w.verified[k] = ok
	}
	return ok
}

func (w *worker) runHistory(cfg *config, hi int, hist []int, initFile []byte) histResult {
	res := w.runHistory1(cfg, hi, hist, initFile, true)
	if res.foreign {
		// the memoisation argument does not hold for this history: run every scenario for real
		w.nFallback++
		res = w.runHistory1(cfg, hi, hist, initFile, false)
	}
	return res
}

func (w *worker) runHistory1(cfg *config, hi int, hist []int, initFile []byte, useMemo bool) histResult {
	var res histResult
	var memo map[memoKey]*lifeRun
	if useMemo {
		memo = map[memoKey]*lifeRun{}
	}
	names := make([]string, len(hist))
	for i, o := range hist {
		names[i] = w.alpha[o].String()
	}
	report := func(f finding, scenario string, cp *vfs.CrashPoint, fslog []vfs.Op, extra string) {
		rp := map[string]interface{}{"history": names, "op_ids": hist, "scenario": scenario}
		if cp != nil {
			rp["crash_point"] = cp.String()
			var ops []string
			for i, o := range fslog {
				ops = append(ops, fmt.Sprintf("%d: %s", i, canon(o.String())))
			}
			rp["fs_log_of_first_lifetime"] = ops
		}
		what := f.what
		if extra != "" {
			what += " - " + extra
		}
		what += " [history: " + strings.Join(names, ", ") + "; " + scenario + "]"
		res.viol = append(res.viol, violation{finding{f.key, what}, scenario, rp})
	}

	// ---- lifetime 0, no crash ----
	fs := vfs.NewWith(map[string][]byte{w.path: initFile})
	fs.Annot = w.annot
	vfs.Mount(w.mount, fs)
	pv, fail := w.load()
	if fail != "" {
		vk.Fatalf("initial key file does not load: %s", fail)
	}
	fs.Checkpoint()
	w.lLoads++
	w.lReqs += len(hist)
	rec0 := record{[3]int64{int64(pv.LastHeight), int64(pv.LastRound), int64(pv.LastStep)}, string(pv.LastSignBytes)}
	w.nHist++
	n := len(hist)
	outs := make([]outcome, n)
	early := make([]*release, n)
	spans := make([]span, n)
	// As in any state-space search, a state reached THROUGH a violation is not expanded: crash scenarios whose
	// first lifetime already contains a violating request (completed or in flight), and requests after a violating one in the second
	// lifetime, are skipped (what they show is a consequence, and would be filed under a second key).
	// Violations of the recorded SignVoteWithoutSave class do not prune (they are attributed per pair).
	firstViol := n
	var rel0 []release // releases of lifetime 0 in order
	relUpTo := make([]int, n+1)
	for i, o := range hist {
		spans[i].start = fs.LogLen()
		outs[i] = w.exec(pv, w.alpha[o], i, 0)
		w.count(outs[i])
		spans[i].end = fs.LogLen()
		early[i] = w.early
		w.noteState(pv, fs)
		if r := outs[i].released; r != nil {
			w.nReleases++
			if !w.verify(r) {
				// not a signed payload at all: reported as such, and not compared with the others
				report(finding{"released-signature-invalid", "a signature was released that does not verify over the payload handed back with it"}, "no crash, request "+fmt.Sprint(i), nil, nil, "")
				if i < firstViol {
					firstViol = i
				}
				relUpTo[i+1] = len(rel0)
				continue
			}
			for _, e := range rel0 {
				if f := judge(e, *r, false, nil); f != nil {
					report(*f, fmt.Sprintf("no crash: request %d after request %d", i, e.idx), nil, nil, "")
					if f.key != keyF11 && i < firstViol {
						firstViol = i
					}
				}
			}
			rel0 = append(rel0, *r)
		}
		relUpTo[i+1] = len(rel0)
	}
	if !cfg.crashes {
		return res
	}
	fslog := fs.Log()
	if memo != nil {
		// "crash before the first request": LoadFilePV(initial file) + the whole history is what was just run
		memo[memoKey{string(initFile), 0}] = &lifeRun{outs: outs, loaded: rec0}
	}

	// ---- crash scenarios ----
	// Every crash point of the log is attributed to the request whose operation is in flight
	// ("inside request i": requests 0..i-1 completed, i was running and is lost unless its signature was
	// already visible, i+1.. are issued after the reload). In addition, for every i in 0..n a crash
	// BETWEEN calls (after request i-1 returned, before request i starts; requests i.. are issued after
	// the reload) - these exist also where a call did no file I/O at all.
	type scen struct {
		cp       vfs.CrashPoint
		inside   int // request in flight, or -1
		resume   int // first request issued after the reload
		boundary string
	}
	var scens []scen
	cps := fs.CrashPoints(cfg.powerLoss)
	owner := func(prefix int) int {
		for i := range spans {
			if prefix >= spans[i].start && prefix < spans[i].end {
				return i
			}
		}
		return -1
	}
	for _, cp := range cps {
		if i := owner(cp.Prefix); i >= 0 {
			scens = append(scens, scen{cp, i, i + 1, fs.Boundary(cp)})
		}
		// between calls: the crash points that sit exactly at the end of request i-1 / start of request i
		if cp.Torn < 0 {
			for i := 0; i <= n; i++ {
				at := 0
				if i > 0 {
					at = spans[i-1].end
				}
				if cp.Prefix == at {
					scens = append(scens, scen{cp, -1, i, "between-calls"})
				}
			}
		}
	}
	for si, sc := range scens {
		if cfg.r.Expired() {
			res.incomplete = true
			break
		}
		if (sc.inside >= 0 && firstViol <= sc.inside) || (sc.inside < 0 && firstViol < sc.resume) {
			w.nPruned++
			continue
		}
		if hi%cfg.sampleEvery == 11 && si == (hi/cfg.sampleEvery)%len(scens) {
			cfg.addSample(hi, map[string]interface{}{"history": names, "scenario_index": si, "scenarios_of_this_history": len(scens), "crash_point": sc.cp.String(), "boundary": sc.boundary, "resume_at_request": sc.resume})
		}
		w.nScen++
		if sc.cp.PowerLoss() {
			w.nPL++
		}
		var desc string
		if sc.inside >= 0 {
			desc = fmt.Sprintf("crash inside request %d (%s, fs op %d), reload, then requests %d..", sc.inside, sc.boundary, sc.cp.Prefix, sc.resume)
		} else {
			desc = fmt.Sprintf("crash between requests %d and %d, reload, then requests %d..", sc.resume-1, sc.resume, sc.resume)
		}
		if sc.cp.PowerLoss() {
			desc += " [power loss: " + sc.cp.String() + "]"
		}
		// what had been released when the process died
		var rels []release
		if sc.inside >= 0 {
			rels = append(rels, rel0[:relUpTo[sc.inside]]...)
			// the request in flight: released iff its signature was visible in the caller's object when the
			// interrupted file operation started
			if sc.cp.Prefix < len(fslog) && fslog[sc.cp.Prefix].Annot&1 == 1 && early[sc.inside] != nil {
				rels = append(rels, *early[sc.inside])
			}
		} else {
			rels = append(rels, rel0[:relUpTo[sc.resume]]...)
		}
		st := fs.Materialize(sc.cp)
		run := w.recoverAndResume(cfg, st, hist, sc.resume, memo, useMemo && (hi*31+si)%64 == 0, !useMemo)
		if run.foreign {
			res.foreign = true
		}
		if run.fail != "" {
			k := "reload-fails"
			if sc.cp.PowerLoss() {
				k = "reload-fails:power-loss"
			}
			report(finding{k, "LoadFilePV fails on the bytes a crash leaves behind (the validator cannot restart): " + run.fail}, desc, &sc.cp, fslog, "")
			continue
		}
		for k, o := range run.outs {
			w.count(o)
			if o.released == nil {
				continue
			}
			rr := *o.released
			rr.life, rr.idx = 1, sc.resume+k
			r := &rr
			w.nReleases++
			if !w.verify(r) {
				report(finding{"released-signature-invalid", "a signature was released that does not verify over the payload handed back with it"}, desc, &sc.cp, fslog, "")
				break
			}
			stop := false
			for _, e := range rels {
				if f := judge(e, *r, sc.cp.PowerLoss(), &run.loaded); f != nil {
					report(*f, desc, &sc.cp, fslog, fmt.Sprintf("request %d (released before the crash: %v) vs request %d (after the reload)", e.idx, e.life == 0, r.idx))
					if f.key != keyF11 {
						stop = true
					}
				}
			}
			if stop {
				break
			}
			rels = append(rels, *r)
		}
	}
	// a defect that already shows under the process-crash model is not filed a second time under the
	// power-loss model (a superset of crash states) for the same history
	plain := map[string]bool{}
	for _, v := range res.viol {
		plain[v.key] = true
	}
	kept := res.viol[:0]
	for _, v := range res.viol {
		if strings.HasSuffix(v.key, ":power-loss") && plain[strings.TrimSuffix(v.key, ":power-loss")] {
			continue
		}
		kept = append(kept, v)
	}
	res.viol = kept
	return res
}

// ---------------------------------------------------------------------------------------------------------

type config struct {
	r         *vk.Run
	crashes   bool
	powerLoss bool
	gmemo     *sync.Map // nil: no sharing between histories
	c0        string    // the initial key file

	sampleEvery int
	smu         sync.Mutex
	samples     map[int]interface{}
}

func (c *config) addSample(hi int, v interface{}) {
	c.smu.Lock()
	c.samples[hi] = v
	c.smu.Unlock()
}

type phase struct {
	name  string
	alpha []request
	depth int
}

func main() {
	log.Root().SetHandler(log.DiscardHandler())
	r := vk.Start("C04", "fault_enumeration")
	cfg := &config{r: r, crashes: true, powerLoss: true, sampleEvery: 1 << 30, samples: map[int]interface{}{}}

	priv := crypto.GenPrivKeyEd25519FromSecret([]byte("v0"))
	pub := priv.PubKey()

	// ---- self-test of the redirect + initial key file, written by the real code ----
	fs0 := vfs.New()
	dir0 := vfs.Mount("c04-init", fs0)
	if err := fs0.MkdirAll(dir0+"/config", 0755); err != nil {
		vk.Fatalf("mkdir: %v", err)
	}
	p0 := dir0 + "/config/priv_validator.json"
	if p, v := vk.Catch(func() {
		pv := types.GenFilePV(p0)
		pv.UpdatePrikey(priv)
		pv.Save()
	}); p {
		vk.Fatalf("redirect self-test: FilePV.Save through the vfs panics (%v); is tools/gen_c04_vfs.py in the overlay?", v)
	}
	initFile, ok := fs0.Content(p0)
	if !ok || len(initFile) == 0 {
		vk.Fatalf("redirect self-test: FilePV.Save did not write %s into the vfs", p0)
	}
	sawRead := false
	if p, v := vk.Catch(func() { types.LoadFilePV(p0) }); p {
		vk.Fatalf("redirect self-test: LoadFilePV of the freshly saved file fails: %v", v)
	}
	for _, o := range fs0.Log() {
		if o.Kind == vfs.OpRead && o.Path == p0 && o.Err == "" {
			sawRead = true
		}
	}
	if !sawRead {
		vk.Fatalf("redirect self-test: LoadFilePV did not read through the vfs")
	}
	if p, v := vk.Catch(func() { types.LoadFilePV(dir0 + "/config/missing.json") }); !p {
		vk.Fatalf("redirect self-test: LoadFilePV of a missing file returned")
	} else if _, ok := v.(cmn.VerifExitPanic); !ok {
		vk.Fatalf("redirect self-test: LoadFilePV of a missing file: unexpected panic %v", v)
	}
	var saveOps []string
	for _, o := range fs0.Log() {
		saveOps = append(saveOps, canon(o.String()))
	}
	vfs.Unmount("c04-init")
	r.Set("redirected_call_sites", cmn.VerifC04Redirects)
	r.Set("fs_ops_of_one_save_and_load", saveOps)
	if !cmn.VerifC04RedirectsBaseline {
		r.Note("the file-system calls inside WriteFileAtomic / LoadFilePV differ from the ones present when this harness was written; they are all redirected (see redirected_call_sites)")
	}

	// ---- oracle self-test on synthetic releases ----
	{
		a := release{life: 0, idx: 0, api: apiSignVote, hrs: [3]int64{1, 0, 2}, bytes: "x@t1", payload: "x", sig: "s1"}
		b := a
		b.idx, b.bytes, b.payload, b.sig = 1, "y@t1", "y", "s2"
		c := a
		c.idx, c.hrs = 1, [3]int64{1, 0, 1}
		d := a
		d.idx, d.bytes, d.sig = 1, "x@t2", "s3"
		e := a
		e.idx = 1
		if judge(a, b, false, nil) == nil || judge(a, c, false, nil) == nil || judge(a, d, false, nil) == nil || judge(a, e, false, nil) != nil {
			vk.Fatalf("oracle self-test failed")
		}
	}

	// ---- phases ----
	full := alphabet([]uint64{1, 2}, []int{0, 1}, 3, 2, true)
	var phases []phase
	if r.Quick() {
		phases = []phase{
			{"full-alphabet/depth<=2", full, 2},
			{"reduced-alphabet/depth3", alphabet([]uint64{1, 2}, []int{0, 1}, 2, 1, false), 3},
		}
	} else {
		phases = []phase{
			{"full-alphabet/depth<=3", full, 3},
		}
	}
	if r.ReplayPath != "" {
		var rp struct {
			OpIDs   []int    `json:"op_ids"`
			History []string `json:"history"`
		}
		r.LoadReplay(&rp)
		// the replay names the requests; find them in the full alphabet
		var hist []int
		for _, nm := range rp.History {
			found := -1
			for i, q := range full {
				if q.String() == nm {
					found = i
				}
			}
			if found < 0 {
				vk.Fatalf("replay: unknown request %q", nm)
			}
			hist = append(hist, found)
		}
		w := newWorker(0, full, pub)
		res := w.runHistory(cfg, 0, hist, initFile)
		for _, v := range res.viol {
			fmt.Printf("replay: %s :: %s\n", v.key, v.what)
			r.Violation(v.key, v.what, v.replay)
		}
		vfs.Unmount(w.mount)
		r.Finish()
	}

	type best struct {
		v     violation
		order [3]int
		count int
	}
	found := map[string]*best{}
	var fmu sync.Mutex
	total := newWorker(-1, full, pub)
	var per []interface{}
	capped := false

	for pi, ph := range phases {
		for depth := 1; depth <= ph.depth; depth++ {
			if pi > 0 && depth < ph.depth {
				continue // shorter histories of a reduced alphabet are contained in the first phase
			}
			nh := 1
			for i := 0; i < depth; i++ {
				nh *= len(ph.alpha)
			}
			nw := 64
			pool := make(chan *worker, nw)
			var all []*worker
			for i := 0; i < nw; i++ {
				w := newWorker(i, ph.alpha, pub)
				all = append(all, w)
				pool <- w
			}
			cfg.gmemo, cfg.c0 = &sync.Map{}, string(initFile)
			cfg.sampleEvery = nh/5 + 13
			start := time.Now()
			var done int64
			var dmu sync.Mutex
			vk.ParallelFor(nh, func(hi int) {
				if r.Expired() {
					return
				}
				w := <-pool
				hist := make([]int, depth)
				x := hi
				for i := depth - 1; i >= 0; i-- {
					hist[i] = x % len(ph.alpha)
					x /= len(ph.alpha)
				}
				res := w.runHistory(cfg, hi, hist, initFile)
				pool <- w
				if !res.incomplete {
					dmu.Lock()
					done++
					dmu.Unlock()
				}
				if len(res.viol) == 0 {
					return
				}
				fmu.Lock()
				for si, v := range res.viol {
					b := found[v.key]
					ord := [3]int{pi*10 + depth, hi, si}
					if b == nil {
						found[v.key] = &best{v, ord, 1}
						continue
					}
					b.count++
					if ord[0] < b.order[0] || ord[0] == b.order[0] && (ord[1] < b.order[1] || ord[1] == b.order[1] && ord[2] < b.order[2]) {
						b.v, b.order = v, ord
					}
				}
				fmu.Unlock()
			})
			ph1 := newWorker(-1, ph.alpha, pub)
			for _, w := range all {
				ph1.merge(w)
				vfs.Unmount(w.mount)
			}
			shared := 0
			cfg.gmemo.Range(func(_, v interface{}) bool {
				shared++
				ph1.lLoads++
				ph1.lReqs += len(v.(*lifeRun).outs)
				return true
			})
			total.merge(ph1)
			complete := int(done) == nh
			per = append(per, map[string]interface{}{"phase": ph.name, "depth": depth, "alphabet": len(ph.alpha), "histories": int(done),
				"histories_total": nh, "crash_scenarios": ph1.nScen, "power_loss_scenarios": ph1.nPL, "process_lifetimes_executed": ph1.lLoads,
				"requests_executed": ph1.lReqs, "second_lifetimes_shared_between_histories": shared, "releases_checked": ph1.nReleases,
				"wall_s": float64(int(time.Since(start).Seconds()*10)) / 10})
			fmt.Printf("C04 %s depth %d: %d/%d histories, %d crash scenarios, %d lifetimes and %d requests executed, %.1fs\n", ph.name, depth, done, nh, ph1.nScen, ph1.lLoads, ph1.lReqs, time.Since(start).Seconds())
			if !complete {
				capped = true
				r.Capped(fmt.Sprintf("%s: deadline inside depth %d (%d of %d histories done; shallower depths fully covered)", ph.name, depth, done, nh))
				break
			}
		}
		if capped {
			break
		}
	}

	keys := make([]string, 0, len(found))
	for k := range found {
		keys = append(keys, k)
	}
	sort.Strings(keys)
	for _, k := range keys {
		b := found[k]
		r.Violation(k, b.v.what, b.v.replay)
		for i := 1; i < b.count; i++ {
			r.Violation(k, "", nil)
		}
	}

	if len(total.outcomes) < 4 {
		vk.Fatalf("vacuous run: only %d distinct request outcomes %v", len(total.outcomes), total.outcomes)
	}
	r.Set("phases", per)
	r.Set("histories", total.nHist)
	r.Set("crash_scenarios", total.nScen)
	r.Set("power_loss_scenarios", total.nPL)
	r.Set("crash_scenarios_not_expanded_after_a_violation", total.nPruned)
	r.Set("process_lifetimes_executed", total.lLoads)
	r.Set("requests_executed", total.lReqs)
	r.Set("releases_checked", total.nReleases)
	r.Set("second_lifetimes_reused_within_a_history", total.nMemo)
	r.Set("reused_second_lifetimes_re_executed_and_compared", total.nLocalChecked)
	r.Set("histories_rerun_without_reuse", total.nFallback)
	r.Set("raw_executed_timing_dependent", map[string]int{"requests": total.rawReq, "lifetimes": total.rawLoad, "shared_second_lifetimes_re_executed_and_compared": total.rawSharedChecked})
	r.Set("outcomes", total.outcomes)
	his := make([]int, 0, len(cfg.samples))
	for hi := range cfg.samples {
		his = append(his, hi)
	}
	sort.Ints(his)
	for _, hi := range his {
		r.Sample(cfg.samples[hi])
	}
	r.Set("states", len(total.states))
	r.Set("transitions", total.lReqs+total.lLoads)
	r.Set("traces_validated_against_impl", total.lLoads)
	r.Set("evaluations", total.nHist+total.nScen)
	r.Set("distinct_nontrivial", len(total.states)+len(total.outcomes))
	r.Set("rule", "every history of signing requests over the alphabet up to the depth x every crash state of its file-system log (each op boundary inside and between calls, torn writes, lost unsynced data) is executed on the real FilePV / LoadFilePV / WriteFileAtomic; oracle over all releases of both process lifetimes. states = distinct (in-memory last-signed record, key file content) pairs seen after any request or reload; transitions = requests + (re)loads executed on the real code; traces_validated_against_impl = process lifetimes executed on the real code: one first lifetime per history, and one second lifetime per distinct (surviving key file bytes, remaining requests) - crash states that agree on both share the execution (the second lifetime provably reads nothing else: checked on every execution; 1 in 64 shared ones is re-executed and compared); evaluations = histories + crash scenarios judged by the oracle; non-trivial = states + distinct request outcomes")
	r.Assume("a signature counts as released from the moment it is stored in the caller's Vote/Proposal object (checked at every file-system operation boundary inside the call), and at the latest when the call returns without error")
	r.Assume("process-crash model: completed file operations survive, the one in flight is absent, complete, or (a write) applied to half its bytes")
	r.Assume("power-loss model: additionally any suffix of the data written through a handle without O_SYNC and not yet fsync'ed is lost (first lost write possibly torn at half); create/rename/remove/truncate are atomic, durable on return and ordered after synced data; directory-entry durability of rename without a directory fsync is NOT modelled")
	r.Assume("one crash per history; requests are sequential (FilePV serialises them under its mutex); I/O errors (full disk, EIO) are not injected")
	r.Assume("a panic inside a request (e.g. in save) counts as a refusal unless it leaves a signature in the caller's object")
	r.Assume("UpdatePrikey, Reset, Save and SignHeartbeat are outside the statement and not exercised; sign-bytes are the repository's canonical JSON (ValidatorAddress/Index and Proposal.Type are not part of them)")
	r.Finish()
}

func newWorker(id int, alpha []request, pub crypto.PubKey) *worker {
	w := &worker{id: id, alpha: alpha, pub: pub, addr: pub.Address(), verified: map[string]bool{},
		outcomes: map[string]int{}, states: map[[4]uint64]struct{}{}, sbCache: map[sbKey][2]string{}}
	if id >= 0 {
		w.mount = fmt.Sprintf("c04-w%d", id)
		w.dir = vfs.Root + w.mount
		w.path = w.dir + "/config/priv_validator.json"
	}
	return w
}

func (w *worker) merge(o *worker) {
	for k, n := range o.outcomes {
		w.outcomes[k] += n
	}
	for k := range o.states {
		w.states[k] = struct{}{}
	}
	w.nScen += o.nScen
	w.nPL += o.nPL
	w.nHist += o.nHist
	w.nReleases += o.nReleases
	w.nMemo += o.nMemo
	w.nPruned += o.nPruned
	w.nFallback += o.nFallback
	w.lLoads += o.lLoads
	w.lReqs += o.lReqs
	w.nLocalChecked += o.nLocalChecked
	w.rawReq += o.rawReq
	w.rawLoad += o.rawLoad
	w.rawSharedChecked += o.rawSharedChecked
}
