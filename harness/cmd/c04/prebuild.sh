#!/bin/bash
# Run by /verif/check between overlay generation and `go build` (and by setup.sh, where it is a no-op).
# A detection demo passes its mutant files through VERIF_EXTRA_OVERLAY, which tools/mkoverlay.py applies
# AFTER the generators: a mutant of libs/common/os.go or types/priv_validator.go would then be compiled
# WITHOUT the vfs redirect. This hook re-instruments whatever the finished overlay maps those two files to
# (see tools/gen_c04_vfs.py --fix-overlay). The overlay of the running check is .build/ov/c04.<pid of check>.json.
V="${VERIF_DIR:-$(cd "$(dirname "$0")/../../.." && pwd)}"
OV="$V/.build/ov/c04.$PPID.json"
[ -f "$OV" ] || exit 0
exec python3 "$V/tools/gen_c04_vfs.py" --fix-overlay "$OV" "${VERIF_REPO:-/repo}" "$V/.build/gen"
