package main

import (
	"bytes"
	"fmt"
	"strings"

	"verif/csnet"
	"verif/vk"

	cs "github.com/lianxiangcloud/linkchain/consensus"
	cstypes "github.com/lianxiangcloud/linkchain/consensus/types"
	"github.com/lianxiangcloud/linkchain/types"
)

// ---- part (5): real ConsensusState nodes reach (height 1, round r) on every path — stepping through the rounds
// (timeouts + nil votes), jumping on +2/3 votes of a later round, and every mixture — and must name the same
// proposer, the one of an independent single-step reference, and accept that proposer's proposal ----

const (
	keySkipStep   = "proposer-disagreement:skip-vs-step"
	keyStepRef    = "proposer:stepping-node-differs-from-reference"
	keyPropReject = "proposal-of-the-round's-proposer-not-accepted"
	keyNextHeight = "proposer:next-height-round-0-depends-on-how-the-last-height-went"
	keyEvDisagree = "fault-evidence:nodes-disagree-on-named-proposer"
	keyEvInvalid  = "fault-evidence:own-record-rejected-by-VerifyFaultValEvidence"
)

type moveKind int

const (
	mvStep      moveKind = iota // timeouts + nil prevotes/precommits of the current round (always one round)
	mvPrevotes                  // +2/3 nil prevotes of the TARGET round from the other validators: addVote -> enterNewRound(h, target)
	mvPrecommit                 // +2/3 nil precommits of round target-1 from the others: addVote -> enterNewRound(h, target)
)

type move struct {
	kind   moveKind
	target int
}

func (m move) String() string {
	switch m.kind {
	case mvStep:
		return fmt.Sprintf("step->%d", m.target)
	case mvPrevotes:
		return fmt.Sprintf("jump->%d(on prevotes of round %d)", m.target, m.target)
	}
	return fmt.Sprintf("jump->%d(on nil precommits of round %d)", m.target, m.target-1)
}

func pathStr(p []move) string {
	s := make([]string, len(p))
	for i, m := range p {
		s[i] = m.String()
	}
	return strings.Join(s, " ")
}

// all paths from round 0 to round r. full: a one-round move may also be a jump; otherwise one-round moves are steps.
func enumPaths(r int, full bool) [][]move {
	var out [][]move
	var rec func(cur int, acc []move)
	rec = func(cur int, acc []move) {
		if cur == r {
			out = append(out, append([]move{}, acc...))
			return
		}
		for t := cur + 1; t <= r; t++ {
			kinds := []moveKind{mvPrevotes, mvPrecommit}
			if t == cur+1 {
				kinds = []moveKind{mvStep}
				if full {
					kinds = []moveKind{mvStep, mvPrevotes, mvPrecommit}
				}
			}
			for _, k := range kinds {
				rec(t, append(acc, move{k, t}))
			}
		}
	}
	rec(0, nil)
	return out
}

type simNode struct {
	f      *csnet.Fixture
	self   int
	others []int
	n      *csnet.Node
	inputs int // votes, proposals, block parts and timeouts handed to the real handlers
}

func newSimNode(f *csnet.Fixture, self int) *simNode {
	s := &simNode{f: f, self: self, n: f.NewNode(self, 0)}
	for i := range f.Keys {
		if i != self {
			s.others = append(s.others, i)
		}
	}
	return s
}

func (s *simNode) rs() *cstypes.RoundState { return s.n.CS.GetRoundState() }

func (s *simNode) fire() bool {
	ok := s.n.FireTimeout()
	s.n.Drain()
	if ok {
		s.inputs++
	}
	return ok
}

// until fires pending timeouts (at most a handful) until cond holds
func (s *simNode) until(cond func() bool) bool {
	for i := 0; i < 6 && !cond(); i++ {
		if !s.fire() {
			break
		}
	}
	return cond()
}

func (s *simNode) vote(j int, round int, typ byte, id types.BlockID) {
	s.n.Deliver(&cs.VoteMessage{Vote: s.f.Vote(j, 1, round, typ, id)}, fmt.Sprintf("peer-%d", j))
	s.n.Drain()
	s.inputs++
}

func (s *simNode) votesFromOthers(round int, typ byte, id types.BlockID) {
	for _, j := range s.others {
		s.vote(j, round, typ, id)
	}
}

func (s *simNode) at(round int) bool {
	rs := s.rs()
	return rs.Height == 1 && rs.Round == round && rs.Step >= cstypes.RoundStepNewRound
}

// start: NewHeight timeout -> round 0
func (s *simNode) start() bool {
	return s.until(func() bool { return s.at(0) })
}

// stepRound: one round forward the slow way
func (s *simNode) stepRound(cur int) bool {
	in := func(step cstypes.RoundStepType) func() bool {
		return func() bool { rs := s.rs(); return rs.Round > cur || rs.Step >= step }
	}
	s.until(in(cstypes.RoundStepPrevote)) // propose timeout (or the own proposal) -> prevote
	s.votesFromOthers(cur, types.VoteTypePrevote, types.BlockID{})
	s.until(in(cstypes.RoundStepPrecommit)) // prevote-wait timeout if the node itself prevoted its own block
	s.votesFromOthers(cur, types.VoteTypePrecommit, types.BlockID{})
	return s.until(func() bool { return s.rs().Round > cur }) && s.at(cur+1)
}

func (s *simNode) apply(m move) bool {
	switch m.kind {
	case mvStep:
		return s.stepRound(m.target - 1)
	case mvPrevotes:
		s.votesFromOthers(m.target, types.VoteTypePrevote, types.BlockID{})
	case mvPrecommit:
		s.votesFromOthers(m.target-1, types.VoteTypePrecommit, types.BlockID{})
	}
	return s.at(m.target)
}

func (s *simNode) proposerIndex() int {
	p := s.rs().Validators.GetProposer()
	for i, k := range s.f.Keys {
		if bytes.Equal(k.PubKey().Address(), p.Address) {
			return i
		}
	}
	return -1
}

// offerProposal makes validator `proposer` propose an honest block at (1, round) and reports whether the node
// ends up holding a proposal signed by that validator (for proposer == self: its own proposal).
func (s *simNode) offerProposal(proposer, round int) (bool, string, types.BlockID) {
	var id types.BlockID
	if proposer != s.self {
		st := s.n.VerifStatus()
		b, ps := s.f.MakeBlock(st, csnet.NewTrivApp(s.f.Vals, 5), proposer, nil, nil)
		id = csnet.BlockID(b, ps)
		p := s.f.Proposal(proposer, 1, round, ps.Header(), -1, types.BlockID{})
		s.n.Deliver(&cs.ProposalMessage{Proposal: p}, fmt.Sprintf("peer-%d", proposer))
		s.n.Drain()
		s.inputs++
		for i := 0; i < ps.Total(); i++ {
			s.n.Deliver(&cs.BlockPartMessage{Height: 1, Round: round, Part: ps.GetPart(i)}, fmt.Sprintf("peer-%d", proposer))
			s.n.Drain()
			s.inputs++
		}
	}
	rs := s.rs()
	if proposer == s.self {
		// The node must have taken the turn: it signed and queued a proposal for this round. Whether it also
		// ADOPTS its own proposal is not asked: decideProposal fills POLRound from Votes.POLInfo(), and after a jump
		// on +2/3 nil prevotes of this very round that is the round itself, which setProposal refuses (the round is
		// already lost to nil at that point; same in upstream Tendermint).
		for _, m := range s.n.Sent {
			if pm, ok := m.(*cs.ProposalMessage); ok && pm.Proposal.Height == 1 && pm.Proposal.Round == round &&
				s.f.Keys[proposer].PubKey().VerifyBytes(pm.Proposal.SignBytes(csnet.ChainID), pm.Proposal.Signature) {
				if rs.ProposalBlock != nil && rs.ProposalBlockParts != nil {
					id = csnet.BlockID(rs.ProposalBlock, rs.ProposalBlockParts)
				}
				return true, "", id
			}
		}
		return false, "the node did not propose although it is the proposer of the round", id
	}
	if rs.Proposal == nil {
		return false, "the node holds no proposal", id
	}
	if rs.Proposal.Round != round || !s.f.Keys[proposer].PubKey().VerifyBytes(rs.Proposal.SignBytes(csnet.ChainID), rs.Proposal.Signature) {
		return false, "the node holds a proposal that validator #" + fmt.Sprint(proposer) + " did not sign", id
	}
	if rs.ProposalBlock == nil || rs.ProposalBlockParts == nil {
		return false, "the node accepted the proposal but not its block", id
	}
	return true, "", id
}

// refProposer: independent reference — the set is rotated once when it is built (round 0) and once per round.
func refProposer(powers []int64, round int) int {
	m := newModel()
	for i, p := range powers {
		m.v = append(m.v, mv{i, p, 0, 0})
	}
	for i := 0; i <= round; i++ {
		m.step()
	}
	return m.prop
}

type simResult struct {
	vios                                     []*vio
	runs, inputs, infeasible, unreached      int
	evCases, evNamedNotActual, evCommitFails int
	evSample                                 string
	evByRound                                map[int]int // commit round -> cases where the named proposer is not the actual one
	unreachedSample                          string
}

func (sr *simResult) add(key, what string, replay interface{}) {
	for _, v := range sr.vios {
		if v.key == key {
			v.count++
			return
		}
	}
	sr.vios = append(sr.vios, &vio{key, what, replay, 1})
}

// canJump: the other validators alone hold +2/3 (the rule of VoteSet.HasTwoThirdsAny)
func canJump(powers []int64, self int) bool {
	var total, others int64
	for i, p := range powers {
		total += p
		if i != self {
			others += p
		}
	}
	return others > total*2/3
}

func simVector(powers []int64, maxRound int, full bool, evidence bool) (sr *simResult) {
	sr = &simResult{evByRound: map[int]int{}}
	f := csnet.NewFixture(powers)
	desc := powersStr(powers)
	rp := func(self, r int, path []move) map[string]interface{} {
		mvs := [][2]int{}
		for _, m := range path {
			mvs = append(mvs, [2]int{int(m.kind), m.target})
		}
		return map[string]interface{}{"sim_powers_by_validator_index": powersText(powers), "node": self, "round": r, "path": pathStr(path), "moves": mvs}
	}
	for self := range powers {
		jump := canJump(powers, self)
		for r := 1; r <= maxRound; r++ {
			want := refProposer(powers, r)
			stepProp := -2
			for _, path := range enumPaths(r, full) {
				usesJump := false
				for _, m := range path {
					if m.kind != mvStep {
						usesJump = true
					}
				}
				if usesJump && !jump {
					sr.infeasible++
					continue
				}
				func() {
					s := newSimNode(f, self)
					defer s.n.Close()
					defer func() {
						sr.inputs += s.inputs
						if e := recover(); e != nil {
							sr.add(keyPanic+":consensus-node", fmt.Sprintf("powers %s node #%d path %s: %v", desc, self, pathStr(path), e), rp(self, r, path))
						}
					}()
					sr.runs++
					ok := s.start()
					for _, m := range path {
						if !ok {
							break
						}
						ok = s.apply(m)
					}
					if !ok {
						sr.unreached++
						if sr.unreachedSample == "" {
							rs := s.rs()
							sr.unreachedSample = fmt.Sprintf("powers %s node #%d path %s: at %d/%d/%v", desc, self, pathStr(path), rs.Height, rs.Round, rs.Step)
						}
						return
					}
					got := s.proposerIndex()
					if !usesJump {
						stepProp = got
						if got != want {
							sr.add(keyStepRef, fmt.Sprintf("powers %s (by validator index): node #%d stepping to round %d names proposer #%d, single-step reference #%d", desc, self, r, got, want), rp(self, r, path))
						}
					} else if stepProp >= -1 && got != stepProp {
						acc, why, _ := s.offerProposal(stepProp, r)
						sr.add(keySkipStep, fmt.Sprintf("powers %s (by validator index), node #%d, height 1 round %d: reached by [%s] the node expects proposer #%d, reached by stepping through the rounds it expects #%d (reference #%d); proposal of #%d accepted by the jumping node: %v %s",
							desc, self, r, pathStr(path), got, stepProp, want, stepProp, acc, why), rp(self, r, path))
						return
					}
					if got == want {
						if acc, why, _ := s.offerProposal(want, r); !acc {
							sr.add(keyPropReject, fmt.Sprintf("powers %s node #%d round %d path [%s]: proposer #%d agreed, but %s", desc, self, r, pathStr(path), want, why), rp(self, r, path))
						}
					}
				}()
			}
		}
	}
	if evidence {
		simEvidence(f, powers, maxRound, sr)
	}
	return sr
}

// simEvidence (measured): commit height 1 at round c on every node, let the real getLastFaultValsInfo build the
// fault-validator record for the next block, and compare the proposer it names with the validator that proposed.
func simEvidence(f *csnet.Fixture, powers []int64, maxRound int, sr *simResult) {
	desc := powersStr(powers)
	for c := 1; c <= maxRound; c++ {
		actual := refProposer(powers, c)
		named := make([]int, len(powers))
		for self := range powers {
			named[self] = -9
			func() {
				s := newSimNode(f, self)
				defer s.n.Close()
				defer func() {
					sr.inputs += s.inputs
					if e := recover(); e != nil {
						sr.add(keyPanic+":consensus-node", fmt.Sprintf("powers %s node #%d commit at round %d: %v", desc, self, c, e), nil)
					}
				}()
				ok := s.start()
				for cur := 0; cur < c && ok; cur++ {
					ok = s.stepRound(cur)
				}
				if !ok {
					sr.evCommitFails++
					return
				}
				if s.proposerIndex() != actual {
					return // already reported by the path enumeration (stepping node differs from the reference)
				}
				acc, _, id := s.offerProposal(actual, c)
				if !acc {
					sr.evCommitFails++
					return
				}
				s.votesFromOthers(c, types.VoteTypePrevote, id)
				s.votesFromOthers(c, types.VoteTypePrecommit, id)
				s.until(func() bool { return s.rs().Height == 2 })
				rs := s.rs()
				if rs.Height != 2 || rs.LastCommit == nil {
					sr.evCommitFails++
					return
				}
				// the next height starts one rotation after round 0 of this height, whatever round committed
				if got, want := s.proposerIndex(), refProposer(powers, 1); got != want {
					sr.add(keyNextHeight, fmt.Sprintf("powers %s node #%d: height 1 committed at round %d, the node names proposer #%d for height 2 round 0, reference #%d", desc, self, c, got, want), nil)
				}
				lc := rs.LastCommit.MakeCommit()
				ev, _ := cs.VerifC17LastFaultValsInfo(s.n.CS, lc).(*types.FaultValidatorsEvidence)
				if ev == nil || ev.Proposer == nil {
					sr.evCommitFails++
					return
				}
				for i, k := range f.Keys {
					if bytes.Equal(k.PubKey().Address(), ev.Proposer.Address()) {
						named[self] = i
					}
				}
				sr.evCases++
				if err := cs.VerifyFaultValEvidence(s.n.VerifStatus(), lc, ev); err != nil {
					sr.add(keyEvInvalid, fmt.Sprintf("powers %s node #%d, height 1 committed at round %d: the record built by getLastFaultValsInfo is rejected by VerifyFaultValEvidence: %v", desc, self, c, err), nil)
				}
				if named[self] != actual {
					sr.evNamedNotActual++
					sr.evByRound[c]++
					if sr.evSample == "" {
						sr.evSample = fmt.Sprintf("powers %s (by validator index), height 1 committed at round %d: block proposed by #%d, the next block's FaultValidatorsEvidence names #%d", desc, c, actual, named[self])
					}
				}
			}()
		}
		for self := 1; self < len(named); self++ {
			if named[self] >= 0 && named[0] >= 0 && named[self] != named[0] {
				sr.add(keyEvDisagree, fmt.Sprintf("powers %s, height 1 committed at round %d: node #0 names #%d, node #%d names #%d", desc, c, named[0], self, named[self]), nil)
			}
		}
	}
}

// runSim enumerates every vector and reports into r (in vector order).
func runSim(r *vk.Run, vectors [][]int64, alphabet []int64, maxRound int, full bool) map[string]interface{} {
	res := make([]*simResult, len(vectors))
	vk.ParallelFor(len(vectors), func(i int) {
		if r.Expired() {
			return
		}
		res[i] = simVector(vectors[i], maxRound, full, true)
	})
	var runs, inputs, infeasible, unreached, evCases, evDiff, evFails int
	var evSample, unSample string
	byRound := map[string]int{}
	for c := 1; c <= maxRound; c++ {
		byRound[fmt.Sprintf("commit_round_%d", c)] = 0
	}
	for _, sr := range res {
		if sr == nil {
			r.Capped("simulation phase hit the deadline")
			continue
		}
		for _, v := range sr.vios {
			for c := 0; c < v.count; c++ {
				r.Violation(v.key, v.what, v.replay)
			}
		}
		runs += sr.runs
		inputs += sr.inputs
		infeasible += sr.infeasible
		unreached += sr.unreached
		evCases += sr.evCases
		evDiff += sr.evNamedNotActual
		evFails += sr.evCommitFails
		for c, n := range sr.evByRound {
			byRound[fmt.Sprintf("commit_round_%d", c)] += n
		}
		if evSample == "" {
			evSample = sr.evSample
		}
		if unSample == "" {
			unSample = sr.unreachedSample
		}
	}
	nv := 0
	for _, sr := range res {
		if sr != nil {
			nv += len(sr.vios)
		}
	}
	if (unreached > 0 || evFails > 0) && nv > 0 {
		// the code under test misbehaves (violations are being reported): unreachable rounds are a consequence
		r.Note("simulation: %d feasible paths did not reach their round (%s), %d commits for the evidence measurement failed", unreached, unSample, evFails)
	} else if unreached > 0 || evFails > 0 {
		vk.Fatalf("simulation: %d feasible paths did not reach their round (%s), %d commits for the evidence measurement failed", unreached, unSample, evFails)
	}
	paths := 0
	for rr := 1; rr <= maxRound; rr++ {
		paths += len(enumPaths(rr, full))
	}
	r.Add("sim_node_runs", runs)
	r.Add("sim_inputs", inputs)
	return map[string]interface{}{
		"power_alphabet": alphabet, "power_vectors": len(vectors), "validators": len(vectors[0]), "observed_node": "each validator in turn", "rounds": fmt.Sprintf("1..%d", maxRound),
		"paths_per_node_over_all_rounds": paths, "one_round_moves_may_be_jumps": full,
		"node_runs": runs, "inputs_handled_by_real_handlers": inputs, "paths_infeasible(others lack +2/3)": infeasible,
		"fault_evidence_cases(measured)": evCases, "fault_evidence_named_proposer_is_not_the_actual_proposer(measured)": evDiff, "fault_evidence_sample": evSample,
		"fault_evidence_named_not_actual_by_commit_round(measured)": byRound,
	}
}

// replaySim re-runs one recorded simulation case next to the all-steps path and prints both proposers.
func replaySim(powers []int64, self, round int, moves [][2]int) bool {
	f := csnet.NewFixture(powers)
	run := func(path []move) int {
		s := newSimNode(f, self)
		defer s.n.Close()
		ok := s.start()
		for _, m := range path {
			if ok {
				ok = s.apply(m)
			}
		}
		if !ok {
			vk.Fatalf("replay: path %s does not reach its round", pathStr(path))
		}
		return s.proposerIndex()
	}
	var path, steps []move
	for _, m := range moves {
		path = append(path, move{moveKind(m[0]), m[1]})
	}
	for t := 1; t <= round; t++ {
		steps = append(steps, move{mvStep, t})
	}
	a, b := run(path), run(steps)
	fmt.Printf("powers %v node #%d round %d: [%s] -> proposer #%d; [%s] -> proposer #%d; reference #%d\n", powers, self, round, pathStr(path), a, pathStr(steps), b, refProposer(powers, round))
	return a == b && b == refProposer(powers, round)
}
