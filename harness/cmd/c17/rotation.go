package main

import (
	"bytes"
	"fmt"
	"math/big"
	"runtime/debug"
	"sort"
	"sync"

	"verif/vk"

	"github.com/lianxiangcloud/linkchain/types"
)

// ---- parts (1) path independence, (2) proportionality, (3a) construction-order independence, (4) saturation,
// enumerated per validator set ----

const maxN = 6

// rstate: priorities and proposer of a set with fixed membership, comparable with ==
type rstate struct {
	a    [maxN]int64
	prop int8
}

func rotState(s *types.ValidatorSet) rstate {
	st := rstate{prop: -1}
	for i, v := range s.Validators {
		st.a[i] = v.Accum
		if s.Proposer != nil && bytes.Equal(v.Address, s.Proposer.Address) {
			st.prop = int8(i)
		}
	}
	return st
}

func modelState(m *model) rstate {
	st := rstate{prop: -1}
	for i, v := range m.v {
		st.a[i] = v.a
		if v.id == m.prop {
			st.prop = int8(i)
		}
	}
	return st
}

func (st rstate) str(n int) string {
	return fmt.Sprintf("accum=%v proposer=#%d", st.a[:n], st.prop)
}

type vio struct {
	key, what string
	replay    interface{}
	count     int
}

type setResult struct {
	vios          []*vio // in enumeration order, one per key
	states        int    // distinct (priorities, proposer) states seen for this set
	calls         int    // IncrementAccum calls executed on the real code
	compositions  int
	perms         int
	clipping      bool
	propDiff      int // F8 cases where the PROPOSER differs
	accumDiff     int // F8 cases where only priorities differ
	periodZero    bool
	firstBatch    string // first batch-vs-single difference of this set
	periodTooLong bool   // no saturation, but one period is too long to enumerate (huge powers): proportionality not decided
	starved       []int
	maxShareDev   float64
}

func (sr *setResult) add(key, what string, replay interface{}) {
	for _, v := range sr.vios {
		if v.key == key {
			v.count++
			return
		}
	}
	sr.vios = append(sr.vios, &vio{key, what, replay, 1})
}

type rotCfg struct {
	maxStart int // start states: after 0..maxStart single steps from the fresh set
	maxTotal int // total increments k of a composition
	periods  int // proportionality: periods checked (non-clipping sets)
	window   int // measured window for clipping sets
}

func powersStr(p []int64) string {
	s := "("
	for i, x := range p {
		if i > 0 {
			s += ","
		}
		s += pstr(x)
	}
	return s + ")"
}

// keys of the violations this file can raise
const (
	keyBatch      = "IncrementAccum(n):n-at-once!=n-single-steps"
	keyBatchArith = "IncrementAccum(n):result-not-clipped-arithmetic"
	keyStepProp   = "IncrementAccum(1):wrong-proposer"
	keyStepTie    = "IncrementAccum(1):wrong-proposer-on-priority-tie"
	keyStepAccum  = "IncrementAccum(1):priority-arithmetic"
	keyStepWrap   = "IncrementAccum(1):priority-wraps-instead-of-saturating"
	keyTotal      = "TotalVotingPower:not-saturating-sum"
	keyCopyAlias  = "Copy:aliasing:rotation-of-copy-changes-original"
	keyCopyDiv    = "Copy:copy-rotates-differently-from-original"
	keyProportion = "proportionality:proposals-per-period!=voting-power"
	keyCtorOrder  = "NewValidatorSet:result-depends-on-input-order"
	keyCtorSort   = "NewValidatorSet:not-sorted-by-address"
	keyHashAccum  = "Hash:depends-on-priorities-or-proposer"
	keyHashColl   = "Hash:two-different-sets-one-hash"
	keyPanic      = "panic"
)

var hashOwner sync.Map // hash -> content (identity must be injective over everything enumerated)

func claimHash(h []byte, content string) (string, bool) {
	prev, loaded := hashOwner.LoadOrStore(string(h), content)
	if loaded && prev.(string) != content {
		return prev.(string), false
	}
	return "", true
}

func checkSet(powers []int64, cfg rotCfg, deadline func() bool) (sr *setResult) {
	n := len(powers)
	sr = &setResult{}
	desc := powersStr(powers)
	defer func() {
		if e := recover(); e != nil {
			sr.add(keyPanic+":rotation", fmt.Sprintf("panic on set %s: %v\n%s", desc, e, debug.Stack()), map[string]interface{}{"powers_by_address": powersText(powers)})
		}
	}()
	// input list in DESCENDING address order, so that the constructor's sort has work to do
	in := make([]*types.Validator, n)
	ref := newModel()
	for i := 0; i < n; i++ {
		in[n-1-i] = mkVal(i, powers[i], 0)
		ref.v = append(ref.v, mv{i, powers[i], 0, 0})
	}
	build := func() *types.ValidatorSet { return types.NewValidatorSet(in) }
	rp := func(extra map[string]interface{}) map[string]interface{} {
		m := map[string]interface{}{"powers_by_address": powersText(powers), "validators": fixtureNames(n)}
		for k, v := range extra {
			m[k] = v
		}
		return m
	}

	// --- single steps against the reference (also part 4: totals and priorities saturate) ---
	total := cfg.maxStart + cfg.maxTotal
	total_ := total
	singles := make([]rstate, total+1)
	seen := map[rstate]struct{}{}
	s := build()
	if !sortedStrict(s) {
		sr.add(keyCtorSort, fmt.Sprintf("NewValidatorSet%s is not strictly sorted by address", desc), rp(nil))
		return
	}
	pre := ref.clone()
	ref.step() // the constructor performs the first rotation
	h0 := s.Hash()
	if prev, ok := claimHash(h0, ref.content()); !ok {
		sr.add(keyHashColl, fmt.Sprintf("sets %s and %s have the same Hash %X", prev, ref.content(), h0), rp(nil))
	}
	cmp := func(j int, real rstate, before *model) bool {
		want := modelState(ref)
		if real == want {
			return true
		}
		key := classifyStep(before, real)
		d := desc
		if j == 0 {
			d += " (step #0 is the rotation performed by NewValidatorSet)"
		}
		sr.add(key, fmt.Sprintf("set %s, single step #%d: real %s, reference %s", d, j, real.str(n), want.str(n)), rp(map[string]interface{}{"single_steps": j}))
		return false
	}
	okSingles := true
	singles[0] = rotState(s)
	seen[singles[0]] = struct{}{}
	if !cmp(0, singles[0], pre) {
		okSingles = false
	}
	if tv, want := s.TotalVotingPower(), ref.total(); tv != want {
		sr.add(keyTotal, fmt.Sprintf("set %s: TotalVotingPower()=%d, saturating sum=%d", desc, tv, want), rp(nil))
	}
	for j := 1; j <= total && okSingles; j++ {
		before := ref.clone()
		s.IncrementAccum(1)
		sr.calls++
		ref.step()
		singles[j] = rotState(s)
		seen[singles[j]] = struct{}{}
		if !cmp(j, singles[j], before) {
			okSingles = false
		}
	}
	if !bytes.Equal(s.Hash(), h0) {
		sr.add(keyHashAccum, fmt.Sprintf("set %s: Hash changes after %d rotations", desc, total), rp(nil))
	}
	sr.clipping = ref.clipped
	if !okSingles {
		return // the differential below would only repeat the same defect
	}

	// --- Copy isolation at every start state (enterNewRound / fault-evidence pattern: Copy, then rotate) ---
	for m := 0; m <= cfg.maxStart; m++ {
		base := build()
		for j := 0; j < m; j++ {
			base.IncrementAccum(1)
		}
		c := base.Copy()
		c.IncrementAccum(1)
		sr.calls += m + 1
		if rotState(base) != singles[m] {
			sr.add(keyCopyAlias, fmt.Sprintf("set %s after %d steps: IncrementAccum(1) on Copy() changed the original: %s -> %s", desc, m, singles[m].str(n), rotState(base).str(n)), rp(map[string]interface{}{"single_steps": m}))
		}
		if rotState(c) != singles[m+1] {
			sr.add(keyCopyDiv, fmt.Sprintf("set %s after %d steps: Copy()+IncrementAccum(1) gives %s, the original gives %s", desc, m, rotState(c).str(n), singles[m+1].str(n)), rp(map[string]interface{}{"single_steps": m}))
		}
	}

	// --- cold twins (cold.go): the set a restarted node holds at every start state — decoded, Copy() of decoded,
	// struct literal — must report the same total and rotate exactly like the set that stayed in memory; looked at
	// in two orders (total first / rotation first) ---
	for m := 0; m <= cfg.maxStart; m++ {
		base := build()
		for j := 0; j < m; j++ {
			base.IncrementAccum(1)
		}
		sr.calls += m
		for kind := relDecoded; kind <= relLiteral; kind++ {
			for order := 0; order < 2; order++ {
				c := reloadFast(kind, base)
				if rotState(c) != singles[m] {
					sr.add(keyReloadDiff, fmt.Sprintf("set %s after %d steps, %s: %s, in memory %s", desc, m, kind, rotState(c).str(n), singles[m].str(n)), rp(map[string]interface{}{"single_steps": m, "reload": kind.String()}))
					continue
				}
				total := func() {
					if got, want := c.TotalVotingPower(), ref.total(); got != want {
						sr.add(keyLazyTotal, fmt.Sprintf("set %s after %d steps, %s: TotalVotingPower()=%d, in memory %d", desc, m, kind, got, want), rp(map[string]interface{}{"single_steps": m, "reload": kind.String()}))
					}
				}
				if order == 0 {
					total()
				}
				for j := 1; j <= coldRotations && m+j <= total_; j++ {
					c.IncrementAccum(1)
					sr.calls++
					if got := rotState(c); got != singles[m+j] {
						sr.add(keyLazyRot, fmt.Sprintf("set %s after %d steps, %s: rotation #%d gives %s, the set that stayed in memory %s", desc, m, kind, j, got.str(n), singles[m+j].str(n)),
							rp(map[string]interface{}{"single_steps": m, "reload": kind.String()}))
						break
					}
				}
				if order == 1 {
					total()
				}
			}
		}
	}

	// --- (1) path independence: every composition of k increments from every start state ---
	for m := 0; m <= cfg.maxStart; m++ {
		for k := 2; k <= cfg.maxTotal; k++ {
			if deadline() {
				return
			}
			allOnes := uint(1)<<uint(k-1) - 1
			for mask := uint(0); mask < allOnes; mask++ { // bit i set = cut after increment i+1; allOnes = k single steps (the reference path)
				x := build()
				for j := 0; j < m; j++ {
					x.IncrementAccum(1)
				}
				sr.calls += m
				var parts []int
				run := 1
				for i := 0; i < k-1; i++ {
					if mask&(1<<uint(i)) != 0 {
						parts = append(parts, run)
						run = 1
					} else {
						run++
					}
				}
				parts = append(parts, run)
				for _, p := range parts {
					x.IncrementAccum(p)
				}
				sr.calls += len(parts)
				sr.compositions++
				got := rotState(x)
				seen[got] = struct{}{}
				if got == singles[m+k] {
					continue
				}
				// name the root cause
				mm := newModel()
				for i := 0; i < n; i++ {
					mm.v = append(mm.v, mv{i, powers[i], 0, 0})
				}
				for j := 0; j <= m; j++ {
					mm.step()
				}
				for _, p := range parts {
					mm.batch(p)
				}
				key := keyBatch
				if modelState(mm) != got {
					key = keyBatchArith
				}
				if key == keyBatch {
					if sr.firstBatch == "" {
						sr.firstBatch = fmt.Sprintf("%d single steps, then IncrementAccum%v: %s; one at a time: %s", m, parts, got.str(n), singles[m+k].str(n))
					}
					if got.prop != singles[m+k].prop {
						sr.propDiff++
					} else {
						sr.accumDiff++
					}
				}
				sr.add(key, fmt.Sprintf("set %s (powers in address order), %d single steps after construction, then IncrementAccum%v: %s; the same %d increments one at a time: %s",
					desc, m, parts, got.str(n), k, singles[m+k].str(n)),
					rp(map[string]interface{}{"single_steps_before": m, "increments": parts, "got": got.str(n), "one_at_a_time": singles[m+k].str(n)}))
			}
		}
	}

	// --- (2) proportionality ---
	if !sr.clipping {
		T := int64(0)
		for _, p := range powers {
			T += p
		}
		if T > 200000 {
			sr.periodTooLong = true
		} else {
			steps := int(T) * cfg.periods
			seq := make([]int8, steps)
			y := build()
			rm := newModel()
			for i := 0; i < n; i++ {
				rm.v = append(rm.v, mv{i, powers[i], 0, 0})
			}
			rm.step()
			seq[0] = rotState(y).prop
			zero := func(st rstate) bool {
				for i := 0; i < n; i++ {
					if st.a[i] != 0 {
						return false
					}
				}
				return true
			}
			if T == 1 {
				sr.periodZero = zero(rotState(y))
			}
			for j := 1; j < steps; j++ {
				y.IncrementAccum(1)
				pre := rm.clone()
				rm.step()
				st := rotState(y)
				seq[j] = st.prop
				if st != modelState(rm) {
					sr.add(classifyStep(pre, st), fmt.Sprintf("set %s, single step #%d: real %s, reference %s", desc, j, st.str(n), modelState(rm).str(n)), rp(map[string]interface{}{"single_steps": j}))
					return
				}
				if j == int(T)-1 {
					sr.periodZero = zero(st)
				}
			}
			sr.calls += steps - 1
			// every window of T consecutive rotations (sliding): each validator proposes exactly power times
			cnt := make([]int64, n)
			for j := 0; j < steps; j++ {
				cnt[seq[j]]++
				if j >= int(T) {
					cnt[seq[j-int(T)]]--
				}
				if j >= int(T)-1 {
					for i := 0; i < n; i++ {
						if cnt[i] != powers[i] {
							sr.add(keyProportion, fmt.Sprintf("set %s: in rotations %d..%d validator #%d (power %d) proposes %d times; total power %d",
								desc, j-int(T)+1, j, i, powers[i], cnt[i], T), rp(map[string]interface{}{"window_end": j}))
							j = steps
							break
						}
					}
				}
			}
		}
	} else {
		// measured only: saturating sets cannot be proportional in general
		y := build()
		cnt := make([]int, n)
		cnt[rotState(y).prop]++
		for j := 1; j < cfg.window; j++ {
			y.IncrementAccum(1)
			cnt[rotState(y).prop]++
		}
		sr.calls += cfg.window - 1
		sum := new(big.Float)
		for _, p := range powers {
			sum.Add(sum, new(big.Float).SetInt64(p))
		}
		for i := 0; i < n; i++ {
			share, _ := new(big.Float).Quo(new(big.Float).SetInt64(powers[i]), sum).Float64()
			d := float64(cnt[i])/float64(cfg.window) - share
			if d < 0 {
				d = -d
			}
			if d > sr.maxShareDev {
				sr.maxShareDev = d
			}
			if cnt[i] == 0 {
				sr.starved = append(sr.starved, i)
			}
		}
	}
	sr.states = len(seen)
	return
}

// (3a) every input order of the same validators gives the same set (order, hash, priorities, proposer)
func checkPerms(powers []int64) (sr *setResult) {
	n := len(powers)
	sr = &setResult{}
	desc := powersStr(powers)
	defer func() {
		if e := recover(); e != nil {
			sr.add(keyPanic+":NewValidatorSet", fmt.Sprintf("panic on set %s: %v", desc, e), map[string]interface{}{"powers_by_address": powersText(powers)})
		}
	}()
	base := make([]*types.Validator, n)
	for i := 0; i < n; i++ {
		base[i] = mkVal(i, powers[i], 0)
	}
	want := types.NewValidatorSet(base)
	wantSnap, wantHash := snapSet(want), want.Hash()
	vk.Permutations(n, func(p []int) bool {
		in := make([]*types.Validator, n)
		for i, pi := range p {
			in[i] = base[pi]
		}
		s := types.NewValidatorSet(in)
		sr.perms++
		sr.calls++
		if !sortedStrict(s) {
			sr.add(keyCtorSort, fmt.Sprintf("NewValidatorSet of %s given in order %v is not sorted by address", desc, p), map[string]interface{}{"powers_by_address": powersText(powers), "input_order": append([]int{}, p...)})
			return false
		}
		if !bytes.Equal(s.Hash(), wantHash) || snapSet(s) != wantSnap {
			sr.add(keyCtorOrder, fmt.Sprintf("NewValidatorSet of %s given in order %v: %s hash %X; given in address order: %s hash %X", desc, p, snapSet(s), s.Hash(), wantSnap, wantHash),
				map[string]interface{}{"powers_by_address": powersText(powers), "input_order": append([]int{}, p...)})
			return false
		}
		return true
	})
	return
}

func powersText(p []int64) []string {
	out := make([]string, len(p))
	for i, x := range p {
		out[i] = pstr(x)
	}
	return out
}

func fixtureNames(n int) []string {
	out := make([]string, n)
	for i := 0; i < n; i++ {
		out[i] = fmt.Sprintf("#%d=ed25519 FromSecret(%q) addr %X", i, fx[i].name, []byte(fx[i].addr)[:4])
	}
	return out
}

// all assignments of powers from alpha to 1..maxn validators, simplest first (n, then sum of alphabet indices,
// then lexicographic)
func enumSets(alpha []int64, minn, maxn int) [][]int64 {
	var out [][]int64
	for n := minn; n <= maxn; n++ {
		var cur [][]int
		idx := make([]int, n)
		for {
			cur = append(cur, append([]int{}, idx...))
			i := n - 1
			for i >= 0 {
				idx[i]++
				if idx[i] < len(alpha) {
					break
				}
				idx[i] = 0
				i--
			}
			if i < 0 {
				break
			}
		}
		sum := func(a []int) int {
			t := 0
			for _, x := range a {
				t += x
			}
			return t
		}
		sort.SliceStable(cur, func(a, b int) bool { return sum(cur[a]) < sum(cur[b]) })
		for _, c := range cur {
			p := make([]int64, n)
			for i, x := range c {
				p[i] = alpha[x]
			}
			out = append(out, p)
		}
	}
	return out
}

// classifyStep names the root cause of a single rotation that differs from the reference: before is the reference
// state before the step, real the state the implementation reached.
func classifyStep(before *model, real rstate) string {
	b := before.clone()
	b.clipped = false
	b.step()
	want := modelState(b)
	if real.prop != want.prop {
		t := before.clone()
		for i := range t.v {
			t.v[i].a, _ = addClip(t.v[i].a, t.v[i].p)
		}
		top := t.argmax()
		for i := range t.v {
			if i != top && t.v[i].a == t.v[top].a && int8(i) == real.prop {
				return keyStepTie // the implementation chose another validator of the same (top) priority
			}
		}
	}
	if b.clipped && real.a != want.a {
		return keyStepWrap
	}
	if real.prop != want.prop {
		return keyStepProp
	}
	return keyStepAccum
}
