package main

import (
	"bytes"
	"fmt"
	"sync"
	"time"

	"verif/vk"

	"github.com/lianxiangcloud/linkchain/consensus"
	"github.com/lianxiangcloud/linkchain/libs/common"
	"github.com/lianxiangcloud/linkchain/libs/crypto"
	dbm "github.com/lianxiangcloud/linkchain/libs/db"
	"github.com/lianxiangcloud/linkchain/libs/ser"
	"github.com/lianxiangcloud/linkchain/types"
)

// ---- "cold" twins -------------------------------------------------------------------------------------------
//
// A ValidatorSet carries unexported, lazily filled state (the cached total voting power; 0 doubles as "not computed
// yet") next to the exported, persisted fields. A set that was decoded (restart: LoadStatus / LoadValidators, wire),
// a Copy() of such a set, or a struct literal has that state COLD until somebody calls TotalVotingPower /
// IncrementAccum / VerifyCommit. A harness that looks at every intermediate state through those accessors warms the
// cache itself and can never see what an operation does to a cold set.
//
// Therefore every set-operation search runs the same operation sequence on twins:
//   warm    the instance that is looked at (TotalVotingPower) after every operation — a node that kept running;
//   lazy[i] instances that receive exactly the operations of the sequence and NOTHING else (only field reads) until
//           the sequence is over; a "reload" letter replaces them by (a) a decoded copy, (b) a Copy() of a decoded
//           copy, (c) a struct literal — a node that restarted at that point.
// At the end all twins and the reference must agree on content, priorities, cached proposer, total, Hash,
// GetProposer, the VerifyCommit verdicts around the 2/3 threshold, and the next coldRotations rotations; the lazy twins
// are observed in two different orders (total first / rotations first).

const coldRotations = 3

const (
	keyLazyContent = "lazy-or-reloaded-set:content-or-priorities-differ-from-live-twin"
	keyLazyResult  = "lazy-or-reloaded-set:operation-result-differs-from-live-twin"
	keyLazyTotal   = "lazy-or-reloaded-set:TotalVotingPower-differs-from-live-twin"
	keyLazyRot     = "lazy-or-reloaded-set:rotation-differs-from-live-twin"
	keyLazyProp    = "lazy-or-reloaded-set:GetProposer-differs-from-live-twin"
	keyLazyHash    = "lazy-or-reloaded-set:Hash-differs-from-live-twin"
	keyLazyCommit  = "lazy-or-reloaded-set:VerifyCommit-verdict-differs-from-live-twin"
	keyUpdVals     = "updateValidators:result-differs-from-reference"
)

type reloadKind int

const (
	relNone    reloadKind = iota
	relDecoded            // encoded and decoded: the set a restarted node holds (LoadStatus / LoadValidators)
	relCopyDec            // Copy() of that: what status.Copy() hands to the consensus state after a restart
	relLiteral            // struct literal with the same validators and proposer
)

func (k reloadKind) String() string {
	switch k {
	case relDecoded:
		return "decoded (ser bytes of the stored ValidatorsInfo)"
	case relCopyDec:
		return "Copy() of decoded"
	case relLiteral:
		return "struct literal"
	}
	return "in memory"
}

// reload returns a cold equivalent of s (s itself is not touched by anything but field reads).
func reload(kind reloadKind, s *types.ValidatorSet) (*types.ValidatorSet, error) {
	switch kind {
	case relDecoded, relCopyDec:
		db := dbm.NewMemDB()
		consensus.SaveStatus(db, consensus.NewStatus{ChainID: "c17", LastBlockHeight: 7, LastHeightValidatorsChanged: 8,
			Validators: s, LastValidators: types.NewValidatorSet(nil)})
		if kind == relDecoded {
			st, err := consensus.LoadStatus(db)
			if err != nil || st.Validators == nil {
				return nil, fmt.Errorf("LoadStatus after SaveStatus: %v", err)
			}
			return st.Validators, nil
		}
		vs, _, err := consensus.LoadValidators(db, 8)
		if err != nil || vs == nil {
			return nil, fmt.Errorf("LoadValidators after SaveStatus: %v", err)
		}
		return vs.Copy(), nil
	case relLiteral:
		return literalOf(s), nil
	}
	return s, nil
}

func literalOf(s *types.ValidatorSet) *types.ValidatorSet {
	lit := &types.ValidatorSet{}
	for _, v := range s.Validators {
		cp := *v
		lit.Validators = append(lit.Validators, &cp)
	}
	if s.Proposer != nil {
		p := *s.Proposer
		lit.Proposer = &p
	}
	return lit
}

// reloadFast: the decode path without the status database (what loadValidatorsInfo does with the stored bytes)
func reloadFast(kind reloadKind, s *types.ValidatorSet) *types.ValidatorSet {
	if kind == relLiteral {
		return literalOf(s)
	}
	bz := (&consensus.ValidatorsInfo{ValidatorSet: s, LastHeightChanged: 1}).Bytes()
	v := new(consensus.ValidatorsInfo)
	if err := ser.DecodeBytes(bz, v); err != nil || v.ValidatorSet == nil {
		vk.Fatalf("ValidatorsInfo does not survive its own encoding: %v", err)
	}
	if kind == relCopyDec {
		return v.ValidatorSet.Copy()
	}
	return v.ValidatorSet
}

// ---- VerifyCommit around the threshold (differential between twins only; the rule itself belongs to C03) ----

var (
	commitBlockID = types.BlockID{Hash: common.BytesToHash(bytes.Repeat([]byte{0x17}, 32))}
	commitTime    = time.Unix(1500000000, 0).UTC()
	sigCache      sync.Map // fixture id -> signature of the one precommit content used here
)

func precommitOf(id, index, size int) *types.Vote {
	v := &types.Vote{ValidatorAddress: fx[id].addr, ValidatorIndex: index, ValidatorSize: size, Height: 1, Round: 0,
		Timestamp: commitTime, Type: types.VoteTypePrecommit, BlockID: commitBlockID}
	if sig, ok := sigCache.Load(id); ok {
		v.Signature = sig.(crypto.Signature)
		return v
	}
	sig, err := fx[id].priv.Sign(v.SignBytes("c17"))
	if err != nil {
		vk.Fatalf("sign: %v", err)
	}
	sigCache.Store(id, sig)
	v.Signature = sig
	return v
}

// commitVerdicts: for every prefix of the validators (in set order) that signs, does VerifyCommit accept? Rendered as
// a string of y/n so that twins can be compared. The prefixes walk the tally across the 2/3 threshold.
func commitVerdicts(s *types.ValidatorSet) string {
	n := len(s.Validators)
	out := make([]byte, 0, n)
	for signers := 1; signers <= n; signers++ {
		c := &types.Commit{BlockID: commitBlockID}
		for i, v := range s.Validators {
			if i < signers {
				c.Precommits = append(c.Precommits, precommitOf(idOf(v.Address), i, n))
			} else {
				c.Precommits = append(c.Precommits, nil)
			}
		}
		if s.VerifyCommit("c17", commitBlockID, 1, c) == nil {
			out = append(out, 'y')
		} else {
			out = append(out, 'n')
		}
	}
	return string(out)
}

// ---- end-of-sequence observation of the lazy twins ----

// observeLazy looks at twin t in the order given (0: total, proposer, hash, rotations; 1: rotations first; 2: VerifyCommit first)
// and compares with the reference m (which the warm twin has already been compared with). m is not modified.
func observeLazy(t *types.ValidatorSet, m *model, order int, kind reloadKind, warmVerdicts string) (string, string) {
	who := "twin that was only operated on, never looked at [" + kind.String() + "], state " + m.String() + ": "
	if len(m.v) == 0 {
		if t.Hash() != nil || t.TotalVotingPower() != 0 || t.GetProposer() != nil {
			return keyLazyContent, who + "empty set reports a hash, power or proposer"
		}
		return "", ""
	}
	rot := func(mm *model) (string, string) {
		for j := 1; j <= coldRotations; j++ {
			t.IncrementAccum(1)
			mm.step()
			if got := snapSet(t); got != mm.String() {
				return keyLazyRot, fmt.Sprintf("%srotation #%d gives %s, live twin and reference %s", who, j, got, mm.String())
			}
		}
		return "", ""
	}
	static := func(mm *model) (string, string) {
		if got, want := t.TotalVotingPower(), mm.total(); got != want {
			return keyLazyTotal, fmt.Sprintf("%sTotalVotingPower()=%d, live twin and reference %d", who, got, want)
		}
		want := mm.clone().getProposer()
		if p := t.GetProposer(); p == nil || idOf(p.Address) != want {
			return keyLazyProp, fmt.Sprintf("%sGetProposer()=%v, live twin and reference #%d", who, p, want)
		}
		if order == 0 && !bytes.Equal(t.Hash(), hashOfContent(mm)) { // Hash reads exported fields only: one twin is enough
			return keyLazyHash, who + "Hash() differs from the live twin's"
		}
		return "", ""
	}
	mm := m.clone()
	switch order {
	case 0: // accessors first
		if k, w := static(mm); k != "" {
			return k, w
		}
		return rot(mm)
	case 1: // rotation first
		if k, w := rot(mm); k != "" {
			return k, w
		}
		return static(mm)
	}
	// VerifyCommit first: its verdicts for 1..n signers walk the tally across the 2/3 threshold
	if got := commitVerdicts(t); got != warmVerdicts {
		return keyLazyCommit, fmt.Sprintf("%sVerifyCommit verdicts for 1..n signers %q, live twin %q", who, got, warmVerdicts)
	}
	return static(mm)
}
