package main

import (
	"fmt"
	"strings"

	"verif/vk"

	"github.com/lianxiangcloud/linkchain/consensus"
	dbm "github.com/lianxiangcloud/linkchain/libs/db"
	"github.com/lianxiangcloud/linkchain/types"
)

// ---- part (3b): consensus.updateStatus — the same application output, in ANY order, on any node that holds
// the same status, produces the same next validator set ----
//
// Search over chains of application outputs (one complete validator list per committed block); at the last
// element of every chain, every permutation of the list is executed on the real updateStatus.

const (
	keyUSOrder   = "updateStatus:next-validators-depend-on-list-order"
	keyUSRef     = "updateStatus:next-validators-differ-from-reference"
	keyUSLast    = "updateStatus:LastValidators-not-the-previous-set"
	keyUSChanged = "updateStatus:LastHeightValidatorsChanged-wrong"
	keyUSMutate  = "updateStatus:mutates-or-aliases-input-status"
	keyUSErr     = "updateStatus:error"
	keyUSReload  = "updateStatus:differs-on-saved-and-reloaded-status"
)

type entry struct {
	id int
	p  int64
	cb int
}

type usCfg struct {
	ids    int
	powers []int64
	altCB  bool
	lists  [][]entry // lists[0] = empty list (application reports no validators: set kept)
}

func (c *usCfg) build() {
	// per validator: absent | each power (| validator 0 with the alternative coinbase)
	type choice struct {
		present bool
		p       int64
		cb      int
	}
	per := make([][]choice, c.ids)
	for id := 0; id < c.ids; id++ {
		per[id] = []choice{{}}
		for _, p := range c.powers {
			per[id] = append(per[id], choice{true, p, 0})
		}
		if c.altCB && id == 0 {
			per[id] = append(per[id], choice{true, c.powers[0], 1})
		}
	}
	idx := make([]int, c.ids)
	for {
		var l []entry
		for id := 0; id < c.ids; id++ {
			if ch := per[id][idx[id]]; ch.present {
				l = append(l, entry{id, ch.p, ch.cb})
			}
		}
		c.lists = append(c.lists, l)
		i := c.ids - 1
		for i >= 0 {
			idx[i]++
			if idx[i] < len(per[i]) {
				break
			}
			idx[i] = 0
			i--
		}
		if i < 0 {
			break
		}
	}
}

func listName(l []entry) string {
	if len(l) == 0 {
		return "app returns no validator list"
	}
	var b strings.Builder
	b.WriteString("app returns [")
	for i, e := range l {
		if i > 0 {
			b.WriteString(" ")
		}
		fmt.Fprintf(&b, "#%d:power=%s:coinbase%d", e.id, pstr(e.p), e.cb)
	}
	return b.String() + "]"
}

func listVals(l []entry, perm []int) []*types.Validator {
	out := make([]*types.Validator, len(l))
	for i := range l {
		e := l[i]
		if perm != nil {
			e = l[perm[i]]
		}
		out[i] = mkVal(e.id, e.p, e.cb)
	}
	return out
}

type usInst struct {
	st     consensus.NewStatus
	cur    *model // reference for st.Validators
	last   string // reference for st.LastValidators (snapshot string)
	change uint64 // reference for LastHeightValidatorsChanged
}

func emptySnap() string { return snapSet(types.NewValidatorSet(nil)) }

func newUsInst(c *usCfg) *usInst {
	m := newModel()
	m.v = []mv{{0, c.powers[0], 0, 0}}
	m.step()
	return &usInst{
		st: consensus.NewStatus{ChainID: "c17", LastBlockHeight: 0, LastHeightValidatorsChanged: 1,
			Validators: types.NewValidatorSet(m.vals()), LastValidators: types.NewValidatorSet(nil),
			ConsensusParams: *types.DefaultConsensusParams()},
		cur: m, last: emptySnap(), change: 1,
	}
}

// refNext: the reference for one block
func (in *usInst) refNext(l []entry) (*model, uint64) {
	h := in.st.LastBlockHeight + 1
	next := newModel()
	for _, e := range l {
		next.v = append(next.v, mv{e.id, e.p, e.cb, 0})
	}
	if len(l) == 0 || next.content() == in.cur.content() {
		kept := in.cur.clone()
		kept.step()
		return kept, in.change
	}
	next.step()
	return next, h + 1
}

func (in *usInst) call(l []entry, perm []int) (consensus.NewStatus, error) {
	h := in.st.LastBlockHeight + 1
	hdr := &types.Header{ChainID: "c17", Height: h, Time: 1000 + h, NumTxs: 1}
	return consensus.VerifC17UpdateStatus(in.st, types.BlockID{}, hdr, listVals(l, perm))
}

// step applies list l in canonical order and (when full) also in every other order. Returns a violation.
func (in *usInst) step(l []entry, full bool, perms *int) (string, string) {
	inVal, inLast := snapSet(in.st.Validators), snapSet(in.st.LastValidators)
	want, wantChange := in.refNext(l)
	out, err := in.call(l, nil)
	if err != nil {
		return keyUSErr, err.Error()
	}
	*perms++
	gotVal := snapSet(out.Validators)
	mutated := func() (string, string) {
		if snapSet(in.st.Validators) != inVal || snapSet(in.st.LastValidators) != inLast {
			return keyUSMutate, fmt.Sprintf("input status changed: validators %s -> %s, last validators %s -> %s", inVal, snapSet(in.st.Validators), inLast, snapSet(in.st.LastValidators))
		}
		return "", ""
	}
	if k, w := mutated(); k != "" {
		return k, w
	}
	if full {
		var k, w string
		vk.Permutations(len(l), func(p []int) bool {
			o2, err := in.call(l, p)
			*perms++
			if err != nil {
				k, w = keyUSErr, err.Error()
				return false
			}
			if g := snapSet(o2.Validators); g != gotVal || string(o2.Validators.Hash()) != string(out.Validators.Hash()) ||
				o2.LastHeightValidatorsChanged != out.LastHeightValidatorsChanged {
				k, w = keyUSOrder, fmt.Sprintf("status with validators %s: %s in list order %v gives next validators %s (hash %X), in address order %s (hash %X)",
					inVal, listName(l), p, g, o2.Validators.Hash(), gotVal, out.Validators.Hash())
				return false
			}
			return true
		})
		if k != "" {
			return k, w
		}
	}
	if gotVal != want.String() {
		return keyUSRef, fmt.Sprintf("status with validators %s: %s gives next validators %s, reference %s", inVal, listName(l), gotVal, want.String())
	}
	if g := snapSet(out.LastValidators); g != inVal {
		return keyUSLast, fmt.Sprintf("LastValidators %s, previous set %s", g, inVal)
	}
	if out.LastHeightValidatorsChanged != wantChange {
		return keyUSChanged, fmt.Sprintf("status with validators %s at height %d: %s gives LastHeightValidatorsChanged=%d, reference %d", inVal, in.st.LastBlockHeight+1, listName(l), out.LastHeightValidatorsChanged, wantChange)
	}
	if out.LastBlockHeight != in.st.LastBlockHeight+1 {
		return keyUSRef, "LastBlockHeight not advanced by one"
	}
	if full {
		// a node that restarted before this block works from the status it saved: same result
		db := dbm.NewMemDB()
		consensus.SaveStatus(db, in.st)
		if loaded, err := consensus.LoadStatus(db); err != nil {
			return keyUSReload, "LoadStatus after SaveStatus: " + err.Error()
		} else {
			mem := in.st
			in.st = loaded
			o4, err := in.call(l, nil)
			in.st = mem
			*perms++
			if err != nil {
				return keyUSErr, err.Error()
			}
			if g := snapSet(o4.Validators); g != gotVal || snapSet(o4.LastValidators) != inVal || o4.LastHeightValidatorsChanged != out.LastHeightValidatorsChanged {
				return keyUSReload, fmt.Sprintf("status with validators %s: %s gives next validators %s / last validators %s, but %s / %s when the status went through SaveStatus/LoadStatus first", inVal, listName(l), gotVal, inVal, g, snapSet(o4.LastValidators))
			}
			// ... and hands a Copy() of it to the consensus state (node.go), whose sets are then used cold
			in.st = loaded.Copy()
			o5, err := in.call(l, nil)
			in.st = mem
			*perms++
			if err != nil {
				return keyUSErr, err.Error()
			}
			if g := snapSet(o5.Validators); g != gotVal || snapSet(o5.LastValidators) != inVal {
				return keyUSReload, fmt.Sprintf("status with validators %s: %s gives next validators %s / last validators %s, but %s / %s on a Copy() of the reloaded status", inVal, listName(l), gotVal, inVal, g, snapSet(o5.LastValidators))
			}
			// the next set must behave the same whichever status it came from: total and the next rotations
			for i, o := range []consensus.NewStatus{o4, o5} {
				name := []string{"reloaded", "copy of reloaded"}[i]
				a, b := out.Validators.Copy(), o.Validators
				if a.TotalVotingPower() != b.TotalVotingPower() {
					return keyLazyTotal, fmt.Sprintf("next validators %s: TotalVotingPower %d from the in-memory status, %d from the %s status", gotVal, a.TotalVotingPower(), b.TotalVotingPower(), name)
				}
				for j := 1; j <= coldRotations; j++ {
					a.IncrementAccum(1)
					b.IncrementAccum(1)
					if snapSet(a) != snapSet(b) {
						return keyLazyRot, fmt.Sprintf("next validators %s, rotation #%d: %s from the in-memory status, %s from the %s status", gotVal, j, snapSet(a), snapSet(b), name)
					}
				}
			}
		}
		// the result must not share mutable state with its input: rotate throw-away results, look at the input
		o3, _ := in.call(l, nil)
		o3.Validators.IncrementAccum(1)
		if len(o3.LastValidators.Validators) > 0 {
			o3.LastValidators.IncrementAccum(1)
		}
	}
	if k, w := mutated(); k != "" {
		return k, w
	}
	if !sortedStrict(out.Validators) {
		return keySetSorted, "next validators not sorted: " + gotVal
	}
	if prev, ok := claimHash(out.Validators.Hash(), want.content()); !ok {
		return keyHashColl, fmt.Sprintf("contents %s and %s share Hash %X", prev, want.content(), out.Validators.Hash())
	}
	in.st, in.cur, in.last, in.change = out, want, inVal, wantChange
	return "", ""
}

func (in *usInst) key() string {
	// heights are relative: what matters for the future is the two sets and whether the set changed at the last block
	return fmt.Sprintf("%s||%s||chg%v", in.cur.String(), in.last, in.change == in.st.LastBlockHeight+1)
}

func runStatusSearch(r *vk.Run, c *usCfg, name string, depth int, add func(int)) vk.Result {
	return r.Explore(vk.Spec{
		Name:   name,
		NumOps: len(c.lists),
		OpName: func(i int) string { return listName(c.lists[i]) },
		Depth:  depth,
		Exec: func(hist []int) (out vk.Outcome) {
			in := newUsInst(c)
			np := 0
			defer func() {
				add(np)
				if e := recover(); e != nil {
					out = vk.Outcome{Err: keyPanic + ":updateStatus", What: fmt.Sprint(e)}
				}
			}()
			for i, oi := range hist {
				last := i == len(hist)-1
				if k, w := in.step(c.lists[oi], last, &np); k != "" {
					if last {
						return vk.Outcome{Err: k, What: w}
					}
					return vk.Outcome{}
				}
			}
			return vk.Outcome{Key: in.key()}
		},
	})
}
