// C17 — proposer schedule and validator-set updates are deterministic and path-independent.
//
// Parts of the design:
//
//	(1) path independence   every composition k = k1+..+km of IncrementAccum calls, from every state reachable by
//	                        single steps, ends in the state of k single steps (priorities AND proposer)
//	(2) proportionality     over every window of `total power` rotations each validator proposes `power` times;
//	                        the rotation equals an independent smooth-weighted-round-robin reference
//	(3) identity            NewValidatorSet is independent of input order; every Add/Update/Remove/rotate/Copy/
//	                        save+load sequence keeps Hash = hash of a fresh set with the same content, the set sorted,
//	                        totals right, the original of a Copy untouched; consensus.updateStatus gives one next
//	                        set for every order of the same application output (hook: hooks/consensus/c17_hooks.go)
//	(4) saturation          totals and priorities equal exact arithmetic clipped to int64 (validated against math/big)
//	(5) in simulation       a real ConsensusState (harness/csnet) reaches (height 1, round r) by stepping through the
//	                        rounds, by jumping on +2/3 votes of a later round, and by every mixture: same proposer on
//	                        every path, equal to the single-step reference, and its proposal is accepted (sim.go)
//
// Everything is enumerated exhaustively inside the bounds printed in the evidence; nothing is sampled.
package main

import (
	"fmt"
	"math"
	"os"
	"runtime/pprof"
	"sync"
	"sync/atomic"
	"syscall"

	"verif/vk"

	"github.com/lianxiangcloud/linkchain/libs/log"
	"github.com/lianxiangcloud/linkchain/types"
)

type replayCase struct {
	SimPowers []string `json:"sim_powers_by_validator_index"`
	Node      int      `json:"node"`
	Round     int      `json:"round"`
	Moves     [][2]int `json:"moves"`

	Powers  []string `json:"powers_by_address"`
	Before  int      `json:"single_steps_before"`
	Incs    []int    `json:"increments"`
	OpIDs   []int    `json:"op_ids"`
	Search  string   `json:"search"`
	OpNames []string `json:"ops"`
}

func parsePower(s string) int64 {
	for _, p := range []int64{math.MaxInt64, math.MaxInt64 - 1, math.MaxInt64/2 + 1, math.MaxInt64 / 2, math.MaxInt64 / 4} {
		if pstr(p) == s {
			return p
		}
	}
	var x int64
	if _, err := fmt.Sscan(s, &x); err != nil {
		vk.Fatalf("replay: bad power %q", s)
	}
	return x
}

func replay(r *vk.Run) {
	var c replayCase
	r.LoadReplay(&c)
	if len(c.SimPowers) > 0 {
		var p []int64
		for _, x := range c.SimPowers {
			p = append(p, parsePower(x))
		}
		if !replaySim(p, c.Node, c.Round, c.Moves) {
			fmt.Printf("VIOLATION property=C17 replay=%s key=%s :: replayed: the paths name different proposers\n", r.ReplayPath, keySkipStep)
			os.Exit(1)
		}
		fmt.Println("C17 replay: all paths name the reference proposer")
		os.Exit(0)
	}
	if len(c.Powers) == 0 || len(c.Incs) == 0 {
		vk.Fatalf("replay: only rotation cases (powers_by_address + increments) are replayable from the file; search cases list their operations by name (%v)", c.OpNames)
	}
	mk := func() *types.ValidatorSet {
		var in []*types.Validator
		for i, s := range c.Powers {
			in = append(in, mkVal(i, parsePower(s), 0))
		}
		x := types.NewValidatorSet(in)
		for j := 0; j < c.Before; j++ {
			x.IncrementAccum(1)
		}
		return x
	}
	a, b := mk(), mk()
	k := 0
	for _, p := range c.Incs {
		a.IncrementAccum(p)
		k += p
	}
	for j := 0; j < k; j++ {
		b.IncrementAccum(1)
	}
	n := len(c.Powers)
	fmt.Printf("powers %v, %d single steps, then IncrementAccum%v: %s\n", c.Powers, c.Before, c.Incs, rotState(a).str(n))
	fmt.Printf("powers %v, %d single steps, then %d x IncrementAccum(1): %s\n", c.Powers, c.Before, k, rotState(b).str(n))
	if rotState(a) != rotState(b) {
		// printed directly: vk.Finish would overwrite the replay file that is being replayed
		fmt.Printf("VIOLATION property=C17 replay=%s key=%s :: replayed: the two paths end in different states\n", r.ReplayPath, keyBatch)
		os.Exit(1)
	}
	fmt.Println("C17 replay: both paths end in the same state")
	os.Exit(0)
}

// cpuSeconds: user+system CPU time of this process (progress lines on stderr only; never part of the evidence)
func cpuSeconds() float64 {
	var ru syscall.Rusage
	if syscall.Getrusage(syscall.RUSAGE_SELF, &ru) != nil {
		return 0
	}
	return float64(ru.Utime.Sec+ru.Stime.Sec) + float64(ru.Utime.Usec+ru.Stime.Usec)/1e6
}

func phase(name string) {
	fmt.Fprintf(os.Stderr, "c17: %-28s done, cpu so far %.0fs\n", name, cpuSeconds())
}

func main() {
	log.Root().SetHandler(log.DiscardHandler())
	r := vk.Start("C17", "model_checking")
	if pf := os.Getenv("C17_CPUPROFILE"); pf != "" { // development aid only
		if f, err := os.Create(pf); err == nil {
			pprof.StartCPUProfile(f)
			defer pprof.StopCPUProfile()
		}
	}
	initFixtures(maxN)
	arith := selfTestArith()
	if r.ReplayPath != "" {
		replay(r)
		return
	}
	const M = math.MaxInt64

	// ---------------- bounds per tier ----------------
	ordAlpha := []int64{1, 2, 3, 5, 10}
	ordMaxN := 4
	ordCfg := rotCfg{maxStart: 6, maxTotal: 7, periods: 3}
	extAlpha := []int64{1, M / 4, M / 2, M/2 + 1, M - 1, M}
	extMaxN := 3
	extCfg := rotCfg{maxStart: 4, maxTotal: 6, periods: 3, window: 2000}
	permExtra := [][]int64{}
	setSearch := setCfg{ids: 3, powers: []int64{1, 3, M/2 + 1}, altCB: true, commits: 3}
	setDepth := 5
	type usRun struct {
		cfg   usCfg
		depth int
	}
	usRuns := []usRun{{usCfg{ids: 3, powers: []int64{1, 3}, altCB: true}, 3}}
	type simRun struct {
		alpha  []int64
		rounds int
		full   bool
	}
	simRuns := []simRun{{[]int64{1, 2, 3}, 4, false}}
	if !r.Quick() {
		ordAlpha = []int64{1, 2, 3, 5, 10, 100}
		ordMaxN = 5
		ordCfg = rotCfg{maxStart: 8, maxTotal: 9, periods: 3}
		extAlpha = []int64{1, 2, M / 4, M / 2, M/2 + 1, M - 1, M}
		extMaxN = 4
		extCfg = rotCfg{maxStart: 5, maxTotal: 7, periods: 3, window: 5000}
		permExtra = enumSets([]int64{1, 3}, 6, 6)
		setSearch = setCfg{ids: 4, powers: []int64{1, 3, M/2 + 1}, altCB: true, commits: 4}
		setDepth = 6
		simRuns = []simRun{{[]int64{1, 2, 3}, 4, true}, {[]int64{1, 2, 3, 5}, 4, false}}
		usRuns = []usRun{{usCfg{ids: 3, powers: []int64{1, 3}, altCB: true}, 5}, {usCfg{ids: 4, powers: []int64{1, 3}, altCB: true}, 2}}
	}

	// ---------------- rotation: parts 1, 2, 4 ----------------
	type job struct {
		powers []int64
		cfg    rotCfg
		ext    bool
	}
	var jobs []job
	for _, p := range enumSets(ordAlpha, 1, ordMaxN) {
		jobs = append(jobs, job{p, ordCfg, false})
	}
	nOrd := len(jobs)
	for _, p := range enumSets(extAlpha, 1, extMaxN) {
		jobs = append(jobs, job{p, extCfg, true})
	}
	res := make([]*setResult, len(jobs))
	var done int64
	vk.ParallelFor(len(jobs), func(i int) {
		if r.Expired() {
			return
		}
		res[i] = checkSet(jobs[i].powers, jobs[i].cfg, r.Expired)
		atomic.AddInt64(&done, 1)
	})
	phase("rotation (parts 1,2,4)")
	if r.Expired() {
		r.Capped(fmt.Sprintf("rotation phase hit the deadline after %d of %d sets", done, len(jobs)))
	}
	report := func(sr *setResult) {
		for _, v := range sr.vios {
			for c := 0; c < v.count; c++ {
				r.Violation(v.key, v.what, v.replay)
			}
		}
	}
	var states, calls, comps, clipSets, propDiff, accumDiff, setsF8, equalF8, zeroPeriods, nonClip, starvedSets, tooLong, equalOrdF8 int
	var worstDev float64
	var starvedSample, devSample string
	var equalSample []string
	for i, sr := range res {
		if sr == nil {
			continue
		}
		report(sr)
		states += sr.states
		calls += sr.calls
		comps += sr.compositions
		propDiff += sr.propDiff
		accumDiff += sr.accumDiff
		if sr.propDiff+sr.accumDiff > 0 {
			setsF8++
			eq := true
			for _, p := range jobs[i].powers {
				if p != jobs[i].powers[0] {
					eq = false
				}
			}
			if eq && i < nOrd {
				equalOrdF8++
			}
			if eq {
				equalF8++
				if len(equalSample) < 6 {
					equalSample = append(equalSample, powersStr(jobs[i].powers)+": "+sr.firstBatch)
				}
			}
		}
		if sr.clipping {
			clipSets++
			if len(sr.starved) > 0 {
				starvedSets++
				if starvedSample == "" {
					starvedSample = fmt.Sprintf("powers %s: validators %v never propose in %d rotations", powersStr(jobs[i].powers), sr.starved, jobs[i].cfg.window)
				}
			}
			if sr.maxShareDev > worstDev {
				worstDev = sr.maxShareDev
				devSample = powersStr(jobs[i].powers)
			}
		} else {
			nonClip++
			if sr.periodTooLong {
				tooLong++
			}
			if sr.periodZero {
				zeroPeriods++
			}
		}
	}
	r.Set("rotation", map[string]interface{}{
		"ordinary_sets": nOrd, "ordinary_alphabet": ordAlpha, "ordinary_max_validators": ordMaxN,
		"ordinary_start_states_single_steps": ordCfg.maxStart, "ordinary_max_total_increments": ordCfg.maxTotal,
		"extreme_sets": len(jobs) - nOrd, "extreme_alphabet": powersText(extAlpha), "extreme_max_validators": extMaxN,
		"extreme_start_states_single_steps": extCfg.maxStart, "extreme_max_total_increments": extCfg.maxTotal,
		"compositions_executed": comps, "IncrementAccum_calls": calls, "distinct_rotation_states": states,
		"sets_where_saturation_occurred": clipSets, "sets_without_saturation": nonClip, "sets_without_saturation_but_period_too_long_for_proportionality": tooLong,
		"proportionality_periods_checked_per_set": ordCfg.periods, "sets_whose_priorities_return_to_zero_after_one_period": zeroPeriods,
		"batch_vs_single_cases_proposer_differs": propDiff, "batch_vs_single_cases_only_priorities_differ": accumDiff,
		"batch_vs_single_sets_affected": setsF8, "batch_vs_single_equal_power_sets_affected": equalF8, "batch_vs_single_equal_power_sets_affected_without_saturation": equalOrdF8, "batch_vs_single_equal_power_samples": equalSample,
		"saturating_sets_with_starved_validator(measured,not asserted)": starvedSets, "starved_sample": starvedSample,
		"saturating_sets_worst_share_deviation(measured)": worstDev, "worst_share_deviation_set": devSample,
	})

	// ---------------- (3a) construction order ----------------
	permSets := append(enumSets(ordAlpha, 1, ordMaxN), permExtra...)
	pres := make([]*setResult, len(permSets))
	vk.ParallelFor(len(permSets), func(i int) {
		if r.Expired() {
			return
		}
		pres[i] = checkPerms(permSets[i])
	})
	perms := 0
	for _, sr := range pres {
		if sr == nil {
			r.Capped("construction-order phase hit the deadline")
			break
		}
		report(sr)
		perms += sr.perms
	}
	phase("construction order (3a)")
	r.Set("construction_order", map[string]interface{}{"sets": len(permSets), "permutations_executed": perms})

	// ---------------- (3) set operations search ----------------
	ss := runSetSearch(r, &setSearch, "set-ops", setDepth)
	phase("set-ops search (3)")
	r.Set("set_ops_search", map[string]interface{}{"validators": setSearch.ids, "powers": powersText(setSearch.powers), "alphabet": len(setSearch.ops()),
		"depth": setDepth, "depth_completed": ss.DepthCompleted, "states": ss.States, "transitions": ss.Transitions, "per_depth": ss.PerDepth,
		"merge_checks": ss.MergeChecks})

	// ---------------- (3b) updateStatus ----------------
	var usPerms int64
	var mu sync.Mutex
	var us vk.Result
	var usEv []interface{}
	for i := range usRuns {
		c := &usRuns[i].cfg
		c.build()
		before := usPerms
		res := runStatusSearch(r, c, fmt.Sprintf("updateStatus/%d-validators", c.ids), usRuns[i].depth, func(n int) {
			mu.Lock()
			usPerms += int64(n)
			mu.Unlock()
		})
		us.States += res.States
		us.Transitions += res.Transitions
		usEv = append(usEv, map[string]interface{}{"validators": c.ids, "powers": powersText(c.powers), "lists": len(c.lists),
			"depth": usRuns[i].depth, "depth_completed": res.DepthCompleted, "states": res.States, "transitions": res.Transitions, "per_depth": res.PerDepth,
			"updateStatus_calls": int(usPerms - before)})
	}
	phase("updateStatus search (3b)")
	r.Set("update_status_search", usEv)

	// ---------------- (5) real consensus nodes: stepping vs jumping ----------------
	var simEv []interface{}
	for _, sr := range simRuns {
		simEv = append(simEv, runSim(r, enumSets(sr.alpha, 4, 4), sr.alpha, sr.rounds, sr.full))
	}
	r.Set("simulation", simEv)
	phase("consensus nodes (5)")

	// ---------------- coverage ----------------
	r.Set("arith_selftest_cases", arith)
	r.Set("states", states+ss.States+us.States)
	r.Set("transitions", calls+ss.Transitions+us.Transitions+r.Get("sim_inputs"))
	r.Set("traces_validated_against_impl", calls+perms+ss.Transitions+int(usPerms)+r.Get("sim_inputs"))
	r.Set("evaluations", comps+perms+ss.Transitions+int(usPerms)+r.Get("sim_node_runs"))
	r.Set("distinct_nontrivial", states+ss.States+us.States)
	r.Set("rule", "rotation: every composition of k increments from every single-step-reachable state of every enumerated set is executed on the real ValidatorSet and compared with k single steps; single steps are compared with an independent reference (saturating arithmetic validated against math/big); set-ops and updateStatus: BFS over operation sequences on the real code, state = reference content + priorities + proposer cache (+copy/reload flags); non-trivial = distinct canonical state")
	r.Assume("voting powers are >= 1 (genesis rejects 0; negative powers are outside the bound)")
	r.Assume("validator lists handed to NewValidatorSet/updateStatus have distinct addresses (a duplicated address makes the set depend on list order; the application builds its list from two contract tables, see report)")
	r.Assume("Update/Add are called with Accum=0 validators, as every caller in the tree does")
	r.Assume("simulation part: one real ConsensusState per run at height 1 with a trivial application (csnet.TrivApp); the other validators are puppets that send correctly signed nil votes; jumps are triggered by +2/3 nil prevotes of the target round or +2/3 nil precommits of the round before it")
	r.Assume("proportionality is asserted only for sets in which no saturation occurs inside the window; for saturating sets it is measured and reported")
	pprof.StopCPUProfile()
	r.Finish()
}
