package main

import (
	"bytes"
	"fmt"
	"math"
	"math/big"
	"sort"
	"strconv"
	"strings"

	"verif/vk"

	"github.com/lianxiangcloud/linkchain/libs/common"
	"github.com/lianxiangcloud/linkchain/libs/crypto"
	"github.com/lianxiangcloud/linkchain/types"
)

// ---- fixed validators (deterministic keys), numbered in ADDRESS order: id 0 has the lowest address ----

type fixture struct {
	priv crypto.PrivKeyEd25519
	pub  crypto.PubKey
	addr crypto.Address
	name string // secret the key was derived from
}

var fx []fixture

func initFixtures(n int) {
	for i := 0; i < n; i++ {
		name := fmt.Sprintf("v%d", i)
		sk := crypto.GenPrivKeyEd25519FromSecret([]byte(name))
		pk := sk.PubKey()
		fx = append(fx, fixture{sk, pk, pk.Address(), name})
	}
	sort.Slice(fx, func(a, b int) bool { return bytes.Compare(fx[a].addr, fx[b].addr) < 0 })
	for i := 1; i < len(fx); i++ {
		if bytes.Equal(fx[i-1].addr, fx[i].addr) {
			vk.Fatalf("fixture addresses collide")
		}
	}
}

func idOf(addr []byte) int {
	for i := range fx {
		if bytes.Equal(fx[i].addr, addr) {
			return i
		}
	}
	return -1
}

var cbTable [16][3]common.Address

func init() {
	for id := range cbTable {
		for alt := range cbTable[id] {
			cbTable[id][alt] = common.BytesToAddress([]byte{0xc0, byte(id), byte(alt)})
		}
	}
}

func coinbase(id, alt int) common.Address { return cbTable[id][alt] }

// appendEntry renders one validator as "id:power:ccb:aaccum," (shared by the reference and the observation)
func appendEntry(b []byte, id int, p int64, cb int, a int64) []byte {
	b = strconv.AppendInt(b, int64(id), 10)
	b = append(b, ':')
	if p >= 0 && p < 1<<31 {
		b = strconv.AppendInt(b, p, 10)
	} else {
		b = append(b, pstr(p)...)
	}
	b = append(b, ':', 'c')
	b = strconv.AppendInt(b, int64(cb), 10)
	b = append(b, ':', 'a')
	b = strconv.AppendInt(b, a, 10)
	return append(b, ',')
}

func mkVal(id int, power int64, cb int) *types.Validator {
	return &types.Validator{Address: fx[id].addr, PubKey: fx[id].pub, CoinBase: coinbase(id, cb), VotingPower: power}
}

// ---- clipped int64 arithmetic, written independently of the repo's safe*Clip and validated against
// math/big on a grid of extreme values at start-up (selfTestArith) ----

var (
	bigMax = big.NewInt(math.MaxInt64)
	bigMin = big.NewInt(math.MinInt64)
)

func clipBig(x *big.Int) int64 {
	if x.Cmp(bigMax) > 0 {
		return math.MaxInt64
	}
	if x.Cmp(bigMin) < 0 {
		return math.MinInt64
	}
	return x.Int64()
}

func addClipBig(a, b int64) int64 { return clipBig(new(big.Int).Add(big.NewInt(a), big.NewInt(b))) }
func subClipBig(a, b int64) int64 { return clipBig(new(big.Int).Sub(big.NewInt(a), big.NewInt(b))) }
func mulClipBig(a, b int64) int64 { return clipBig(new(big.Int).Mul(big.NewInt(a), big.NewInt(b))) }

// fast versions: the sum/difference of two int64 overflows iff the operands' signs allow it and the sign of the
// wrapped result is wrong.
func addClip(a, b int64) (int64, bool) {
	c := int64(uint64(a) + uint64(b))
	if a >= 0 && b >= 0 && c < 0 {
		return math.MaxInt64, true
	}
	if a < 0 && b < 0 && c >= 0 {
		return math.MinInt64, true
	}
	return c, false
}

func subClip(a, b int64) (int64, bool) {
	c := int64(uint64(a) - uint64(b))
	if a >= 0 && b < 0 && c < 0 {
		return math.MaxInt64, true
	}
	if a < 0 && b >= 0 && c >= 0 {
		return math.MinInt64, true
	}
	return c, false
}

func mulClip(a, b int64) (int64, bool) {
	// small operands cannot overflow; everything else goes through math/big
	if a > -(1<<31) && a < (1<<31) && b > -(1<<31) && b < (1<<31) {
		return a * b, false
	}
	c := mulClipBig(a, b)
	exact := new(big.Int).Mul(big.NewInt(a), big.NewInt(b))
	return c, !exact.IsInt64()
}

func selfTestArith() int {
	grid := []int64{math.MinInt64, math.MinInt64 + 1, -math.MaxInt64 / 2, -(1 << 31), -3, -1, 0, 1, 2, 3, 1 << 31, math.MaxInt64 / 4,
		math.MaxInt64 / 2, math.MaxInt64/2 + 1, math.MaxInt64 - 1, math.MaxInt64}
	n := 0
	for _, a := range grid {
		for _, b := range grid {
			if c, _ := addClip(a, b); c != addClipBig(a, b) {
				vk.Fatalf("self-test: addClip(%d,%d)=%d want %d", a, b, c, addClipBig(a, b))
			}
			if c, _ := subClip(a, b); c != subClipBig(a, b) {
				vk.Fatalf("self-test: subClip(%d,%d)=%d want %d", a, b, c, subClipBig(a, b))
			}
			if c, _ := mulClip(a, b); c != mulClipBig(a, b) {
				vk.Fatalf("self-test: mulClip(%d,%d)=%d want %d", a, b, c, mulClipBig(a, b))
			}
			n += 3
		}
	}
	return n
}

// ---- reference model: smooth weighted round-robin with saturating arithmetic ----

type mv struct {
	id int // fixture id == rank of the address
	p  int64
	cb int
	a  int64
}

type model struct {
	v       []mv // ascending id (== ascending address)
	prop    int  // id of the cached proposer, -1 = none cached
	clipped bool // some addition/subtraction saturated so far
}

func newModel() *model { return &model{prop: -1} }

func (m *model) clone() *model {
	return &model{v: append([]mv{}, m.v...), prop: m.prop, clipped: m.clipped}
}

func (m *model) find(id int) int {
	for i := range m.v {
		if m.v[i].id == id {
			return i
		}
	}
	return -1
}

// total voting power: saturating sum
func (m *model) total() int64 {
	t := int64(0)
	for _, v := range m.v {
		var c bool
		t, c = addClip(t, v.p)
		if c {
			m.clipped = true
		}
	}
	return t
}

// argmax of accum, ties to the lowest address; index into m.v
func (m *model) argmax() int {
	best := 0
	for i := 1; i < len(m.v); i++ {
		if m.v[i].a > m.v[best].a {
			best = i
		}
	}
	return best
}

// step is ONE rotation: every validator gains its power, the one with the highest priority (ties: lowest
// address) becomes proposer and pays the total power.
func (m *model) step() {
	for i := range m.v {
		var c bool
		m.v[i].a, c = addClip(m.v[i].a, m.v[i].p)
		m.clipped = m.clipped || c
	}
	b := m.argmax()
	var c bool
	m.v[b].a, c = subClip(m.v[b].a, m.total())
	m.clipped = m.clipped || c
	m.prop = m.v[b].id
}

// batch mirrors the shape of the repo's IncrementAccum(k) in exact-then-clipped arithmetic. It is NOT an
// oracle: it is used only to name the root cause once "k at once" has been observed to differ from "k single
// steps" (same as the mirrored batch => the difference is the batching itself; different => arithmetic).
func (m *model) batch(k int) {
	for i := range m.v {
		x, _ := mulClip(m.v[i].p, int64(k))
		m.v[i].a, _ = addClip(m.v[i].a, x)
	}
	for j := 0; j < k; j++ {
		b := m.argmax()
		m.v[b].a, _ = subClip(m.v[b].a, m.total())
		m.prop = m.v[b].id
	}
}

func (m *model) add(id int, p int64, cb int) bool {
	if m.find(id) >= 0 {
		return false
	}
	m.v = append(m.v, mv{id, p, cb, 0})
	sort.Slice(m.v, func(a, b int) bool { return m.v[a].id < m.v[b].id })
	m.prop = -1
	return true
}

func (m *model) update(id int, p int64, cb int) bool {
	i := m.find(id)
	if i < 0 {
		return false
	}
	m.v[i] = mv{id, p, cb, 0} // Update stores the given validator, whose Accum is 0 here
	m.prop = -1
	return true
}

func (m *model) remove(id int) bool {
	i := m.find(id)
	if i < 0 {
		return false
	}
	m.v = append(m.v[:i:i], m.v[i+1:]...)
	m.prop = -1
	return true
}

// proposer as GetProposer must report it: the cached one, else the highest priority
func (m *model) getProposer() int {
	if len(m.v) == 0 {
		return -1
	}
	if m.prop < 0 {
		m.prop = m.v[m.argmax()].id
	}
	return m.prop
}

func pstr(p int64) string {
	switch {
	case p == math.MaxInt64:
		return "MAX"
	case p == math.MaxInt64-1:
		return "MAX-1"
	case p == math.MaxInt64/2+1:
		return "MAX/2+1"
	case p == math.MaxInt64/2:
		return "MAX/2"
	case p == math.MaxInt64/4:
		return "MAX/4"
	case p == math.MinInt64:
		return "MIN"
	}
	return fmt.Sprint(p)
}

// content: identity-relevant part (what Hash covers)
func (m *model) content() string {
	var b strings.Builder
	for _, v := range m.v {
		fmt.Fprintf(&b, "%d:%s:c%d,", v.id, pstr(v.p), v.cb)
	}
	return b.String()
}

// String: full state incl. priorities and proposer cache
func (m *model) String() string {
	b := make([]byte, 0, 96)
	for _, v := range m.v {
		b = appendEntry(b, v.id, v.p, v.cb, v.a)
	}
	b = append(b, "|P="...)
	b = strconv.AppendInt(b, int64(m.prop), 10)
	return string(b)
}

func (m *model) vals() []*types.Validator {
	out := make([]*types.Validator, len(m.v))
	for i, v := range m.v {
		out[i] = mkVal(v.id, v.p, v.cb)
	}
	return out
}

// ---- observation of a real set in the same vocabulary ----

func snapSet(s *types.ValidatorSet) string {
	b := make([]byte, 0, 96)
	for _, v := range s.Validators {
		id := idOf(v.Address)
		cb := -1
		for alt := 0; alt < 3 && id >= 0; alt++ {
			if v.CoinBase == cbTable[id][alt] {
				cb = alt
			}
		}
		if id >= 0 && !v.PubKey.Equals(fx[id].pub) {
			id = -2
		}
		b = appendEntry(b, id, v.VotingPower, cb, v.Accum)
	}
	p := -1
	if s.Proposer != nil {
		p = idOf(s.Proposer.Address)
	}
	b = append(b, "|P="...)
	b = strconv.AppendInt(b, int64(p), 10)
	return string(b)
}

func sortedStrict(s *types.ValidatorSet) bool {
	for i := 1; i < len(s.Validators); i++ {
		if bytes.Compare(s.Validators[i-1].Address, s.Validators[i].Address) >= 0 {
			return false
		}
	}
	return true
}
