package main

import (
	"bytes"
	"fmt"
	"strings"
	"sync"

	"verif/vk"

	"github.com/lianxiangcloud/linkchain/consensus"
	dbm "github.com/lianxiangcloud/linkchain/libs/db"
	"github.com/lianxiangcloud/linkchain/types"
)

// ---- part (3): explicit-state search over Add / Update / Remove / rotate / GetProposer / Copy / save+load
// sequences on the real ValidatorSet against the reference model ----

type sopKind int

const (
	sAdd sopKind = iota
	sUpdate
	sRemove
	sInc
	sGetProposer
	sCopy
	sReload
)

type sop struct {
	kind sopKind
	id   int
	p    int64
	cb   int
}

type setCfg struct {
	ids    int
	powers []int64
	altCB  bool // one extra Add/Update variant with another coinbase (validator 0 only)
}

func (c *setCfg) ops() []sop {
	var out []sop
	for id := 0; id < c.ids; id++ {
		for _, p := range c.powers {
			out = append(out, sop{sAdd, id, p, 0})
		}
	}
	for id := 0; id < c.ids; id++ {
		for _, p := range c.powers {
			out = append(out, sop{sUpdate, id, p, 0})
		}
	}
	if c.altCB {
		out = append(out, sop{sAdd, 0, c.powers[0], 1}, sop{sUpdate, 0, c.powers[0], 1})
	}
	for id := 0; id < c.ids; id++ {
		out = append(out, sop{kind: sRemove, id: id})
	}
	out = append(out, sop{kind: sInc}, sop{kind: sGetProposer}, sop{kind: sCopy}, sop{kind: sReload})
	return out
}

func (o sop) String() string {
	switch o.kind {
	case sAdd:
		return fmt.Sprintf("Add(#%d,power=%s,coinbase%d)", o.id, pstr(o.p), o.cb)
	case sUpdate:
		return fmt.Sprintf("Update(#%d,power=%s,coinbase%d)", o.id, pstr(o.p), o.cb)
	case sRemove:
		return fmt.Sprintf("Remove(#%d)", o.id)
	case sInc:
		return "IncrementAccum(1)"
	case sGetProposer:
		return "GetProposer()"
	case sCopy:
		return "Copy() (continue on the copy, keep watching the original)"
	case sReload:
		return "SaveStatus+LoadStatus (continue on the loaded set)"
	}
	return "?"
}

const (
	keyOpResult   = "set-op:wrong-result"
	keySetContent = "set-op:content-or-priorities-differ-from-reference"
	keySetSorted  = "set-op:not-sorted-by-address-or-duplicate"
	keyTotalStale = "TotalVotingPower:stale-cache-after-set-change"
	keyHashFresh  = "Hash:differs-from-fresh-set-with-same-content"
	keyPropCache  = "set-op:cached-proposer-stale-or-wrong"
	keyGetProp    = "GetProposer:not-highest-priority/cached-proposer"
	keyCopyAlias2 = "Copy:aliasing:operation-on-copy-changes-original"
	keyCopyDiff   = "Copy:copy-differs-from-original"
	keyReloadDiff = "SaveStatus/LoadStatus:validator-set-differs-after-reload"
)

var freshHash sync.Map // content -> hash of NewValidatorSet(content given in descending address order)

func hashOfContent(m *model) []byte {
	c := m.content()
	if h, ok := freshHash.Load(c); ok {
		return h.([]byte)
	}
	vals := m.vals()
	for i, j := 0, len(vals)-1; i < j; i, j = i+1, j-1 {
		vals[i], vals[j] = vals[j], vals[i]
	}
	h := types.NewValidatorSet(vals).Hash()
	freshHash.Store(c, h)
	return h
}

type sinst struct {
	set      *types.ValidatorSet
	m        *model
	orig     *types.ValidatorSet
	origSnap string
	origHash []byte
	copied   bool
	reloaded bool
	soft     [][2]string
}

func newSinst() *sinst {
	return &sinst{set: types.NewValidatorSet(nil), m: newModel()}
}

// apply returns (enabled, violationKey, what)
func (in *sinst) apply(o sop) (bool, string, string) {
	switch o.kind {
	case sAdd:
		got, want := in.set.Add(mkVal(o.id, o.p, o.cb)), in.m.add(o.id, o.p, o.cb)
		if got != want {
			return true, keyOpResult, fmt.Sprintf("%v returned %v, reference %v", o, got, want)
		}
	case sUpdate:
		got, want := in.set.Update(mkVal(o.id, o.p, o.cb)), in.m.update(o.id, o.p, o.cb)
		if got != want {
			return true, keyOpResult, fmt.Sprintf("%v returned %v, reference %v", o, got, want)
		}
	case sRemove:
		v, got := in.set.Remove(fx[o.id].addr)
		want := in.m.remove(o.id)
		if got != want || (got && !bytes.Equal(v.Address, fx[o.id].addr)) {
			return true, keyOpResult, fmt.Sprintf("%v returned %v, reference %v", o, got, want)
		}
	case sInc:
		if len(in.m.v) == 0 {
			return false, "", "" // documented: panics on an empty set
		}
		before := in.m.clone()
		in.set.IncrementAccum(1)
		in.m.step()
		if got := snapSet(in.set); got != in.m.String() {
			key := classifyStep(before, rotState(in.set))
			return true, key, fmt.Sprintf("IncrementAccum(1): real %s, reference %s", got, in.m.String())
		}
	case sGetProposer:
		p := in.set.GetProposer()
		want := in.m.getProposer()
		got := -1
		if p != nil {
			got = idOf(p.Address)
		}
		if got != want {
			return true, keyGetProp, fmt.Sprintf("GetProposer() = #%d, reference #%d in state %s", got, want, in.m.String())
		}
	case sCopy:
		if in.copied || len(in.m.v) == 0 {
			return false, "", ""
		}
		in.orig, in.origSnap, in.origHash = in.set, snapSet(in.set), in.set.Hash()
		in.set = in.set.Copy()
		in.copied = true
		if got := snapSet(in.set); got != in.origSnap {
			return true, keyCopyDiff, fmt.Sprintf("Copy() = %s, original %s", got, in.origSnap)
		}
	case sReload:
		if in.reloaded || len(in.m.v) == 0 {
			return false, "", ""
		}
		db := dbm.NewMemDB()
		consensus.SaveStatus(db, consensus.NewStatus{ChainID: "c17", LastBlockHeight: 7, LastHeightValidatorsChanged: 8,
			Validators: in.set, LastValidators: types.NewValidatorSet(nil)})
		st, err := consensus.LoadStatus(db)
		if err != nil || st.Validators == nil {
			return true, keyReloadDiff, fmt.Sprintf("LoadStatus after SaveStatus: %v", err)
		}
		in.set = st.Validators
		in.reloaded = true
	}
	return true, "", ""
}

func (in *sinst) check() (string, string) {
	in.soft = nil
	s := in.set
	if !sortedStrict(s) {
		return keySetSorted, "validators are not strictly sorted by address: " + snapSet(s)
	}
	if got := snapSet(s); got != in.m.String() {
		what := fmt.Sprintf("real %s, reference %s", got, in.m.String())
		gi, wi := strings.LastIndex(got, "|P="), strings.LastIndex(in.m.String(), "|P=")
		switch {
		case got[:gi] == in.m.String()[:wi]:
			return keyPropCache, what // same validators and priorities, only the cached proposer differs
		case in.reloaded:
			return keyReloadDiff, what
		}
		return keySetContent, what
	}
	if got, want := s.TotalVotingPower(), in.m.total(); got != want {
		what := fmt.Sprintf("TotalVotingPower()=%d, saturating sum of %s is %d", got, in.m.content(), want)
		// a freshly built set with the same content gets it right => the cached value is stale
		if len(in.m.v) > 0 && types.NewValidatorSet(in.m.vals()).TotalVotingPower() == want {
			return keyTotalStale, what
		}
		return keyTotal, what
	}
	h := s.Hash()
	if len(in.m.v) == 0 {
		if h != nil {
			return keyHashFresh, "empty set has a non-nil hash"
		}
	} else {
		if want := hashOfContent(in.m); !bytes.Equal(h, want) {
			return keyHashFresh, fmt.Sprintf("Hash()=%X, but a fresh NewValidatorSet with the same content %s has %X (state %s)", h, in.m.content(), want, in.m.String())
		}
		if prev, ok := claimHash(h, in.m.content()); !ok {
			return keyHashColl, fmt.Sprintf("contents %s and %s share Hash %X", prev, in.m.content(), h)
		}
	}
	if in.orig != nil {
		if got := snapSet(in.orig); got != in.origSnap || !bytes.Equal(in.orig.Hash(), in.origHash) {
			return keyCopyAlias2, fmt.Sprintf("the set Copy() was taken from changed: %s -> %s", in.origSnap, got)
		}
	}
	// path independence from THIS state (states with priorities reset by Add/Update are not reachable by
	// rotation alone): 2 and 3 at once against single steps, on copies
	if len(in.m.v) > 0 {
		probe := s.Copy()
		probe.IncrementAccum(1)
		if got := snapSet(s); got != in.m.String() {
			return keyCopyAlias2, fmt.Sprintf("IncrementAccum(1) on a Copy() changed the set itself: %s -> %s", in.m.String(), got)
		}
		one := func(parts ...int) rstate {
			c := s.Copy()
			for _, p := range parts {
				c.IncrementAccum(p)
			}
			return rotState(c)
		}
		n := len(in.m.v)
		for _, alt := range [][]int{{2}, {3}, {1, 2}, {2, 1}} {
			k := 0
			ref := []int{}
			for _, p := range alt {
				k += p
			}
			for i := 0; i < k; i++ {
				ref = append(ref, 1)
			}
			if got, want := one(alt...), one(ref...); got != want {
				mm := in.m.clone()
				for _, p := range alt {
					mm.batch(p)
				}
				key := keyBatch
				if modelState(mm) != got {
					key = keyBatchArith
				}
				in.soft = append(in.soft, [2]string{key, fmt.Sprintf("from state %s: IncrementAccum%v gives %s, one at a time gives %s", in.m.String(), alt, got.str(n), want.str(n))})
				break
			}
		}
		if got := snapSet(s); got != in.m.String() {
			return keyCopyAlias2, fmt.Sprintf("rotating copies of the set changed the set itself: %s -> %s", in.m.String(), got)
		}
	}
	return "", ""
}

func (in *sinst) key() string {
	return fmt.Sprintf("%s|c%v|r%v", in.m.String(), in.copied, in.reloaded)
}

func runSetSearch(r *vk.Run, c *setCfg, name string, depth int) vk.Result {
	ops := c.ops()
	return r.Explore(vk.Spec{
		Name:            name,
		NumOps:          len(ops),
		OpName:          func(i int) string { return ops[i].String() },
		Depth:           depth,
		MergeCheckEvery: 5000,
		Exec: func(hist []int) (out vk.Outcome) {
			in := newSinst()
			defer func() {
				if e := recover(); e != nil {
					out = vk.Outcome{Err: keyPanic + ":set-op", What: fmt.Sprint(e)}
				}
			}()
			for i, oi := range hist {
				en, k, w := in.apply(ops[oi])
				if !en {
					return vk.Outcome{}
				}
				last := i == len(hist)-1
				if k == "" && !last {
					// the prefix was fully checked one layer earlier; only fill the total-power cache, as any
					// caller that rotates or tallies would, so that a stale cache cannot hide
					in.set.TotalVotingPower()
				}
				if k != "" {
					if last {
						return vk.Outcome{Err: k, What: w}
					}
					return vk.Outcome{}
				}
			}
			if k, w := in.check(); k != "" {
				return vk.Outcome{Err: k, What: w}
			}
			return vk.Outcome{Key: in.key(), Soft: in.soft}
		},
	})
}
