package main

import (
	"bytes"
	"fmt"
	"strings"
	"sync"

	"verif/vk"

	"github.com/lianxiangcloud/linkchain/consensus"
	"github.com/lianxiangcloud/linkchain/types"
)

// ---- part (3): explicit-state search over Add / Update / Remove / rotate / GetProposer / Copy / save+load
// sequences on the real ValidatorSet against the reference model ----

type sopKind int

const (
	sAdd sopKind = iota
	sUpdate
	sRemove
	sInc
	sGetProposer
	sCopy
	sReload     // id = reloadKind: the lazy twins are replaced by cold equivalents (the warm twin keeps running)
	sTotal      // TotalVotingPower() on every twin (an observation that is part of the sequence)
	sUpdateVals // consensus.updateValidators with change list #id on every twin
	sStart      // only as first letter: every twin starts as NewValidatorSet(start set #id) (+ rotations)
)

// change lists for updateValidators (power 0 = remove); entries refer to validators 0..2
var changeLists = [][]entry{
	{{0, 3, 0}, {1, 0, 0}},
	{{1, 1, 0}, {2, 3, 0}},
	{{2, 0, 0}, {0, 1, 1}},
}

// start sets: built by the constructor (cache warm, rotated once), then rotated `rot` more times
var startSets = []struct {
	vals []entry
	rot  int
}{
	{[]entry{{0, 1, 0}, {1, 3, 0}}, 0},
	{[]entry{{0, 1, 0}, {1, 1, 0}, {2, 3, 0}}, 1},
}

type sop struct {
	kind sopKind
	id   int
	p    int64
	cb   int
}

type setCfg struct {
	ids     int
	powers  []int64
	altCB   bool // one extra Add/Update variant with another coinbase (validator 0 only)
	commits int  // sequences of up to this many operations end with a third lazy twin that is first looked at through VerifyCommit (signature checks: costly)
}

func (c *setCfg) ops() []sop {
	var out []sop
	for id := 0; id < c.ids; id++ {
		for _, p := range c.powers {
			out = append(out, sop{sAdd, id, p, 0})
		}
	}
	for id := 0; id < c.ids; id++ {
		for _, p := range c.powers {
			out = append(out, sop{sUpdate, id, p, 0})
		}
	}
	if c.altCB {
		out = append(out, sop{sAdd, 0, c.powers[0], 1}, sop{sUpdate, 0, c.powers[0], 1})
	}
	for id := 0; id < c.ids; id++ {
		out = append(out, sop{kind: sRemove, id: id})
	}
	out = append(out, sop{kind: sInc}, sop{kind: sGetProposer}, sop{kind: sCopy}, sop{kind: sTotal})
	for k := relDecoded; k <= relLiteral; k++ {
		out = append(out, sop{kind: sReload, id: int(k)})
	}
	for i := range changeLists {
		out = append(out, sop{kind: sUpdateVals, id: i})
	}
	for i := range startSets {
		out = append(out, sop{kind: sStart, id: i})
	}
	return out
}

func (o sop) String() string {
	switch o.kind {
	case sAdd:
		return fmt.Sprintf("Add(#%d,power=%s,coinbase%d)", o.id, pstr(o.p), o.cb)
	case sUpdate:
		return fmt.Sprintf("Update(#%d,power=%s,coinbase%d)", o.id, pstr(o.p), o.cb)
	case sRemove:
		return fmt.Sprintf("Remove(#%d)", o.id)
	case sInc:
		return "IncrementAccum(1)"
	case sGetProposer:
		return "GetProposer()"
	case sCopy:
		return "Copy() (continue on the copy, keep watching the original)"
	case sReload:
		return "restart: lazy twins become " + reloadKind(o.id).String()
	case sTotal:
		return "TotalVotingPower()"
	case sUpdateVals:
		return "updateValidators(" + strings.Replace(listName(changeLists[o.id]), "app returns ", "", 1) + ")  [power 0 = remove]"
	case sStart:
		return fmt.Sprintf("start from NewValidatorSet(%s) + %d rotations", listName(startSets[o.id].vals), startSets[o.id].rot)
	}
	return "?"
}

const (
	keyOpResult   = "set-op:wrong-result"
	keySetContent = "set-op:content-or-priorities-differ-from-reference"
	keySetSorted  = "set-op:not-sorted-by-address-or-duplicate"
	keyTotalStale = "TotalVotingPower:stale-cache-after-set-change"
	keyHashFresh  = "Hash:differs-from-fresh-set-with-same-content"
	keyPropCache  = "set-op:cached-proposer-stale-or-wrong"
	keyGetProp    = "GetProposer:not-highest-priority/cached-proposer"
	keyCopyAlias2 = "Copy:aliasing:operation-on-copy-changes-original"
	keyCopyDiff   = "Copy:copy-differs-from-original"
	keyReloadDiff = "SaveStatus/LoadStatus:validator-set-differs-after-reload"
)

var freshHash sync.Map // content -> hash of NewValidatorSet(content given in descending address order)

func hashOfContent(m *model) []byte {
	c := m.content()
	if h, ok := freshHash.Load(c); ok {
		return h.([]byte)
	}
	vals := m.vals()
	for i, j := 0, len(vals)-1; i < j; i, j = i+1, j-1 {
		vals[i], vals[j] = vals[j], vals[i]
	}
	h := types.NewValidatorSet(vals).Hash()
	freshHash.Store(c, h)
	return h
}

type sinst struct {
	set      *types.ValidatorSet   // the warm twin: looked at after every operation
	lazy     []*types.ValidatorSet // twins that only receive the operations (see cold.go)
	kind     reloadKind            // what the lazy twins went through
	lazyWarm bool                  // state-key only: would the ORIGINAL code have the lazy twins' total cached now?
	commits  bool                  // this sequence ends with the VerifyCommit observation
	m        *model
	orig     *types.ValidatorSet
	origSnap string
	origHash []byte
	copied   bool
	soft     [][2]string
}

func newSinst(c *setCfg, seqLen int) *sinst {
	in := &sinst{set: types.NewValidatorSet(nil), m: newModel(), commits: seqLen <= c.commits}
	n := 2
	if in.commits {
		n = 3
	}
	for i := 0; i < n; i++ {
		in.lazy = append(in.lazy, types.NewValidatorSet(nil))
	}
	return in
}

// onLazy applies f to every lazy twin and then compares the twin's FIELDS (no accessor) with the reference
func (in *sinst) onLazy(what string, f func(t *types.ValidatorSet) (ok bool, detail string)) (string, string) {
	want := in.m.String()
	for i, t := range in.lazy {
		if ok, detail := f(t); !ok {
			return keyLazyResult, fmt.Sprintf("%s on the twin that is only operated on [%s]: %s", what, in.kind, detail)
		}
		if got := snapSet(in.lazy[i]); got != want {
			return onlyProposerDiffers(got, want, keyLazyContent), fmt.Sprintf("after %s the twin that is only operated on [%s] holds %s, live twin and reference %s", what, in.kind, got, in.m.String())
		}
	}
	return "", ""
}

// refUpdateValidators: the reference for consensus.updateValidators
func refUpdateValidators(m *model, l []entry) {
	for _, e := range l {
		i := m.find(e.id)
		switch {
		case i < 0 && e.p <= 0:
		case i < 0:
			m.add(e.id, e.p, e.cb)
		case e.p == 0:
			m.remove(e.id)
		case e.p != m.v[i].p:
			m.update(e.id, e.p, e.cb)
		}
	}
}

// apply returns (enabled, violationKey, what)
func (in *sinst) apply(o sop) (bool, string, string) {
	before := in.m.content()
	had := o.kind == sUpdate && in.m.find(o.id) >= 0
	en, k, w := in.applyWarm(o)
	if !en || k != "" {
		return en, k, w
	}
	k, w = in.applyLazy(o)
	switch o.kind {
	case sInc, sTotal, sStart:
		in.lazyWarm = true
	case sReload:
		in.lazyWarm = false
	case sAdd, sUpdate, sRemove, sUpdateVals:
		if in.m.content() != before || had {
			in.lazyWarm = false // membership operations drop the cached total
		}
	}
	return true, k, w
}

// applyLazy: the same operation on the lazy twins; results must equal what the warm twin (= reference) returned
func (in *sinst) applyLazy(o sop) (string, string) {
	name := o.String()
	switch o.kind {
	case sAdd:
		return in.onLazy(name, func(t *types.ValidatorSet) (bool, string) {
			had := t.HasAddress(fx[o.id].addr)
			got := t.Add(mkVal(o.id, o.p, o.cb))
			return got == !had, fmt.Sprintf("returned %v", got)
		})
	case sUpdate:
		return in.onLazy(name, func(t *types.ValidatorSet) (bool, string) {
			had := t.HasAddress(fx[o.id].addr)
			got := t.Update(mkVal(o.id, o.p, o.cb))
			return got == had, fmt.Sprintf("returned %v", got)
		})
	case sRemove:
		return in.onLazy(name, func(t *types.ValidatorSet) (bool, string) {
			had := t.HasAddress(fx[o.id].addr)
			_, got := t.Remove(fx[o.id].addr)
			return got == had, fmt.Sprintf("returned %v", got)
		})
	case sInc:
		k, w := in.onLazy(name, func(t *types.ValidatorSet) (bool, string) { t.IncrementAccum(1); return true, "" })
		if k == keyLazyContent {
			k = keyLazyRot
		}
		return k, w
	case sGetProposer:
		want := in.m.clone().getProposer()
		k, w := in.onLazy(name, func(t *types.ValidatorSet) (bool, string) {
			p := t.GetProposer()
			got := -1
			if p != nil {
				got = idOf(p.Address)
			}
			return got == want, fmt.Sprintf("returned #%d, live twin #%d", got, want)
		})
		if k == keyLazyResult {
			k = keyLazyProp
		}
		return k, w
	case sCopy:
		for i := range in.lazy {
			in.lazy[i] = in.lazy[i].Copy()
		}
		return in.onLazy(name, func(t *types.ValidatorSet) (bool, string) { return true, "" })
	case sTotal:
		want := in.m.total()
		k, w := in.onLazy(name, func(t *types.ValidatorSet) (bool, string) {
			got := t.TotalVotingPower()
			return got == want, fmt.Sprintf("returned %d, live twin %d", got, want)
		})
		if k == keyLazyResult {
			k = keyLazyTotal
		}
		return k, w
	case sReload:
		for i := range in.lazy {
			// the bytes go through the same codec as the status database (loadValidatorsInfo); the full
			// SaveStatus/LoadStatus path is taken by the updateStatus search
			in.lazy[i] = reloadFast(reloadKind(o.id), in.lazy[i])
		}
		in.kind = reloadKind(o.id)
		if k, w := in.onLazy(name, func(t *types.ValidatorSet) (bool, string) { return true, "" }); k != "" {
			return keyReloadDiff, w
		}
	case sUpdateVals:
		return in.onLazy(name, func(t *types.ValidatorSet) (bool, string) {
			err := consensus.VerifC17UpdateValidators(t, listVals(changeLists[o.id], nil))
			return err == nil, fmt.Sprint(err)
		})
	case sStart:
		for i := range in.lazy {
			in.lazy[i] = types.NewValidatorSet(listVals(startSets[o.id].vals, nil))
			for j := 0; j < startSets[o.id].rot; j++ {
				in.lazy[i].IncrementAccum(1)
			}
		}
		return in.onLazy(name, func(t *types.ValidatorSet) (bool, string) { return true, "" })
	}
	return "", ""
}

func (in *sinst) applyWarm(o sop) (bool, string, string) {
	switch o.kind {
	case sAdd:
		got, want := in.set.Add(mkVal(o.id, o.p, o.cb)), in.m.add(o.id, o.p, o.cb)
		if got != want {
			return true, keyOpResult, fmt.Sprintf("%v returned %v, reference %v", o, got, want)
		}
	case sUpdate:
		got, want := in.set.Update(mkVal(o.id, o.p, o.cb)), in.m.update(o.id, o.p, o.cb)
		if got != want {
			return true, keyOpResult, fmt.Sprintf("%v returned %v, reference %v", o, got, want)
		}
	case sRemove:
		v, got := in.set.Remove(fx[o.id].addr)
		want := in.m.remove(o.id)
		if got != want || (got && !bytes.Equal(v.Address, fx[o.id].addr)) {
			return true, keyOpResult, fmt.Sprintf("%v returned %v, reference %v", o, got, want)
		}
	case sInc:
		if len(in.m.v) == 0 {
			return false, "", "" // documented: panics on an empty set
		}
		before := in.m.clone()
		in.set.IncrementAccum(1)
		in.m.step()
		if got := snapSet(in.set); got != in.m.String() {
			key := classifyStep(before, rotState(in.set))
			return true, key, fmt.Sprintf("IncrementAccum(1): real %s, reference %s", got, in.m.String())
		}
	case sGetProposer:
		p := in.set.GetProposer()
		want := in.m.getProposer()
		got := -1
		if p != nil {
			got = idOf(p.Address)
		}
		if got != want {
			return true, keyGetProp, fmt.Sprintf("GetProposer() = #%d, reference #%d in state %s", got, want, in.m.String())
		}
	case sCopy:
		if in.copied || len(in.m.v) == 0 {
			return false, "", ""
		}
		in.orig, in.origSnap, in.origHash = in.set, snapSet(in.set), in.set.Hash()
		in.set = in.set.Copy()
		in.copied = true
		if got := snapSet(in.set); got != in.origSnap {
			return true, keyCopyDiff, fmt.Sprintf("Copy() = %s, original %s", got, in.origSnap)
		}
	case sReload:
		if in.kind != relNone || len(in.m.v) == 0 {
			return false, "", ""
		}
		// the warm twin keeps running; only the lazy twins restart (applyLazy)
	case sTotal:
		if got, want := in.set.TotalVotingPower(), in.m.total(); got != want {
			return true, keyTotal, fmt.Sprintf("TotalVotingPower()=%d, saturating sum of %s is %d", got, in.m.content(), want)
		}
	case sUpdateVals:
		if err := consensus.VerifC17UpdateValidators(in.set, listVals(changeLists[o.id], nil)); err != nil {
			return true, keyUpdVals, "updateValidators: " + err.Error()
		}
		refUpdateValidators(in.m, changeLists[o.id])
		if got := snapSet(in.set); got != in.m.String() {
			return true, onlyProposerDiffers(got, in.m.String(), keyUpdVals), fmt.Sprintf("%v: real %s, reference %s", o, got, in.m.String())
		}
	case sStart:
		in.set = types.NewValidatorSet(listVals(startSets[o.id].vals, nil))
		for _, e := range startSets[o.id].vals {
			in.m.v = append(in.m.v, mv{e.id, e.p, e.cb, 0})
		}
		in.m.step()
		for j := 0; j < startSets[o.id].rot; j++ {
			in.set.IncrementAccum(1)
			in.m.step()
		}
	}
	return true, "", ""
}

func (in *sinst) check() (string, string) {
	in.soft = nil
	s := in.set
	if !sortedStrict(s) {
		return keySetSorted, "validators are not strictly sorted by address: " + snapSet(s)
	}
	if got := snapSet(s); got != in.m.String() {
		what := fmt.Sprintf("real %s, reference %s", got, in.m.String())
		gi, wi := strings.LastIndex(got, "|P="), strings.LastIndex(in.m.String(), "|P=")
		switch {
		case got[:gi] == in.m.String()[:wi]:
			return keyPropCache, what // same validators and priorities, only the cached proposer differs
		}
		return keySetContent, what
	}
	if got, want := s.TotalVotingPower(), in.m.total(); got != want {
		what := fmt.Sprintf("TotalVotingPower()=%d, saturating sum of %s is %d", got, in.m.content(), want)
		// a freshly built set with the same content gets it right => the cached value is stale
		if len(in.m.v) > 0 && types.NewValidatorSet(in.m.vals()).TotalVotingPower() == want {
			return keyTotalStale, what
		}
		return keyTotal, what
	}
	h := s.Hash()
	if len(in.m.v) == 0 {
		if h != nil {
			return keyHashFresh, "empty set has a non-nil hash"
		}
	} else {
		if want := hashOfContent(in.m); !bytes.Equal(h, want) {
			return keyHashFresh, fmt.Sprintf("Hash()=%X, but a fresh NewValidatorSet with the same content %s has %X (state %s)", h, in.m.content(), want, in.m.String())
		}
		if prev, ok := claimHash(h, in.m.content()); !ok {
			return keyHashColl, fmt.Sprintf("contents %s and %s share Hash %X", prev, in.m.content(), h)
		}
	}
	if in.orig != nil {
		if got := snapSet(in.orig); got != in.origSnap || !bytes.Equal(in.orig.Hash(), in.origHash) {
			return keyCopyAlias2, fmt.Sprintf("the set Copy() was taken from changed: %s -> %s", in.origSnap, got)
		}
	}
	// path independence from THIS state (states with priorities reset by Add/Update are not reachable by
	// rotation alone): 2 and 3 at once against single steps, on copies
	if len(in.m.v) > 0 {
		probe := s.Copy()
		probe.IncrementAccum(1)
		if got := snapSet(s); got != in.m.String() {
			return keyCopyAlias2, fmt.Sprintf("IncrementAccum(1) on a Copy() changed the set itself: %s -> %s", in.m.String(), got)
		}
		one := func(parts ...int) rstate {
			c := s.Copy()
			for _, p := range parts {
				c.IncrementAccum(p)
			}
			return rotState(c)
		}
		n := len(in.m.v)
		for _, alt := range [][]int{{2}, {3}, {1, 2}, {2, 1}} {
			k := 0
			ref := []int{}
			for _, p := range alt {
				k += p
			}
			for i := 0; i < k; i++ {
				ref = append(ref, 1)
			}
			if got, want := one(alt...), one(ref...); got != want {
				mm := in.m.clone()
				for _, p := range alt {
					mm.batch(p)
				}
				key := keyBatch
				if modelState(mm) != got {
					key = keyBatchArith
				}
				in.soft = append(in.soft, [2]string{key, fmt.Sprintf("from state %s: IncrementAccum%v gives %s, one at a time gives %s", in.m.String(), alt, got.str(n), want.str(n))})
				break
			}
		}
		if got := snapSet(s); got != in.m.String() {
			return keyCopyAlias2, fmt.Sprintf("rotating copies of the set changed the set itself: %s -> %s", in.m.String(), got)
		}
	}
	// the twins that were never looked at: now, in a different order each
	verdicts := ""
	if in.commits && len(in.m.v) > 0 {
		verdicts = commitVerdicts(s)
	}
	for i, t := range in.lazy {
		if k, w := observeLazy(t, in.m, i, in.kind, verdicts); k != "" {
			return k, w
		}
	}
	return "", ""
}

func (in *sinst) key() string {
	return fmt.Sprintf("%s|c%v|r%d|w%v", in.m.String(), in.copied, in.kind, in.lazyWarm)
}

func runSetSearch(r *vk.Run, c *setCfg, name string, depth int) vk.Result {
	ops := c.ops()
	return r.Explore(vk.Spec{
		Name:            name,
		NumOps:          len(ops),
		OpName:          func(i int) string { return ops[i].String() },
		Depth:           depth,
		MergeCheckEvery: 5000,
		Enabled: func(hist []int, op int) bool {
			return ops[op].kind != sStart || len(hist) == 0
		},
		Exec: func(hist []int) (out vk.Outcome) {
			in := newSinst(c, len(hist))
			defer func() {
				if e := recover(); e != nil {
					out = vk.Outcome{Err: keyPanic + ":set-op", What: fmt.Sprint(e)}
				}
			}()
			for i, oi := range hist {
				en, k, w := in.apply(ops[oi])
				if !en {
					return vk.Outcome{}
				}
				last := i == len(hist)-1
				if k == "" && !last {
					// the prefix was fully checked one layer earlier; only fill the total-power cache, as any
					// caller that rotates or tallies would, so that a stale cache cannot hide
					in.set.TotalVotingPower()
				}
				if k != "" {
					if last {
						return vk.Outcome{Err: k, What: w}
					}
					return vk.Outcome{}
				}
			}
			if k, w := in.check(); k != "" {
				return vk.Outcome{Err: k, What: w}
			}
			return vk.Outcome{Key: in.key(), Soft: in.soft}
		},
	})
}

// onlyProposerDiffers: same validators and priorities, only the cached proposer differs => that is the root cause
func onlyProposerDiffers(got, want, otherwise string) string {
	gi, wi := strings.LastIndex(got, "|P="), strings.LastIndex(want, "|P=")
	if gi >= 0 && wi >= 0 && got[:gi] == want[:wi] {
		return keyPropCache
	}
	return otherwise
}
