package main

// E2: interleavings of two Mempool.AddTx of conflicting confidential spends and one CommitBlock (which resets the
// mempool's key-image cache and re-checks the pool) under the cooperative scheduler: EVERY schedule with at most 2
// preemptions at the sync/atomic operations of the instrumented mempool, application and concurrent list.
//
// One scenario = one isolated worker process (all Chains of a process run on one goroutine at a time: inside a worker
// the executions are serialised by a process-wide lock although the explorer has several goroutines).

import (
	"encoding/json"
	"flag"
	"fmt"
	"sort"
	"strings"
	"sync"
	"time"

	"verif/minichain"
	"verif/schedx"
	"verif/vk"

	mempl "github.com/lianxiangcloud/linkchain/mempool"
)

var e2bound = flag.Int("c07-bound", -1, "E2: preemption bound for every scenario (default: 2; thorough repeats the core scenarios with 3)")

func quietMempoolLoops() { mempl.VerifC07ParkLoopTickers(1000 * time.Hour) }

type e2scenario struct {
	Name    string
	Trie    bool
	PrePool []string // pooled before the threads start
	Add     []string // one AddTx thread each
	Block   []string // the block whose CommitBlock runs concurrently (built and CheckBlock'ed before the threads start)
	After   []string // submitted sequentially after all threads finished: each re-uses an input and must be refused
	Bound   int      // preemption bound (0 = 2)
}

func (s e2scenario) bound() int {
	if *e2bound >= 0 {
		return *e2bound
	}
	if s.Bound > 0 {
		return s.Bound
	}
	return 2
}

// K0 = key image of o0 (s1, s1x, s1m, s1a, kk, s12), K1 = key image of o1 (s2, s12).
func e2scenarios(quick bool) []e2scenario {
	sc := []e2scenario{
		// the committed block spends K0 with a THIRD transaction: both submissions must be gone afterwards
		{Name: "add(s1)|add(s1x)|commit[s1m]", Add: []string{"s1", "s1x"}, Block: []string{"s1m"}, After: []string{"s1a"}},
		// the committed block carries one of the two submissions
		{Name: "add(s1)|add(s1x)|commit[s1]", Add: []string{"s1", "s1x"}, Block: []string{"s1"}, After: []string{"s1m"}},
		// the committed block is unrelated: the key-image cache is reset and must be rebuilt; exactly one survives
		{Name: "add(s1)|add(s1x)|commit[s2]", Add: []string{"s1", "s1x"}, Block: []string{"s2"}, After: []string{"s1m", "s2"}},
		// one spend is already pooled when the commit (unrelated block) and the conflicting submission race
		{Name: "pool(s1);add(s1x)|add(s1m)|commit[s2]", PrePool: []string{"s1"}, Add: []string{"s1x", "s1m"}, Block: []string{"s2"}, After: []string{"s1a"}},
	}
	// a commit that does not touch the pool at all — the EMPTY block — racing the conflicting submission: the pending
	// spend's key image must still be known afterwards (the cache is reset by every commit and rebuilt by the recheck)
	sc = append(sc, e2scenario{Name: "pool(s1);add(s1x)|commit[]", PrePool: []string{"s1"}, Add: []string{"s1x"}, Block: []string{}, After: []string{"s1m"}})
	if !quick {
		sc = append(sc,
			e2scenario{Name: "pool(s1);add(s1x)|add(s1m)|commit[]", PrePool: []string{"s1"}, Add: []string{"s1x", "s1m"}, Block: []string{}, After: []string{"s1a"}},
			e2scenario{Name: "pool(a0,s1);add(a0x)|add(s1x)|commit[]", PrePool: []string{"a0", "s1"}, Add: []string{"a0x", "s1x"}, Block: []string{}, After: []string{"s1m"}},
			e2scenario{Name: "add(s1)|add(s12)|commit[s2]", Add: []string{"s1", "s12"}, Block: []string{"s2"}, After: []string{"s1x", "s12"}},
			e2scenario{Name: "pool(s1);add(s1x)|add(s2)|commit[s12]", PrePool: []string{"s1"}, Add: []string{"s1x", "s2"}, Block: []string{"s12"}, After: []string{"s1m"}},
			e2scenario{Name: "pool(s1,s2);add(s1x)|add(s12)|commit[a0]", PrePool: []string{"s1", "s2"}, Add: []string{"s1x", "s12"}, Block: []string{"a0"}, After: []string{"s1m"}},
			e2scenario{Name: "add(kk)|add(s1)|commit[s1x]", Add: []string{"kk", "s1"}, Block: []string{"s1x"}, After: []string{"s1"}},
		)
		n := len(sc)
		for i := 0; i < n; i++ {
			t := sc[i]
			t.Name, t.Trie = "trie:"+t.Name, true
			sc = append(sc, t)
		}
		// the four core scenarios once more with <= 3 preemptions (placed so that on a 16-core machine each gets a
		// worker of its own)
		var deep []e2scenario
		for i := 0; i < 4; i++ {
			t := sc[i]
			t.Name, t.Bound = t.Name+" @3", 3
			deep = append(deep, t)
		}
		sc = append(sc[:4], append(deep, sc[4:]...)...)
	}
	return sc
}

type e2result struct {
	Scenario   string         `json:"scenario"`
	Executions int            `json:"executions"`
	Points     int            `json:"choice_points"`
	ByCost     map[int]int    `json:"by_preemptions"`
	Capped     bool           `json:"capped"`
	Outcomes   map[string]int `json:"outcomes"`
	Viol       []e2viol       `json:"viol"`
}

type e2viol struct {
	Key, What string
	Trace     []int
}

var e2lock sync.Mutex // one execution at a time in this process

func runE2Scenario(r *vk.Run, cat *catalogue, sc e2scenario, bound int) e2result {
	res := e2result{Scenario: sc.Name, Outcomes: map[string]int{}}
	seenViol := map[string]bool{}
	tpl := newTemplate(cat, sc.Trie)
	defer tpl.close()
	// the concurrent block and its commit signatures are the same in every execution: built once on a scratch node
	scratch := tpl.boot()
	_, blockParts, err := scratch.c.MakeBlock(decodeAll(lookup(cat, sc.Block)))
	if err != nil {
		vk.Fatalf("e2 %s: block: %v", sc.Name, err)
	}
	sb, _ := minichain.BlockFromParts(blockParts, scratch.maxBytes())
	seen := scratch.c.SignCommit(scratch.c.Status().Validators, minichain.BlockID(sb, blockParts), sb.Height, 0)
	scratch.close()
	st := schedx.Explore(r, sc.Name, bound, func() ([]schedx.Thread, func(schedx.Outcome) (string, string)) {
		e2lock.Lock()
		w := tpl.boot()
		for _, n := range sc.PrePool {
			if err := w.c.Mempool().AddTx("", cat.get(n).decode()); err != nil {
				vk.Fatalf("e2 %s: pre-pooling %s: %v", sc.Name, n, err)
			}
		}
		// the block arrives from another proposer: the node decodes it from the parts and checks it (this caches the
		// execution that CommitBlock will commit)
		parts, err := minichain.CopyParts(blockParts)
		if err != nil {
			vk.Fatalf("e2 %s: %v", sc.Name, err)
		}
		b, err := minichain.BlockFromParts(parts, w.maxBytes())
		if err != nil {
			vk.Fatalf("e2 %s: %v", sc.Name, err)
		}
		if !w.c.CheckBlock(b) {
			vk.Fatalf("e2 %s: the node refuses the block before the race starts", sc.Name)
		}
		errs := make([]error, len(sc.Add))
		var commitErr error
		var threads []schedx.Thread
		for i, n := range sc.Add {
			i, tx := i, cat.get(n).decode()
			threads = append(threads, schedx.Thread{Name: "AddTx(" + n + ")", Body: func() { errs[i] = w.c.Mempool().AddTx("", tx) }})
		}
		threads = append(threads, schedx.Thread{Name: "CommitBlock", Body: func() { _, commitErr = w.c.App().CommitBlock(b, parts, seen, false) }})
		return threads, func(o schedx.Outcome) (string, string) {
			defer e2lock.Unlock()
			defer w.close()
			key, what := "", ""
			switch {
			case o.Deadlock:
				key, what = "deadlock:AddTx-vs-CommitBlock", "deadlock"
			case o.Stuck != "":
				key, what = "livelock:AddTx-vs-CommitBlock", o.Stuck
			case len(o.Panics) > 0:
				key, what = "panic:AddTx-vs-CommitBlock", strings.Join(o.Panics, "; ")
			case commitErr != nil:
				vk.Fatalf("e2 %s: CommitBlock: %v", sc.Name, commitErr)
			}
			var oc []string
			if key == "" {
				// the chain now holds the block; what does the pool offer to the next proposer?
				m, bad := scanChain(w.c, cat)
				if len(bad) > 0 {
					vk.Fatalf("e2: chain inconsistent: %v", bad)
				}
				for i, n := range sc.Add {
					oc = append(oc, fmt.Sprintf("%s:%v", n, errs[i] == nil))
				}
				good, utxo, _, _, kimgs := w.poolView()
				oc = append(oc, "pool="+strings.Join(append(good, utxo...), ","), fmt.Sprintf("kimgs=%d", kimgs))
				if cl, w2 := w.reapProblems(m); cl != "" {
					key, what = "mempool-offers-consumed-input:"+orUnclassified(cl), fmt.Sprintf("after the race %v: %s", oc, w2)
				}
				if key == "" {
					// a later submission that re-uses an input held by the chain or by the pool must be refused, or
					// at least never come out of Reap() together with its rival
					for _, n := range sc.After {
						err := w.c.Mempool().AddTx("", cat.get(n).decode())
						oc = append(oc, fmt.Sprintf("then %s:%v", n, err == nil))
						if cl, w2 := w.reapProblems(m); cl != "" {
							key, what = "mempool-offers-consumed-input:"+orUnclassified(cl), fmt.Sprintf("after the race %v: %s", oc, w2)
							break
						}
					}
				}
			}
			res.Outcomes[strings.Join(oc, " ")]++
			if key != "" && !seenViol[key] {
				seenViol[key] = true
				res.Viol = append(res.Viol, e2viol{key, what, append([]int{}, o.Trace...)})
			}
			return "", ""
		}
	})
	res.Executions, res.Points, res.ByCost, res.Capped = st.Executions, st.ChoicePoints, st.ByCost, st.Capped
	return res
}

func e2Worker(r *vk.Run) {
	scs := e2scenarios(r.Quick())
	var cat *catalogue
	vk.WorkerLoop(len(scs), func(i int) interface{} {
		if cat == nil {
			cat = buildCatalogue()
		}
		return runE2Scenario(r, cat, scs[i], scs[i].bound())
	})
}

type e2stats struct {
	executions int
	outcomes   map[string]int
	cov        interface{}
}

func runE2(r *vk.Run, budget time.Duration) *e2stats {
	st := &e2stats{outcomes: map[string]int{}}
	scs := e2scenarios(r.Quick())
	results := make([]*e2result, len(scs))
	extra := []string{"--part", "e2", "--c07-bound", fmt.Sprint(*e2bound), "--budget", budget.String()}
	done := r.RunIsolated(len(scs), vk.IsoOpts{CaseTimeout: budget + time.Minute, Workers: workers(), ExtraArgs: extra},
		func(i int, raw json.RawMessage, fatal string) {
			if fatal != "" {
				vk.Fatalf("e2 %s: worker died: %s", scs[i].Name, fatal)
			}
			var res e2result
			if err := json.Unmarshal(raw, &res); err != nil {
				vk.Fatalf("e2: %v", err)
			}
			results[i] = &res
		})
	if done < len(scs) {
		r.Capped(fmt.Sprintf("E2: %d of %d scenarios", done, len(scs)))
	}
	var per []interface{}
	nviol := 0
	for i, res := range results {
		if res == nil {
			continue
		}
		if res.Capped {
			r.Capped(fmt.Sprintf("E2 %s: deadline after %d schedules", scs[i].Name, res.Executions))
		}
		st.executions += res.Executions
		var ocs []string
		for k, n := range res.Outcomes {
			st.outcomes[scs[i].Name+" => "+k] += n
			ocs = append(ocs, fmt.Sprintf("%dx %s", n, k))
		}
		sort.Strings(ocs)
		for _, v := range res.Viol {
			nviol++
			r.Violation(v.Key, fmt.Sprintf("scenario %s: %s", scs[i].Name, v.What), map[string]interface{}{"engine": "E2", "scenario": scs[i].Name, "schedule_thread_ids": v.Trace,
				"threads": append(append([]string{}, scs[i].Add...), "CommitBlock"+fmt.Sprint(scs[i].Block)), "bound": scs[i].bound()})
		}
		per = append(per, map[string]interface{}{"scenario": scs[i].Name, "preemption_bound": scs[i].bound(), "schedules": res.Executions, "choice_points": res.Points,
			"by_preemptions": res.ByCost, "outcomes": ocs})
		fmt.Printf("E2 %-45s schedules=%d by-preemptions=%v distinct-outcomes=%d\n", scs[i].Name, res.Executions, res.ByCost, len(res.Outcomes))
	}
	st.cov = per
	// non-vacuity: in a scenario whose outcome depends on who wins the race the schedules must produce >= 2 outcomes;
	// scenarios in which a pre-pooled spend must always survive legitimately have one. At least a quarter (and at
	// least two) of the scenarios must be schedule-sensitive.
	sensitive := 0
	for _, res := range results {
		if res != nil && len(res.Outcomes) >= 2 {
			sensitive++
		}
	}
	need := len(per) / 4
	if need < 2 {
		need = 2
	}
	if sensitive < need && done == len(scs) && nviol == 0 {
		vk.Fatalf("e2: only %d of %d scenarios have schedule-dependent outcomes: the threads do not interact", sensitive, len(per))
	}
	return st
}
