package main

// Shared part of the three C07 engines: the fixed transaction catalogue (built once per process on a scratch
// chain, then used as wire bytes), the world (node under test + a cold validator replica), the plain-Go
// reference model of "what is already spent", and the chain-scan oracle.

import (
	"errors"
	"fmt"
	"math/big"
	"os"
	"sort"
	"strings"

	"verif/kv"
	"verif/minichain"
	"verif/txkit"
	"verif/vk"

	cfg "github.com/lianxiangcloud/linkchain/config"
	"github.com/lianxiangcloud/linkchain/libs/common"
	lk "github.com/lianxiangcloud/linkchain/libs/cryptonote/types"
	dbm "github.com/lianxiangcloud/linkchain/libs/db"
	"github.com/lianxiangcloud/linkchain/libs/ser"
	mempl "github.com/lianxiangcloud/linkchain/mempool"
	"github.com/lianxiangcloud/linkchain/types"
)

// ---------------------------------------------------------------------------------------------------
// catalogue

type txInfo struct {
	Name   string
	Bytes  []byte
	Hash   common.Hash
	KIs    []lk.Key // key images in input order (a key image may occur twice: that is one of the re-uses)
	HasAcc bool     // has an account input
	Sender common.Address
	Nonce  uint64
}

type catalogue struct {
	prelude []*txInfo // block 1 of every world
	txs     map[string]*txInfo
	byHash  map[common.Hash]*txInfo
}

func (cat *catalogue) get(name string) *txInfo {
	t := cat.txs[name]
	if t == nil {
		vk.Fatalf("catalogue: no transaction %q", name)
	}
	return t
}

func (cat *catalogue) name(h common.Hash) string {
	if t := cat.byHash[h]; t != nil {
		return t.Name
	}
	return "?" + h.Hex()[2:10]
}

// decode returns a fresh object (no cached sender, hash, kind): what a node receives from the wire.
func (t *txInfo) decode() types.Tx {
	var out types.Tx
	if err := ser.DecodeBytes(t.Bytes, &out); err != nil {
		vk.Fatalf("catalogue: decode %s: %v", t.Name, err)
	}
	return out
}

func decodeAll(list []*txInfo) types.Txs {
	out := make(types.Txs, 0, len(list))
	for _, t := range list {
		out = append(out, t.decode())
	}
	return out
}

// accountInput returns the (sender, nonce) an account-based transaction consumes.
func accountInput(tx types.Tx) (common.Address, uint64, bool) {
	switch t := tx.(type) {
	case *types.UTXOTransaction:
		for _, in := range t.Inputs {
			if ai, ok := in.(*types.AccountInput); ok {
				from, err := t.From()
				if err != nil {
					vk.Fatalf("sender of %s: %v", t.Hash().Hex(), err)
				}
				return from, ai.Nonce, true
			}
		}
		return common.Address{}, 0, false
	case *types.MultiSignAccountTx:
		from, _ := t.From() // the fixed pseudo-account types.MultiSignNonceAddr
		return from, t.Nonce(), true
	case types.RegularTx:
		from, err := t.From()
		if err != nil {
			vk.Fatalf("sender of %s: %v", t.Hash().Hex(), err)
		}
		return from, t.Nonce(), true
	}
	vk.Fatalf("accountInput: unexpected transaction type %T", tx)
	return common.Address{}, 0, false
}

func keyImagesOf(tx types.Tx) []lk.Key {
	u, ok := tx.(*types.UTXOTransaction)
	if !ok {
		return nil
	}
	var out []lk.Key
	for _, k := range u.GetInputKeyImages() {
		out = append(out, *k)
	}
	return out
}

func info(name string, tx types.Tx) *txInfo {
	ti := &txInfo{Name: name, Bytes: txkit.Bytes(tx)}
	fresh := ti.decode()
	ti.Hash = fresh.Hash()
	ti.KIs = keyImagesOf(fresh)
	ti.Sender, ti.Nonce, ti.HasAcc = accountInput(fresh)
	return ti
}

// genesisAlloc: A, B, C rich in coins and in the genesis token; D poor (10 coins, no token): it can pay gas but not the
// values its "failing" letters move.
func genesisAlloc() []minichain.Alloc {
	return append(txkit.AllocWithToken(nil, txkit.GenesisToken, txkit.LKC(1000)), minichain.Alloc{Addr: txkit.D.Addr, Balance: txkit.LKC(10)})
}

func chainOpts(trie bool) minichain.Options {
	return minichain.Options{IsTrie: trie, Alloc: genesisAlloc()}
}

// buildCatalogue runs the prelude on a scratch chain and builds every transaction of the alphabet against the
// ledger after it. Deterministic: fixed keys, one Kit with a fixed seed, fixed build order.
//
// Prelude (block 1): B -> confidential outputs o0 (W0/0, 300), o1 (W0/1, 200), o2 (W1/0, 100), o3 (W0/2, 150).
//
//	s1   spend of o0 (ring 1) -> W1 + change           the reference spend, key image K0
//	s1x  another spend of o0 (other destination)       same key image, other transaction (double spend)
//	s1m  spend of o0 with a ring of 3 (MLSAG path)     same key image through the other signature path
//	s1a  spend of o0 entirely to account D (U -> A)    same key image, account output
//	kk   one transaction with o0 in BOTH inputs        same key image twice inside a transaction
//	s2   spend of o1                                   independent spend, key image K1
//	s12  one transaction spending o0 and o1            overlaps s1 (first input) and s2 (second input)
//	a0,a1,a2  transfers of A with nonce 0,1,2          replay, gap, reorder
//	a0x  other transfer of A with nonce 0              conflicting twin of a0
//	u0,u1 account->confidential of A with nonce 0,1    the nonce rule on the confidential-transaction path
//	c0   contract creation of A with nonce 0           the nonce rule on the creation path
//	k0   token transfer of A with nonce 0              the nonce rule on the token path
//	m0   multi-signature account transaction, nonce 0  the nonce rule of the pseudo-account MultiSignNonceAddr
//	x0,x1,x5 for x in a,c,l,k,u,g and m1,m2,m6         one family per account-based KIND (see kindFamilies)
func buildCatalogue() *catalogue {
	c, err := minichain.New(chainOpts(false))
	if err != nil {
		vk.Fatalf("catalogue: %v", err)
	}
	defer c.Close()
	kit, led := txkit.NewKit(7), txkit.NewLedger()
	A, B, C, D := txkit.A, txkit.B, txkit.C, txkit.D
	must := func(tx types.Tx, err error) types.Tx {
		if err != nil {
			vk.Fatalf("catalogue: %v", err)
		}
		return tx
	}
	ain := must(kit.AccountToUTXO(B, 0, []txkit.Dest{txkit.ToWallet(txkit.W0, 0, txkit.LKC(300)), txkit.ToWallet(txkit.W0, 1, txkit.LKC(200)),
		txkit.ToWallet(txkit.W1, 0, txkit.LKC(100)), txkit.ToWallet(txkit.W0, 2, txkit.LKC(150))}, nil))
	cat := &catalogue{txs: map[string]*txInfo{}, byHash: map[common.Hash]*txInfo{}}
	cat.prelude = []*txInfo{info("prelude", ain)}
	if _, err := c.Step(decodeAll(cat.prelude)); err != nil {
		vk.Fatalf("catalogue: prelude block: %v", err)
	}
	led.Sync(c)
	own := led.Spendable(txkit.W0)
	if len(own) != 3 || led.NumOutputs(common.EmptyAddress) != 4 {
		vk.Fatalf("catalogue: ledger after the prelude: %d outputs of W0, %d outputs", len(own), led.NumOutputs(common.EmptyAddress))
	}
	o0, o1 := own[0], own[1]
	add := func(name string, tx types.Tx) {
		ti := info(name, tx)
		if prev := cat.byHash[ti.Hash]; prev != nil {
			vk.Fatalf("catalogue: %s and %s are the same transaction", name, prev.Name)
		}
		cat.txs[name], cat.byHash[ti.Hash] = ti, ti
	}
	add("s1", must(kit.Transfer(led, txkit.W0, []*txkit.Owned{o0}, 1, []txkit.Dest{txkit.ToWallet(txkit.W1, 0, txkit.LKC(50))}, 0)))
	add("s1x", must(kit.Transfer(led, txkit.W0, []*txkit.Owned{o0}, 1, []txkit.Dest{txkit.ToWallet(txkit.W2, 1, txkit.LKC(20))}, 2)))
	add("s1m", must(kit.Transfer(led, txkit.W0, []*txkit.Owned{o0}, 3, []txkit.Dest{txkit.ToWallet(txkit.W2, 0, txkit.LKC(30))}, 1)))
	s1a, _, err := kit.ToAccountAll(led, txkit.W0, []*txkit.Owned{o0}, 1, D.Addr)
	add("s1a", must(s1a, err))
	add("kk", must(kit.SameKeyImageTwice(led, txkit.W0, o0)))
	add("s2", must(kit.Transfer(led, txkit.W0, []*txkit.Owned{o1}, 1, []txkit.Dest{txkit.ToWallet(txkit.W2, 2, txkit.LKC(60))}, 0)))
	add("s12", must(kit.Transfer(led, txkit.W0, []*txkit.Owned{o0, o1}, 1, []txkit.Dest{txkit.ToWallet(txkit.W1, 1, txkit.LKC(400))}, 0)))
	add("a0", txkit.Transfer(A, 0, B.Addr, txkit.LKC(10)))
	add("a1", txkit.Transfer(A, 1, C.Addr, txkit.LKC(11)))
	add("a2", txkit.Transfer(A, 2, B.Addr, txkit.LKC(12)))
	add("a0x", txkit.DuplicateNonce(A, 0, B.Addr, txkit.LKC(10)))
	add("u0", must(kit.AccountToUTXO(A, 0, []txkit.Dest{txkit.ToWallet(txkit.W2, 0, txkit.LKC(40))}, nil)))
	add("u1", must(kit.AccountToUTXO(A, 1, []txkit.Dest{txkit.ToWallet(txkit.W2, 1, txkit.LKC(41))}, nil)))
	add("c0", txkit.Create(A, 0, txkit.StoreContract(), nil))
	add("k0", txkit.TokenTransfer(A, 0, txkit.GenesisToken, C.Addr, big.NewInt(12345)))
	var signers []txkit.ValidatorSigner
	for _, k := range c.Fixture().Keys[:3] { // 3 of 4 equal validators: > 2/3 of the power
		signers = append(signers, txkit.SignerOf(k))
	}
	entries := []*types.SignerEntry{{Power: 10, Addr: A.Addr}, {Power: 10, Addr: B.Addr}}
	add("m0", txkit.MultiSign(0, types.TxContractCreateType, 20, entries, signers))
	// ---- one family of letters per account-based transaction KIND (every branch of app.GenerateTransaction): the exact
	// next nonce of the sender (x<next>), next+1 and next+5. Sender A (next nonce 0) for all kinds but the
	// multi-signature one, whose pseudo-account is at nonce 1 after the kinds set-up block [cC, m0].
	storeInit := txkit.StoreContract()
	add("cC", txkit.Create(C, 0, storeInit, nil)) // set-up: the contract that the call letters call
	storeAddr := txkit.ContractAddress(C.Addr, 0, storeInit)
	wasmish := append(append([]byte{}, txkit.WasmMagic...), 1, 0, 0, 0)
	for _, n := range []uint64{1, 5} { // next+1, next+5 (x0 of transfer/creation/token/confidential exist above as a0, c0, k0, u0)
		if n != 1 {
			add(fmt.Sprintf("a%d", n), txkit.Transfer(A, n, B.Addr, txkit.LKC(int64(10+n))))
			add(fmt.Sprintf("u%d", n), must(kit.AccountToUTXO(A, n, []txkit.Dest{txkit.ToWallet(txkit.W2, 1, txkit.LKC(int64(40+n)))}, nil)))
		}
		add(fmt.Sprintf("c%d", n), txkit.Create(A, n, storeInit, nil))
		add(fmt.Sprintf("k%d", n), txkit.TokenTransfer(A, n, txkit.GenesisToken, C.Addr, big.NewInt(int64(12345+n))))
	}
	for _, n := range []uint64{0, 1, 5} {
		add(fmt.Sprintf("l%d", n), txkit.Call(A, n, storeAddr, nil, txkit.Word(big.NewInt(int64(42+n)))))    // message call to a contract
		add(fmt.Sprintf("g%d", n), txkit.Upgrade(A, n, cfg.ContractFoundationAddr, wasmish, A, B))           // contract upgrade (signer table from m0)
		add(fmt.Sprintf("m%d", n+1), txkit.MultiSign(n+1, types.TxContractCreateType, 20, entries, signers)) // multi-signature account, nonces 1, 2, 6
	}
	// the kinds alphabet must really contain every kind (a builder that silently changes type would hollow the search)
	kinds := map[string]bool{}
	for _, fam := range kindFamilies {
		tx := cat.get(fam[0]).decode()
		switch t := tx.(type) {
		case *types.Transaction:
			switch {
			case t.To() == nil:
				kinds["creation"] = true
			case *t.To() == storeAddr:
				kinds["call"] = true
			default:
				kinds["transfer"] = true
			}
		case *types.TokenTransaction:
			kinds["token"] = true
		case *types.UTXOTransaction:
			if t.UTXOKind()&types.Ain == types.Ain {
				kinds["confidential-with-account-input"] = true
			}
		case *types.ContractUpgradeTx:
			kinds["upgrade"] = true
		case *types.MultiSignAccountTx:
			kinds["multisign"] = true
		}
		for i, n := range fam {
			ti, first := cat.get(n), cat.get(fam[0])
			if !ti.HasAcc || ti.Sender != first.Sender || ti.Nonce != first.Nonce+[]uint64{0, 1, 5}[i] {
				vk.Fatalf("catalogue: %s is not the +%d letter of its family", n, []uint64{0, 1, 5}[i])
			}
		}
	}
	if len(kinds) != 7 || len(kindFamilies) != 7 {
		vk.Fatalf("catalogue: the kinds alphabet covers only %v", kinds)
	}
	// ---- letters whose EXECUTION FAILS (the transaction is a valid block member, is committed with a failed receipt and
	// has consumed its nonce), one per failure class the transition distinguishes; all signed by the poor account D for
	// nonce 0 (the upgrade letter g0 of A, above, fails in the VM too). Cures make the failure cause go away.
	revertInit := txkit.RevertContract()
	add("cR", txkit.Create(C, 1, revertInit, nil)) // set-up: the contract whose calls always revert
	revertAddr := txkit.ContractAddress(C.Addr, 1, revertInit)
	callData := txkit.Word(big.NewInt(42))
	intr, err := types.IntrinsicGas(callData, false, cfg.EvmGasRate)
	if err != nil {
		vk.Fatalf("catalogue: %v", err)
	}
	add("fv", txkit.Transfer(D, 0, B.Addr, txkit.LKC(100)))                                 // value exceeds the coin balance, gas affordable
	add("fk", txkit.TokenTransfer(D, 0, txkit.GenesisToken, C.Addr, big.NewInt(5)))         // value exceeds the token balance
	add("fr", txkit.Call(D, 0, revertAddr, txkit.LKC(1), nil))                              // reverting call (with value)
	add("fc", txkit.Create(D, 0, []byte{0x60, 0x00, 0x60, 0x00, 0xfd}, nil))                // constructor reverts
	add("fo", txkit.TransferWithGas(D, 0, storeAddr, big.NewInt(0), intr+100, callData))    // out of gas in the VM (SSTORE with 100 gas)
	add("dv", txkit.Transfer(D, 0, B.Addr, txkit.LKC(1)))                                   // affordable transfer of D, nonce 0
	add("d1", txkit.Transfer(D, 1, B.Addr, txkit.LKC(1)))                                   // affordable transfer of D, nonce 1 (valid right after a failed one)
	add("cureCoin", txkit.Transfer(B, 1, D.Addr, txkit.LKC(1000)))                          // D becomes rich: fv would succeed
	add("cureTok", txkit.TokenTransfer(C, 2, txkit.GenesisToken, D.Addr, big.NewInt(1000))) // D gets tokens: fk would succeed
	// self-check on the scratch chain: after the set-up block every failing letter, alone in a block, is a valid block
	// member with a FAILED receipt, and the control letter dv succeeds
	if _, err := c.Step(decodeAll(lookup(cat, failSetup[0]))); err != nil {
		vk.Fatalf("catalogue: set-up block of the failures search: %v", err)
	}
	for _, n := range append(append([]string{}, failLetters...), "dv") {
		b, _, err := c.MakeBlock(decodeAll(lookup(cat, []string{n})))
		if err != nil || !c.CheckBlock(b) {
			vk.Fatalf("catalogue: block [%s] is not a valid block (%v)", n, err)
		}
		pr := c.App().VerifProcessedResult(b.Hash())
		if !pr.Found || !pr.Ok || len(pr.Receipts) != 1 {
			vk.Fatalf("catalogue: block [%s] was not executed", n)
		}
		if failed := pr.Receipts[0].Status == types.ReceiptStatusFailed; failed != (n != "dv") {
			vk.Fatalf("catalogue: receipt of %s: failed=%v (vm error %q): the letter is not what the alphabet says", n, failed, pr.Receipts[0].VMErr)
		}
	}
	// self-check of the collisions the alphabet is built for
	k0, k1 := cat.get("s1").KIs[0], cat.get("s2").KIs[0]
	for _, n := range []string{"s1x", "s1m", "s1a"} {
		if len(cat.get(n).KIs) != 1 || cat.get(n).KIs[0] != k0 {
			vk.Fatalf("catalogue: %s does not carry the key image of s1", n)
		}
	}
	if kk := cat.get("kk").KIs; len(kk) != 2 || kk[0] != k0 || kk[1] != k0 {
		vk.Fatalf("catalogue: kk does not carry the key image of s1 twice")
	}
	if s := cat.get("s12").KIs; len(s) != 2 || s[0] != k0 || s[1] != k1 || k0 == k1 {
		vk.Fatalf("catalogue: s12 does not carry the key images of s1 and s2")
	}
	if k0 != o0.KeyImage {
		vk.Fatalf("catalogue: key image of the transaction differs from the wallet's")
	}
	return cat
}

// kindFamilies: per account-based transaction kind the letters signed for the sender's next nonce, next+1 and next+5
// (as of the state after the kinds set-up block). Order: transfer, creation, call, token, confidential with account
// input, contract upgrade, multi-signature account.
var kindFamilies = [][3]string{{"a0", "a1", "a5"}, {"c0", "c1", "c5"}, {"l0", "l1", "l5"}, {"k0", "k1", "k5"}, {"u0", "u1", "u5"}, {"g0", "g1", "g5"}, {"m1", "m2", "m6"}}

// failLetters: one letter per failure class of the state transition (see buildCatalogue); failSetup deploys what they
// need (callee contracts, signer table for the failing upgrade g0).
var failLetters = []string{"fv", "fk", "fr", "fc", "fo", "g0"}
var failSetup = [][]string{{"cC", "cR", "m0"}}

// kindsSetup is the block committed after the prelude in the kinds search: the contract the call letters call and
// the multi-signature transaction that installs the signer table the upgrade letters need.
var kindsSetup = [][]string{{"cC", "m0"}}

// ---------------------------------------------------------------------------------------------------
// reference model: what the committed chain has consumed

type model struct {
	spent map[lk.Key]bool
	nonce map[common.Address]uint64
	done  map[common.Hash]bool
}

func newModel() *model {
	return &model{spent: map[lk.Key]bool{}, nonce: map[common.Address]uint64{}, done: map[common.Hash]bool{}}
}

func (m *model) clone() *model {
	n := newModel()
	for k, v := range m.spent {
		n.spent[k] = v
	}
	for k, v := range m.nonce {
		n.nonce[k] = v
	}
	for k, v := range m.done {
		n.done[k] = v
	}
	return n
}

// classify simulates the list on a copy of the model and names the FIRST re-use in it ("" = every transaction
// consumes fresh inputs at the exact next nonce: the list is executable).
func (m *model) classify(list []*txInfo) string {
	s := m.clone()
	inBlock := map[common.Hash]bool{}
	inBlockKI := map[lk.Key]bool{}
	for i, t := range list {
		if t.HasAcc {
			want := s.nonce[t.Sender]
			switch {
			case t.Nonce < want && inBlock[t.Hash]:
				return "account-tx-replayed-in-block"
			case t.Nonce < want && s.done[t.Hash]:
				return "account-tx-replayed-in-later-block"
			case t.Nonce < want:
				return "nonce-already-used"
			case t.Nonce > want:
				for _, l := range list[i+1:] {
					if l.HasAcc && l.Sender == t.Sender && l.Nonce == want {
						return "nonce-reordered"
					}
				}
				return "nonce-gap"
			}
			s.nonce[t.Sender] = want + 1
		}
		seen := map[lk.Key]bool{}
		for _, k := range t.KIs {
			switch {
			case seen[k]:
				return "key-image-twice-in-tx"
			case inBlockKI[k]:
				return "key-image-twice-in-block"
			case s.spent[k]:
				return "key-image-of-earlier-block"
			}
			seen[k] = true
		}
		for _, k := range t.KIs {
			inBlockKI[k], s.spent[k] = true, true
		}
		inBlock[t.Hash], s.done[t.Hash] = true, true
	}
	return ""
}

// scanChain is the oracle on the committed history of one node: it rebuilds the model from the node's own block
// store and reports every violation of "spent at most once / executed once at the exact next nonce".
func scanChain(ch *minichain.Chain, cat *catalogue) (*model, []string) {
	m := newModel()
	var bad []string
	for h := uint64(1); h <= ch.Height(); h++ {
		b := ch.LoadBlock(h)
		if b == nil {
			vk.Fatalf("scan: block %d missing below the store height %d", h, ch.Height())
		}
		for _, tx := range b.Data.Txs {
			hash := tx.Hash()
			if m.done[hash] {
				bad = append(bad, fmt.Sprintf("transaction %s committed twice (second time in block %d)", cat.name(hash), h))
			}
			m.done[hash] = true
			if from, nonce, ok := accountInput(tx); ok {
				if want := m.nonce[from]; nonce != want {
					bad = append(bad, fmt.Sprintf("block %d executes %s with nonce %d, the sender's next nonce is %d", h, cat.name(hash), nonce, want))
				}
				m.nonce[from]++
			}
			for _, k := range keyImagesOf(tx) {
				if m.spent[k] {
					bad = append(bad, fmt.Sprintf("key image %x.. committed again by %s in block %d", k[:4], cat.name(hash), h))
				}
				m.spent[k] = true
			}
		}
	}
	return m, bad
}

// ---------------------------------------------------------------------------------------------------
// world: the node under test (with a mempool that sees submissions) and a cold validator

type world struct {
	cat       *catalogue
	c, r      *minichain.Chain
	restarted bool
	cleanup   func()
}

func newWorld(cat *catalogue, trie, withReplica bool) *world {
	c, err := minichain.New(chainOpts(trie))
	if err != nil {
		vk.Fatalf("world: %v", err)
	}
	w := &world{cat: cat, c: c}
	if withReplica {
		r, err := c.Replica()
		if err != nil {
			vk.Fatalf("world: replica: %v", err)
		}
		c.Attach(r)
		w.r = r
	}
	if _, err := c.Step(decodeAll(cat.prelude)); err != nil {
		vk.Fatalf("world: prelude block: %v", err)
	}
	return w
}

func (w *world) close() {
	w.c.Close()
	if w.cleanup != nil {
		w.cleanup()
	}
}

// template: a node that has committed the prelude on logging databases; boot() starts a NEW node on a private copy of
// its bytes (database copies + undo-log file), i.e. a node restarted at height 1 — much cheaper than genesis + block 1
// for engines that need thousands of fresh instances.
type template struct {
	cat *catalogue
	rec *kv.Recorder
	ref *minichain.Chain
	wal []byte
}

func newTemplate(cat *catalogue, trie bool) *template {
	rec := kv.NewRecorder()
	opts := chainOpts(trie)
	opts.NewDB = func(n string) dbm.DB { return rec.DB(n) }
	ref, err := minichain.New(opts)
	if err != nil {
		vk.Fatalf("template: %v", err)
	}
	if _, err := ref.Step(decodeAll(cat.prelude)); err != nil {
		vk.Fatalf("template: prelude block: %v", err)
	}
	return &template{cat: cat, rec: rec, ref: ref, wal: ref.WalBytes()}
}

func (t *template) close() { t.ref.Close() }

func (t *template) boot() *world {
	dir, err := minichain.NewWalDir("")
	if err != nil {
		vk.Fatalf("template: %v", err)
	}
	if err := minichain.PutWal(dir, t.wal); err != nil {
		vk.Fatalf("template: %v", err)
	}
	c, err := t.ref.RestartOnCopies(t.rec.Materialize(t.rec.Len()), dir)
	if err != nil {
		vk.Fatalf("template: boot: %v", err)
	}
	if c.Height() != 1 {
		vk.Fatalf("template: booted at height %d", c.Height())
	}
	return &world{cat: t.cat, c: c, cleanup: func() { os.RemoveAll(dir) }}
}

func (w *world) partSize() int { return w.c.Status().ConsensusParams.BlockGossip.BlockPartSizeBytes }
func (w *world) maxBytes() int { return w.c.Status().ConsensusParams.BlockSize.MaxBytes }

func catchErr(f func() error) (err error) {
	if p, v := vk.Catch(func() { err = f() }); p {
		return fmt.Errorf("panic: %v", v)
	}
	return err
}

// validatorVerdict gives a block to a validator the way consensus does (CheckBlock of the block decoded from the
// proposer's parts) and says whether the block was accepted and whether the validator's EXECUTION of the
// transaction list succeeded (independent of the header's result fields, which a proposer is free to choose).
func validatorVerdict(v *minichain.Chain, parts *types.PartSet, maxBytes int) (b *types.Block, vparts *types.PartSet, accepted, executed bool) {
	vparts, err := minichain.CopyParts(parts)
	if err != nil {
		vk.Fatalf("copy parts: %v", err)
	}
	b, err = minichain.BlockFromParts(vparts, maxBytes)
	if err != nil {
		vk.Fatalf("decode block: %v", err)
	}
	if p, pv := vk.Catch(func() { accepted = v.CheckBlock(b) }); p {
		vk.Fatalf("CheckBlock panicked: %v", pv)
	}
	pr := v.App().VerifProcessedResult(b.Hash())
	if !pr.Found {
		vk.Fatalf("CheckBlock refused the block before executing it (harness builds malformed blocks)")
	}
	return b, vparts, accepted, pr.Ok
}

// offerBlock plays a proposer that puts `list` into the next block, honest or not, against validator v:
//
//  1. the proposer's own path (CreateBlock + PreRunBlock); if it executes the list, v decides with CheckBlock;
//  2. if PreRunBlock refuses, a dishonest proposer sends the list anyway: v executes it in CheckBlock; should v's
//     execution succeed, the proposer copies v's result fields into the header (they are public functions of the
//     list) and sends that block.
//
// It returns the block v accepted (nil: refused everywhere), where the decision fell, and the parts last shown to v.
func offerBlock(p, v *minichain.Chain, txs types.Txs, fromPool bool) (b *types.Block, parts *types.PartSet, where string, offered *types.PartSet) {
	maxBytes := p.Status().ConsensusParams.BlockSize.MaxBytes
	partSize := p.Status().ConsensusParams.BlockGossip.BlockPartSizeBytes
	var pb *types.Block
	var pparts *types.PartSet
	var err error
	if fromPool {
		pb, pparts, err = p.MakeBlockFromMempool(0)
	} else {
		pb, pparts, err = p.MakeBlock(txs)
	}
	_ = pb
	if err == nil {
		vb, vparts, ok, _ := validatorVerdict(v, pparts, maxBytes)
		if !ok {
			return nil, nil, "validator-rejects", pparts
		}
		return vb, vparts, "accepted", pparts
	}
	if !errors.Is(err, minichain.ErrPreRun) {
		vk.Fatalf("MakeBlock: %v", err)
	}
	if fromPool {
		// an honest proposer whose own pool handed it an unexecutable list: the node panics, nothing is sent
		return nil, nil, "proposer-prerun-refuses-own-reap", nil
	}
	_, dparts, err := p.Propose(txs, false, 0, minichain.BlockOpts{SkipPreRun: true})
	if err != nil {
		vk.Fatalf("Propose(SkipPreRun): %v", err)
	}
	vb, vparts, ok, executed := validatorVerdict(v, dparts, maxBytes)
	if ok {
		return vb, vparts, "accepted-without-prerun", dparts
	}
	if !executed {
		return nil, nil, "rejected", dparts
	}
	// v executed the list although the proposer's PreRunBlock refused it: forge the header from v's result
	pr := v.App().VerifProcessedResult(vb.Hash())
	fb := minichain.CloneBlock(vb)
	fb.Header.StateHash, fb.Header.ReceiptHash, fb.Header.GasUsed = pr.Result.StateHash, pr.Result.ReceiptHash, pr.Result.GasUsed
	fparts := fb.MakePartSet(partSize)
	vb, vparts, ok, _ = validatorVerdict(v, fparts, maxBytes)
	if ok {
		return vb, vparts, "accepted-forged-header", fparts
	}
	return nil, nil, "rejected-after-forging", fparts
}

// commitEverywhere commits an accepted block on the validator and on the node under test (which runs its own
// CheckBlock, with its own mempool cache). Returns what each side did.
func (w *world) commitEverywhere(vb *types.Block, vparts *types.PartSet) (cCommitted, rCommitted bool) {
	if w.r != nil {
		if err := w.r.Commit(vb, vparts); err != nil {
			vk.Fatalf("validator accepted the block and cannot commit it: %v", err)
		}
		rCommitted = true
	}
	cparts, err := minichain.CopyParts(vparts)
	if err != nil {
		vk.Fatalf("copy parts: %v", err)
	}
	cb, err := minichain.BlockFromParts(cparts, w.maxBytes())
	if err != nil {
		vk.Fatalf("decode block: %v", err)
	}
	if err := w.c.Commit(cb, cparts); err != nil {
		if errors.Is(err, minichain.ErrCheckBlock) {
			return false, rCommitted
		}
		vk.Fatalf("commit on the node under test: %v", err)
	}
	return true, rCommitted
}

// poolView names the content of the node's mempool.
func (w *world) poolView() (good, utxo, future, cache []string, kimgs int) {
	v := mempl.VerifMinichainView(w.c.Mempool())
	for _, t := range v.Good {
		good = append(good, w.cat.name(t.Hash()))
	}
	for _, t := range v.Spec {
		good = append(good, "spec:"+w.cat.name(t.Hash()))
	}
	for _, t := range v.UTXO {
		utxo = append(utxo, w.cat.name(t.Hash()))
	}
	for _, l := range v.Future {
		for _, t := range l {
			future = append(future, w.cat.name(t.Hash()))
		}
	}
	sort.Strings(future)
	for _, h := range mempl.VerifMinichainCacheHashes(w.c.Mempool()) {
		checked := strings.HasSuffix(h, "+")
		n := w.cat.name(common.HexToHash(strings.TrimSuffix(h, "+")))
		if !checked {
			n += "(unchecked)"
		}
		cache = append(cache, n)
	}
	sort.Strings(cache)
	return good, utxo, future, cache, v.KeyImages
}

// reapProblems: what the pool would hand to the next proposer must not contain an input that the chain has
// consumed, nor the same key image twice.
func (w *world) reapProblems(m *model) (class string, what string) {
	reaped := w.c.Mempool().Reap(1 << 20)
	var list []*txInfo
	for _, tx := range reaped {
		ti := w.cat.byHash[tx.Hash()]
		if ti == nil {
			vk.Fatalf("pool holds a transaction the harness never submitted: %s", tx.Hash().Hex())
		}
		list = append(list, ti)
	}
	// the pool appends confidential spends after account transactions; order inside the reap is the block order
	if cl := m.classify(list); cl != "" {
		var names []string
		for _, t := range list {
			names = append(names, t.Name)
		}
		return cl, fmt.Sprintf("Reap() = %v", names)
	}
	return "", ""
}
