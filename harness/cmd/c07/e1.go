package main

// E1: explicit-state search over chain histories. A state is (committed blocks, restart flag, mempool content) of a
// real node (minichain) next to a cold validator replica; it is represented by the shortest op history reaching it
// and every successor is computed on a FRESH pair of nodes by replaying the history plus one op. All Chains of one
// process must be driven from one goroutine, so the frontier of every BFS level is expanded by isolated worker
// subprocesses (vk.RunIsolated); the parent merges their results in a fixed order.

import (
	"encoding/json"
	"fmt"
	"io/ioutil"
	"os"
	"path/filepath"
	"sort"
	"strings"
	"time"

	"verif/vk"

	"github.com/lianxiangcloud/linkchain/types"
)

type opKind int

const (
	opAdd     opKind = iota // submit one transaction to the node's mempool
	opMine                  // the node proposes a block from its mempool (Reap)
	opRestart               // clean restart of the node
	opBlock                 // another proposer (honest or not) offers a block with an explicit transaction list
)

type e1op struct {
	kind opKind
	txs  []string
}

func (o e1op) String() string {
	switch o.kind {
	case opAdd:
		return "AddTx(" + o.txs[0] + ")"
	case opMine:
		return "BlockFromMempool"
	case opRestart:
		return "Restart"
	}
	return "Block[" + strings.Join(o.txs, ",") + "]"
}

type e1cfg struct {
	name    string
	trie    bool
	pool    []string // transactions of the alphabet
	maxList int      // longest explicit block (all ordered lists with repetition up to this length)
	depth   int
	// kinds search: blocks committed after the prelude before every history, and an explicit list of offered blocks
	// instead of all lists over the pool
	setup  [][]string
	blocks [][]string
	// pending search: the state key also tells whether a block was committed after the last pool admission (so that a
	// commit that does not touch the pool — even an empty one, which would otherwise merge — is expanded), and empty
	// blocks do not count for the height
	sinceAdd bool
}

// pendingCfg: the mempool's memory of PENDING spends (key-image cache, nonce reservations in the check state) is reset by
// every CommitBlock and rebuilt by the post-commit recheck; it must survive commits that do not touch the pool. Letters:
// AddTx of two conflicting spends (s1, s1x), a two-input spend overlapping them (s12), two transfers with the same nonce
// (a0, a0x) and the next one (a1); commits that leave the pool alone: the EMPTY block, a block with an unrelated account
// transaction only (cureCoin: B -> D), a block with an unrelated confidential spend only (s2); BlockFromMempool; Restart.
func pendingCfg(name string, trie bool, depth int) e1cfg {
	return e1cfg{name: name, trie: trie, depth: depth, sinceAdd: true, pool: []string{"s1", "s1x", "s12", "a0", "a0x", "a1"},
		blocks: [][]string{{}, {"cureCoin"}, {"s2"}}}
}

// kindsCfg: for every account-based transaction kind k (families x0 = exact next nonce, x1 = next+1, x5 = next+5) the
// blocks [x0] [x1] [x5] [x0,x0] (replay in the block) [x1,x0] (reordered) [x0,x5] (gap after a good one) [x0,x1] (good);
// replay in a later block and cross-kind re-use of a nonce come from depth >= 2 ([x0] then [x0] / [y0]). The pool
// (AddTx letters) holds x0 and x5 of every kind.
func kindsCfg(name string, trie bool, depth int) e1cfg {
	c := e1cfg{name: name, trie: trie, depth: depth, setup: kindsSetup}
	for _, f := range kindFamilies {
		c.pool = append(c.pool, f[0], f[2])
		c.blocks = append(c.blocks, []string{f[0]}, []string{f[1]}, []string{f[2]}, []string{f[0], f[0]}, []string{f[1], f[0]}, []string{f[0], f[2]}, []string{f[0], f[1]})
	}
	return c
}

func e1configs(quick bool) []e1cfg {
	small := []string{"s1", "s1x", "kk", "a0", "a1"}
	medium := []string{"s1", "s1x", "kk", "s2", "s12", "a0", "a1", "u0"}
	if quick {
		return []e1cfg{
			{name: "flat", trie: false, pool: append(append([]string{}, medium...), "s1a", "s1m"), maxList: 2, depth: 2}, // every confidential spend kind: ring 1, MLSAG, to account, two inputs, duplicate input
			{name: "flat/deep", trie: false, pool: small, maxList: 2, depth: 3},
			kindsCfg("flat/kinds", false, 2),
			failCfg("flat/failing", false, 3),
			// nonces live in the account state, whose two storage modes are different code: both per-kind searches also in trie mode
			kindsCfg("trie/kinds", true, 2),
			failCfg("trie/failing", true, 2),
			pendingCfg("flat/pending", false, 3), // AddTx(x); commit that leaves the pool alone; AddTx(conflicting y)
		}
	}
	return []e1cfg{
		{name: "flat/wide", trie: false, pool: []string{"s1", "s1x", "s1m", "s1a", "kk", "s2", "s12", "a0", "a1", "a2", "a0x", "u0", "u1", "c0", "k0", "m0"}, maxList: 2, depth: 2},
		{name: "flat/triples", trie: false, pool: []string{"s1", "s1x", "kk", "s2", "a0", "a1"}, maxList: 3, depth: 2},
		{name: "flat/deep", trie: false, pool: medium, maxList: 2, depth: 4},
		{name: "flat/deeper", trie: false, pool: small, maxList: 2, depth: 9},
		{name: "trie/deep", trie: true, pool: medium, maxList: 2, depth: 3},
		{name: "trie/deeper", trie: true, pool: small, maxList: 2, depth: 4},
		kindsCfg("flat/kinds", false, 3),
		kindsCfg("trie/kinds", true, 2),
		failCfg("flat/failing", false, 4),
		failCfg("trie/failing", true, 3),
		pendingCfg("flat/pending", false, 6),
		pendingCfg("trie/pending", true, 4),
	}
}

// shadows: how many merged histories per level are expanded only to test the adequacy of the state key.
func (c *e1cfg) shadows() int {
	if len(c.pool) > 8 {
		return 6
	}
	return 12
}

func (c *e1cfg) ops() []e1op {
	var out []e1op
	for _, t := range c.pool {
		out = append(out, e1op{opAdd, []string{t}})
	}
	out = append(out, e1op{kind: opMine}, e1op{kind: opRestart})
	if c.blocks != nil {
		for _, b := range c.blocks {
			out = append(out, e1op{opBlock, b})
		}
		return out
	}
	lists := [][]string{{}}
	for l := 1; l <= c.maxList; l++ {
		var next [][]string
		for _, p := range lists {
			for _, t := range c.pool {
				next = append(next, append(append([]string{}, p...), t))
			}
		}
		for _, x := range next {
			out = append(out, e1op{opBlock, x})
		}
		lists = next
	}
	return out
}

// failCfg: transactions whose execution FAILS consume their nonce too. For every failing letter f: [f], [f,f] (replay in the
// block), [f,d1] (the sender's next nonce right after the failure: must be fine); the cures [cureCoin], [cureTok]; the
// controls [dv] (D's affordable nonce-0 transfer: a re-use after any failing letter of D) and [d1]; AddTx(f), BlockFromMempool,
// Restart. Depth 3 holds [f];[cure];[f] and [f];Restart;[f].
func failCfg(name string, trie bool, depth int) e1cfg {
	c := e1cfg{name: name, trie: trie, depth: depth, setup: failSetup, pool: append([]string{}, failLetters...)}
	for _, f := range failLetters {
		c.blocks = append(c.blocks, []string{f}, []string{f, f})
		if f != "g0" {
			c.blocks = append(c.blocks, []string{f, "d1"})
		}
	}
	c.blocks = append(c.blocks, []string{"cureCoin"}, []string{"cureTok"}, []string{"dv"}, []string{"d1"})
	return c
}

// result of executing one history
type e1out struct {
	Key      string      `json:"key"`  // canonical state ("" = terminal)
	Viol     [][2]string `json:"viol"` // (key, what)
	Last     string      `json:"last"` // what the last op did
	Class    string      `json:"class"`
	Rejected bool        `json:"rejected"`  // last op offered a re-use and it was refused
	ValidRej bool        `json:"valid_rej"` // last op offered an executable block and it was refused (harness sanity)
	Failed   int         `json:"failed"`    // last op committed a block with this many failed receipts
}

func lookup(cat *catalogue, names []string) []*txInfo {
	out := make([]*txInfo, 0, len(names))
	for _, n := range names {
		out = append(out, cat.get(n))
	}
	return out
}

// execHistory executes hist; a violation found on a node that was restarted is attributed to the restart only if the
// same history WITHOUT its restarts does not show it (same root cause = same key).
func execHistory(cat *catalogue, cfg *e1cfg, ops []e1op, hist []int) e1out {
	out, restarted := execHistory1(cat, cfg, ops, hist)
	if len(out.Viol) == 0 || !restarted {
		return out
	}
	var plain []int
	for _, o := range hist {
		if ops[o].kind != opRestart {
			plain = append(plain, o)
		}
	}
	ref, _ := execHistory1(cat, cfg, ops, plain)
	has := map[string]bool{}
	for _, v := range ref.Viol {
		has[v[0]] = true
	}
	for i, v := range out.Viol {
		if !has[v[0]] {
			out.Viol[i][0] = v[0] + ":only-after-restart"
		}
	}
	return out
}

// execHistory1 builds a fresh world, replays hist and evaluates the oracle after the last op.
func execHistory1(cat *catalogue, cfg *e1cfg, ops []e1op, hist []int) (out e1out, restarted bool) {
	w := newWorld(cat, cfg.trie, true)
	defer func() { restarted = w.restarted; w.close() }()
	for _, blk := range cfg.setup {
		if _, err := w.c.Step(decodeAll(lookup(cat, blk))); err != nil {
			vk.Fatalf("e1 %s: set-up block %v: %v", cfg.name, blk, err)
		}
	}
	viol := func(key, what string) { out.Viol = append(out.Viol, [2]string{key, what}) }
	commitSinceAdd := false // a block was committed after the last pool admission
	for i, oi := range hist {
		op := ops[oi]
		last := i == len(hist)-1
		var before *model
		if last {
			before, _ = scanChain(w.c, cat)
		}
		switch op.kind {
		case opAdd:
			ti := cat.get(op.txs[0])
			err := catchErr(func() error { return w.c.Mempool().AddTx("", ti.decode()) })
			if err == nil {
				commitSinceAdd = false
			}
			if last {
				if err != nil {
					out.Last = "refused: " + err.Error()
				} else {
					out.Last = "pooled"
				}
				out.Class = before.classify([]*txInfo{ti})
				out.Rejected = out.Class != "" && err != nil
			}
		case opRestart:
			c2, err := w.c.Restart()
			if err != nil {
				vk.Fatalf("clean restart failed after %v: %v", hist[:i+1], err)
			}
			w.c, w.r = c2, c2.Attached()
			w.restarted = true
			commitSinceAdd = false // the pool is empty again
			if last {
				out.Last = "restarted"
			}
		case opMine, opBlock:
			var list []*txInfo
			fromPool := op.kind == opMine
			if fromPool {
				for _, tx := range w.c.Mempool().Reap(1 << 20) {
					list = append(list, cat.byHash[tx.Hash()])
				}
				if len(list) == 0 {
					if last {
						return e1out{}, w.restarted // nothing to propose: disabled
					}
					continue
				}
			} else {
				list = lookup(cat, op.txs)
			}
			vb, vparts, where, offered := offerBlock(w.c, w.r, decodeAll(list), fromPool)
			committed := false
			if vb == nil && offered != nil && last {
				// the cold validator refused; the node under test is a validator too, with a mempool cache that may know
				// the transactions (its CheckBlock skips the stateless checks for cached ones)
				_, _, ok, executed := validatorVerdict(w.c, offered, w.maxBytes())
				if ok || executed {
					viol("node-with-warm-mempool-cache-executes-block-the-cold-validator-refuses:"+orUnclassified(before.classify(list)),
						fmt.Sprintf("%s: refused by the cold validator (%s), executed by the node that has seen the transactions", op, where))
				}
			}
			if vb != nil {
				cOK, _ := w.commitEverywhere(vb, vparts)
				committed = true
				commitSinceAdd = true
				if last && cOK {
					for _, rc := range w.c.Receipts(w.c.Height()) {
						if rc.Status == types.ReceiptStatusFailed {
							out.Failed++
						}
					}
				}
				if !cOK {
					where += "+node-under-test-refuses"
				}
			}
			if last {
				out.Last = where
				out.Class = before.classify(list)
				out.Rejected = out.Class != "" && !committed
				out.ValidRej = out.Class == "" && !committed
				if fromPool && !committed {
					cl := out.Class
					if cl == "" {
						cl = "unclassified"
					}
					viol("mempool-hands-proposer-unexecutable-block:"+orUnclassified(cl), fmt.Sprintf("the node's own Reap() %v cannot be executed (%s)", names(list), where))
				}
			}
			if vb != nil && w.r.Height() != w.c.Height() {
				// the two nodes disagree about a block: nothing sensible can follow
				if last {
					_, bad := scanChain(w.r, cat)
					for _, b := range bad {
						viol("committed-reuse:"+orUnclassified(out.Class), "validator: "+b)
					}
					return out, w.restarted
				}
				vk.Fatalf("nodes diverged inside a history prefix %v", hist[:i+1])
			}
		}
	}
	// oracle on the committed history of both nodes
	last := e1op{kind: opRestart}
	if len(hist) > 0 {
		last = ops[hist[len(hist)-1]]
	}
	m, bad := scanChain(w.c, cat)
	_, badR := scanChain(w.r, cat)
	for _, b := range append(bad, badR...) {
		viol("committed-reuse:"+orUnclassified(out.Class), fmt.Sprintf("%s: %s", last, b))
	}
	if len(out.Viol) > 0 {
		return out, w.restarted
	}
	if cl, what := w.reapProblems(m); cl != "" {
		viol("mempool-offers-consumed-input:"+orUnclassified(cl), fmt.Sprintf("after %s: %s", last, what))
		return out, w.restarted
	}
	// canonical state
	var committed []string
	height := w.c.Height()
	for h := uint64(2); h <= w.c.Height(); h++ {
		txs := w.c.LoadBlock(h).Data.Txs
		if len(txs) == 0 && cfg.sinceAdd {
			height-- // empty blocks change nothing but the height: without this every one of them would be a new state
		}
		for _, tx := range txs {
			committed = append(committed, cat.name(tx.Hash()))
		}
	}
	sort.Strings(committed)
	good, utxo, future, cache, kimgs := w.poolView()
	out.Key = fmt.Sprintf("h%d|%s|r%v|g%s|u%s|f%s|c%s|k%d", height, strings.Join(committed, ","), w.restarted,
		strings.Join(good, ","), strings.Join(utxo, ","), strings.Join(future, ","), strings.Join(cache, ","), kimgs)
	if cfg.sinceAdd && commitSinceAdd && len(good)+len(utxo)+len(future) > 0 {
		out.Key += "|commit-after-last-admission"
	}
	return out, w.restarted
}

// orUnclassified maps the re-use class of the offending op to the root-cause class used in violation keys: the three
// key-image classes are guarded by three different mechanisms (in-transaction check, per-block map, persistent set);
// on the account side there are two: a nonce below the sender's next one (replay in the same or a later block, a
// conflicting twin) and a nonce above it (gap, reordering).
func orUnclassified(s string) string {
	switch s {
	case "":
		return "unclassified"
	case "account-tx-replayed-in-block", "account-tx-replayed-in-later-block", "nonce-already-used":
		return "nonce-below-next"
	case "nonce-gap", "nonce-reordered":
		return "nonce-above-next"
	}
	return s
}

func names(l []*txInfo) []string {
	var out []string
	for _, t := range l {
		out = append(out, t.Name)
	}
	return out
}

// ---- worker side --------------------------------------------------------------------------------------

type e1frontier struct {
	Cfg   int     `json:"cfg"`
	Chunk int     `json:"chunk"` // ops per case
	Nodes [][]int `json:"nodes"`
}

type e1succ struct {
	Op  int   `json:"op"`
	Out e1out `json:"out"`
}

func e1Worker(quick bool, frontierPath string) {
	data, err := ioutil.ReadFile(frontierPath)
	if err != nil {
		vk.Fatalf("e1 worker: %v", err)
	}
	var fr e1frontier
	if err := json.Unmarshal(data, &fr); err != nil {
		vk.Fatalf("e1 worker: %v", err)
	}
	cfg := e1configs(quick)[fr.Cfg]
	ops := cfg.ops()
	chunks := (len(ops) + fr.Chunk - 1) / fr.Chunk
	var cat *catalogue
	vk.WorkerLoop(len(fr.Nodes)*chunks, func(i int) interface{} {
		if cat == nil {
			cat = buildCatalogue()
		}
		node, ch := fr.Nodes[i/chunks], i%chunks
		var res []e1succ
		for op := ch * fr.Chunk; op < (ch+1)*fr.Chunk && op < len(ops); op++ {
			h := append(append(make([]int, 0, len(node)+1), node...), op)
			res = append(res, e1succ{op, execHistory(cat, &cfg, ops, h)})
		}
		return res
	})
}

// ---- parent side --------------------------------------------------------------------------------------

type e1stats struct {
	states, transitions      int
	rejectedReuse, validRej  int
	byClass                  map[string]int
	lastKinds                map[string]int
	perSearch                []interface{}
	validRejSample           string
	acceptedBlocks, poolAdds int
	violations               int
	mergeChecks              int
}

func runE1(r *vk.Run, scratch string, budget time.Duration) *e1stats {
	st := &e1stats{byClass: map[string]int{}, lastKinds: map[string]int{}}
	deadline := time.Now().Add(budget)
	cfgs := e1configs(r.Quick())
	for ci := range cfgs {
		cfg := &cfgs[ci]
		ops := cfg.ops()
		opNames := func(h []int) []string {
			out := make([]string, len(h))
			for i, o := range h {
				out[i] = ops[o].String()
			}
			return out
		}
		seen := map[string][]int{}
		// the root is executed here in the parent? No: the parent never drives a chain. Level 0 is a frontier with
		// the empty history; its own key is not needed (no op leads back to it except through a merge, which is
		// harmless: the successors of the root are all explored).
		frontier := [][]int{{}}
		states, trans := 1, 0
		perDepth := []int{1}
		depthDone := 0
		capped := false
		// state-key adequacy self-test: some histories that MERGED into a state found at the same level are expanded
		// next to the state's representative ("shadows"); both must have the same successor for every op.
		type shadow struct {
			rep  int // index of the representative in the frontier
			hist []int
		}
		var shadows []shadow
		mergeChecks := 0
		failedCommits := 0 // blocks committed by the last op that carry a failed receipt
		closed := false
		for depth := 1; depth <= cfg.depth; depth++ {
			if len(frontier) == 0 {
				closed = true // no new state at the previous level: the reachable state space of this alphabet is exhausted
				break
			}
			if r.Expired() || time.Now().After(deadline) {
				capped = true
				break
			}
			chunk := 12
			chunks := (len(ops) + chunk - 1) / chunk
			nodes := append([][]int{}, frontier...)
			for _, sh := range shadows {
				nodes = append(nodes, sh.hist)
			}
			fr := e1frontier{Cfg: ci, Chunk: chunk, Nodes: nodes}
			path := filepath.Join(scratch, fmt.Sprintf("e1-%d-%d.json", ci, depth))
			data, _ := json.Marshal(fr)
			if err := ioutil.WriteFile(path, data, 0600); err != nil {
				vk.Fatalf("e1: %v", err)
			}
			n := len(nodes) * chunks
			results := make([][]e1succ, n)
			got := make([]bool, n)
			done := r.RunIsolated(n, vk.IsoOpts{CaseTimeout: 5 * time.Minute, Workers: workers(), ExtraArgs: []string{"--part", "e1", "--c07-frontier", path}},
				func(i int, raw json.RawMessage, fatal string) {
					if fatal != "" {
						vk.Fatalf("e1 %s: worker died in case %d (node %v): %s", cfg.name, i, opNames(nodes[i/chunks]), fatal)
					}
					if err := json.Unmarshal(raw, &results[i]); err != nil {
						vk.Fatalf("e1: result of case %d: %v", i, err)
					}
					got[i] = true
				})
			os.Remove(path)
			if done < n {
				capped = true
			}
			// shadows first: compare with their representative, op by op
			if !capped {
				succOf := func(node int) map[int]e1out {
					m := map[int]e1out{}
					for ch := 0; ch < chunks; ch++ {
						for _, sc := range results[node*chunks+ch] {
							m[sc.Op] = sc.Out
						}
					}
					return m
				}
				for j, sh := range shadows {
					a, b := succOf(sh.rep), succOf(len(frontier)+j)
					for op := range ops {
						ka, kb := a[op].Key, b[op].Key
						va, vb := fmt.Sprint(a[op].Viol), fmt.Sprint(b[op].Viol)
						if ka != kb || (len(a[op].Viol) == 0) != (len(b[op].Viol) == 0) {
							msg := fmt.Sprintf("e1 %s: state key too coarse: %v and %v share a key but diverge on %s: %q %s vs %q %s", cfg.name,
								opNames(frontier[sh.rep]), opNames(sh.hist), ops[op], ka, va, kb, vb)
							if st.violations > 0 {
								r.Note("%s", msg) // on a tree that already violates the property the abstraction need not hold
								break
							}
							vk.Fatalf("%s", msg)
						}
					}
					mergeChecks++
				}
			}
			var next [][]int
			nextIndex := map[string]int{}
			var nextShadows []shadow
			merges := 0
			for i := 0; i < len(frontier)*chunks; i++ {
				if !got[i] {
					continue
				}
				node := frontier[i/chunks]
				for _, sc := range results[i] {
					h := append(append(make([]int, 0, len(node)+1), node...), sc.Op)
					trans++
					st.lastKinds[fmt.Sprintf("%s: %s", kindName(ops[sc.Op].kind), sc.Out.Last)]++
					if sc.Out.Rejected {
						st.rejectedReuse++
						st.byClass[sc.Out.Class]++
					}
					if sc.Out.ValidRej {
						st.validRej++
						if st.validRejSample == "" {
							st.validRejSample = fmt.Sprintf("%s: %v -> %s", cfg.name, opNames(h), sc.Out.Last)
						}
					}
					if strings.HasPrefix(sc.Out.Last, "accepted") {
						st.acceptedBlocks++
					}
					if sc.Out.Last == "pooled" {
						st.poolAdds++
					}
					if sc.Out.Failed > 0 {
						failedCommits++
					}
					for _, v := range sc.Out.Viol {
						st.violations++
						r.Violation(v[0], v[1], map[string]interface{}{"engine": "E1", "search": cfg.name, "ops": opNames(h), "op_ids": h})
					}
					if len(sc.Out.Viol) > 0 || sc.Out.Key == "" {
						continue
					}
					if _, ok := seen[sc.Out.Key]; ok {
						// a merge; if the state was found at this very level by a different route, keep some as shadows
						if idx, ok := nextIndex[sc.Out.Key]; ok && depth < cfg.depth {
							merges++
							if merges%5 == 0 && len(nextShadows) < cfg.shadows() {
								nextShadows = append(nextShadows, shadow{idx, h})
							}
						}
						continue
					}
					seen[sc.Out.Key] = h
					states++
					nextIndex[sc.Out.Key] = len(next)
					next = append(next, h)
					if states%37 == 1 {
						r.Sample(map[string]interface{}{"engine": "E1", "search": cfg.name, "ops": opNames(h), "state": sc.Out.Key})
					}
				}
			}
			perDepth = append(perDepth, len(next))
			frontier, shadows = next, nextShadows
			if capped {
				break
			}
			depthDone = depth
		}
		if !capped && len(frontier) == 0 {
			closed = true
		}
		if capped {
			r.Capped(fmt.Sprintf("E1 %s: deadline at depth %d (depth %d fully covered)", cfg.name, depthDone+1, depthDone))
		}
		st.states += states
		st.transitions += trans
		st.mergeChecks += mergeChecks
		st.perSearch = append(st.perSearch, map[string]interface{}{"search": cfg.name, "alphabet": len(ops), "depth_completed": depthDone, "depth_bound": cfg.depth,
			"states": states, "transitions": trans, "new_states_per_depth": perDepth, "state_space_closed": closed, "state_key_adequacy_checks": mergeChecks,
			"blocks_committed_with_failed_receipts": failedCommits})
		if cfg.setup != nil && strings.Contains(cfg.name, "failing") && failedCommits == 0 && st.violations == 0 && !capped {
			vk.Fatalf("e1 %s: no committed block carries a failed receipt: the failing letters do not fail", cfg.name)
		}
		fmt.Printf("E1 %-12s alphabet=%d depth=%d states=%d transitions=%d per-depth=%v closed=%v key-checks=%d\n", cfg.name, len(ops), depthDone, states, trans, perDepth, closed, mergeChecks)
	}
	return st
}

func kindName(k opKind) string {
	return [...]string{"AddTx", "BlockFromMempool", "Restart", "Block"}[k]
}
