package main

// E3: crash-state enumeration of one commit. A short history runs on logging databases (kv.Recorder); for EVERY
// prefix of the write log of the last commit (and both observed contents of the flat-state undo-log file at that
// cut) the node is restarted on the surviving bytes (minichain.RestartOnCopies = node.NewNode's recipe) and, if the
// restarted node serves the block (block-store height >= its height), every input the block consumed is offered
// again: through the mempool and in a block. It must be refused at one of the two; if it is accepted the block is
// committed and the chain scan shows the double spend.

import (
	"bytes"
	"encoding/json"
	"fmt"
	"os"
	"strings"
	"sync"
	"time"

	"verif/kv"
	"verif/minichain"
	"verif/vk"

	dbm "github.com/lianxiangcloud/linkchain/libs/db"
	"github.com/lianxiangcloud/linkchain/types"
)

type e3case struct {
	Name   string
	Trie   bool
	Blocks [][]string // blocks after the prelude; the LAST one is the commit that crashes
	Probes []string   // transactions offered again after the restart (each re-uses an input of a committed block)
}

func e3cases(quick bool) []e3case {
	var out []e3case
	for _, trie := range []bool{false, true} {
		m := "flat"
		if trie {
			m = "trie"
		}
		out = append(out, e3case{m + "/[a0,s1]", trie, [][]string{{"a0", "s1"}}, []string{"s1x", "s1", "a0", "a0x", "kk"}})
		if !quick {
			out = append(out,
				e3case{m + "/[s1]", trie, [][]string{{"s1"}}, []string{"s1x", "s1m", "s1a", "s1", "s12"}},
				e3case{m + "/[s12,u0]", trie, [][]string{{"u0", "s12"}}, []string{"s1", "s2", "s12", "u0", "a0"}},
				e3case{m + "/[s1];[a0,s2]", trie, [][]string{{"s1"}, {"a0", "s2"}}, []string{"s1x", "s2", "s12", "a0", "a0x"}},
			)
		}
	}
	return out
}

// snapDB forwards to a logging database and records the content of the undo-log file around every write unit.
type snapDB struct {
	*kv.LogDB
	s *walSnaps
}

type walSnaps struct {
	mu     sync.Mutex
	rec    *kv.Recorder
	path   string
	before map[int][]byte // file content just before unit i was written
	after  map[int][]byte // ... just after
}

func (s *walSnaps) read() []byte {
	bz, err := os.ReadFile(s.path)
	if err != nil {
		return nil
	}
	return bz
}

// around serialises the write units (they are atomic anyway) so that the unit index is known.
func (s *walSnaps) around(f func()) {
	s.mu.Lock()
	defer s.mu.Unlock()
	i := s.rec.Len()
	pre := s.read()
	f()
	if s.rec.Len() == i {
		return // empty batch: not a write
	}
	if s.rec.Len() != i+1 {
		vk.Fatalf("e3: a write produced %d units", s.rec.Len()-i)
	}
	s.before[i], s.after[i] = pre, s.read()
}

func (d *snapDB) Set(k, v []byte)       { d.s.around(func() { d.LogDB.Set(k, v) }) }
func (d *snapDB) SetSync(k, v []byte)   { d.s.around(func() { d.LogDB.SetSync(k, v) }) }
func (d *snapDB) Put(k, v []byte) error { d.s.around(func() { d.LogDB.Put(k, v) }); return nil }
func (d *snapDB) Delete(k []byte)       { d.s.around(func() { d.LogDB.Delete(k) }) }
func (d *snapDB) DeleteSync(k []byte)   { d.s.around(func() { d.LogDB.DeleteSync(k) }) }
func (d *snapDB) Del(k []byte) error    { d.s.around(func() { d.LogDB.Del(k) }); return nil }

type snapBatch struct {
	dbm.Batch
	s *walSnaps
}

func (d *snapDB) NewBatch() dbm.Batch { return &snapBatch{d.LogDB.NewBatch(), d.s} }
func (b *snapBatch) Write()           { b.s.around(b.Batch.Write) }
func (b *snapBatch) WriteSync()       { b.s.around(b.Batch.WriteSync) }
func (b *snapBatch) Commit() error    { b.s.around(func() { b.Batch.Commit() }); return nil }

type e3probe struct {
	Cut     int    `json:"cut"`
	Wal     string `json:"wal"`
	Window  string `json:"window"` // which markers of the commit are inside the prefix
	Height  uint64 `json:"height"`
	Boot    string `json:"boot"` // "" = restarted
	Rebuilt bool   `json:"rebuilt"`
	Probe   string `json:"probe"`
	Class   string `json:"class"`
	Pool    string `json:"pool"`    // what AddTx said
	Block   string `json:"block"`   // where the block decision fell
	Bad     string `json:"bad"`     // non-empty: the re-use was committed (chain scan)
	SeqLag  int64  `json:"seq_lag"` // observation only (crash consistency of the output index is C13's subject): outputs of the served chain missing from the node's global output index
}

type e3result struct {
	Case     string    `json:"case"`
	Units    []string  `json:"units"` // the write units of the crashing commit
	Cuts     int       `json:"cuts"`
	Restarts int       `json:"restarts"`
	Probes   []e3probe `json:"probes"`
}

func describeUnit(u kv.Unit) string {
	k := ""
	if len(u.Ops) > 0 {
		k = printable(u.Ops[0].Key)
	}
	kind := "set"
	if len(u.Ops) > 1 {
		kind = fmt.Sprintf("batch(%d)", len(u.Ops))
	}
	return fmt.Sprintf("%s %s %s", u.DB, kind, k)
}

func printable(b []byte) string {
	for _, c := range b {
		if c < 0x20 || c > 0x7e {
			if len(b) > 6 {
				b = b[:6]
			}
			return fmt.Sprintf("0x%x..", b)
		}
	}
	if len(b) > 24 {
		b = b[:24]
	}
	return string(b)
}

func runE3Case(cat *catalogue, cs e3case) e3result {
	res := e3result{Case: cs.Name}
	rec := kv.NewRecorder()
	walDir, err := minichain.NewWalDir("")
	if err != nil {
		vk.Fatalf("e3: %v", err)
	}
	defer os.RemoveAll(walDir)
	snaps := &walSnaps{rec: rec, path: walDir + "/" + minichain.WalFileName, before: map[int][]byte{}, after: map[int][]byte{}}
	opts := chainOpts(cs.Trie)
	opts.WalDir = walDir
	opts.NewDB = func(n string) dbm.DB { return &snapDB{rec.DB(n), snaps} }
	ref, err := minichain.New(opts)
	if err != nil {
		vk.Fatalf("e3: %v", err)
	}
	defer ref.Close()
	if _, err := ref.Step(decodeAll(cat.prelude)); err != nil {
		vk.Fatalf("e3: prelude: %v", err)
	}
	n0 := 0
	for i, blk := range cs.Blocks {
		if i == len(cs.Blocks)-1 {
			n0 = rec.Len()
			rec.SetTag("crashing commit")
		}
		if _, err := ref.Step(decodeAll(lookup(cat, blk))); err != nil {
			vk.Fatalf("e3 %s: block %v: %v", cs.Name, blk, err)
		}
	}
	n1 := rec.Len()
	hCrash := ref.Height()
	// markers of the crashing commit
	lastTxs := lookup(cat, cs.Blocks[len(cs.Blocks)-1])
	descIdx, kiIdx, lastUtxoIdx := -1, -1, -1
	for i := n0; i < n1; i++ {
		u := rec.Log[i]
		res.Units = append(res.Units, describeUnit(u))
		for _, op := range u.Ops {
			if u.DB == "blockstore" && string(op.Key) == "blockStore" {
				descIdx = i
			}
			if u.DB == "utxo" {
				lastUtxoIdx = i
				for _, t := range lastTxs {
					for _, k := range t.KIs {
						if bytes.Equal(op.Key, k[:]) && kiIdx < 0 {
							kiIdx = i
						}
					}
				}
			}
		}
	}
	if descIdx < 0 {
		vk.Fatalf("e3: the commit wrote no block-store height descriptor")
	}
	window := func(cut int) string {
		switch {
		case cut <= descIdx:
			return "before-blockstore-height"
		case kiIdx >= 0 && cut <= kiIdx:
			return "crash-between-SaveBlock-and-SaveUtxo"
		case cut <= lastUtxoIdx:
			return "crash-inside-SaveUtxo-after-key-images"
		case cut < n1:
			return "crash-after-SaveUtxo-before-consensus-status"
		}
		return "clean-shutdown-after-commit"
	}
	for cut := n0; cut <= n1; cut++ {
		res.Cuts++
		// contents of the undo log while exactly `cut` units are on disk: right after unit cut-1, right before unit cut
		var wals [][]byte
		var walNames []string
		addWal := func(name string, bz []byte, ok bool) {
			if !ok {
				return
			}
			for _, w := range wals {
				if bytes.Equal(w, bz) {
					return
				}
			}
			wals, walNames = append(wals, bz), append(walNames, name)
		}
		a, okA := snaps.after[cut-1]
		addWal("after-previous-unit", a, okA)
		if cut < n1 {
			b, okB := snaps.before[cut]
			addWal("before-next-unit", b, okB)
		} else {
			addWal("final", ref.WalBytes(), true)
		}
		for wi, wal := range wals {
			for _, probe := range cs.Probes {
				p := e3probe{Cut: cut - n0, Wal: walNames[wi], Window: window(cut), Probe: probe}
				dir, err := minichain.NewWalDir("")
				if err != nil {
					vk.Fatalf("e3: %v", err)
				}
				if err := minichain.PutWal(dir, wal); err != nil {
					vk.Fatalf("e3: %v", err)
				}
				rc, err := ref.RestartOnCopies(rec.Materialize(cut), dir)
				res.Restarts++
				if err != nil {
					p.Boot = err.Error()
					res.Probes = append(res.Probes, p)
					os.RemoveAll(dir)
					break // the node does not start on this crash state (crash consistency in general: C13); same for every probe
				}
				p.Height, p.Rebuilt = rc.Height(), rc.RebuiltStatus
				if p.Height == hCrash {
					p.SeqLag = ref.MaxUtxoOutputSeq() - rc.MaxUtxoOutputSeq()
				}
				e3offer(cat, rc, probe, &p)
				res.Probes = append(res.Probes, p)
				rc.Close()
				os.RemoveAll(dir)
				if p.Height < hCrash && len(cs.Blocks) == 1 {
					break // the block is not part of this node's chain: nothing was consumed, one probe is enough
				}
			}
		}
	}
	return res
}

// e3offer offers one transaction to the restarted node: first to its mempool, then in a block (to the node itself as
// validator: there is no second node in a crash state). An accepted block is committed and the chain is scanned.
func e3offer(cat *catalogue, rc *minichain.Chain, probe string, p *e3probe) {
	ti := cat.get(probe)
	m, bad := scanChain(rc, cat)
	if len(bad) > 0 {
		vk.Fatalf("e3: chain of the restarted node is already inconsistent: %v", bad)
	}
	p.Class = m.classify([]*txInfo{ti})
	if err := catchErr(func() error { return rc.Mempool().AddTx("", ti.decode()) }); err != nil {
		p.Pool = "refused: " + err.Error()
	} else {
		p.Pool = "pooled"
	}
	var vb *types.Block
	var vparts *types.PartSet
	if perr := catchErr(func() error {
		vb, vparts, p.Block, _ = offerBlock(rc, rc, decodeAll([]*txInfo{ti}), false)
		return nil
	}); perr != nil {
		p.Block = perr.Error()
		return
	}
	if vb == nil {
		return
	}
	if err := rc.Commit(vb, vparts); err != nil {
		p.Block += "+commit-fails: " + err.Error()
		return
	}
	if _, bad := scanChain(rc, cat); len(bad) > 0 {
		p.Bad = strings.Join(bad, "; ")
	}
}

func e3Worker(quick bool) {
	cases := e3cases(quick)
	var cat *catalogue
	vk.WorkerLoop(len(cases), func(i int) interface{} {
		if cat == nil {
			cat = buildCatalogue()
		}
		return runE3Case(cat, cases[i])
	})
}

type e3stats struct {
	crashStates, restarts, probes int
	outcomes                      map[string]int
	cov                           interface{}
}

func runE3(r *vk.Run) *e3stats {
	st := &e3stats{outcomes: map[string]int{}}
	cases := e3cases(r.Quick())
	var per []interface{}
	results := make([]*e3result, len(cases))
	done := r.RunIsolated(len(cases), vk.IsoOpts{CaseTimeout: 10 * time.Minute, Workers: workers(), ExtraArgs: []string{"--part", "e3"}},
		func(i int, raw json.RawMessage, fatal string) {
			if fatal != "" {
				vk.Fatalf("e3 %s: worker died: %s", cases[i].Name, fatal)
			}
			var res e3result
			if err := json.Unmarshal(raw, &res); err != nil {
				vk.Fatalf("e3: %v", err)
			}
			results[i] = &res
		})
	if done < len(cases) {
		r.Capped(fmt.Sprintf("E3: %d of %d histories", done, len(cases)))
	}
	for i, res := range results {
		if res == nil {
			continue
		}
		cs := cases[i]
		boots := map[string]int{}
		windows := map[string]int{}
		lag := map[string]int{}
		served := 0
		// a re-use that is accepted even after a clean shutdown has nothing to do with the crash: one root cause, one key
		cleanToo := map[bool]bool{}
		for _, p := range res.Probes {
			if p.Bad != "" && p.Window == "clean-shutdown-after-commit" {
				cleanToo[isNonceClass(p.Class)] = true
			}
		}
		for _, p := range res.Probes {
			st.probes++
			if p.Boot != "" {
				b := p.Boot
				if len(b) > 80 {
					b = b[:80]
				}
				boots[b]++
				st.outcomes["restart-fails"]++
				continue
			}
			windows[p.Window]++
			if p.SeqLag != 0 {
				lag[fmt.Sprintf("%s: %d outputs missing", p.Window, p.SeqLag)]++
			}
			oc := fmt.Sprintf("%s/%s/pool:%v/block:%s", p.Window, orNone(p.Class), p.Pool == "pooled", p.Block)
			st.outcomes[oc]++
			if p.Class != "" {
				served++
			}
			if p.Bad != "" {
				win := p.Window
				if cleanToo[isNonceClass(p.Class)] {
					if p.Window != "clean-shutdown-after-commit" {
						continue // same root cause as in the crash-free restart: reported there
					}
					win = "clean-restart"
				}
				key := "restart-forgets-consumed-input:" + win
				if isNonceClass(p.Class) {
					key = "restart-forgets-executed-nonce:" + win
				}
				r.Violation(key, fmt.Sprintf("history %s, crash after %d of %d write units of the last commit (%s; undo log %s): the restarted node serves block %d, yet %s (%s) is accepted again (mempool: %s; block: %s): %s",
					cs.Name, p.Cut, len(res.Units), p.Window, p.Wal, p.Height, p.Probe, p.Class, p.Pool, p.Block, p.Bad),
					map[string]interface{}{"engine": "E3", "history": cs.Name, "blocks": cs.Blocks, "cut": p.Cut, "units_of_commit": res.Units, "probe": p.Probe, "undo_log": p.Wal})
			} else if p.Class == "" && p.Block != "accepted" && p.Height >= uint64(len(cs.Blocks))+1 {
				// a probe that re-uses nothing on this node (the crash lost the block) must be acceptable — informational only
				st.outcomes["fresh-input-refused-after-crash"]++
			}
		}
		st.crashStates += res.Cuts
		st.restarts += res.Restarts
		per = append(per, map[string]interface{}{"history": cs.Name, "write_units_of_commit": res.Units, "crash_prefixes": res.Cuts, "restarts": res.Restarts,
			"probes": len(res.Probes), "probes_offering_a_consumed_input": served, "restart_failures": boots, "probes_per_window": windows,
			"observation_output_index_lag_after_restart": lag})
		fmt.Printf("E3 %-22s units=%d prefixes=%d restarts=%d probes=%d re-use-probes=%d boot-failures=%d\n", cs.Name, len(res.Units), res.Cuts, res.Restarts, len(res.Probes), served, len(boots))
	}
	st.cov = per
	return st
}

func isNonceClass(c string) bool {
	return strings.HasPrefix(c, "nonce") || strings.HasPrefix(c, "account")
}

func orNone(s string) string {
	if s == "" {
		return "fresh"
	}
	return s
}
