// C07 — every spendable unit is spent at most once across the whole chain.
//
// Three engines on the real node core (verif/minichain: LinkApplication, BlockStore, UtxoStore, state DB, Mempool):
//
//	E1 (e1.go)  explicit-state search over chain histories with the re-use alphabet: the same key image twice in a
//	            transaction / in two transactions of a block / in a later block / through the mempool after the
//	            commit / after a restart; the same signed account transaction replayed in the same or a later block;
//	            nonce gaps and reorderings (on the transfer, token, creation and account->confidential paths).
//	E2 (e2.go)  all interleavings with <= 2 preemptions (cooperative scheduler, instrumented mempool/app) of two
//	            Mempool.AddTx of conflicting confidential spends and one CommitBlock.
//	E3 (e3.go)  restart on every crash state (prefix of the write log) of the commit of a block that carries a
//	            confidential spend: a committed key image / executed nonce must never be forgotten.
//
// Oracle (plain-Go model: set of spent key images, next nonce per sender, set of executed hashes): over all
// committed blocks of every node no key image occurs twice, per sender the executed nonces are exactly 0,1,2,...,
// and every offered re-use is refused by the mempool or at the block boundary (CheckBlock of a validator).
package main

import (
	"flag"
	"fmt"
	"os"
	"path/filepath"
	"runtime"
	"sort"
	"strconv"

	"verif/minichain"
	"verif/vk"

	"github.com/lianxiangcloud/linkchain/libs/log"
)

var (
	part         = flag.String("part", "all", "e1|e2|e3|all")
	frontierPath = flag.String("c07-frontier", "", "internal: frontier file of an E1 worker")
)

// workers: number of isolated worker processes (C07_WORKERS overrides, for development on a shared machine).
func workers() int {
	if n, err := strconv.Atoi(os.Getenv("C07_WORKERS")); err == nil && n > 0 {
		return n
	}
	return runtime.NumCPU()
}

func main() {
	log.Root().SetHandler(log.DiscardHandler())
	r := vk.Start("C07", "model_checking")
	quietMempoolLoops()
	if vk.IsWorker() {
		switch *part {
		case "e1":
			e1Worker(r.Quick(), *frontierPath)
		case "e2":
			e2Worker(r)
		case "e3":
			e3Worker(r.Quick())
		}
		vk.Fatalf("unknown worker part %q", *part)
	}
	if r.ReplayPath != "" {
		replay(r)
	}
	scratch := fmt.Sprintf("/dev/shm/C07-%d", os.Getpid())
	if err := os.MkdirAll(scratch, 0700); err != nil {
		vk.Fatalf("scratch: %v", err)
	}
	defer os.RemoveAll(scratch)
	if !minichain.RecipeFingerprintOK() {
		r.Assume(minichain.RecipeAssumption)
	}
	all := *part == "all"
	states, trans, evals := 0, 0, 0
	nontrivial := map[string]bool{}

	if all || *part == "e3" {
		s := runE3(r)
		r.Set("e3_crash", s.cov)
		states += s.crashStates
		trans += s.restarts
		evals += s.probes
		for k := range s.outcomes {
			nontrivial["e3:"+k] = true
		}
	}
	// E2 (few long-running worker processes) runs next to E1 (many short cases); each gets 5/8 of the run's budget
	// (quick: 150 s of 4 min, thorough: 25 min of 40 min; --budget scales both)
	partBudget := r.Remaining() * 5 / 8
	var e2 *e2stats
	var e1 *e1stats
	e2done := make(chan struct{})
	go func() {
		defer close(e2done)
		if all || *part == "e2" {
			e2 = runE2(r, partBudget)
		}
	}()
	if all || *part == "e1" {
		s := runE1(r, scratch, partBudget)
		r.Set("e1_searches", s.perSearch)
		r.Set("e1_reuse_offers_refused", s.rejectedReuse)
		r.Set("e1_reuse_offers_refused_by_class", s.byClass)
		r.Set("e1_outcomes_of_last_op", s.lastKinds)
		r.Set("e1_blocks_accepted", s.acceptedBlocks)
		r.Set("e1_pool_admissions", s.poolAdds)
		states += s.states
		trans += s.transitions
		evals += s.transitions
		for k := range s.lastKinds {
			nontrivial["e1:"+k] = true
		}
		e1 = s
	}
	<-e2done
	if e2 != nil {
		r.Set("e2_schedules", e2.cov)
		states += e2.executions
		trans += e2.executions
		evals += e2.executions
		for k := range e2.outcomes {
			nontrivial["e2:"+k] = true
		}
	}
	minichain.SweepStale("/dev/shm")
	os.RemoveAll(scratch)
	sweepScratch()
	if e1 != nil {
		if e1.validRej > 0 {
			r.Note("E1: %d executable blocks were refused (first: %s)", e1.validRej, e1.validRejSample)
			if e1.violations == 0 {
				vk.Fatalf("E1: %d blocks that re-use nothing were refused, e.g. %s: the harness alphabet is not what it claims to be (nothing decided)", e1.validRej, e1.validRejSample)
			}
		}
		if e1.violations == 0 && (e1.rejectedReuse == 0 || e1.acceptedBlocks == 0 || e1.poolAdds == 0) {
			vk.Fatalf("E1 is vacuous: refused re-uses %d, accepted blocks %d, pool admissions %d", e1.rejectedReuse, e1.acceptedBlocks, e1.poolAdds)
		}
	}

	var nt []string
	for k := range nontrivial {
		nt = append(nt, k)
	}
	sort.Strings(nt)
	r.Set("states", states)
	r.Set("transitions", trans)
	r.Set("traces_validated_against_impl", trans)
	r.Set("evaluations", evals)
	r.Set("distinct_nontrivial", len(nt))
	r.Set("distinct_outcomes", nt)
	r.Set("rule", "E1: BFS over op histories on fresh real nodes (state = committed transactions + restart flag + mempool lists/cache/key-image count), one transition = one history executed on the real code and scanned by the reference model; E2: one execution per schedule with <= 2 preemptions; E3: one restart per (crash prefix, undo-log snapshot). Non-trivial = distinct outcome class of the last op / schedule / crash state")
	r.Assume("cryptography: real curve arithmetic, key images and ring signatures of the pure-Go stand-in; Bulletproofs are an ideal functionality")
	r.Assume("node = verif/minichain (application, stores, mempool, block executor mirrored from node.NewNode / finalizeCommit); no consensus rounds, no p2p; system contracts absent (default coefficient: 50 coins per confidential spend)")
	r.Assume("only the native coin is used on the confidential side (token confidential transactions need an issuing contract); ring sizes 1 and 3")
	r.Assume("a dishonest proposer is modelled as: arbitrary transaction list, header result fields copied from the validator's own execution")
	r.Assume("E2: the cooperative scheduler sees sync/atomic operations of mempool/mempool.go, mempool/tx_list.go, app/app.go, libs/clist/clist.go only; plain data races are not explored; mempool loop tickers are parked")
	r.Assume("E3: process-crash tier (completed writes survive); crash states are the prefixes of the write log AS RECORDED: the three goroutines of BlockStore.SaveBlock write concurrently, their relative order varies between runs (all of them precede the height descriptor, so the C07 verdict does not depend on it)")
	r.Finish()
}

// sweepScratch removes scratch directories of dead C07 processes (a killed run cannot clean up).
func sweepScratch() {
	ents, _ := filepath.Glob("/dev/shm/C07-*")
	for _, e := range ents {
		var pid int
		if _, err := fmt.Sscanf(filepath.Base(e), "C07-%d", &pid); err != nil || pid == os.Getpid() {
			continue
		}
		if _, err := os.Stat(fmt.Sprintf("/proc/%d", pid)); os.IsNotExist(err) {
			os.RemoveAll(e)
		}
	}
}

// replay re-executes one recorded case in this process (E1: the op history; E3: the history, crash prefix and probe).
// E2 schedules are replayed by re-running the scenario (`--part e2`): the explorer is deterministic.
func replay(r *vk.Run) {
	var rp struct {
		Engine  string `json:"engine"`
		Search  string `json:"search"`
		OpIDs   []int  `json:"op_ids"`
		History string `json:"history"`
		Cut     int    `json:"cut"`
		Probe   string `json:"probe"`
	}
	r.LoadReplay(&rp)
	cat := buildCatalogue()
	switch rp.Engine {
	case "E1":
		for _, cfg := range e1configs(r.Quick()) {
			if cfg.name != rp.Search {
				continue
			}
			ops := cfg.ops()
			out := execHistory(cat, &cfg, ops, rp.OpIDs)
			for i, o := range rp.OpIDs {
				fmt.Printf("  %d. %s\n", i+1, ops[o])
			}
			fmt.Printf("last op: %s (class %q); state %q\n", out.Last, out.Class, out.Key)
			for _, v := range out.Viol {
				r.Violation(v[0], v[1], rp)
			}
			r.Finish()
		}
		vk.Fatalf("replay: no search %q in tier %s (replay with the tier that recorded the case)", rp.Search, r.Tier)
	case "E3":
		for _, cs := range e3cases(r.Quick()) {
			if cs.Name != rp.History {
				continue
			}
			res := runE3Case(cat, cs)
			for _, p := range res.Probes {
				if p.Cut == rp.Cut && p.Probe == rp.Probe {
					fmt.Printf("cut %d (%s, undo log %s): height %d, boot %q, pool %q, block %q, bad %q\n", p.Cut, p.Window, p.Wal, p.Height, p.Boot, p.Pool, p.Block, p.Bad)
					if p.Bad != "" {
						r.Violation("restart-forgets-consumed-input:"+p.Window, p.Bad, rp)
					}
				}
			}
			r.Finish()
		}
		vk.Fatalf("replay: no history %q in tier %s", rp.History, r.Tier)
	}
	vk.Fatalf("replay: engine %q: re-run `/verif/check C07 --part e2` (the schedule explorer is deterministic)", rp.Engine)
}
