package main

import (
	"fmt"
	"os"

	"verif/vk"

	dbm "github.com/lianxiangcloud/linkchain/libs/db"
)

// handle is one live store under test.
type handle struct {
	db      dbm.DB        // the DB under test (a backend or a prefix view)
	again   func() dbm.DB // called after db.Close(): the reopened DB under test
	cleanup func()        // remove files
	closed  func()        // called after every db.Close(): release what the closed store pins (see hook)
}

type backend struct {
	name       string
	base       string // the store at the bottom: memdb, goleveldb, bolt, badger, fsdb
	view       []byte // prefix of the prefixDB view (nil: the store itself)
	batch      bool   // NewBatch is implemented (fsdb panics "not yet implemented": it does not claim batches)
	noEmptyKey bool   // understood deviation: the store cannot hold the empty key (bolt, badger)
	mk         func() *handle
}

func memBackend() *backend {
	return &backend{name: "memdb", base: "memdb", batch: true, mk: func() *handle {
		m := dbm.NewMemDB()
		return &handle{db: m, again: func() dbm.DB { return m }, cleanup: func() {}, closed: func() {}}
	}}
}

// diskBackend opens the store through the package's registered creator (dbm.NewDB), db_counts = 1.
func diskBackend(typ dbm.DBBackendType, batch, noEmptyKey bool) *backend {
	return &backend{name: string(typ), base: string(typ), batch: batch, noEmptyKey: noEmptyKey, mk: func() *handle {
		dir := newDir()
		var raw dbm.DB
		open := func() dbm.DB { raw = dbm.NewDB("c19", typ, dir, 1); return raw }
		return &handle{db: open(), again: open, cleanup: func() { os.RemoveAll(dir) }, closed: func() { dbm.VerifC19Release(raw) }}
	}}
}

// neighbours of a prefix in the underlying store: keys just below and just above the prefix range,
// including the prefix-incremented key itself and, for 0xFF-terminated prefixes, the keys between the
// end of the prefix range and the same-length increment.
func neighbours(p []byte) [][]byte {
	var out [][]byte
	add := func(s string) { out = append(out, []byte(s)) }
	switch string(p) {
	case "p":
		add("o")
		add("o\xff\xff")
		add("q")
		add("q\x00")
	case "p\xff":
		add("p")
		add("p\xfe")
		add("p\xfe\xff")
		add("q")
		add("q\x00")
		add("q\x00\x00")
	default:
		vk.Fatalf("no neighbours defined for prefix %q", p)
	}
	return out
}

// prefixBackend: a prefixDB view over another backend whose key space also holds foreign keys around
// the prefix (they must never show through the view).
func prefixBackend(under *backend, prefix string, withNeighbours bool) *backend {
	name := "prefix(" + bname([]byte(prefix)) + ")/" + under.name
	if !withNeighbours {
		name += "/alone"
	}
	return &backend{name: name, base: under.base, view: []byte(prefix), batch: under.batch, noEmptyKey: false, mk: func() *handle {
		u := under.mk()
		if withNeighbours {
			for _, n := range neighbours([]byte(prefix)) {
				u.db.Set(n, []byte("N"))
			}
		}
		return &handle{
			db:      dbm.NewPrefixDB(u.db, []byte(prefix)),
			again:   func() dbm.DB { return dbm.NewPrefixDB(u.again(), []byte(prefix)) },
			cleanup: u.cleanup,
			closed:  u.closed,
		}
	}}
}

// write-key alphabets
var (
	keysFull   = sigma                                                                       // nil, "", a, a\x00, a\xff, b, \xff, \xff\xff
	keysMid    = [][]byte{{}, []byte("a"), []byte("a\xff"), []byte("b"), []byte("\xff\xff")} // every shape once
	keysSmall  = [][]byte{{}, []byte("a"), []byte("a\xff"), []byte("b")}
	keysTiny   = [][]byte{{}, []byte("a"), []byte("a\xff")}
	keysMacro  = [][]byte{[]byte("a"), []byte("\xff\xff")} // one key that sorts before most fillers, one after
	keysMacro1 = keysMacro[:1]
)

func plan(r *vk.Run) []*cfg {
	mem := memBackend()
	ldb := diskBackend(dbm.GoLevelDBBackend, true, false)
	bolt := diskBackend(dbm.BoltBackend, true, true)
	badger := diskBackend(dbm.BadgerBackend, true, true)
	fsdb := diskBackend(dbm.FSDBBackend, false, false)
	two := [][]byte{val1, val22}
	three := [][]byte{val1, val22, valLong}
	var out []*cfg
	add := func(be *backend, keys, vals [][]byte, variants, depth, merge, workers int) {
		out = append(out, &cfg{name: be.name, be: be, keys: keys, vals: vals, variants: variants, depth: depth, maxBatch: 3, mergeEvery: merge, workers: workers})
	}
	// macro searches: one step adds N filler operations to the open batch, or N filler keys to the store,
	// N around the thresholds of sort.Slice (12), typical node / page fan-outs and buffer sizes. They bring
	// [batch op on k; N fillers; batch op on k; Write|WriteSync|Commit] and [N keys in the store; ...] within
	// depth 4. A history must contain a fill letter to be completed here (the rest is the plain searches').
	macro := func(be *backend, keys [][]byte, variants, depth int, fills, dbFills []int, merge, workers int) {
		if be.base == "bolt" {
			workers = 48 // bolt.DB.Batch sleeps up to MaxBatchDelay (10 ms) per batch write: overlap the waiting
		}
		out = append(out, &cfg{name: be.name + "/macro", be: be, keys: keys, vals: two, variants: variants, depth: depth, maxBatch: 3,
			mergeEvery: merge, workers: workers, fills: fills, dbFills: dbFills, maxFills: 1})
	}
	allFills := []int{11, 12, 13, 16, 31, 64, 257}
	pmem := prefixBackend(mem, "p", true)
	pmemFF := prefixBackend(mem, "p\xff", true)
	pmemAlone := prefixBackend(mem, "p", false)
	if r.Quick() {
		add(mem, keysFull, two, 3, 3, 100, 0)
		add(pmem, keysFull, two, 1, 3, 100, 0)
		add(pmemFF, keysFull, two, 1, 3, 100, 0)
		add(pmemAlone, keysMid, two, 1, 3, 100, 0)
		add(mem, keysMid, two, 1, 4, 400, 0)
		add(fsdb, keysMid, two, 3, 3, 100, 0)
		add(bolt, keysMid, two, 3, 3, 100, 0)
		add(ldb, keysSmall, two, 1, 3, 50, 0)
		add(badger, keysTiny, two, 1, 3, 40, 0)
		add(prefixBackend(ldb, "p", true), keysSmall, two, 1, 2, 20, 0)
		add(prefixBackend(badger, "p", true), keysTiny, two, 1, 2, 20, 0)
		// every size on memdb and bolt; on the stores that cost 5-15 ms per history the sizes next to the
		// sort.Slice threshold plus one bigger one (the thorough tier runs every size everywhere)
		macro(mem, keysMacro1, 3, 4, envFills(allFills), envFills([]int{13, 64, 257}), 100, 0)
		macro(bolt, keysMacro1, 3, 4, envFills(allFills), envFills([]int{13, 64, 257}), 100, 0)
		macro(ldb, keysMacro1, 3, 4, []int{12, 13, 64}, []int{64}, 100, 0)
		macro(badger, keysMacro1, 3, 4, []int{13, 64}, []int{64}, 100, 0)
		macro(fsdb, keysMacro1, 3, 4, nil, []int{13, 64}, 100, 0)
		macro(pmem, keysMacro1, 3, 4, envFills(allFills), []int{13}, 100, 0)
		macro(prefixBackend(bolt, "p", true), keysMacro1, 3, 4, []int{13, 16, 64}, []int{64}, 100, 0)
	} else {
		add(mem, keysFull, two, 3, 4, 400, 0)
		add(pmem, keysFull, two, 3, 3, 100, 0)
		add(pmem, keysFull, two, 1, 4, 400, 0)
		add(pmemFF, keysFull, two, 1, 4, 400, 0)
		add(pmemAlone, keysFull, two, 1, 3, 100, 0)
		add(mem, keysMid, two, 1, 5, 2000, 0)
		add(fsdb, keysFull, two, 3, 4, 200, 0)
		add(bolt, keysFull, two, 3, 3, 100, 0)
		add(bolt, keysMid, two, 1, 4, 400, 0)
		add(ldb, keysMid, two, 3, 3, 100, 0)
		add(ldb, keysSmall, two, 1, 4, 400, 0)
		add(badger, keysMid, three, 1, 3, 50, 0)
		add(badger, keysSmall, two, 3, 3, 50, 0)
		add(prefixBackend(ldb, "p", true), keysMid, two, 1, 3, 200, 0)
		add(prefixBackend(ldb, "p\xff", true), keysMid, two, 1, 3, 200, 0)
		add(prefixBackend(bolt, "p", true), keysMid, two, 1, 3, 200, 0)
		add(prefixBackend(badger, "p", true), keysSmall, two, 1, 3, 200, 0)
		dbf := []int{13, 64, 257}
		for _, be := range []*backend{mem, bolt, ldb, pmem, pmemFF} {
			macro(be, keysMacro, 3, 4, allFills, dbf, 200, 0)
		}
		for _, be := range []*backend{badger, prefixBackend(bolt, "p", true), prefixBackend(ldb, "p", true), prefixBackend(badger, "p", true)} {
			macro(be, keysMacro1, 3, 4, allFills, dbf, 100, 0)
		}
		macro(fsdb, keysMacro, 3, 4, nil, dbf, 200, 0)
		// two fill letters in one history (a filled store under a big batch, two fills in one batch): depth 5
		for _, be := range []*backend{mem, bolt} {
			out = append(out, &cfg{name: be.name + "/macro2", be: be, keys: keysMacro1, vals: two, variants: 3, depth: 5, maxBatch: 3,
				mergeEvery: 1000, workers: map[string]int{"bolt": 48}[be.base], fills: []int{12, 13, 64}, dbFills: []int{13, 257}, maxFills: 2})
		}
	}
	// several searches may share a backend: make the names unique
	seen := map[string]int{}
	for _, c := range out {
		seen[c.name]++
		if seen[c.name] > 1 {
			c.name = fmt.Sprintf("%s#%d", c.name, seen[c.name])
		}
	}
	return out
}

// development aid: C19_MAXFILL=n drops fill sizes above n
func envFills(f []int) []int {
	var n int
	if _, err := fmt.Sscan(os.Getenv("C19_MAXFILL"), &n); err != nil {
		return f
	}
	var out []int
	for _, x := range f {
		if x <= n {
			out = append(out, x)
		}
	}
	return out
}
