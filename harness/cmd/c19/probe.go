package main

import (
	"bytes"
	"fmt"
	"os"
	"os/exec"
	"strings"
	"sync"
	"time"

	"verif/vk"

	dbm "github.com/lianxiangcloud/linkchain/libs/db"
)

// A batch of the badger backend that has been Reset() cannot be written any more: badgerBatch.Reset calls
// WriteBatch.Cancel, which closes the batch's throttle channels; the next Write/WriteSync/Commit runs
// WriteBatch.Flush inside a goroutine started by badgerBatch.Write and panics there with "send on closed
// channel". A panic in a foreign goroutine cannot be recovered: it kills the process. The harness therefore
// decides this case once per run in a sub-process (the same binary, C19_PROBE set). If the sub-process
// dies, the violation is recorded and Write-after-Reset is disabled in the badger searches; if it survives
// (repaired tree), nothing is disabled and the in-process search covers the case like any other.

var (
	badgerResetWriteCrashes bool
	probeOnce               sync.Once
)

func probeBadgerResetWrite(r *vk.Run) {
	probeOnce.Do(func() {
		dir := newDir()
		defer os.RemoveAll(dir)
		cmd := exec.Command(os.Args[0])
		cmd.Env = append(os.Environ(), "C19_PROBE=badger-reset-write", "C19_PROBE_DIR="+dir)
		var buf bytes.Buffer
		cmd.Stdout, cmd.Stderr = &buf, &buf
		done := make(chan error, 1)
		if err := cmd.Start(); err != nil {
			vk.Fatalf("probe: %v", err)
		}
		go func() { done <- cmd.Wait() }()
		var err error
		select {
		case err = <-done:
		case <-time.After(60 * time.Second):
			cmd.Process.Kill()
			<-done
			err = fmt.Errorf("timeout after 60s (hang)")
		}
		out := buf.String()
		if err == nil && strings.Contains(out, "PROBE-SURVIVED") && !strings.Contains(out, "panic:") {
			r.Note("badger Write-after-Reset probe: sub-process survived; case covered in-process")
			return
		}
		badgerResetWriteCrashes = true
		first := out
		if i := strings.Index(first, "\n\n"); i > 0 {
			first = first[:i]
		}
		if len(first) > 300 {
			first = first[:300]
		}
		r.Violation("badger:batch:Write-after-Reset:crashes-process",
			fmt.Sprintf("badger: NewBatch, Set(a,1), Reset, Set(a,22), Write kills the process (%v): %s", err, strings.TrimSpace(first)),
			map[string]interface{}{"search": "badger (sub-process probe)", "ops": []string{"batch.Set(\"a\",\"1\")", "batch.Reset", "batch.Set(\"a\",\"22\")", "batch.Write"},
				"how": "C19_PROBE=badger-reset-write C19_PROBE_DIR=<empty dir> <harness binary>"})
		r.Note("badger: batch.Write/WriteSync/Commit after batch.Reset is disabled in the in-process search (it crashes the process); all other orders are explored")
	})
}

func probeChild(which string) {
	dir := os.Getenv("C19_PROBE_DIR")
	switch which {
	case "badger-reset-write":
		db := dbm.NewDB("c19", dbm.BadgerBackend, dir, 1)
		b := db.NewBatch()
		b.Set([]byte("a"), []byte("1"))
		b.Reset()
		b.Set([]byte("a"), []byte("22"))
		b.Write()
		// The panic is raised in a goroutine started by badgerBatch.Write whose deferred WaitGroup.Done
		// releases this goroutine BEFORE the runtime has finished killing the process: wait, so that a
		// dying process is never mistaken for a surviving one.
		time.Sleep(3 * time.Second)
		fmt.Printf("PROBE-SURVIVED value=%q\n", db.Get([]byte("a")))
		db.Close()
		os.Exit(0)
	}
	fmt.Println("unknown probe", which)
	os.Exit(3)
}
