// C19 — all storage backends implement the same ordered map with atomic batches.
//
// Explicit-state search (engine opx) over operation sequences of the REAL libs/db backends (memdb,
// goleveldb, bolt, badger, fsdb, and prefixDB views) against a plain sorted-map reference model.
// After every history the harness compares, for every key / bound of the alphabet Σ,
//   - Get / Has / Load / Exist (found or not found, and the value),
//   - the full key/value stream of Iterator and ReverseIterator for every (start,end) ∈ Σ×Σ,
//   - the full stream of NewIteratorWithPrefix(p) and IteratePrefix(db,p) for every p ∈ Σ
//
// with the model. Batches must be invisible until written and then visible entirely, in their own order.
// Macro letters ("N filler operations into the open batch", "N filler keys into the store", N around the
// thresholds of sort.Slice and of typical node / buffer sizes) bring big batches and big stores within the
// depth bound; fillers are ordinary keys of the model.
// Excluded, exactly as the property says: the error value returned for a missing key; empty values.
package main

import (
	"bytes"
	"crypto/sha256"
	"encoding/json"
	"fmt"
	"io/ioutil"
	"os"
	"runtime/debug"
	"runtime/pprof"
	"sort"
	"strconv"
	"strings"
	"sync/atomic"
	"time"

	"verif/vk"

	dbm "github.com/lianxiangcloud/linkchain/libs/db"
	"github.com/lianxiangcloud/linkchain/libs/log"
)

// ---- alphabet Σ: key shapes (nil, empty, shared prefixes, binary, 0xFF-terminated) ----

var sigma = [][]byte{nil, {}, []byte("a"), []byte("a\x00"), []byte("a\xff"), []byte("b"), []byte("\xff"), []byte("\xff\xff")}

var (
	val1    = []byte("1")
	val22   = []byte("22")
	valLong = bytes.Repeat([]byte("L"), 40) // >= badger's ValueThreshold (32): goes through the value log
)

func bname(b []byte) string {
	if b == nil {
		return "nil"
	}
	return fmt.Sprintf("%q", b)
}

func cpb(b []byte) []byte {
	if b == nil {
		return nil
	}
	return append([]byte{}, b...)
}

// ---- operations ----

type opKind int

const (
	opSet      opKind = iota // variant 0 Set, 1 SetSync, 2 Put
	opDel                    // variant 0 Delete, 1 DeleteSync, 2 Del
	opBSet                   // batch.Set (NewBatch first if no batch is open)
	opBDel                   // batch.Delete
	opBWrite                 // variant 0 Write, 1 WriteSync, 2 Commit
	opBReset                 // batch.Reset (open batch: ops dropped; written batch: re-armed for reuse)
	opBAbandon               // drop the reference to an open, non-empty batch without writing it
	opReopen                 // Close + open again (an open batch is abandoned)
	// macro letters (one step = many operations): reach big batches / big stores within the depth bound
	opBFill  // batch.Set of k distinct filler keys (sorting before, between and after the keys of Σ)
	opDBFill // Set / SetSync / Put (by turns) of k distinct filler keys directly on the store
)

// filler keys: spread over the six gaps of Σ = "" < A.. < a < a\x00 < a5.. < a\xff < a\xff\x01.. < b < m.. <
// \xff < \xff\x7f.. < \xff\xff < \xff\xff\x01.. ; filler i goes to gap i mod 6, so insertion order is not key order.
var fillGaps = []string{"A", "a5", "a\xff\x01", "m", "\xff\x7f", "\xff\xff\x01"}

func fillKey(i int) []byte { return []byte(fmt.Sprintf("%s%03d", fillGaps[i%len(fillGaps)], i)) }

// the filler value names the letter that wrote it, so that the order of two fills over the same keys matters
func fillVal(batch bool, n int) []byte {
	if batch {
		return []byte(fmt.Sprintf("f%d", n))
	}
	return []byte(fmt.Sprintf("d%d", n))
}

type op struct {
	kind    opKind
	k, v    int
	variant int
}

var setNames = []string{"Set", "SetSync", "Put"}
var delNames = []string{"Delete", "DeleteSync", "Del"}
var writeNames = []string{"Write", "WriteSync", "Commit"}

type cfg struct {
	name       string
	be         *backend
	keys       [][]byte
	vals       [][]byte
	variants   int // 1: Set/Delete/Write only; 3: all spellings
	depth      int
	maxBatch   int
	mergeEvery int
	workers    int
	fills      []int // macro search: sizes of the batch-fill letters
	dbFills    []int // macro search: sizes of the store-fill letters
	maxFills   int   // macro search: at most this many fill letters per history
	ops        []op
}

func (c *cfg) macro() bool { return len(c.fills)+len(c.dbFills) > 0 }

func (c *cfg) build() {
	c.ops = nil
	if c.macro() {
		// lean alphabet around the fill letters: the spellings and value combinations of the direct
		// operations are the plain searches' business
		for k := range c.keys {
			c.ops = append(c.ops, op{opSet, k, 0, 0}, op{opDel, k, 0, 0})
		}
		if c.be.batch {
			for k := range c.keys {
				for v := range c.vals {
					c.ops = append(c.ops, op{opBSet, k, v, 0})
				}
				c.ops = append(c.ops, op{opBDel, k, 0, 0})
			}
			for vr := 0; vr < c.variants; vr++ {
				c.ops = append(c.ops, op{opBWrite, 0, 0, vr})
			}
			c.ops = append(c.ops, op{kind: opBReset})
			for _, n := range c.fills {
				c.ops = append(c.ops, op{kind: opBFill, k: n})
			}
		}
		c.ops = append(c.ops, op{kind: opReopen})
		for _, n := range c.dbFills {
			c.ops = append(c.ops, op{kind: opDBFill, k: n})
		}
		return
	}
	for vr := 0; vr < c.variants; vr++ {
		for k := range c.keys {
			for v := range c.vals {
				c.ops = append(c.ops, op{opSet, k, v, vr})
			}
		}
	}
	for vr := 0; vr < c.variants; vr++ {
		for k := range c.keys {
			c.ops = append(c.ops, op{opDel, k, 0, vr})
		}
	}
	if c.be.batch {
		for k := range c.keys {
			for v := range c.vals {
				c.ops = append(c.ops, op{opBSet, k, v, 0})
			}
		}
		for k := range c.keys {
			c.ops = append(c.ops, op{opBDel, k, 0, 0})
		}
		for vr := 0; vr < c.variants; vr++ {
			c.ops = append(c.ops, op{opBWrite, 0, 0, vr})
		}
		c.ops = append(c.ops, op{kind: opBReset}, op{kind: opBAbandon})
	}
	c.ops = append(c.ops, op{kind: opReopen})
	if c.be.batch {
		for _, n := range c.fills {
			c.ops = append(c.ops, op{kind: opBFill, k: n})
		}
	}
	for _, n := range c.dbFills {
		c.ops = append(c.ops, op{kind: opDBFill, k: n})
	}
}

func (c *cfg) opName(o op) string {
	vn := func() string {
		v := c.vals[o.v]
		if len(v) > 4 {
			return fmt.Sprintf("%q*%d", v[:1], len(v))
		}
		return fmt.Sprintf("%q", v)
	}
	switch o.kind {
	case opSet:
		return fmt.Sprintf("%s(%s,%s)", setNames[o.variant], bname(c.keys[o.k]), vn())
	case opDel:
		return fmt.Sprintf("%s(%s)", delNames[o.variant], bname(c.keys[o.k]))
	case opBSet:
		return fmt.Sprintf("batch.Set(%s,%s)", bname(c.keys[o.k]), vn())
	case opBDel:
		return fmt.Sprintf("batch.Delete(%s)", bname(c.keys[o.k]))
	case opBWrite:
		return "batch." + writeNames[o.variant]
	case opBReset:
		return "batch.Reset"
	case opBAbandon:
		return "batch abandoned"
	case opReopen:
		return "Close+reopen"
	case opBFill:
		return fmt.Sprintf("batch.Set x%d fillers", o.k)
	case opDBFill:
		return fmt.Sprintf("Set/SetSync/Put x%d fillers", o.k)
	}
	return "?"
}

// batch life cycle (pure): state 0 no batch, 1 open, 2 written; n ops in the open batch; reused = the
// batch object went through Reset
type life struct {
	bstate, n int
	reused    bool
}

func (l life) next(k opKind) life {
	switch k {
	case opBSet, opBDel, opBFill:
		if l.bstate != 1 {
			return life{1, 1, false}
		}
		return life{1, l.n + 1, l.reused}
	case opBWrite:
		return life{2, 0, l.reused}
	case opBReset:
		return life{1, 0, true}
	case opBAbandon, opReopen:
		return life{}
	}
	return l
}

func (c *cfg) enabled(hist []int, oi int) bool {
	var l life
	nfill := 0
	for _, h := range hist {
		l = l.next(c.ops[h].kind)
		if k := c.ops[h].kind; k == opBFill || k == opDBFill {
			nfill++
		}
	}
	kind := c.ops[oi].kind
	isFill := kind == opBFill || kind == opDBFill
	if c.macro() {
		// histories without any fill letter belong to the plain searches: do not complete them here
		if isFill && nfill >= c.maxFills {
			return false
		}
		if !isFill && nfill == 0 && len(hist)+1 >= c.depth {
			return false
		}
	}
	switch kind {
	case opBFill:
		return l.bstate != 1 || l.n < c.maxBatch
	case opBSet, opBDel:
		return l.bstate != 1 || l.n < c.maxBatch
	case opBWrite:
		if l.bstate == 1 && l.reused && c.be.base == "badger" && badgerResetWriteCrashes {
			return false // would kill the harness process; reported once through the sub-process probe
		}
		return l.bstate == 1
	case opBReset:
		return (l.bstate == 1 && l.n > 0) || l.bstate == 2
	case opBAbandon:
		return l.bstate == 1 && l.n > 0
	}
	return true
}

// ---- reference model: a sorted map ----

type kv struct{ k, v string }

type content map[string]string

func (m content) keys() []string {
	ks := make([]string, 0, len(m))
	for k := range m {
		ks = append(ks, k)
	}
	sort.Strings(ks)
	return ks
}

func (m content) String() string {
	var b strings.Builder
	for _, k := range m.keys() {
		fmt.Fprintf(&b, "%x=%s;", k, short(m[k]))
	}
	return b.String()
}

func short(v string) string {
	if len(v) > 4 {
		return fmt.Sprintf("%s*%d", v[:1], len(v))
	}
	return v
}

// forward: start <= k < end (nil start: from the first key; nil end: to the last key)
// reverse: end < k <= start, descending (nil start: from the last key; nil end: to the first key)
func (m content) iter(sorted []string, start, end []byte, rev bool) []kv {
	var out []kv
	for _, k := range sorted {
		kb := []byte(k)
		if !rev {
			if start != nil && bytes.Compare(kb, start) < 0 {
				continue
			}
			if end != nil && bytes.Compare(kb, end) >= 0 {
				continue
			}
		} else {
			if start != nil && bytes.Compare(kb, start) > 0 {
				continue
			}
			if end != nil && bytes.Compare(kb, end) <= 0 {
				continue
			}
		}
		out = append(out, kv{k, m[k]})
	}
	if rev {
		for i, j := 0, len(out)-1; i < j; i, j = i+1, j-1 {
			out[i], out[j] = out[j], out[i]
		}
	}
	return out
}

func (m content) withPrefix(sorted []string, p []byte) []kv {
	var out []kv
	for _, k := range sorted {
		if strings.HasPrefix(k, string(p)) {
			out = append(out, kv{k, m[k]})
		}
	}
	return out
}

type bop struct {
	del  bool
	k, v string
	fill int // > 0: the macro letter "Set of fill filler keys" (k, v unused)
}

type model struct {
	m        content
	tomb     map[string]bool // absent keys for which a delete has been issued (LSM stores keep a tombstone)
	bstate   int
	bops     []bop
	reused   bool   // the open batch object went through Reset before
	atReopen string // content at the last Close+reopen ("-": never), i.e. what lives in on-disk tables
}

func (mo *model) set(k, v string) {
	mo.m[k] = v
	delete(mo.tomb, k)
}

func (mo *model) del(k string) {
	delete(mo.m, k)
	mo.tomb[k] = true
}

func (mo *model) key() string {
	var b strings.Builder
	b.WriteString(mo.m.String())
	b.WriteString("|T")
	ts := make([]string, 0, len(mo.tomb))
	for k := range mo.tomb {
		ts = append(ts, k)
	}
	sort.Strings(ts)
	for _, k := range ts {
		fmt.Fprintf(&b, "%x,", k)
	}
	b.WriteString("|")
	switch mo.bstate {
	case 0:
		b.WriteString("nobatch")
	case 1:
		if mo.reused {
			b.WriteString("reused:")
		} else {
			b.WriteString("open:")
		}
		for _, o := range mo.bops {
			if o.fill > 0 {
				fmt.Fprintf(&b, "F%d,", o.fill)
			} else if o.del {
				fmt.Fprintf(&b, "D%x,", o.k)
			} else {
				fmt.Fprintf(&b, "S%x=%s,", o.k, short(o.v))
			}
		}
	case 2:
		b.WriteString("written")
	}
	b.WriteString("|")
	b.WriteString(mo.atReopen)
	return digest(b.String())
}

// digest keeps state keys short when the store holds hundreds of filler keys
func digest(s string) string {
	if len(s) <= 200 {
		return s
	}
	h := sha256.Sum256([]byte(s))
	return fmt.Sprintf("#%x", h[:16])
}

// ---- real instance ----

type inst struct {
	c     *cfg
	h     *handle
	batch dbm.Batch
	mo    model
	cur   string    // op in progress (panic context)
	notes []finding // understood deviations seen while applying the LAST op of the history
}

func newInst(c *cfg) *inst {
	return &inst{c: c, h: c.be.mk(), mo: model{m: content{}, tomb: map[string]bool{}, atReopen: "-"}}
}

func (in *inst) close() {
	vk.Catch(func() { in.h.db.Close() })
	in.h.closed()
	in.h.cleanup()
}

// step applies one op to the real DB and to the model. Returns a violation (key, what) if the op itself
// reports failure for an operation the model accepts.
func (in *inst) step(o op) (string, string) {
	c := in.c
	db := in.h.db
	in.cur = c.opName(o)
	be := c.be
	in.notes = nil
	switch o.kind {
	case opSet:
		k, v := cpb(c.keys[o.k]), cpb(c.vals[o.v])
		var err error
		switch o.variant {
		case 0:
			db.Set(k, v)
		case 1:
			db.SetSync(k, v)
		case 2:
			err = db.Put(k, v)
		}
		if err != nil {
			if len(k) == 0 && be.noEmptyKey {
				in.note(be.base+":empty-key:not-storable", fmt.Sprintf("Put(%s) returned %q; the reference map (and memdb, goleveldb, fsdb) store the empty key", bname(k), err))
				break
			}
			return be.name + ":Put:error", fmt.Sprintf("Put(%s) returned %v", bname(k), err)
		}
		in.mo.set(string(k), string(v))
		in.reconcileEmptyKey(setNames[o.variant] + "(" + bname(k) + ",..)")
	case opDel:
		k := cpb(c.keys[o.k])
		var err error
		p, pv := vk.Catch(func() {
			switch o.variant {
			case 0:
				db.Delete(k)
			case 1:
				db.DeleteSync(k)
			case 2:
				err = db.Del(k)
			}
		})
		if len(k) == 0 && be.noEmptyKey && (p || err != nil) {
			if p {
				in.note(be.base+":empty-key:Get-Has-Delete-panic", fmt.Sprintf("%s(%s) panics: %v", delNames[o.variant], bname(k), pv))
			} else {
				in.note(be.base+":empty-key:not-storable", fmt.Sprintf("Del(%s) returned %q", bname(k), err))
			}
			break
		}
		if p {
			panic(pv)
		}
		if err != nil {
			return be.name + ":Del:error", fmt.Sprintf("Del(%s) returned %v", bname(k), err)
		}
		in.mo.del(string(k))
	case opBSet, opBDel:
		if in.mo.bstate != 1 {
			in.batch = db.NewBatch()
			in.mo.bstate, in.mo.bops, in.mo.reused = 1, nil, false
		}
		k := cpb(c.keys[o.k])
		if o.kind == opBSet {
			v := cpb(c.vals[o.v])
			in.batch.Set(k, v)
			in.mo.bops = append(in.mo.bops, bop{del: false, k: string(k), v: string(v)})
		} else {
			in.batch.Delete(k)
			in.mo.bops = append(in.mo.bops, bop{del: true, k: string(k)})
		}
	case opBWrite:
		switch o.variant {
		case 0:
			in.batch.Write()
		case 1:
			in.batch.WriteSync()
		case 2:
			if err := in.batch.Commit(); err != nil {
				return be.name + ":batch.Commit:error", fmt.Sprintf("Commit returned %v", err)
			}
		}
		for _, b := range in.mo.bops {
			switch {
			case b.fill > 0:
				for i := 0; i < b.fill; i++ {
					in.mo.set(string(fillKey(i)), string(fillVal(true, b.fill)))
				}
			case b.del:
				in.mo.del(b.k)
			default:
				in.mo.set(b.k, b.v)
			}
		}
		in.mo.bstate, in.mo.bops = 2, nil
		in.reconcileEmptyKey("batch.Set(\"\",..) + " + writeNames[o.variant])
	case opBFill:
		if in.mo.bstate != 1 {
			in.batch = db.NewBatch()
			in.mo.bstate, in.mo.bops, in.mo.reused = 1, nil, false
		}
		for i := 0; i < o.k; i++ {
			in.batch.Set(fillKey(i), fillVal(true, o.k))
		}
		in.mo.bops = append(in.mo.bops, bop{fill: o.k})
	case opDBFill:
		for i := 0; i < o.k; i++ {
			k, v := fillKey(i), fillVal(false, o.k)
			switch i % 3 {
			case 0:
				db.Set(k, v)
			case 1:
				db.SetSync(k, v)
			case 2:
				if err := db.Put(k, v); err != nil {
					return be.name + ":Put:error", fmt.Sprintf("Put(%s) returned %v", bname(k), err)
				}
			}
			in.mo.set(string(k), string(v))
		}
	case opBReset:
		in.batch.Reset()
		in.mo.bstate, in.mo.bops, in.mo.reused = 1, nil, true
	case opBAbandon:
		in.batch = nil
		in.mo.bstate, in.mo.bops, in.mo.reused = 0, nil, false
	case opReopen:
		in.batch = nil
		in.mo.bstate, in.mo.bops, in.mo.reused = 0, nil, false
		in.h.db.Close()
		in.h.closed()
		in.h.db = in.h.again()
		in.mo.atReopen = digest(in.mo.m.String())
	}
	in.cur = ""
	return "", ""
}

// reconcileEmptyKey: bolt and badger cannot hold the empty key (understood deviation, reproduced on the
// unchanged tree). If, after a write the model accepted, the model holds "" but the store says it does not,
// the deviation is recorded and the model follows the store, so that the search continues behind it. The
// store is asked, not assumed: on a tree where the empty key is storable nothing is recorded.
func (in *inst) reconcileEmptyKey(how string) {
	if !in.c.be.noEmptyKey {
		return
	}
	if _, ok := in.mo.m[""]; !ok {
		return
	}
	stored := false
	vk.Catch(func() { stored = in.h.db.Has([]byte{}) })
	if stored {
		return
	}
	in.note(in.c.be.base+":empty-key:not-storable", how+" is accepted without error but nothing is stored under the empty key (memdb, goleveldb and fsdb store it)")
	delete(in.mo.m, "")
}

// ---- oracle ----

const maxStream = 1024 // > the largest store any history builds (Σ + 257 fillers)

func drain(it dbm.Iterator) (out []kv, runaway bool) {
	defer it.Close()
	for ; it.Valid(); it.Next() {
		if len(out) >= maxStream {
			return out, true
		}
		out = append(out, kv{string(it.Key()), string(it.Value())})
	}
	return out, false
}

func fmtStream(s []kv) string {
	var b strings.Builder
	b.WriteString("[")
	for i, e := range s {
		if i > 0 {
			b.WriteString(" ")
		}
		if i >= 12 {
			fmt.Fprintf(&b, "... %d entries", len(s))
			break
		}
		fmt.Fprintf(&b, "%q=%s", e.k, short(e.v))
	}
	b.WriteString("]")
	return b.String()
}

// fmtDiff prints two streams from shortly before their first difference (streams may hold hundreds of fillers)
func fmtDiff(got, want []kv) (string, string) {
	i := 0
	for i < len(got) && i < len(want) && got[i] == want[i] {
		i++
	}
	from := i - 2
	if from <= 0 {
		return fmtStream(got), fmtStream(want)
	}
	pre := fmt.Sprintf("(%d equal entries) ", from)
	return pre + fmtStream(got[from:]), pre + fmtStream(want[from:])
}

// brief: the content for messages
func (m content) brief() string {
	if len(m) <= 12 {
		return m.String()
	}
	var b strings.Builder
	n := 0
	for _, k := range m.keys() {
		if isFiller(k) {
			n++
			continue
		}
		fmt.Fprintf(&b, "%x=%s;", k, short(m[k]))
	}
	fmt.Fprintf(&b, "+%d fillers", n)
	return b.String()
}

func isFiller(k string) bool {
	for _, g := range fillGaps {
		if strings.HasPrefix(k, g) && len(k) == len(g)+3 {
			return true
		}
	}
	return false
}

// classify the difference between two streams ("" = equal)
func diffStream(got, want []kv, m content) string {
	if len(got) == len(want) {
		eq := true
		for i := range got {
			if got[i] != want[i] {
				eq = false
				break
			}
		}
		if eq {
			return ""
		}
	}
	wantSet := map[string]string{}
	for _, w := range want {
		wantSet[w.k] = w.v
	}
	gotSet := map[string]int{}
	for _, g := range got {
		gotSet[g.k]++
		if _, ok := wantSet[g.k]; !ok {
			if _, in := m[g.k]; in {
				return "yields-key-outside-domain"
			}
			return "yields-key-not-in-store"
		}
	}
	for _, w := range want {
		if gotSet[w.k] == 0 {
			return "misses-key"
		}
	}
	for _, n := range gotSet {
		if n > 1 {
			return "duplicate-key"
		}
	}
	for i := range got {
		if got[i].k != want[i].k {
			return "wrong-order"
		}
	}
	return "wrong-value"
}

// finding: one disagreement between the store and the model.
type finding struct {
	obs   string // Get, Has, Load, Exist, Iterator, ReverseIterator, NewIteratorWithPrefix, IteratePrefix, or an op name
	class string // what is wrong (present-key-not-found, yields-key-outside-domain, panic, ...)
	s, e  []byte // lookup key / iterator bounds / prefix
	got   []kv   // stream or value observed (lookups: one entry)
	want  []kv
	what  string
	key   string // canonical root-cause key (filled by canon)
	soft  bool   // understood deviation: recorded, search continues
}

func (in *inst) note(key, what string) {
	in.notes = append(in.notes, finding{key: key, what: what, soft: true})
}

// observe compares every lookup and every iteration with the model. One finding per canonical key.
func (in *inst) observe() []finding {
	var out []finding
	seen := map[string]bool{}
	add := func(f finding) {
		in.canon(&f)
		if !seen[f.key] {
			seen[f.key] = true
			out = append(out, f)
		}
	}
	db := in.h.db
	m := in.mo.m
	for _, k := range sigma {
		k := k
		want, ok := m[string(k)]
		lookup := func(obs string, call func() (val []byte, found bool, err error)) {
			var val []byte
			var found bool
			var err error
			in.cur = obs
			p, pv := vk.Catch(func() { val, found, err = call() })
			if !p && ok == found && (!ok || (err == nil && (val == nil || string(val) == want))) {
				return
			}
			in.cur = obs + "(" + bname(k) + ")"
			if p {
				add(finding{obs: obs, class: "panic", s: k, what: fmt.Sprintf("%s panics: %v", in.cur, pv)})
				return
			}
			switch {
			case ok && !found:
				add(finding{obs: obs, class: "present-key-not-found", s: k, what: fmt.Sprintf("%s = not found (%q, err %v), model has %q", in.cur, val, err, want)})
			case ok && err != nil:
				add(finding{obs: obs, class: "present-key-error", s: k, what: fmt.Sprintf("%s returns error %v for a present key", in.cur, err)})
			case ok && val != nil && string(val) != want:
				add(finding{obs: obs, class: "wrong-value", s: k, got: []kv{{string(k), string(val)}}, want: []kv{{string(k), want}},
					what: fmt.Sprintf("%s = %q, model has %q", in.cur, val, want)})
			case !ok && found:
				add(finding{obs: obs, class: "absent-key-found", s: k, what: fmt.Sprintf("%s = found (%q, err %v), model has no such key", in.cur, val, err)})
			}
		}
		// found-ness: Get "returns nil iff key doesn't exist"; Has / Exist: the boolean; Load: a non-empty value
		// (the error returned with a missing key is backend specific and not compared)
		lookup("Get", func() ([]byte, bool, error) { v := db.Get(cpb(k)); return v, v != nil, nil })
		lookup("Has", func() ([]byte, bool, error) { return nil, db.Has(cpb(k)), nil })
		lookup("Load", func() ([]byte, bool, error) {
			v, err := db.Load(cpb(k))
			if len(v) == 0 {
				return v, false, nil
			}
			return v, true, err
		})
		lookup("Exist", func() ([]byte, bool, error) {
			f, err := db.Exist(cpb(k))
			if !f {
				return nil, false, nil
			}
			return nil, true, err
		})
	}
	sorted := m.keys()
	stream := func(obs string, s, e []byte, mk func() dbm.Iterator, want []kv) {
		var got []kv
		var runaway bool
		desc := func() string {
			switch obs {
			case "NewIteratorWithPrefix":
				return fmt.Sprintf("NewIteratorWithPrefix(%s)", bname(s))
			case "IteratePrefix":
				return fmt.Sprintf("IteratePrefix(db,%s)", bname(s))
			}
			return fmt.Sprintf("%s(%s,%s)", obs, bname(s), bname(e))
		}
		in.cur = obs
		if p, pv := vk.Catch(func() { got, runaway = drain(mk()) }); p {
			add(finding{obs: obs, class: "panic", s: s, e: e, what: fmt.Sprintf("%s panics: %v (content %s)", desc(), pv, m.brief())})
			return
		}
		if runaway {
			add(finding{obs: obs, class: "does-not-terminate", s: s, e: e, what: fmt.Sprintf("%s yields more than %d entries (content %s)", desc(), maxStream, m.brief())})
			return
		}
		if d := diffStream(got, want, m); d != "" {
			gs, ws := fmtDiff(got, want)
			add(finding{obs: obs, class: d, s: s, e: e, got: got, want: want,
				what: fmt.Sprintf("%s yields %s, model %s (content %s)", desc(), gs, ws, m.brief())})
		}
	}
	for _, s := range sigma {
		for _, e := range sigma {
			s, e := s, e
			stream("Iterator", s, e, func() dbm.Iterator { return db.Iterator(cpb(s), cpb(e)) }, m.iter(sorted, s, e, false))
			stream("ReverseIterator", s, e, func() dbm.Iterator { return db.ReverseIterator(cpb(s), cpb(e)) }, m.iter(sorted, s, e, true))
		}
	}
	for _, p := range sigma {
		p := p
		stream("NewIteratorWithPrefix", p, nil, func() dbm.Iterator { return db.NewIteratorWithPrefix(cpb(p)) }, m.withPrefix(sorted, p))
		stream("IteratePrefix", p, nil, func() dbm.Iterator { return dbm.IteratePrefix(db, cpb(p)) }, m.withPrefix(sorted, p))
	}
	in.cur = ""
	return out
}

// ---- search ----

var dirSeq int64

func scratchRoot() string {
	if st, err := os.Stat("/dev/shm"); err == nil && st.IsDir() {
		return "/dev/shm"
	}
	return os.TempDir()
}

// removeScratch deletes the scratch directories of this process (all = false) or of C19 processes that no
// longer exist (all = true; leftovers of a killed run).
func removeScratch(stale bool) {
	ents, _ := ioutil.ReadDir(scratchRoot())
	for _, e := range ents {
		var pid, n int
		if _, err := fmt.Sscanf(e.Name(), "C19-%d-%d", &pid, &n); err != nil {
			continue
		}
		if stale {
			if _, err := os.Stat(fmt.Sprintf("/proc/%d", pid)); err == nil {
				continue
			}
		} else if pid != os.Getpid() {
			continue
		}
		os.RemoveAll(scratchRoot() + "/" + e.Name())
	}
}

// watchdog: a leak in a store under test must end as a harness error, not as an out-of-memory kill of
// the machine the other checks run on.
func watchdog() {
	const limitKB = 24 << 20
	for {
		time.Sleep(2 * time.Second)
		data, _ := ioutil.ReadFile("/proc/self/status")
		for _, l := range strings.Split(string(data), "\n") {
			var kb int
			if _, err := fmt.Sscanf(l, "VmRSS: %d kB", &kb); err == nil && kb > limitKB {
				removeScratch(false)
				vk.Fatalf("memory watchdog: resident set %d MB exceeds %d MB", kb>>10, limitKB>>10)
			}
		}
	}
}

func newDir() string {
	n := atomic.AddInt64(&dirSeq, 1)
	d := fmt.Sprintf("%s/C19-%d-%d", scratchRoot(), os.Getpid(), n)
	if err := os.MkdirAll(d, 0755); err != nil {
		vk.Fatalf("scratch dir: %v", err)
	}
	return d
}

func (c *cfg) exec(hist []int) (out vk.Outcome) {
	in := newInst(c)
	defer in.close()
	defer func() {
		if e := recover(); e != nil {
			out = vk.Outcome{Err: c.be.name + ":panic:" + panicClass(in.cur), What: fmt.Sprintf("%s panics: %v", in.cur, e)}
		}
	}()
	for i, oi := range hist {
		k, w := in.step(c.ops[oi])
		if k != "" {
			if i == len(hist)-1 {
				return vk.Outcome{Err: k, What: w}
			}
			return vk.Outcome{}
		}
	}
	var soft [][2]string
	for _, f := range in.notes {
		soft = append(soft, [2]string{f.key, f.what})
	}
	for _, f := range in.observe() {
		if f.soft {
			soft = append(soft, [2]string{f.key, f.what})
			continue
		}
		return vk.Outcome{Err: f.key, What: f.what, Soft: soft}
	}
	return vk.Outcome{Key: in.mo.key(), Soft: soft}
}

func panicClass(cur string) string {
	if i := strings.IndexAny(cur, "("); i > 0 {
		return cur[:i]
	}
	if cur == "" {
		return "?"
	}
	return cur
}

func runSearch(r *vk.Run, c *cfg) vk.Result {
	c.build()
	return r.Explore(vk.Spec{
		Name:            c.name,
		NumOps:          len(c.ops),
		OpName:          func(i int) string { return c.opName(c.ops[i]) },
		Depth:           c.depth,
		Workers:         c.workers,
		MergeCheckEvery: c.mergeEvery,
		Enabled:         c.enabled,
		Exec:            c.exec,
	})
}

func main() {
	log.Root().SetHandler(log.DiscardHandler())
	dbm.VerifC19QuietBadger()
	if p := os.Getenv("C19_PROBE"); p != "" {
		probeChild(p)
		return
	}
	if pf := os.Getenv("C19_PROF"); pf != "" { // development aid
		f, _ := os.Create(pf)
		pprof.StartCPUProfile(f)
		defer pprof.StopCPUProfile()
	}
	r := vk.Start("C19", "model_checking")
	removeScratch(true)
	debug.SetMemoryLimit(12 << 30) // soft: makes the collector work harder instead of growing (badger arenas)
	go watchdog()
	only := os.Getenv("C19_ONLY") // development aid: run the searches whose name contains this string
	runs := plan(r)
	if r.ReplayPath != "" {
		var rep struct {
			Search string `json:"search"`
			OpIDs  []int  `json:"op_ids"`
		}
		r.LoadReplay(&rep)
		if strings.Contains(rep.Search, "sub-process probe") {
			probeBadgerResetWrite(r)
			r.Finish()
		}
		for _, c := range runs {
			if c.name == rep.Search {
				c.build()
				out := c.exec(rep.OpIDs)
				for _, oi := range rep.OpIDs {
					fmt.Println("  ", c.opName(c.ops[oi]))
				}
				js, _ := json.Marshal(out)
				fmt.Println(string(js))
				if out.Err != "" {
					r.Violation(out.Err, out.What, rep)
				}
				for _, s := range out.Soft {
					r.Violation(s[0], s[1], rep)
				}
				r.Finish()
			}
		}
		vk.Fatalf("replay: unknown search %q", rep.Search)
	}
	states, trans, merges := 0, 0, 0
	var per []interface{}
	for _, c := range runs {
		if only != "" && !strings.Contains(c.name, only) {
			continue
		}
		if d, err := strconv.Atoi(os.Getenv("C19_DEPTH")); err == nil && d > 0 { // development aid
			c.depth = d
		}
		if c.be.base == "badger" && c.be.batch {
			probeBadgerResetWrite(r)
		}
		t0 := time.Now()
		res := runSearch(r, c)
		el := time.Since(t0).Seconds()
		states += res.States
		trans += res.Transitions
		merges += res.MergeChecks
		per = append(per, map[string]interface{}{"search": c.name, "states": res.States, "transitions": res.Transitions,
			"depth": c.depth, "depth_completed": res.DepthCompleted, "per_depth": res.PerDepth, "alphabet": len(c.ops),
			"write_keys": len(c.keys), "values": len(c.vals), "batch_fill_sizes": c.fills, "store_fill_sizes": c.dbFills, "merge_checks": res.MergeChecks, "wall_s": float64(int(el*10)) / 10})
		fmt.Printf("  %-28s ops=%-3d depth=%d/%d states=%-7d transitions=%-8d merge-checks=%-3d %.1fs\n", c.name, len(c.ops), res.DepthCompleted, c.depth, res.States, res.Transitions, res.MergeChecks, el)
	}
	obsPerState := len(sigma)*4 + len(sigma)*len(sigma)*2 + len(sigma)*2
	r.Set("searches", per)
	r.Set("states", states)
	r.Set("transitions", trans)
	r.Set("traces_validated_against_impl", trans)
	r.Set("evaluations", trans*obsPerState)
	r.Set("observations_per_transition", obsPerState)
	r.Set("distinct_nontrivial", states)
	r.Set("merge_checks", merges)
	r.Set("rule", "BFS over op sequences on the real backend (state = model content + tombstoned keys + open batch incl. its op order + content at last reopen); after every transition all lookups and all iterator streams over Σ×Σ bounds are compared with a sorted-map model; non-trivial = distinct canonical state")
	r.Assume("reference model is a Go map with sorted keys; forward domain start<=k<end, reverse domain end<k<=start, nil = unbounded")
	r.Assume("db_counts = 1 (the default); the hash-sharded mode (db_counts > 1) is outside the bound")
	r.Assume("cleveldb is not checked: libs/db/c_level_db.go does not compile under its build tag (creator signature, missing Seek)")
	r.Assume("Iterator.Seek, Domain, Stats, Print and concurrent use are outside the statement and not exercised")
	r.Assume("a batch that has been written is only reused after Reset; keys and values passed to the store are never modified afterwards")
	r.Assume("fsdb: NewBatch panics \"not yet implemented\" (it does not claim batches); its searches have no batch operations")
	r.Assume("values are \"1\", \"22\" and (badger, thorough) 40 bytes; a batch holds at most 3 letters (a macro letter = N filler operations, N <= 257); bounds per search are listed under coverage.searches")
	r.Assume("macro searches (name .../macro): lean alphabet (Set/Delete/batch Set/batch Delete on 1-2 keys, Write/WriteSync/Commit, Reset, reopen) + fill letters; a history there must contain a fill letter (at most 1; macro2: 2); fillers are checked through the iterator streams, lookups cover the 8 keys of the alphabet")
	r.Assume("badger only: if the sub-process probe shows that Write after Reset kills the process, that order is reported once and disabled in the in-process search")
	removeScratch(false)
	r.Assume("disk backends run on tmpfs (/dev/shm); durability across crashes is not part of this property (close is orderly)")
	r.Finish()
}
