package main

import (
	"strings"
	"sync"
)

// canon gives a finding its canonical root-cause key. Shapes that have been analysed and reproduced
// against the unchanged repository ("understood deviations") get a backend-independent or store-level
// key and are soft: they are reported as violations with their replay, but the search continues past
// them. Everything else is keyed <backend>:<observation>:<class>[:shape] and stops the branch.
func (in *inst) canon(f *finding) {
	be := in.c.be
	emptyK := len(f.s) == 0
	endsFF := func(b []byte) bool { return len(b) > 0 && b[len(b)-1] == 0xff }

	switch {
	// U1. cpIncr(prefix) keeps the length of a 0xFF-terminated prefix ("a\xff" -> "b\x00"), which lies
	// beyond keys such as "b": IteratePrefix yields keys that do not carry the prefix. Every backend.
	case f.obs == "IteratePrefix" && endsFF(f.s) && f.class == "yields-key-outside-domain":
		f.key, f.soft = "IteratePrefix:prefix-ends-in-0xff:yields-key-after-prefix-range", true
		return
	// U2. same root cause inside prefixDB.ReverseIterator(nil, ..): it starts at cpIncr(prefix) and gives
	// up at the first foreign key between the prefix range and that bound.
	case be.view != nil && endsFF(be.view) && f.obs == "ReverseIterator" && f.s == nil && f.class == "misses-key":
		f.key, f.soft = "prefixdb:view-prefix-ends-in-0xff:ReverseIterator(nil,..):misses-keys", true
		return
	// U3. badger rejects the empty key: Set/Put swallow ErrEmptyKey (handled in step), Get and Has panic.
	case be.base == "badger" && be.view == nil && emptyK && (f.obs == "Get" || f.obs == "Has") && f.class == "panic":
		f.key, f.soft = "badger:empty-key:Get-Has-Delete-panic", true
		return
	// U6. badger's Iterator.Seek treats an empty key as "rewind": ReverseIterator([]byte{}, end) starts at
	// the LAST key instead of yielding nothing (no key is <= "").
	case be.base == "badger" && be.view == nil && f.obs == "ReverseIterator" && f.s != nil && len(f.s) == 0 && f.class == "yields-key-outside-domain":
		f.key, f.soft = "badger:ReverseIterator:empty-non-nil-start:starts-at-last-key", true
		return
	// U4. GoLevelDB.Exist tests `value != nil`; goleveldb returns a non-nil empty slice together with
	// ErrNotFound when it finds a tombstone in the memtable, so a deleted key "exists".
	case be.base == "goleveldb" && f.obs == "Exist" && f.class == "absent-key-found" && in.mo.tomb[string(f.s)]:
		f.key, f.soft = "goleveldb:Exist:true-for-deleted-key", true
		return
	// U5. FSDB writes with O_CREATE|O_WRONLY but without O_TRUNC: a shorter value over a longer one keeps
	// the tail of the old value ("22" then "1" reads "12").
	case be.base == "fsdb" && f.class == "wrong-value" && staleTail(f.got, f.want):
		f.key, f.soft = "fsdb:overwrite-with-shorter-value-keeps-old-tail", true
		return
	}

	shape := ""
	if (f.obs == "NewIteratorWithPrefix" || f.obs == "IteratePrefix") && endsFF(f.s) {
		shape = ":prefix-ends-in-0xff"
	}
	tail := f.obs + ":" + f.class + shape
	if f.obs == "IteratePrefix" {
		// a helper on top of DB.Iterator, the same for every store (Iterator itself is compared first)
		f.key = tail
		return
	}
	if be.view == nil {
		f.key = be.base + ":" + tail
		plainKeys.Store(f.key, true)
		return
	}
	// a view inherits the defects of the store below it: if the plain store (searched earlier) showed the
	// same observation/class, this is the same root cause; otherwise it is the view's own. Views with a
	// 0xFF-terminated prefix are searched after the plain-prefix views and only get a key of their own for
	// what those did not show.
	if _, ok := plainKeys.Load(be.base + ":" + tail); ok {
		f.key = be.base + ":" + tail
		return
	}
	if !endsFF(be.view) {
		f.key = "prefixdb:" + tail
		plainKeys.Store(f.key, true)
		return
	}
	if _, ok := plainKeys.Load("prefixdb:" + tail); ok {
		f.key = "prefixdb:" + tail
		return
	}
	f.key = "prefixdb:view-prefix-ends-in-0xff:" + tail
}

// keys produced by earlier searches (plain stores run before views of them, plain prefixes before 0xFF ones)
var plainKeys sync.Map

// every differing entry is the wanted value followed by leftover bytes
func staleTail(got, want []kv) bool {
	if len(got) != len(want) {
		return false
	}
	for i := range got {
		if got[i].k != want[i].k {
			return false
		}
		if got[i].v != want[i].v && !(len(got[i].v) > len(want[i].v) && strings.HasPrefix(got[i].v, want[i].v)) {
			return false
		}
	}
	return true
}
