package main

// Node-size boundary sweep. A trie node is embedded in its parent when its encoding is shorter than a hash (< 32 bytes) and
// referenced by hash otherwise; hashing, committing, loading, proving and proof verification each decide that on their own.
// The searches of main.go use three values (1, 1 and 40 bytes), so no node of theirs is ever exactly 31, 32 or 33 bytes long.
// This phase enumerates two shape families whose node sizes sweep across the boundary and checks, for every content, the
// whole observable surface: root independent of insertion order and of commit+reload, reads, iteration, and genuine
// membership / absence proofs from the live and from the reloaded trie.

import (
	"bytes"
	"fmt"
	"sort"
	"sync"

	"verif/vk"

	"github.com/lianxiangcloud/linkchain/libs/common"
	"github.com/lianxiangcloud/linkchain/libs/crypto"
	dbm "github.com/lianxiangcloud/linkchain/libs/db"
	"github.com/lianxiangcloud/linkchain/libs/trie"
)

type sizeCase struct {
	name   string
	m      content
	probes [][]byte // absent keys to prove absence of
}

func sizeCases(quick bool) []sizeCase {
	var out []sizeCase
	// family L: two leaves under the root branch; leaf encoding = 1 + (1 + kl) + (1 + vl) for kl < 55 (vl = 1: value byte < 0x80
	// would be 1 byte; the values used are >= 0x80 or longer, see val())
	maxKl, maxVl := 12, 40
	for kl := 1; kl <= maxKl; kl++ {
		for vl := 0; vl <= maxVl; vl++ {
			if vl == 0 {
				continue // an empty value is a deletion
			}
			k1 := append([]byte{'a'}, bytes.Repeat([]byte{'k'}, kl-1)...)
			k2 := append([]byte{'z'}, bytes.Repeat([]byte{'k'}, kl-1)...)
			m := content{string(k1): string(val(vl, 0)), string(k2): string(val(vl, 1))}
			abs1 := append([]byte{}, k1...)
			abs1[len(abs1)-1] ^= 0x01 // same path until the last nibble
			abs2 := append([]byte{'a' ^ 0x01}, k1[1:]...)
			out = append(out, sizeCase{fmt.Sprintf("leaf-under-branch/keylen%d/vallen%d", kl, vl), m, [][]byte{abs1, abs2, []byte("m")}})
		}
	}
	// family B: an extension over a branch of n embedded leaves (key remainder 1 nibble, value vl bytes), next to another
	// key so that the extension is not the root
	for n := 1; n <= 16; n++ {
		for vl := 1; vl <= 6; vl++ {
			for _, pl := range []int{1, 3, 6} {
				m := content{"zz": "other"}
				prefix := bytes.Repeat([]byte{'p'}, pl)
				for i := 0; i < n; i++ {
					k := append(append([]byte{}, prefix...), byte(i<<4|0x5))
					m[string(k)] = string(val(vl, i))
				}
				abs := append(append([]byte{}, prefix...), byte(0xf<<4|0x6))
				abs2 := append(append([]byte{}, prefix...), byte(0x0<<4|0x6))
				out = append(out, sizeCase{fmt.Sprintf("branch-under-extension/leaves%d/vallen%d/prefix%d", n, vl, pl), m, [][]byte{abs, abs2, prefix}})
			}
		}
	}
	// family N: a branch of n hashed (33-byte reference) or embedded children with a value in slot 16 (key that is a prefix)
	for n := 1; n <= 4; n++ {
		for vl := 1; vl <= 34; vl++ {
			m := content{"q": string(val(vl, 9))}
			for i := 0; i < n; i++ {
				m["q"+string([]byte{byte(i<<4 | 1)})] = string(val(vl, i))
			}
			out = append(out, sizeCase{fmt.Sprintf("branch-with-value/children%d/vallen%d", n, vl), m, [][]byte{[]byte("q\xf1"), []byte("r")}})
		}
	}
	_ = quick
	return out
}

// val: a value of length l whose single-byte form is not its own encoding (>= 0x80), distinct per i.
func val(l, i int) []byte {
	b := bytes.Repeat([]byte{byte(0x90 + i%16)}, l)
	return b
}

var replayOnly string // replay mode: the one case to run

func runSizes(r *vk.Run) {
	cases := sizeCases(r.Quick())
	if replayOnly != "" {
		var one []sizeCase
		for _, c := range cases {
			if c.name == replayOnly {
				one = append(one, c)
			}
		}
		cases = one
	}
	var mu sync.Mutex
	sizes := map[int]int{} // encoded size of every proof node seen -> count
	checks := 0
	vk.ParallelFor(len(cases), func(ci int) {
		if r.Expired() {
			return
		}
		c := cases[ci]
		for _, sec := range []bool{false, true} {
			viol := func(key, what string) {
				r.Violation("node-size-boundary:"+key, fmt.Sprintf("%s (secure=%v, content %s): %s", c.name, sec, c.m, what),
					map[string]interface{}{"case": c.name, "secure": sec, "content": c.m.String()})
			}
			ks := make([]string, 0, len(c.m))
			for k := range c.m {
				ks = append(ks, k)
			}
			sort.Strings(ks)
			build := func(order []string, db *trie.Database) tr {
				t, _ := open(sec, common.EmptyHash, db, 0)
				for _, k := range order {
					t.TryUpdate([]byte(k), []byte(c.m[k]))
				}
				return t
			}
			disk := dbm.NewMemDB()
			db := trie.NewDatabase(disk)
			t := build(ks, db)
			root := t.Hash()
			rev := append([]string{}, ks...)
			for i, j := 0, len(rev)-1; i < j; i, j = i+1, j-1 {
				rev[i], rev[j] = rev[j], rev[i]
			}
			if h := build(rev, trie.NewDatabase(dbm.NewMemDB())).Hash(); h != root {
				viol("root-depends-on-insertion-order", fmt.Sprintf("ascending insertion gives %x, descending %x", root, h))
				continue
			}
			// an extra key inserted and deleted again leaves the same root (delete re-merges short nodes)
			t2 := build(ks, trie.NewDatabase(dbm.NewMemDB()))
			t2.TryUpdate([]byte("a-detour"), []byte("x"))
			t2.Hash()
			t2.TryDelete([]byte("a-detour"))
			if h := t2.Hash(); h != root {
				viol("root-depends-on-history", fmt.Sprintf("insert+delete of another key gives %x, want %x", h, root))
				continue
			}
			// commit, flush to disk, reload from the disk database
			croot, err := commit(t)
			if err != nil || croot != root {
				viol("commit-root", fmt.Sprintf("Commit() = %x, %v; Hash() was %x", croot, err, root))
				continue
			}
			if err := db.Commit(root, false); err != nil {
				viol("flush-error", err.Error())
				continue
			}
			re, err := open(sec, root, trie.NewDatabase(disk), 0)
			if err != nil {
				viol("reload-error", err.Error())
				continue
			}
			for who, x := range map[string]tr{"live": t, "reloaded": re} {
				for _, k := range ks {
					got, err := x.TryGet([]byte(k))
					if err != nil || string(got) != c.m[k] {
						viol("get:"+who, fmt.Sprintf("TryGet(%x) = %x, %v; want %x", k, got, err, c.m[k]))
					}
				}
				// iteration: exactly the content
				it := trie.NewIterator(x.NodeIterator(nil))
				n := 0
				for it.Next() {
					n++
				}
				if it.Err != nil || n != len(c.m) {
					viol("iterate:"+who, fmt.Sprintf("iterator yields %d entries (err %v), content has %d", n, it.Err, len(c.m)))
				}
				// genuine proofs: present keys and absent probes
				all := [][]byte{}
				for _, k := range ks {
					all = append(all, []byte(k))
				}
				all = append(all, c.probes...)
				for _, k := range all {
					vkey := k
					if sec {
						vkey = crypto.Keccak256(k)
					}
					pl := dbm.NewMemDB()
					if err := x.Prove(vkey, 0, pl); err != nil {
						viol("prove-error:"+who, fmt.Sprintf("Prove(%x): %v", k, err))
						continue
					}
					mu.Lock()
					checks++
					for _, nk := range pl.Keys() {
						sizes[len(pl.Get(nk))]++
					}
					mu.Unlock()
					v, _, err := trie.VerifyProof(root, vkey, pl)
					want, present := c.m[string(k)]
					switch {
					case err != nil:
						viol("genuine-proof-rejected:"+who, fmt.Sprintf("proof for key %x (present=%v) built by Prove does not verify: %v", k, present, err))
					case present && string(v) != want:
						viol("proof-wrong-value:"+who, fmt.Sprintf("proof for %x yields %x, want %x", k, v, want))
					case !present && v != nil:
						viol("proof-absent-yields-value:"+who, fmt.Sprintf("absence proof for %x yields %x", k, v))
					}
				}
			}
		}
	})
	if r.Expired() {
		r.Capped("node-size boundary sweep hit the deadline")
	}
	// non-vacuity: the sweep is only worth its name if proof nodes of exactly 31.., 32 and 33 bytes occurred
	for _, s := range []int{32, 33} {
		if sizes[s] == 0 && !r.Expired() && replayOnly == "" {
			vk.Fatalf("node-size sweep: no proof node of %d bytes was produced (sizes seen: %v)", s, sizes)
		}
	}
	r.Set("size_sweep_cases", len(cases)*2)
	r.Set("size_sweep_proofs", checks)
	r.Set("size_sweep_proof_nodes_of_32_bytes", sizes[32])
	r.Set("size_sweep_proof_nodes_of_33_bytes", sizes[33])
}
