// C10 — the trie root is a canonical commitment and its proofs are sound.
//
// Explicit-state search (engine opx) over operation sequences of the REAL libs/trie Trie / SecureTrie /
// Database against a plain-map reference model, followed by exhaustive permutation and proof-tamper
// enumeration over every content reached.
package main

import (
	"bytes"
	"encoding/hex"
	"fmt"
	"sort"
	"strings"
	"sync"

	"verif/kv"
	"verif/vk"

	"github.com/lianxiangcloud/linkchain/libs/common"
	"github.com/lianxiangcloud/linkchain/libs/crypto"
	dbm "github.com/lianxiangcloud/linkchain/libs/db"
	"github.com/lianxiangcloud/linkchain/libs/log"
	"github.com/lianxiangcloud/linkchain/libs/trie"
)

// ---- the common face of Trie and SecureTrie ----

type tr interface {
	TryGet(key []byte) ([]byte, error)
	TryUpdate(key, value []byte) error
	TryDelete(key []byte) error
	Hash() common.Hash
	NodeIterator(start []byte) trie.NodeIterator
	Prove(key []byte, fromLevel uint, proofDb dbm.Putter) error
}

type plain struct{ *trie.Trie }
type secure struct{ *trie.SecureTrie }

func commit(t tr) (common.Hash, error) {
	switch x := t.(type) {
	case plain:
		return x.Trie.Commit(nil)
	case secure:
		return x.SecureTrie.Commit(nil, 0)
	}
	panic("unreachable")
}

func open(sec bool, root common.Hash, db *trie.Database, limit uint16) (tr, error) {
	if sec {
		t, err := trie.NewSecure(root, db, limit)
		if err != nil {
			return nil, err
		}
		return secure{t}, nil
	}
	t, err := trie.New(root, db)
	if err != nil {
		return nil, err
	}
	t.SetCacheLimit(limit)
	return plain{t}, nil
}

// ---- alphabet ----

var (
	k32a = append(bytes.Repeat([]byte{0x11}, 31), 0x01)
	k32b = append(bytes.Repeat([]byte{0x11}, 31), 0x02)
	k33  = append(bytes.Repeat([]byte{0x11}, 32), 0x03)
	long = bytes.Repeat([]byte{0xab}, 40)
)

type cfg struct {
	sec   bool
	limit uint16
	keys  [][]byte
	vals  [][]byte
	bulk  bool // the alphabet also has the bulk letter
	pre   []op // start state: these operations are applied first (not counted in the depth)
}

type opKind int

const (
	opUpdate opKind = iota
	opDelete
	opHash
	opCommit
	opFlush
	opCap
	opDeref
	opReopen
	opReopenDisk
	opCopy
	opReadAll // TryGet of every alphabet key as an operation of its own: a lookup resolves and re-links cached nodes, so WHEN it
	// happens relative to Hash and Commit matters (the oracle's reads at the end of a history come after everything else)
	opBulk // macro: one step inserts bulkN filler keys with bulkLen-byte values (more node data than one write batch holds)
)

// The trie database flushes its write batch whenever it reaches libs/db.IdealBatchSize (100 KiB) and the caches have
// size thresholds of their own: a bounded alphabet of small values never crosses them, the bulk letter does.
const (
	bulkN   = 48
	bulkLen = 4096
	bulkTag = "\xf0bulk"
)

func bulkKey(i int) []byte { return []byte(fmt.Sprintf("%s%02x-%d", bulkTag, (i*37)%256, i)) }
func bulkVal(i int) []byte { return bytes.Repeat([]byte{byte(0x40 + i%50)}, bulkLen) }
func isBulk(k string) bool { return strings.HasPrefix(k, bulkTag) }

type op struct {
	kind opKind
	k, v int
}

func (c *cfg) ops() []op {
	var out []op
	for k := range c.keys {
		for v := range c.vals {
			out = append(out, op{opUpdate, k, v})
		}
	}
	for k := range c.keys {
		out = append(out, op{opDelete, k, 0})
	}
	out = append(out, op{kind: opReadAll}, op{kind: opHash}, op{kind: opCommit}, op{kind: opFlush}, op{kind: opReopen}, op{kind: opReopenDisk}, op{kind: opCap}, op{kind: opDeref})
	if c.sec {
		out = append(out, op{kind: opCopy})
	}
	if c.bulk {
		out = append(out, op{kind: opBulk})
	}
	return out
}

func (c *cfg) opName(o op) string {
	kn := func(k int) string { return fmt.Sprintf("%q", c.keys[k]) }
	switch o.kind {
	case opUpdate:
		return fmt.Sprintf("Update(%s,len%d:%x)", kn(o.k), len(c.vals[o.v]), c.vals[o.v][:1])
	case opDelete:
		return "Delete(" + kn(o.k) + ")"
	case opHash:
		return "Hash"
	case opReadAll:
		return "TryGet(every key)"
	case opCommit:
		return "Trie.Commit+Reference"
	case opFlush:
		return "Database.Commit(lastRoot)"
	case opCap:
		return "Database.Cap(0)"
	case opDeref:
		return "Dereference(oldestRoot)"
	case opReopen:
		return "Reopen(lastCommittedRoot)"
	case opReopenDisk:
		return "ReopenFromDisk(lastFlushedRoot)"
	case opCopy:
		return "Copy(continue on copy, keep original)"
	case opBulk:
		return fmt.Sprintf("BulkUpdate(%d filler keys x %d-byte values)", bulkN, bulkLen)
	}
	return "?"
}

// ---- reference model ----

type content map[string]string

func (m content) clone() content {
	n := content{}
	for k, v := range m {
		n[k] = v
	}
	return n
}

func (m content) String() string {
	ks := make([]string, 0, len(m))
	for k := range m {
		ks = append(ks, k)
	}
	sort.Strings(ks)
	var b strings.Builder
	nb := 0
	for _, k := range ks {
		if isBulk(k) {
			nb++ // the fillers are always written together with fixed values: their number identifies them
			continue
		}
		fmt.Fprintf(&b, "%x=%x;", k, m[k])
	}
	if nb > 0 {
		fmt.Fprintf(&b, "+%d-fillers;", nb)
	}
	return b.String()
}

// rootOf: root of a fresh trie holding exactly m, inserted in sorted key order. Cached per content.
var rootCache sync.Map

func rootOf(sec bool, m content) common.Hash {
	ck := fmt.Sprintf("%v|%s", sec, m.String())
	if v, ok := rootCache.Load(ck); ok {
		return v.(common.Hash)
	}
	t, _ := open(sec, common.EmptyHash, trie.NewDatabase(dbm.NewMemDB()), 0)
	ks := make([]string, 0, len(m))
	for k := range m {
		ks = append(ks, k)
	}
	sort.Strings(ks)
	for _, k := range ks {
		t.TryUpdate([]byte(k), []byte(m[k]))
	}
	h := t.Hash()
	rootCache.Store(ck, h)
	return h
}

// injectivity: root -> content string over everything enumerated in this run
var rootOwner sync.Map // (secure?, root) -> content

type copyRec struct {
	t tr
	m content
}

type inst struct {
	c        *cfg
	disk     *kv.CopyDB
	db       *trie.Database
	t        tr
	m        content // live content
	com      content // content at last Trie.Commit (nil = never)
	comRoot  common.Hash
	fl       content // content at last Database.Commit flush (nil = never)
	flRoot   common.Hash
	refs     []common.Hash
	commits  int
	hashed   bool
	copies   []copyRec
	capped   bool
	derefs   int
	reopened int
	read     bool // a lookup pass ran since the last write / commit / reopen
	soft     [][2]string
}

func newInst(c *cfg) *inst {
	disk := kv.NewCopyDB()
	db := trie.NewDatabase(disk)
	t, err := open(c.sec, common.EmptyHash, db, c.limit)
	if err != nil {
		panic(err)
	}
	return &inst{c: c, disk: disk, db: db, t: t, m: content{}}
}

// apply returns (enabled, violationKey, what)
func (in *inst) apply(o op) (bool, string, string) {
	c := in.c
	switch o.kind {
	case opUpdate, opDelete, opBulk, opCommit, opReopen, opReopenDisk, opCopy:
		in.read = false // the lookup pass is remembered until the next write, commit or change of trie object
	}
	switch o.kind {
	case opUpdate:
		if err := in.t.TryUpdate(c.keys[o.k], c.vals[o.v]); err != nil {
			return true, "update-error", err.Error()
		}
		in.m[string(c.keys[o.k])] = string(c.vals[o.v])
		in.hashed = false
	case opDelete:
		if err := in.t.TryDelete(c.keys[o.k]); err != nil {
			return true, "delete-error", err.Error()
		}
		delete(in.m, string(c.keys[o.k]))
		in.hashed = false
	case opHash:
		in.t.Hash()
		in.hashed = true
	case opReadAll:
		if in.read {
			return false, "", ""
		}
		if k, w := checkReads(c, in.t, in.m, "read-operation"); k != "" {
			return true, k, w
		}
		in.read = true
	case opCommit:
		root, err := commit(in.t)
		if err != nil {
			return true, "commit-error", err.Error()
		}
		in.com, in.comRoot = in.m.clone(), root
		if root != rootOf(c.sec, content{}) {
			in.db.Reference(root, common.EmptyHash)
			in.refs = append(in.refs, root)
		}
		if in.commits < 3 {
			in.commits++
		}
		in.hashed = true
	case opFlush:
		if in.com == nil || len(in.com) == 0 {
			return false, "", ""
		}
		if err := in.db.Commit(in.comRoot, false); err != nil {
			return true, "flush-error", err.Error()
		}
		in.fl, in.flRoot = in.com.clone(), in.comRoot
	case opCap:
		if in.com == nil {
			return false, "", ""
		}
		if err := in.db.Cap(0); err != nil {
			return true, "cap-error", err.Error()
		}
		in.capped = true
		// everything committed so far is on disk now
		in.fl, in.flRoot = in.com.clone(), in.comRoot
	case opDeref:
		// the GC pattern: drop the oldest pinned root once a newer one is pinned. Copies that still
		// read through older roots are released first (they would legitimately lose their nodes).
		// A root pinned twice (two commits with the same content, or a change that was undone) is counted twice: one
		// release leaves it pinned, so it may be released even while it is the current root.
		if len(in.refs) < 2 {
			return false, "", ""
		}
		heldAgain := false
		for _, r := range in.refs[1:] {
			if r == in.refs[0] {
				heldAgain = true
			}
		}
		if in.refs[0] == in.comRoot && !heldAgain {
			return false, "", ""
		}
		in.copies = nil
		in.db.Dereference(in.refs[0])
		in.refs = in.refs[1:]
		if in.derefs < 2 {
			in.derefs++
		}
	case opReopen:
		if in.com == nil {
			return false, "", ""
		}
		t, err := open(c.sec, in.comRoot, in.db, c.limit)
		if err != nil {
			return true, "reopen-error", "reopen at last committed root: " + err.Error()
		}
		in.t, in.m = t, in.com.clone()
		in.hashed = true
		in.copies = nil
		if in.reopened < 1 {
			in.reopened++
		}
	case opReopenDisk:
		if in.fl == nil {
			return false, "", ""
		}
		db := trie.NewDatabase(in.disk)
		t, err := open(c.sec, in.flRoot, db, c.limit)
		if err != nil {
			return true, "reopen-disk-error", "reopen from disk at last flushed root: " + err.Error()
		}
		in.db, in.t, in.m = db, t, in.fl.clone()
		in.com, in.comRoot = in.fl.clone(), in.flRoot
		in.refs = nil
		in.hashed = true
		in.copies = nil
		if in.reopened < 1 {
			in.reopened++
		}
	case opBulk:
		if _, ok := in.m[string(bulkKey(0))]; ok {
			return false, "", "" // already present: no change
		}
		for i := 0; i < bulkN; i++ {
			if err := in.t.TryUpdate(bulkKey(i), bulkVal(i)); err != nil {
				return true, "update-error", err.Error()
			}
			in.m[string(bulkKey(i))] = string(bulkVal(i))
		}
		in.hashed = false
	case opCopy:
		if len(in.copies) >= 1 {
			return false, "", ""
		}
		st := in.t.(secure)
		in.copies = append(in.copies, copyRec{in.t, in.m.clone()})
		in.t = secure{st.SecureTrie.Copy()}
	}
	return true, "", ""
}

func checkReads(c *cfg, t tr, m content, who string) (string, string) {
	keys := c.keys
	if _, ok := m[string(bulkKey(0))]; ok {
		keys = append([][]byte{}, c.keys...)
		for i := 0; i < bulkN; i++ {
			keys = append(keys, bulkKey(i))
		}
	}
	for _, k := range keys {
		got, err := t.TryGet(k)
		if err != nil {
			return "get-error:" + who, fmt.Sprintf("TryGet(%q): %v", k, err)
		}
		want, ok := m[string(k)]
		if !ok && got != nil {
			return "get-stale:" + who, fmt.Sprintf("TryGet(%q) = %x, want absent", k, got)
		}
		if ok && string(got) != want {
			return "get-wrong:" + who, fmt.Sprintf("TryGet(%q) = %x, want %x", k, got, want)
		}
	}
	return "", ""
}

func (in *inst) check() (string, string) {
	c := in.c
	in.soft = nil
	if k, w := checkReads(c, in.t, in.m, "live"); k != "" {
		return k, w
	}
	for _, cp := range in.copies {
		if k, w := checkReads(c, cp.t, cp.m, "copy-original"); k != "" {
			return k, w
		}
		if cp.t.Hash() != rootOf(c.sec, cp.m) {
			return "root-noncanonical:copy-original", "root of the instance a copy was taken from changed"
		}
	}
	h := in.t.Hash()
	if want := rootOf(c.sec, in.m); h != want {
		return "root-noncanonical", fmt.Sprintf("Hash()=%x but a fresh trie with the same content %s has root %x", h, in.m, want)
	}
	cs := fmt.Sprintf("%v|%s", c.sec, in.m.String())
	if prev, loaded := rootOwner.LoadOrStore(fmt.Sprintf("%v|%x", c.sec, h), cs); loaded && prev.(string) != cs {
		return "root-collision", fmt.Sprintf("contents %s and %s share root %x", prev, cs, h)
	}
	// reads again after hashing (hashing replaces the root by its cached form)
	if k, w := checkReads(c, in.t, in.m, "after-hash"); k != "" {
		return k, w
	}
	// iteration: exactly the content, in key order of the stored (possibly hashed) keys
	it := trie.NewIterator(in.t.NodeIterator(nil))
	var prev []byte
	n := 0
	exp := content{}
	for k, v := range in.m {
		sk := k
		if c.sec {
			sk = string(crypto.Keccak256([]byte(k)))
		}
		exp[sk] = v
	}
	for it.Next() {
		if prev != nil && bytes.Compare(prev, it.Key) >= 0 {
			if len(it.Key) < len(prev) && bytes.HasPrefix(prev, it.Key) {
				// the specific shape: a key that is a proper prefix of the previously yielded key
				if len(in.soft) == 0 {
					in.soft = append(in.soft, [2]string{"iter-order:prefix-key-after-its-extension", fmt.Sprintf("iterator yields key %x after its extension %x", it.Key, prev)})
				}
			} else {
				return "iter-order", fmt.Sprintf("iterator key %x after %x", it.Key, prev)
			}
		}
		prev = append([]byte{}, it.Key...)
		want, ok := exp[string(it.Key)]
		if !ok || want != string(it.Value) {
			return "iter-content", fmt.Sprintf("iterator yields %x=%x not in content", it.Key, it.Value)
		}
		n++
	}
	if it.Err != nil {
		return "iter-error", it.Err.Error()
	}
	if n != len(exp) {
		return "iter-missing", fmt.Sprintf("iterator yields %d entries, content has %d", n, len(exp))
	}
	// proofs of every alphabet key
	if len(in.m) > 0 {
		for _, k := range c.keys {
			pl := dbm.NewMemDB()
			vkey := k
			if c.sec {
				// SecureTrie.Prove takes the already hashed key (geth convention)
				vkey = crypto.Keccak256(k)
			}
			if err := in.t.Prove(vkey, 0, pl); err != nil {
				return "prove-error", err.Error()
			}
			val, _, err := trie.VerifyProof(h, vkey, pl)
			want, ok := in.m[string(k)]
			if err != nil {
				return "proof-rejected", fmt.Sprintf("genuine proof for %q rejected: %v", k, err)
			}
			if ok && string(val) != want {
				return "proof-wrong-value", fmt.Sprintf("proof for %q yields %x want %x", k, val, want)
			}
			if !ok && val != nil {
				return "proof-absent-yields-value", fmt.Sprintf("absence proof for %q yields %x", k, val)
			}
		}
	}
	return "", ""
}

func (in *inst) key() string {
	cs := func(m content) string {
		if m == nil {
			return "-"
		}
		return m.String()
	}
	nc := 0
	if len(in.copies) > 0 {
		nc = 1
	}
	nr := len(in.refs)
	if nr > 2 {
		nr = 2
	}
	return fmt.Sprintf("%s|%s|%s|g%d|h%v|c%d|r%d|cap%v|d%d|ro%d|rd%v", cs(in.m), cs(in.com), cs(in.fl), in.commits, in.hashed, nc, nr, in.capped, in.derefs, in.reopened, in.read)
}

// contents reached, for the permutation and tamper phases
var reached sync.Map

func runSearch(r *vk.Run, c *cfg, name string, depth, maxState int) vk.Result {
	ops := c.ops()
	spec := vk.Spec{
		Name:     name,
		NumOps:   len(ops),
		OpName:   func(i int) string { return c.opName(ops[i]) },
		Depth:    depth,
		MaxState: maxState,
		Exec: func(hist []int) (out vk.Outcome) {
			in := newInst(c)
			defer func() {
				if e := recover(); e != nil {
					out = vk.Outcome{Err: "panic", What: fmt.Sprint(e)}
				}
			}()
			for _, o := range c.pre {
				if en, k, w := in.apply(o); !en || k != "" {
					if len(hist) == 0 {
						return vk.Outcome{Err: "start-state:" + k, What: fmt.Sprintf("start state: %s: enabled=%v %s", c.opName(o), en, w)}
					}
					return vk.Outcome{}
				}
			}
			for i, oi := range hist {
				en, k, w := in.apply(ops[oi])
				if !en {
					return vk.Outcome{} // disabled op: terminal, not a state
				}
				if k != "" {
					if i == len(hist)-1 {
						return vk.Outcome{Err: k, What: w}
					}
					return vk.Outcome{}
				}
			}
			if k, w := in.check(); k != "" {
				return vk.Outcome{Err: k, What: w}
			}
			if len(in.m) <= 6 {
				if _, ok := in.m[string(bulkKey(0))]; !ok {
					reached.Store(fmt.Sprintf("%v|%s", c.sec, in.m.String()), in.m.clone())
				}
			}
			return vk.Outcome{Key: in.key(), Soft: in.soft}
		},
	}
	return r.Explore(spec)
}

func main() {
	log.Root().SetHandler(log.DiscardHandler())
	r := vk.Start("C10", "model_checking")
	baseKeys := [][]byte{[]byte("a"), []byte("ab"), []byte("abc"), []byte("abd"), []byte("b"), k32a, k32b}
	allKeys := append(append([][]byte{}, baseKeys...), []byte(""), k33)
	vals := [][]byte{[]byte("v"), long, []byte("w")}
	type run struct {
		name  string
		c     cfg
		depth int
	}
	// keys: 2 = "abc", 3 = "abd", 4 = "b"; values: 0 = "v", 1 = 40 bytes
	reloaded2 := []op{{opUpdate, 2, 1}, {opUpdate, 3, 1}, {kind: opCommit}, {kind: opReopen}}
	reloaded3 := []op{{opUpdate, 2, 1}, {opUpdate, 3, 1}, {opUpdate, 4, 0}, {kind: opCommit}, {kind: opReopen}}
	var runs []run
	if r.Quick() {
		runs = []run{
			{"plain/limit0", cfg{sec: false, limit: 0, keys: baseKeys[:6], vals: vals[:2], bulk: false}, 5},
			{"plain/limit1", cfg{sec: false, limit: 1, keys: baseKeys[:6], vals: vals[:2], bulk: false}, 5},
			{"secure/limit1", cfg{sec: true, limit: 1, keys: baseKeys[:4], vals: vals[:2], bulk: false}, 5},
			{"plain/limit0/bulk", cfg{sec: false, limit: 0, keys: baseKeys[:3], vals: vals[:1], bulk: true}, 5},
			{"secure/limit1/bulk", cfg{sec: true, limit: 1, keys: baseKeys[:2], vals: vals[:1], bulk: true}, 5},
			// start states: a committed trie whose interior nodes are hash references after the reload (long values), so that
			// the next write splits or collapses nodes AROUND unresolved references
			{"plain/limit0/reloaded{abc,abd}", cfg{sec: false, limit: 0, keys: baseKeys[:6], vals: vals[:2], pre: reloaded2}, 4},
			{"plain/limit1/reloaded{abc,abd,b}", cfg{sec: false, limit: 1, keys: baseKeys[:6], vals: vals[:2], pre: reloaded3}, 4},
		}
	} else {
		runs = []run{
			{"plain/limit0", cfg{sec: false, limit: 0, keys: allKeys, vals: vals, bulk: false}, 5},
			{"plain/limit1", cfg{sec: false, limit: 1, keys: allKeys, vals: vals, bulk: false}, 5},
			{"secure/limit0", cfg{sec: true, limit: 0, keys: baseKeys, vals: vals, bulk: false}, 5},
			{"secure/limit1", cfg{sec: true, limit: 1, keys: baseKeys, vals: vals, bulk: false}, 5},
			{"plain/limit0/bulk", cfg{sec: false, limit: 0, keys: baseKeys[:4], vals: vals[:2], bulk: true}, 6},
			{"plain/limit1/bulk", cfg{sec: false, limit: 1, keys: baseKeys[:4], vals: vals[:2], bulk: true}, 6},
			{"secure/limit1/bulk", cfg{sec: true, limit: 1, keys: baseKeys[:3], vals: vals[:1], bulk: true}, 6},
			{"plain/limit0/reloaded{abc,abd}", cfg{sec: false, limit: 0, keys: baseKeys[:6], vals: vals[:2], pre: reloaded2}, 5},
			{"plain/limit1/reloaded{abc,abd}", cfg{sec: false, limit: 1, keys: baseKeys[:6], vals: vals[:2], pre: reloaded2}, 5},
			{"plain/limit0/reloaded{abc,abd,b}", cfg{sec: false, limit: 0, keys: baseKeys[:6], vals: vals[:2], pre: reloaded3}, 5},
			{"plain/limit1/reloaded{abc,abd,b}", cfg{sec: false, limit: 1, keys: baseKeys[:6], vals: vals[:2], pre: reloaded3}, 5},
			{"secure/limit1/reloaded{abc,abd,b}", cfg{sec: true, limit: 1, keys: baseKeys[:6], vals: vals[:2], pre: reloaded3}, 5},
		}
	}
	states, trans := 0, 0
	var per []interface{}
	for i := range runs {
		res := runSearch(r, &runs[i].c, runs[i].name, runs[i].depth, 0)
		states += res.States
		trans += res.Transitions
		per = append(per, map[string]interface{}{"search": runs[i].name, "states": res.States, "transitions": res.Transitions,
			"depth_completed": res.DepthCompleted, "per_depth": res.PerDepth, "alphabet": len(runs[i].c.ops())})
	}
	r.Set("searches", per)
	r.Set("states", states)
	r.Set("transitions", trans)
	if r.ReplayPath != "" {
		var rp struct {
			Case string `json:"case"`
		}
		r.LoadReplay(&rp)
		if rp.Case != "" {
			replayOnly = rp.Case
			runSizes(r)
		}
		r.Finish()
	}
	runSizes(r)

	// phase 2: all insertion permutations of every reached content (<= 6 keys) give one root;
	// phase 3: proof tampering for every reached content and every alphabet key.
	var contents []content
	var secs []bool
	reached.Range(func(k, v interface{}) bool {
		contents = append(contents, v.(content))
		secs = append(secs, strings.HasPrefix(k.(string), "true"))
		return true
	})
	// deterministic order
	idx := make([]int, len(contents))
	for i := range idx {
		idx[i] = i
	}
	sort.Slice(idx, func(a, b int) bool {
		sa, sb := fmt.Sprintf("%v|%s", secs[idx[a]], contents[idx[a]]), fmt.Sprintf("%v|%s", secs[idx[b]], contents[idx[b]])
		return sa < sb
	})
	var perms, tampers int64
	var mu sync.Mutex
	// pool of foreign nodes for substitution tampers
	var foreign [][]byte
	for _, i := range idx[:min(len(idx), 40)] {
		m := contents[i]
		t, _ := open(secs[i], common.EmptyHash, trie.NewDatabase(dbm.NewMemDB()), 0)
		for k, v := range m {
			t.TryUpdate([]byte(k), []byte(v))
		}
		for k := range m {
			pl := dbm.NewMemDB()
			t.Prove([]byte(k), 0, pl)
			for _, nk := range pl.Keys() {
				foreign = append(foreign, pl.Get(nk))
			}
		}
	}
	vk.ParallelFor(len(idx), func(j int) {
		if r.Expired() {
			return
		}
		i := idx[j]
		m, sec := contents[i], secs[i]
		want := rootOf(sec, m)
		ks := make([]string, 0, len(m))
		for k := range m {
			ks = append(ks, k)
		}
		sort.Strings(ks)
		np := 0
		vk.Permutations(len(ks), func(p []int) bool {
			t, _ := open(sec, common.EmptyHash, trie.NewDatabase(dbm.NewMemDB()), 0)
			for _, pi := range p {
				t.TryUpdate([]byte(ks[pi]), []byte(m[ks[pi]]))
			}
			np++
			if t.Hash() != want {
				order := []string{}
				for _, pi := range p {
					order = append(order, hex.EncodeToString([]byte(ks[pi])))
				}
				r.Violation("root-depends-on-insertion-order", fmt.Sprintf("content %s inserted in order %v gives a different root", m, order), map[string]interface{}{"content": m.String(), "order": order, "secure": sec})
				return false
			}
			return true
		})
		// tamper
		t, _ := open(sec, common.EmptyHash, trie.NewDatabase(dbm.NewMemDB()), 0)
		for _, k := range ks {
			t.TryUpdate([]byte(k), []byte(m[k]))
		}
		nt := 0
		if len(m) > 0 {
			for _, k := range allKeys {
				pl := dbm.NewMemDB()
				vkey := k
				if sec {
					vkey = crypto.Keccak256(k)
				}
				t.Prove(vkey, 0, pl)
				var nodes [][]byte
				for _, nk := range pl.Keys() {
					nodes = append(nodes, pl.Get(nk))
				}
				wantV, present := m[string(k)]
				try := func(kind string, set [][]byte) {
					nt++
					pdb := dbm.NewMemDB()
					for _, n := range set {
						pdb.Put(crypto.Keccak256(n), n)
					}
					var val []byte
					var err error
					if p, pv := vk.Catch(func() { val, _, err = trie.VerifyProof(want, vkey, pdb) }); p {
						r.Violation("verifyproof-panic:"+kind, fmt.Sprintf("VerifyProof panics on tampered proof: %v", pv), map[string]interface{}{"content": m.String(), "key": hex.EncodeToString(k), "tamper": kind})
						return
					}
					if err != nil {
						return
					}
					if present && string(val) == wantV {
						return
					}
					if !present && val == nil {
						return
					}
					r.Violation("tampered-proof-accepted:"+kind, fmt.Sprintf("tampered proof (%s) for key %x verifies with value %x, truth: present=%v %x", kind, k, val, present, wantV),
						map[string]interface{}{"content": m.String(), "key": hex.EncodeToString(k), "tamper": kind, "secure": sec})
				}
				for ni := range nodes {
					// drop
					try("drop", append(append([][]byte{}, nodes[:ni]...), nodes[ni+1:]...))
					// byte substitutions (re-keyed by hash, as a verifier builds its proof db)
					for off := 0; off < len(nodes[ni]); off++ {
						for _, b := range []byte{0x00, 0x01, 0x80, 0xff} {
							if nodes[ni][off] == b {
								continue
							}
							mod := append([]byte{}, nodes[ni]...)
							mod[off] = b
							set := append([][]byte{}, nodes...)
							set[ni] = mod
							try("byte", set)
						}
					}
					// truncate
					for l := 0; l < len(nodes[ni]); l += 1 + len(nodes[ni])/8 {
						set := append([][]byte{}, nodes...)
						set[ni] = nodes[ni][:l]
						try("truncate", set)
					}
					// substitute foreign nodes
					for fi := 0; fi < len(foreign); fi += 1 + len(foreign)/16 {
						set := append([][]byte{}, nodes...)
						set[ni] = foreign[fi]
						try("foreign", set)
					}
				}
			}
		}
		mu.Lock()
		perms += int64(np)
		tampers += int64(nt)
		mu.Unlock()
	})
	if r.Expired() {
		r.Capped("permutation/tamper phase hit the deadline")
	}
	r.Set("contents_reached", len(contents))
	r.Set("insertion_permutations", int(perms))
	r.Set("proof_tampers", int(tampers))
	r.Set("traces_validated_against_impl", trans)
	r.Set("evaluations", trans+int(perms)+int(tampers))
	r.Set("distinct_nontrivial", states)
	r.Set("rule", "BFS over op sequences on the real trie (state = reference content + commit/flush/cache bookkeeping); every transition executes the real code and is compared with the reference map; non-trivial = distinct canonical state")
	r.Assume("the search runs directly on the implementation; the reference model is a Go map")
	r.Assume("absence proofs against the empty trie are excluded (no node exists to prove with)")
	r.Assume("proof verifier builds its node database keyed by keccak(node), as a light client does")
	r.Finish()
}

func min(a, b int) int {
	if a < b {
		return a
	}
	return b
}
