package main

// Concurrent half (engine E2): real goroutines on the instrumented pool / application / CList under the cooperative
// scheduler (vsched); EVERY schedule with <= bound preemptions is executed. minichain allows one driving goroutine per
// process at a time (the scheduler runs one managed thread at a time, so one execution satisfies that), therefore the
// tree of schedules is sharded over worker subprocesses: round 1 runs the default schedule and returns its direct
// deviations, round 2 explores the complete subtree below each of them.

import (
	"encoding/json"
	"errors"
	"fmt"
	"io/ioutil"
	"os"
	"path/filepath"
	"sort"
	"strings"
	"time"

	"verif/minichain"
	"verif/vk"

	"github.com/lianxiangcloud/linkchain/libs/vsched"
	"github.com/lianxiangcloud/linkchain/types"
)

// ---- scenarios ---------------------------------------------------------------------------------------------------

// a thread is a sequence of actions: "add:<tx>", "commit-reaped" (Reap -> block -> commit), "commit-other:<tx>" (commit
// a block that was prepared before the threads started and does not come from the pool)
type scenario struct {
	Name    string
	Cfg     string
	Setup   []string   // AddTx / commits executed sequentially before the threads start
	Threads [][]string // thread bodies
	Bound   int
}

func scenarios(thorough bool) []scenario {
	b2 := 2
	if thorough {
		b2 = 3
	}
	all := []scenario{
		// the two submissions depend on each other (a2 follows a1, a3 is queued until a2 arrives) while the block [a1] is cut
		{Name: "chain-vs-commit", Cfg: "default", Setup: []string{"add:a1"}, Threads: [][]string{{"add:a2"}, {"add:a3"}, {"commit-reaped"}}, Bound: b2},
		// conflicting confidential spends race each other and a commit
		{Name: "double-spend-vs-commit", Cfg: "default", Setup: []string{"add:b0"}, Threads: [][]string{{"add:u1"}, {"add:u2"}, {"commit-reaped"}}, Bound: b2},
		// a block that conflicts with pool content (twin of a1, which also makes a2 unaffordable) is committed while the chain is extended
		{Name: "conflicting-block", Cfg: "default", Setup: []string{"add:a1", "add:a2"}, Threads: [][]string{{"add:a3"}, {"add:b0"}, {"commit-other:a1x"}}, Bound: b2},
		// full pool: submissions are queued / refused while the commit frees the slot and promotes
		{Name: "full-pool", Cfg: "s1f4q1", Setup: []string{"add:a1"}, Threads: [][]string{{"add:a2"}, {"add:b0"}, {"commit-reaped"}}, Bound: b2},
		// the same transaction submitted twice (two wire copies) and its twin, against a commit
		{Name: "duplicate-submission", Cfg: "s2f2q2", Setup: nil, Threads: [][]string{{"add:a1"}, {"add:a1", "add:a1x"}, {"commit-reaped"}}, Bound: b2},
		// queued transactions are promoted by a submission and by a commit at the same time
		{Name: "promotion-vs-commit", Cfg: "s2f2q2", Setup: []string{"add:a3", "add:a2"}, Threads: [][]string{{"add:a1"}, {"add:b0"}, {"commit-reaped"}}, Bound: b2},
		// the pooled spend's output is spent by a block from elsewhere while the conflicting spend is submitted
		{Name: "spend-committed-elsewhere", Cfg: "default", Setup: []string{"add:u1"}, Threads: [][]string{{"add:u2"}, {"add:c0"}, {"commit-other:u2"}}, Bound: b2},
	}
	if !thorough {
		return all
	}
	return append(all,
		scenario{Name: "two-commits", Cfg: "s2f2q2", Setup: []string{"add:a1", "add:a2", "add:a3"}, Threads: [][]string{{"add:b0"}, {"add:u1"}, {"commit-reaped", "commit-reaped"}}, Bound: b2},
		scenario{Name: "underfunded-after-commit", Cfg: "default", Setup: []string{"add:a1"}, Threads: [][]string{{"add:a2"}, {"add:a3", "add:b0"}, {"commit-other:a1x"}}, Bound: b2},
		scenario{Name: "four-threads", Cfg: "s2f2q2", Setup: []string{"add:a1"}, Threads: [][]string{{"add:a2"}, {"add:b0"}, {"add:u1"}, {"commit-reaped"}}, Bound: 2},
	)
}

// ---- one execution -------------------------------------------------------------------------------------------------

type chooser struct {
	prefix  []int
	choices []int
	costs   [][]int
	spent   []int
	total   int
}

func (c *chooser) choose(costs []int) int {
	i := len(c.choices)
	ch := 0
	if i < len(c.prefix) {
		ch = c.prefix[i]
		if ch >= len(costs) {
			vk.Fatalf("conc: nondeterministic replay: choice %d at point %d but only %d alternatives", ch, i, len(costs))
		}
	}
	c.spent = append(c.spent, c.total)
	c.total += costs[ch]
	c.choices = append(c.choices, ch)
	c.costs = append(c.costs, append([]int(nil), costs...))
	return ch
}

type offer struct {
	txs   types.Txs
	cs    committedState
	block *types.Block
	parts *types.PartSet
	err   error // PreRun failure
}

type execResult struct {
	Viol   [][2]string
	Final  string // canonical final state
	Points int
	Trace  []int
}

func (u *universe) txByName(n string) *txSpec {
	for i := range u.txs {
		if u.txs[i].Name == n {
			return &u.txs[i]
		}
	}
	vk.Fatalf("scenario names unknown transaction %q", n)
	return nil
}

func (u *universe) runSchedule(sc *scenario, c *chooser) execResult {
	var res execResult
	viol := func(k, w string) { res.Viol = append(res.Viol, [2]string{k, w}) }
	in := u.newInst(sc.Cfg)
	defer in.close()
	ops := u.ops()
	find := func(kind opKind, x int) op {
		for _, o := range ops {
			if o.kind == kind && o.x == x {
				return o
			}
		}
		return op{kind, x}
	}
	// sequential prefix
	for _, a := range sc.Setup {
		switch {
		case strings.HasPrefix(a, "add:"):
			in.apply(find(opAdd, u.byHash[u.txByName(a[4:]).Hash]), 0)
		case a == "commit-reaped":
			if _, k, w := in.apply(op{opCommitReaped, 0}, 0); k != "" {
				vk.Fatalf("scenario %s: setup violates: %s %s", sc.Name, k, w)
			}
		default:
			vk.Fatalf("scenario %s: unknown setup action %q", sc.Name, a)
		}
	}
	// prepared material: decoded transactions, blocks that do not come from the pool
	type action struct {
		kind  string
		tx    types.Tx
		block *types.Block
		parts *types.PartSet
	}
	var bodies [][]action
	for _, th := range sc.Threads {
		var body []action
		for _, a := range th {
			switch {
			case strings.HasPrefix(a, "add:"):
				body = append(body, action{kind: "add", tx: decodeTx(u.txByName(a[4:]).Raw)})
			case a == "commit-reaped":
				body = append(body, action{kind: "commit-reaped"})
			case strings.HasPrefix(a, "commit-other:"):
				b, parts, err := in.c.MakeBlock(types.Txs{decodeTx(u.txByName(a[13:]).Raw)})
				if err != nil {
					vk.Fatalf("scenario %s: block %s: %v", sc.Name, a, err)
				}
				body = append(body, action{kind: "commit-other", block: b, parts: parts})
			default:
				vk.Fatalf("scenario %s: unknown action %q", sc.Name, a)
			}
		}
		bodies = append(bodies, body)
	}
	// blocks committed by the threads, in commit order (a single committer thread per scenario)
	type done struct {
		block  *types.Block
		parts  *types.PartSet
		offer  bool
		before committedState
	}
	var commits []done
	s := vsched.New(func(ids []int, preempt bool) int {
		costs := make([]int, len(ids))
		if preempt {
			for i := 1; i < len(costs); i++ {
				costs[i] = 1
			}
		}
		return c.choose(costs)
	})
	for ti, body := range bodies {
		body := body
		s.Go(fmt.Sprintf("T%d", ti), func() {
			for _, a := range body {
				switch a.kind {
				case "add":
					in.c.Mempool().AddTx("", a.tx)
				case "commit-reaped":
					before := in.committedState()
					b, parts, err := in.c.MakeBlockFromMempool(0)
					if err != nil {
						if errors.Is(err, minichain.ErrPreRun) {
							viol("offered-block-does-not-execute:proposer@concurrent", fmt.Sprintf("the block built from a concurrent Reap fails in PreRunBlock: %v; offered: %s", err, in.names(b.Data.Txs)))
							return
						}
						vk.Fatalf("MakeBlockFromMempool: %v", err)
					}
					unmanaged(func() { in.c.CheckBlock(b) }) // validation on a state copy: one atomic step (cached for Commit)
					if err := in.c.Commit(b, parts); err != nil {
						viol("offered-block-does-not-execute:commit@concurrent", fmt.Sprintf("committing the block built from a concurrent Reap fails: %v; block: %s", err, in.names(b.Data.Txs)))
						return
					}
					commits = append(commits, done{b, parts, true, before})
				case "commit-other":
					unmanaged(func() { in.c.CheckBlock(a.block) })
					if err := in.c.Commit(a.block, a.parts); err != nil {
						vk.Fatalf("scenario %s: committing the prepared block fails: %v", sc.Name, err)
					}
					commits = append(commits, done{a.block, a.parts, false, committedState{}})
				}
			}
		})
	}
	s.Run(20 * time.Second)
	res.Points, res.Trace = s.Points, s.Trace
	if s.Stuck != "" && !s.Deadlock && !strings.HasPrefix(s.Stuck, "live") {
		vk.Fatalf("conc/%s: %s (schedule %v)", sc.Name, s.Stuck, s.Trace)
	}
	if s.Deadlock {
		viol("deadlock@concurrent", "submissions and commit deadlock")
		return res
	}
	if s.Stuck != "" {
		viol("livelock@concurrent", s.Stuck)
		return res
	}
	for _, t := range s.Threads() {
		if t.Panic != nil {
			viol("panic@concurrent", fmt.Sprintf("%s: %v", t.Name, strings.SplitN(fmt.Sprint(t.Panic), "\n", 2)[0]))
		}
	}
	if len(res.Viol) > 0 {
		return res
	}
	// every Reap: the offer taken while submissions were in flight satisfies the statement, and the replica accepts the block
	for _, d := range commits {
		if d.offer {
			if k, w := in.checkOffer(d.block.Data.Txs, d.before, "a Reap concurrent with submissions"); k != "" {
				viol(k+"@concurrent", w)
				return res
			}
		}
		if d.offer && !in.replicaAccepts(d.block, d.parts) {
			viol("offered-block-does-not-execute:validator@concurrent", "a replica's CheckBlock rejects the block built from a concurrent Reap: "+in.names(d.block.Data.Txs))
			return res
		}
		in.noteCommitted(d.block)
	}
	// quiescence: the whole statement
	if k, w := in.oracle(); k != "" {
		viol(k+"@quiescence", w)
		return res
	}
	res.Final = in.stateString()
	return res
}

// unmanaged runs f on a goroutine the scheduler does not own while the calling managed thread keeps the baton: f is
// one atomic step of the schedule (no scheduling points inside, goroutines it starts are plain goroutines). Only for
// code that takes no lock a parked thread can hold.
func unmanaged(f func()) {
	done := make(chan interface{}, 1)
	go func() {
		defer func() { done <- recover() }()
		f()
	}()
	if e := <-done; e != nil {
		panic(e)
	}
}

// ---- exploration of the schedule tree ------------------------------------------------------------------------------

type concCase struct {
	Scenario string
	Prefix   []int
}

type concJob struct {
	Cases   []concCase
	Subtree bool // false: run each prefix once and return its children; true: explore everything below each prefix
}

type concViolation struct {
	Key, What string
	Choices   []int
	Trace     []int
}

type concResult struct {
	Executions   int
	ChoicePoints int
	ByCost       map[int]int
	Children     [][]int
	Finals       map[string]int
	Viol         []concViolation
	MaxPoints    int
	Expired      bool
}

func children(c *chooser, from, bound int) [][]int {
	var out [][]int
	for i := from; i < len(c.choices); i++ {
		for alt := 1; alt < len(c.costs[i]); alt++ {
			if c.spent[i]+c.costs[i][alt] > bound {
				continue
			}
			child := make([]int, i+1)
			copy(child, c.choices[:i])
			child[i] = alt
			out = append(out, child)
		}
	}
	return out
}

func concWorker(r *vk.Run, job *concJob) {
	byName := map[string]*scenario{}
	need := map[string]bool{}
	for _, s := range scenarios(!r.Quick()) {
		s := s
		byName[s.Name] = &s
	}
	for _, c := range job.Cases {
		sc := byName[c.Scenario]
		if sc == nil {
			vk.Fatalf("unknown scenario %q", c.Scenario)
		}
		need[sc.Cfg] = true
	}
	var pcs []poolCfg
	for _, pc := range allCfgs {
		if need[pc.Name] {
			pcs = append(pcs, pc)
		}
	}
	u := buildUniverse(pcs)
	vk.WorkerLoop(len(job.Cases), func(i int) interface{} {
		sc := byName[job.Cases[i].Scenario]
		res := &concResult{ByCost: map[int]int{}, Finals: map[string]int{}}
		stack := [][]int{job.Cases[i].Prefix}
		for len(stack) > 0 {
			if r.Expired() {
				res.Expired = true
				break
			}
			p := stack[len(stack)-1]
			stack = stack[:len(stack)-1]
			c := &chooser{prefix: p}
			er := u.runSchedule(sc, c)
			res.Executions++
			res.ChoicePoints += len(c.choices)
			res.ByCost[c.total]++
			if er.Points > res.MaxPoints {
				res.MaxPoints = er.Points
			}
			for _, v := range er.Viol {
				res.Viol = append(res.Viol, concViolation{v[0], v[1], append([]int{}, c.choices...), er.Trace})
			}
			if er.Final != "" {
				res.Finals[hashKey(er.Final)]++
			}
			kids := children(c, len(p), sc.Bound)
			if job.Subtree {
				stack = append(stack, kids...)
			} else {
				res.Children = append(res.Children, kids...)
			}
		}
		return res
	})
}

type concStats struct {
	Name         string
	Cfg          string
	Setup        []string
	Threads      [][]string
	Bound        int
	Executions   int
	ChoicePoints int
	ByCost       map[int]int
	DistinctEnds int
	MaxPoints    int
	Capped       bool
	finals       map[string]int
}

// runConc explores all scenarios in two batches of worker cases: the default schedule of every scenario (returns its
// direct deviations), then the complete subtree below every deviation.
func runConc(r *vk.Run, u *universe) (states, trans, evals int) {
	var scs []scenario
	stats := map[string]*concStats{}
	for _, sc := range scenarios(!r.Quick()) {
		if *flagOnly != "" && *flagOnly != sc.Name {
			continue
		}
		if !orderControlled && sc.Cfg != "default" {
			r.Capped("conc/" + sc.Name + ": skipped, several senders can be queued at a commit and the promotion order is not controlled in this build")
			continue
		}
		scs = append(scs, sc)
		stats[sc.Name] = &concStats{Name: sc.Name, Cfg: sc.Cfg, Setup: sc.Setup, Threads: sc.Threads, Bound: sc.Bound, ByCost: map[int]int{}, finals: map[string]int{}}
	}
	t0 := time.Now()
	round := func(cases []concCase, subtree bool) (kids []concCase) {
		if len(cases) == 0 {
			return nil
		}
		job := concJob{Cases: cases, Subtree: subtree}
		path := filepath.Join(scratchDir(), fmt.Sprintf("conc-%v.json", subtree))
		data, _ := json.Marshal(job)
		if err := ioutil.WriteFile(path, data, 0600); err != nil {
			vk.Fatalf("job file: %v", err)
		}
		defer os.Remove(path)
		results := make([]*concResult, len(cases))
		r.RunIsolated(len(cases), vk.IsoOpts{CaseTimeout: 30 * time.Minute, Workers: isoWorkers(),
			ExtraArgs: []string{"--c15-job", path, "--c15-part", "conc", "--budget", r.Remaining().String()}},
			func(i int, raw json.RawMessage, fatal string) {
				if fatal != "" {
					r.Violation("process-dies@concurrent:"+fatal, fmt.Sprintf("scenario %s, schedules below %v: %s", cases[i].Scenario, cases[i].Prefix, fatal),
						map[string]interface{}{"scenario": cases[i].Scenario, "choices": cases[i].Prefix})
					results[i] = &concResult{}
					return
				}
				res := &concResult{}
				if err := json.Unmarshal(raw, res); err != nil {
					vk.Fatalf("worker result: %v", err)
				}
				results[i] = res
			})
		for i, res := range results {
			st := stats[cases[i].Scenario]
			if res == nil || res.Expired {
				st.Capped = true
				if res == nil {
					continue
				}
			}
			st.Executions += res.Executions
			st.ChoicePoints += res.ChoicePoints
			for k, v := range res.ByCost {
				st.ByCost[k] += v
			}
			for k, v := range res.Finals {
				st.finals[k] += v
			}
			if res.MaxPoints > st.MaxPoints {
				st.MaxPoints = res.MaxPoints
			}
			for _, v := range res.Viol {
				r.Violation(v.Key, v.What, map[string]interface{}{"scenario": st.Name, "config": st.Cfg, "setup": st.Setup, "threads": st.Threads,
					"choices": v.Choices, "schedule_thread_ids": v.Trace})
			}
			for _, k := range res.Children {
				kids = append(kids, concCase{cases[i].Scenario, k})
			}
		}
		return kids
	}
	var roots []concCase
	for _, sc := range scs {
		roots = append(roots, concCase{sc.Name, nil})
	}
	kids := round(roots, false)
	// interleave the scenarios so that every worker gets a similar mix
	sort.SliceStable(kids, func(i, j int) bool { return len(kids[i].Prefix) < len(kids[j].Prefix) })
	if !r.Expired() {
		round(kids, true)
	} else if len(kids) > 0 {
		for _, st := range stats {
			st.Capped = true
		}
	}
	var per []interface{}
	for _, sc := range scs {
		st := stats[sc.Name]
		st.DistinctEnds = len(st.finals)
		if st.Capped {
			r.Capped(fmt.Sprintf("conc/%s: deadline inside the exploration of bound %d (%d executions done)", sc.Name, sc.Bound, st.Executions))
		}
		fmt.Printf("conc/%-26s bound %d: executions=%d by_preemptions=%v choice_points=%d max_points=%d distinct_final_states=%d capped=%v\n",
			sc.Name, sc.Bound, st.Executions, st.ByCost, st.ChoicePoints, st.MaxPoints, st.DistinctEnds, st.Capped)
		states += st.DistinctEnds
		trans += st.Executions
		evals += st.Executions
		per = append(per, st)
	}
	fmt.Printf("conc: %.1fs\n", time.Since(t0).Seconds())
	r.Set("conc_scenarios", per)
	return
}
