package main

// The world of C15: a fixed universe of pre-signed transactions, pool configurations, fresh real instances
// (minichain: real LinkApplication + real Mempool, plus an attached replica that validates every block), the
// operations of the alphabet, the reference model and the oracle.

import (
	"crypto/sha256"
	"encoding/hex"
	"errors"
	"fmt"
	"math/big"
	"os"
	"path/filepath"
	"sort"
	"strings"
	"time"

	"verif/csnet"
	"verif/kv"
	"verif/minichain"
	"verif/txkit"
	"verif/vk"

	cfg "github.com/lianxiangcloud/linkchain/config"
	"github.com/lianxiangcloud/linkchain/libs/common"
	lktypes "github.com/lianxiangcloud/linkchain/libs/cryptonote/types"
	"github.com/lianxiangcloud/linkchain/libs/ser"
	mempl "github.com/lianxiangcloud/linkchain/mempool"
	"github.com/lianxiangcloud/linkchain/types"
)

// ---------------------------------------------------------------------------------------------------
// pool configurations

type poolCfg struct {
	Name                       string
	Size, Future, AccountQueue int
	UTXOSize                   int // 0 = repository default
	MaxReap                    int // 0 = repository default
	Remove                     bool
	Cache                      string // "light" (the real cache type) | "none"
	Lifetime                   int    // config.Lifetime in seconds; 0 = never (1000 h, like GoodTxDropTime)
	World                      string // "" = the standard world (A, B, C own 1000 coins), "bnd" = exact-balance senders (boundary.go)
}

func (p poolCfg) mempool() *cfg.MempoolConfig {
	m := minichain.DefaultMempoolConfig()
	if p.Size > 0 {
		m.Size, m.FutureSize, m.AccountQueue = p.Size, p.Future, p.AccountQueue
	}
	if p.UTXOSize > 0 {
		m.UTXOSize = p.UTXOSize
	}
	if p.MaxReap > 0 {
		m.MaxReapSize = p.MaxReap
	}
	m.RemoveFutureTx = p.Remove
	if p.Lifetime > 0 {
		m.Lifetime = time.Duration(p.Lifetime) * time.Second
	}
	return m
}

// the configurations of the DESIGN ((Size, FutureSize, AccountQueue) = (2,2,2), (1,4,1), defaults) plus two variants
var allCfgs = []poolCfg{
	{Name: "default", Cache: "light"},
	{Name: "s2f2q2", Size: 2, Future: 2, AccountQueue: 2, Remove: true, Cache: "light"},
	{Name: "s1f4q1", Size: 1, Future: 4, AccountQueue: 1, Remove: true, Cache: "light"},
	{Name: "default-nocache", Cache: "none"},
	{Name: "s3f2q1-utxo1", Size: 3, Future: 2, AccountQueue: 1, UTXOSize: 1, Remove: true, Cache: "light"},
	// every quota of Reap is small: one confidential-typed transaction per list and block, two transactions per block
	{Name: "s3f2q1-utxo1-reap2", Size: 3, Future: 2, AccountQueue: 1, UTXOSize: 1, MaxReap: 2, Remove: true, Cache: "light"},
	{Name: "s4f2q2-utxo2", Size: 4, Future: 2, AccountQueue: 2, UTXOSize: 2, Remove: true, Cache: "light"},
	// exact balance boundaries (boundary.go)
	{Name: "bnd-default", Cache: "light", World: "bnd"},
	{Name: "bnd-s2f2q2", Size: 2, Future: 2, AccountQueue: 2, Remove: true, Cache: "light", World: "bnd"},
	// ageing of pool entries (the clock is an input: Age operations): Lifetime below GoodTxDropTime, and both equal
	{Name: "age-l30", Cache: "light", Lifetime: 30, World: "age"},
	{Name: "age-default", Cache: "light", World: "age"},
}

// ---------------------------------------------------------------------------------------------------
// searches: pool configuration x subset of the AddTx letters x depth (the commit operations are always enabled)

type searchSpec struct {
	Name    string
	Cfg     string
	Letters []string // nil = every letter
	Depth   int
}

var (
	// the letters of the DESIGN
	lettersBase = []string{"a1", "a2", "a3", "a1x", "a0", "b0", "b1", "u1", "u2", "big", "c0", "aLow"}
	// + a plain twin of c1, a second independent confidential spend, an outright underfunded transfer
	lettersWide = append(append([]string{}, lettersBase...), "c1p", "u3", "bU")
	// quota crossing: one sender with two account->confidential transfers at consecutive nonces followed by a plain
	// transfer (c0, c1, c2), a third account->confidential transfer of another sender (aA), other senders' plain
	// transfers, two independent pure confidential spends
	// ageing: consecutive-nonce pairs of special transactions (m0, m1), of plain transfers (a1, a2), and of an
	// account->confidential transfer followed by a plain transfer of the same sender (c0, c1p)
	lettersAge   = []string{"m0", "m1", "a1", "a2", "c0", "c1p"}
	lettersQuota = []string{"c0", "c1", "c2", "aA", "a1", "a2", "b0", "u1", "u3"}
)

func searchSpecs(thorough bool) []searchSpec {
	if !thorough {
		return []searchSpec{
			{"s2f2q2", "s2f2q2", lettersBase, 5},
			{"s1f4q1", "s1f4q1", lettersBase, 5},
			{"default", "default", lettersBase, 5},
			{"quota-utxo1-reap2", "s3f2q1-utxo1-reap2", lettersQuota, 5},
			{"boundary-p", "bnd-default", boundaryLetters("p"), 5},
			{"boundary-t", "bnd-default", boundaryLetters("t"), 5},
			{"boundary-k", "bnd-default", boundaryLetters("k"), 5},
			{"boundary-u", "bnd-default", boundaryLetters("u"), 5},
			{"boundary-v", "bnd-default", boundaryLetters("v"), 5},
			{"age-l30", "age-l30", lettersAge, 4},
			{"age-default", "age-default", lettersAge, 4},
		}
	}
	return []searchSpec{
		{"s2f2q2", "s2f2q2", lettersWide, 7},
		{"s1f4q1", "s1f4q1", lettersWide, 7},
		{"default", "default", lettersWide, 6},
		{"default-nocache", "default-nocache", lettersWide, 6},
		{"s3f2q1-utxo1", "s3f2q1-utxo1", nil, 6},
		{"quota-utxo1-reap2", "s3f2q1-utxo1-reap2", lettersQuota, 6},
		{"quota-utxo2", "s4f2q2-utxo2", lettersQuota, 6},
		{"boundary-p", "bnd-default", boundaryLetters("p"), 6},
		{"boundary-t", "bnd-default", boundaryLetters("t"), 6},
		{"boundary-k", "bnd-default", boundaryLetters("k"), 6},
		{"boundary-u", "bnd-default", boundaryLetters("u"), 6},
		{"boundary-v", "bnd-default", boundaryLetters("v"), 6},
		{"age-l30", "age-l30", lettersAge, 6},
		{"age-default", "age-default", lettersAge, 5},
		{"boundary-puv-small", "bnd-s2f2q2", append(append(boundaryLetters("p"), boundaryLetters("u")...), boundaryLetters("v")...), 5},
	}
}

func findSearch(thorough bool, name string) *searchSpec {
	for _, sp := range searchSpecs(thorough) {
		if sp.Name == name {
			sp := sp
			return &sp
		}
	}
	return nil
}

// enabledOps: which operations of the global list belong to the search's alphabet.
func (u *universe) enabledOps(sp *searchSpec) []bool {
	ops := u.ops()
	out := make([]bool, len(ops))
	bnd, age := false, false
	for _, pc := range allCfgs {
		if pc.Name == sp.Cfg {
			bnd, age = pc.World == "bnd", pc.World == "age"
		}
	}
	for i, o := range ops {
		if o.kind == opAge {
			out[i] = age
			continue
		}
		if o.kind == opCommitOther && o.x >= 0 {
			out[i] = !bnd // blocks of the standard world's transactions
			continue
		}
		if o.kind == opAdd && sp.Letters == nil {
			out[i] = u.txs[o.x].Sender >= 0 && u.txs[o.x].Sender < bndFirst || u.txs[o.x].Sender < 0 // "all letters" = all letters of the standard world
			continue
		}
		if o.kind != opAdd {
			out[i] = true
			continue
		}
		for _, l := range sp.Letters {
			if u.txs[o.x].Name == l {
				out[i] = true
			}
		}
	}
	for _, l := range sp.Letters {
		u.txByName(l) // must exist
	}
	return out
}

// ---------------------------------------------------------------------------------------------------
// universe of transactions

type txSpec struct {
	Name   string
	obj    types.Tx // decoded once per process: like a transaction a node received once (hash and sender caches warm)
	Raw    []byte
	Hash   common.Hash
	Sender int // index into accounts, -1: pure confidential (no account input)
	Nonce  uint64
	Cost   *big.Int // the debit according to the transaction's own fields (amount + gas limit x price; account input amount)
	// what block execution really debits the sender: measured by executing the transaction alone in a block and diffing the
	// balance (nil: not measured, e.g. a letter that can never execute)
	CostExec *big.Int
	KIs      []lktypes.Key
	Class    string // valid | next | future | twin | stale | underfunded | conf | conf-conflict | oversized | ain
}

func acctIndex(a common.Address) int {
	for i, x := range allAccounts {
		if x.Addr == a {
			return i
		}
	}
	return -1
}

type base struct {
	world *world
	cfg   poolCfg
	rec   *kv.Recorder
	chain *minichain.Chain
	n     int
}

type universe struct {
	txs    []txSpec // everything, AddTx alphabet first
	nAdd   int      // txs[:nAdd] are the AddTx alphabet
	others []int    // indices into txs: CommitOther(x) commits the block [x]
	byHash map[common.Hash]int
	pnames map[common.Hash]string // names of the transactions of block 1
	prefix [][]byte               // transactions of block 1 (committed in every instance before the history starts)
	bases  map[string]*base
	worlds map[string]*world
	walDir string
	o1, o2 lktypes.Key // key images of the two confidential outputs W0 owns after block 1
	// verdicts of the replica, keyed by (transactions of the blocks committed so far; transactions of the block): block
	// and chain state are deterministic functions of these, so is CheckBlock
	validated  map[string]bool
	replicaRun int
}

func decodeTx(raw []byte) types.Tx {
	var out types.Tx
	if err := ser.DecodeBytes(raw, &out); err != nil {
		vk.Fatalf("decode tx: %v", err)
	}
	return out
}

// facts derives sender, nonce, cost and key images from the transaction object itself (not from the harness' table).
func facts(tx types.Tx) (sender int, nonce uint64, cost *big.Int, kis []lktypes.Key, err error) {
	sender = -1
	switch t := tx.(type) {
	case *types.Transaction:
		from, e := t.From()
		if e != nil {
			return -1, 0, nil, nil, e
		}
		return acctIndexOrNew(from), t.Nonce(), t.Cost(), nil, nil
	case *types.MultiSignAccountTx:
		from, _ := t.From()
		return acctIndexOrNew(from), t.Nonce(), new(big.Int), nil, nil
	case *types.TokenTransaction:
		from, e := t.From()
		if e != nil {
			return -1, 0, nil, nil, e
		}
		if common.IsLKC(t.TokenAddress()) {
			return acctIndexOrNew(from), t.Nonce(), t.Cost(), nil, nil
		}
		return acctIndexOrNew(from), t.Nonce(), t.GasCost(), nil, nil // the coin side of a token transfer
	case *types.UTXOTransaction:
		cost = new(big.Int)
		for _, in := range t.Inputs {
			switch x := in.(type) {
			case *types.UTXOInput:
				kis = append(kis, x.KeyImage)
			case *types.AccountInput:
				from, e := t.From()
				if e != nil {
					return -1, 0, nil, nil, e
				}
				sender = acctIndexOrNew(from)
				nonce = x.Nonce
				if common.IsLKC(t.TokenID) {
					cost.Add(cost, x.Amount)
				} else {
					cost.Add(cost, t.Fee) // the coin side of a token transfer into the confidential layer
				}
			}
		}
		return sender, nonce, cost, kis, nil
	}
	return -1, 0, nil, nil, fmt.Errorf("transaction kind %T is outside the alphabet", tx)
}

func acctIndexOrNew(a common.Address) int {
	if i := acctIndex(a); i >= 0 {
		return i
	}
	return 99 // a stranger: never funded, committed nonce 0
}

var initialBalance = txkit.LKC(1000)

func (u *universe) add(name, class string, tx types.Tx, alphabet bool) int {
	raw := txkit.Bytes(tx)
	cp := decodeTx(raw)
	s, n, c, kis, err := facts(cp)
	if err != nil {
		vk.Fatalf("universe: %s: %v", name, err)
	}
	u.txs = append(u.txs, txSpec{Name: name, obj: cp, Raw: raw, Hash: cp.Hash(), Sender: s, Nonce: n, Cost: c, KIs: kis, Class: class})
	if _, dup := u.byHash[cp.Hash()]; dup {
		vk.Fatalf("universe: %s: duplicate hash", name)
	}
	u.byHash[cp.Hash()] = len(u.txs) - 1
	return len(u.txs) - 1
}

// buildUniverse builds the same bytes in every process (parent and workers); base chains only for the requested configurations.
func buildUniverse(cfgs []poolCfg) *universe {
	u := &universe{byHash: map[common.Hash]int{}, pnames: map[common.Hash]string{}, bases: map[string]*base{}, worlds: map[string]*world{}, validated: map[string]bool{}}
	u.walDir = filepath.Join(scratchDir(), fmt.Sprintf("chains-%d", os.Getpid()))
	if err := os.MkdirAll(u.walDir, 0700); err != nil {
		vk.Fatalf("scratch dir: %v", err)
	}
	A, B, C, D := txkit.A, txkit.B, txkit.C, txkit.D
	kit, led := txkit.NewKit(15), txkit.NewLedger()
	// block 1 (committed before every history): A's nonce 0 moves 500 coins into two confidential outputs of W0
	ain0, err := kit.AccountToUTXO(A, 0, []txkit.Dest{txkit.ToWallet(txkit.W0, 0, txkit.LKC(300)), txkit.ToWallet(txkit.W0, 1, txkit.LKC(200))}, nil)
	if err != nil {
		vk.Fatalf("universe: %v", err)
	}
	u.prefix = [][]byte{txkit.Bytes(ain0)}
	u.pnames[decodeTx(u.prefix[0]).Hash()] = "ain0"
	std := &world{name: "std", accts: []int{0, 1, 2}, alloc: txkit.Alloc(initialBalance), blocks: [][][]byte{u.prefix}, pnames: u.pnames}
	u.worlds["std"] = std
	ageW := &world{name: "age", accts: []int{0, 1, 2, idxMultiSign}, alloc: std.alloc, blocks: std.blocks, pnames: std.pnames}
	u.worlds["age"] = ageW
	needStd := false
	for _, pc := range cfgs {
		if pc.World != "" && pc.World != "age" {
			continue
		}
		needStd = true
		rec := kv.NewRecorder()
		w := std
		if pc.World == "age" {
			w = ageW
		}
		c := u.newPlainChain(w, pc, rec)
		u.bases[pc.Name] = &base{cfg: pc, rec: rec, chain: c, n: rec.Len(), world: w}
		if len(led.Owned) == 0 {
			led.Sync(c)
		}
	}
	if len(led.Owned) == 0 { // the confidential letters need the outputs of block 1 whatever configurations are requested
		c := u.newPlainChain(std, poolCfg{Name: "ledger", Cache: "none"}, nil)
		led.Sync(c)
		c.Close()
	}
	own := led.Spendable(txkit.W0)
	if len(own) != 2 {
		vk.Fatalf("universe: W0 owns %d outputs, want 2", len(own))
	}
	u.o1, u.o2 = own[0].KeyImage, own[1].KeyImage
	mk := func(tx *types.UTXOTransaction, err error) *types.UTXOTransaction {
		if err != nil {
			vk.Fatalf("universe: %v", err)
		}
		return tx
	}
	// the AddTx alphabet (A's committed nonce is 1 after block 1; B and C are at 0; everybody owns 1000 coins, A ~ 499)
	u.add("a1", "valid", txkit.Transfer(A, 1, D.Addr, txkit.LKC(10)), true)
	u.add("a2", "next", txkit.Transfer(A, 2, D.Addr, txkit.LKC(400)), true) // affordable after a1, not after a1x
	u.add("a3", "future", txkit.Transfer(A, 3, D.Addr, txkit.LKC(10)), true)
	a1x := u.add("a1x", "twin", txkit.DuplicateNonce(A, 1, D.Addr, txkit.LKC(200)), true)
	u.add("a0", "stale", txkit.StaleNonce(A, 1, D.Addr, txkit.LKC(10)), true)
	u.add("b0", "valid", txkit.Transfer(B, 0, D.Addr, txkit.LKC(600)), true)
	u.add("b1", "underfunded", txkit.Transfer(B, 1, D.Addr, txkit.LKC(600)), true) // b0 + b1 exceed B's 1000 coins
	u.add("u1", "conf", mk(kit.Transfer(led, txkit.W0, own[:1], 1, []txkit.Dest{txkit.ToWallet(txkit.W1, 0, txkit.LKC(50))}, 0)), true)
	u2 := u.add("u2", "conf-conflict", mk(kit.Transfer(led, txkit.W0, own[:1], 1, []txkit.Dest{txkit.ToWallet(txkit.W2, 0, txkit.LKC(60))}, 0)), true)
	u.add("big", "oversized", txkit.Oversized(C, 0, D.Addr), true)
	u.add("c0", "ain", mk(kit.AccountToUTXO(C, 0, []txkit.Dest{txkit.ToWallet(txkit.W2, 0, txkit.LKC(100))}, nil)), true)
	// "underfunded" on the fee side: an account->confidential transfer of A (nonce 1) that is signed, balanced and covered by
	// the balance, but whose fee (0) is below the required one
	u.add("aLow", "fee-too-low", mk(kit.AccountToUTXO(A, 1, []txkit.Dest{txkit.ToWallet(txkit.W2, 1, txkit.LKC(20))}, new(big.Int))), true)
	// letters that only some searches use (the universe itself does not depend on the tier)
	u.add("c1", "ain-next", mk(kit.AccountToUTXO(C, 1, []txkit.Dest{txkit.ToWallet(txkit.W2, 2, txkit.LKC(50))}, nil)), true)
	u.add("c2", "next-next", txkit.Transfer(C, 2, D.Addr, txkit.LKC(5)), true)
	u.add("aA", "ain", mk(kit.AccountToUTXO(A, 1, []txkit.Dest{txkit.ToWallet(txkit.W1, 2, txkit.LKC(30))}, nil)), true)
	u.add("c1p", "twin", txkit.Transfer(C, 1, D.Addr, txkit.LKC(5)), true)
	u.add("u3", "conf", mk(kit.Transfer(led, txkit.W0, own[1:2], 1, []txkit.Dest{txkit.ToWallet(txkit.W1, 1, txkit.LKC(40))}, 0)), true)
	u.add("bU", "underfunded", txkit.Underfunded(B, 0, D.Addr, initialBalance), true)
	// special transactions (sender types.MultiSignNonceAddr, committed nonce 0) at consecutive nonces, signed by the validator
	valKey := csnet.NewFixture([]int64{10}).Keys[0]
	for n := uint64(0); n < 2; n++ {
		u.add(fmt.Sprintf("m%d", n), "special", txkit.MultiSign(n, types.TxContractCreateType, 10, []*types.SignerEntry{{Power: 10, Addr: A.Addr}},
			[]txkit.ValidatorSigner{txkit.SignerOf(valKey)}), true)
	}
	u.buildBoundary(kit, cfgs)
	u.nAdd = len(u.txs)
	// CommitOther: blocks that do not come from the pool and conflict with pool content
	b0x := u.add("b0x", "twin", txkit.Transfer(B, 0, D.Addr, txkit.LKC(1)), false)
	u.others = []int{a1x, u2, b0x}
	if needStd {
		// what execution debits for the letters of the standard world: each sequence on a fresh chain with rich senders, one
		// letter per block (a0, big, aLow can never execute: they keep the figure derived from their own fields)
		richStd := &world{name: "std-rich", alloc: txkit.Alloc(rich()), blocks: std.blocks}
		for _, seq := range [][]string{{"a1", "a2", "a3", "b0", "b1", "c0", "c1", "c2"}, {"a1x", "b0x", "c0", "c1p"}, {"aA", "bU"}} {
			c := u.newPlainChain(richStd, poolCfg{Name: "measure", Cache: "none"}, nil)
			u.measure(c, seq...)
			c.Close()
		}
	}
	return u
}

// costOf: what the sender's balance must cover for tx = what execution debits (measured), for letters that were never
// measured the figure derived from the transaction's own fields.
func (u *universe) costOf(tx types.Tx, formula *big.Int) *big.Int {
	if i, ok := u.byHash[tx.Hash()]; ok && u.txs[i].CostExec != nil {
		return u.txs[i].CostExec
	}
	return formula
}

func (t *txSpec) cost() *big.Int {
	if t.CostExec != nil {
		return t.CostExec
	}
	return t.Cost
}

func (u *universe) close() {
	for _, b := range u.bases {
		b.chain.Close()
	}
	os.RemoveAll(u.walDir)
	os.Remove(scratchDir()) // only if nothing else lives there
}

func (u *universe) name(h common.Hash) string {
	if i, ok := u.byHash[h]; ok {
		return u.txs[i].Name
	}
	for _, w := range u.worlds {
		if n, ok := w.pnames[h]; ok {
			return n
		}
	}
	return "?" + h.Hex()[:10]
}

// ---------------------------------------------------------------------------------------------------
// operations

type opKind int

const (
	opAdd opKind = iota
	opCommitReaped
	opCommitOther
	opAge // the clock moves for ONE pool entry: x = 2*letter + class (0: older than config.Lifetime, 1: older than GoodTxDropTime)
)

type op struct {
	kind opKind
	x    int // opAdd / opCommitOther: index into universe.txs; opCommitReaped: maxTxs (0 = the consensus parameter)
}

func (u *universe) ops() []op {
	var out []op
	for i := 0; i < u.nAdd; i++ {
		out = append(out, op{opAdd, i})
	}
	out = append(out, op{opCommitReaped, 0}, op{opCommitReaped, 1})
	for _, x := range u.others {
		out = append(out, op{opCommitOther, x})
	}
	out = append(out, op{opCommitOther, -1}) // an empty block from elsewhere, whatever the pool holds
	for _, n := range []string{"m0", "a1", "c0"} {
		i := u.byHash[u.txByName(n).Hash]
		out = append(out, op{opAge, 2 * i}, op{opAge, 2*i + 1})
	}
	return out
}

func (u *universe) opName(o op) string {
	switch o.kind {
	case opAdd:
		return "AddTx(" + u.txs[o.x].Name + ")"
	case opCommitReaped:
		if o.x == 0 {
			return "CommitReaped(all)"
		}
		return fmt.Sprintf("CommitReaped(%d)", o.x)
	case opAge:
		if o.x%2 == 0 {
			return "Age(" + u.txs[o.x/2].Name + " older than config.Lifetime)"
		}
		return "Age(" + u.txs[o.x/2].Name + " older than GoodTxDropTime)"
	case opCommitOther:
		if o.x < 0 {
			return "CommitOther([])"
		}
		return "CommitOther([" + u.txs[o.x].Name + "])"
	}
	return "?"
}

func (o op) kindName() string {
	switch o.kind {
	case opAge:
		return "Age"
	case opAdd:
		return "AddTx"
	case opCommitReaped:
		return "CommitReaped"
	}
	return "CommitOther"
}

// ---------------------------------------------------------------------------------------------------
// instances

type inst struct {
	u         *universe
	pc        poolCfg
	c, r      *minichain.Chain // r: independent replica, created and brought up to date only when a verdict is needed
	base      *base
	blocks    []string // transactions of the blocks committed in this history
	committed map[common.Hash]bool
	lastAdd   string          // result of the last AddTx ("ok" or the error text)
	reaps     int             // Reap outputs examined by the oracle
	limits    map[string]bool // limits of the pool / of Reap that the state judged last has reached or crossed
	// root-cause refinement of violation keys: the first submission in this history that was REJECTED but nevertheless
	// changed the speculative (check) state of an account ("" = none)
	poisoned string
	variant  int // which permutation of the queued senders the next commit's promotion takes (0 = ascending address)
	lastK    int // number of queued senders the last commit's promotion had to order (k! variants exist)
}

// install makes this instance the one whose promotion order the seam controls (one instance is driven at a time).
func (in *inst) install() {
	mem := in.c.Mempool()
	mempl.VerifC15Order = func(m *mempl.Mempool, accounts []common.Address) []common.Address {
		out := append([]common.Address{}, accounts...)
		sort.Slice(out, func(i, j int) bool { return string(out[i][:]) < string(out[j][:]) })
		if m != mem {
			return out
		}
		in.lastK = len(out)
		return permute(out, in.variant)
	}
}

// permute returns the idx-th permutation (lexicographic) of the sorted slice a.
func permute(a []common.Address, idx int) []common.Address {
	n := len(a)
	if idx >= factorial(n) {
		vk.Fatalf("promotion order variant %d does not exist for %d queued senders", idx, n)
	}
	rest := append([]common.Address{}, a...)
	var out []common.Address
	for i := n; i >= 1; i-- {
		f := factorial(i - 1)
		k := idx / f
		idx %= f
		out = append(out, rest[k])
		rest = append(rest[:k], rest[k+1:]...)
	}
	return out
}

func factorial(n int) int {
	f := 1
	for i := 2; i <= n; i++ {
		f *= i
	}
	return f
}

// a history step is op*stepBase + variant
const stepBase = 16

func (u *universe) stepName(ops []op, st int) string {
	s := u.opName(ops[st/stepBase])
	if v := st % stepBase; v != 0 {
		s += fmt.Sprintf("/promotion-order#%d", v)
	}
	return s
}

func (u *universe) newInst(cfgName string) *inst {
	b := u.bases[cfgName]
	if b == nil {
		vk.Fatalf("no base chain for configuration %q", cfgName)
	}
	c, err := b.chain.RestartOnCopies(b.rec.Materialize(b.n), u.walDir)
	if err != nil {
		vk.Fatalf("instance: %v", err)
	}
	in := &inst{u: u, pc: b.cfg, c: c, base: b, committed: map[common.Hash]bool{}}
	for h := range b.world.pnames {
		in.committed[h] = true
	}
	in.install()
	return in
}

func (in *inst) close() {
	in.c.Close()
	if in.r != nil {
		in.r.Close()
	}
}

// replicaAccepts: an independent validator (own databases, own application) decodes the block from a copy of the
// proposer's parts and runs CheckBlock on it.
func (in *inst) replicaAccepts(b *types.Block, parts *types.PartSet) bool {
	key := strings.Join(in.blocks, ";") + "|" + in.names(b.Data.Txs)
	if v, ok := in.u.validated[key]; ok {
		return v
	}
	in.u.replicaRun++
	if in.r == nil {
		r, err := in.base.chain.RestartOnCopies(in.base.rec.Materialize(in.base.n), in.u.walDir)
		if err != nil {
			vk.Fatalf("replica: %v", err)
		}
		in.r = r
	}
	maxBytes := in.c.Status().ConsensusParams.BlockSize.MaxBytes
	for h := in.r.Height() + 1; h < b.Height; h++ { // bring the replica to the block's parent
		ps, err := in.c.LoadParts(h)
		if err != nil {
			vk.Fatalf("replica: parts of block %d: %v", h, err)
		}
		cb, err := minichain.BlockFromParts(ps, maxBytes)
		if err != nil {
			vk.Fatalf("replica: block %d: %v", h, err)
		}
		if err := in.r.CommitWithSeen(cb, ps, in.c.BlockStore().LoadSeenCommit(h)); err != nil {
			vk.Fatalf("replica: replay of block %d: %v", h, err)
		}
	}
	rparts, err := minichain.CopyParts(parts)
	if err != nil {
		vk.Fatalf("CopyParts: %v", err)
	}
	rb, err := minichain.BlockFromParts(rparts, maxBytes)
	if err != nil {
		vk.Fatalf("BlockFromParts: %v", err)
	}
	ok := in.r.CheckBlock(rb)
	in.u.validated[key] = ok
	return ok
}

// model-side enabledness of CommitOther([x]): x must be executable on the committed state
func (in *inst) executableNow(t *txSpec) bool {
	if in.committed[t.Hash] {
		return false
	}
	if t.Sender >= 0 {
		a := allAccounts[t.Sender].Addr
		if in.c.Nonce(a) != t.Nonce || in.c.Balance(a).Cmp(t.cost()) < 0 {
			return false
		}
	}
	for _, ki := range t.KIs {
		if in.c.KeyImageSpent(ki) {
			return false
		}
	}
	return true
}

// pendingString: the speculative nonces and balances (what AddTx's state check reads and writes).
func (in *inst) pendingString() string {
	var b strings.Builder
	for _, i := range in.base.world.accts {
		a := allAccounts[i]
		fmt.Fprintf(&b, "%d/%v ", in.c.PendingNonce(a.Addr), in.c.PendingBalance(a.Addr))
	}
	return b.String()
}

// rootCause refines a symptom key: a violation in a history in which a rejected submission moved the speculative state
// is attributed to that event (one key per defect, whatever symptom it surfaces with).
func (in *inst) rootCause(symptom, what string) (string, string) {
	if in.poisoned == "" {
		return symptom, what
	}
	return "rejected-submission-moved-speculative-state:" + in.poisoned, what + " [symptom " + symptom + "; earlier in this history AddTx returned \"" +
		strings.ReplaceAll(in.poisoned, "-", " ") + "\" but the sender's speculative nonce/balance changed]"
}

func (in *inst) noteCommitted(b *types.Block) {
	in.poisoned = "" // a commit rebuilds the speculative state from the committed one
	for _, tx := range b.Data.Txs {
		in.committed[tx.Hash()] = true
	}
	in.blocks = append(in.blocks, in.names(b.Data.Txs))
}

// apply executes one operation on the real pool. enabled=false: the operation does not apply in this state.
func (in *inst) apply(o op, variant int) (enabled bool, vkey, what string) {
	u := in.u
	in.variant, in.lastK = variant, 0
	defer func() { in.variant = 0 }()
	switch o.kind {
	case opAdd:
		before := in.pendingString()
		err := in.c.Mempool().AddTx("", u.txs[o.x].obj)
		in.lastAdd = "ok"
		if err != nil {
			in.lastAdd = err.Error()
			if in.poisoned == "" && in.pendingString() != before {
				in.poisoned = strings.ReplaceAll(err.Error(), " ", "-")
			}
		}
	case opCommitReaped:
		b, parts, err := in.c.MakeBlockFromMempool(o.x)
		if err != nil {
			if errors.Is(err, minichain.ErrPreRun) {
				return true, "offered-block-does-not-execute:proposer", fmt.Sprintf("the block built from Reap(%d) fails in PreRunBlock: %v; offered: %s", o.x, err, in.names(b.Data.Txs))
			}
			vk.Fatalf("MakeBlockFromMempool: %v", err)
		}
		if k, w := in.validateAndCommit(b, parts); k != "" {
			return true, k, w
		}
	case opAge:
		mem := in.c.Mempool()
		d := mempl.GoodTxDropTime + time.Hour
		if o.x%2 == 0 {
			d = mempl.VerifC15Lifetime(mem) + time.Second
		}
		if !mempl.VerifC15Age(mem, u.txs[o.x/2].Hash, d) {
			return false, "", "" // not in goodTxs / utxoTxs / specGoodTxs: nothing to age
		}
	case opCommitOther:
		if o.x < 0 {
			b, err := in.c.Step(types.Txs{})
			if err != nil {
				vk.Fatalf("CommitOther([]): %v", err)
			}
			in.noteCommitted(b)
			break
		}
		t := &u.txs[o.x]
		if !in.executableNow(t) {
			return false, "", ""
		}
		b, err := in.c.Step(types.Txs{t.obj})
		if err != nil {
			vk.Fatalf("CommitOther([%s]): the model calls it executable but the chain refuses it: %v", t.Name, err)
		}
		in.noteCommitted(b)
	}
	return true, "", ""
}

// validateAndCommit: the replica validates the block decoded from a copy of the proposer's parts, then the node commits.
func (in *inst) validateAndCommit(b *types.Block, parts *types.PartSet) (string, string) {
	if !in.replicaAccepts(b, parts) {
		return "offered-block-does-not-execute:validator", "a replica's CheckBlock rejects the block built from the pool: " + in.names(b.Data.Txs)
	}
	if err := in.c.Commit(b, parts); err != nil {
		return "offered-block-does-not-execute:commit", fmt.Sprintf("committing the block built from the pool fails: %v; block: %s", err, in.names(b.Data.Txs))
	}
	in.noteCommitted(b)
	return "", ""
}

func (in *inst) names(txs types.Txs) string {
	var s []string
	for _, tx := range txs {
		s = append(s, in.u.name(tx.Hash()))
	}
	return "[" + strings.Join(s, " ") + "]"
}

// ---------------------------------------------------------------------------------------------------
// oracle: exactly the statement of C15

type committedState struct {
	nonce map[int]uint64
	bal   map[int]*big.Int
	spent map[lktypes.Key]bool // for every key image of the universe
}

func (in *inst) committedState() committedState {
	cs := committedState{nonce: map[int]uint64{}, bal: map[int]*big.Int{}, spent: map[lktypes.Key]bool{}}
	for _, i := range in.base.world.accts {
		a := allAccounts[i]
		cs.nonce[i] = in.c.Nonce(a.Addr)
		cs.bal[i] = in.c.Balance(a.Addr)
	}
	cs.nonce[99], cs.bal[99] = 0, new(big.Int)
	for i := range in.u.txs {
		for _, ki := range in.u.txs[i].KIs {
			cs.spent[ki] = in.c.KeyImageSpent(ki)
		}
	}
	return cs
}

func (in *inst) isSpent(cs committedState, ki lktypes.Key) bool {
	if v, ok := cs.spent[ki]; ok {
		return v
	}
	return in.c.KeyImageSpent(ki)
}

// checkOffer: the transactions offered for the next block are pairwise distinct, not committed, share no key image,
// and per sender form a gap-free nonce run from the committed nonce that the committed balance covers.
func (in *inst) checkOffer(txs types.Txs, cs committedState, how string) (string, string) {
	seen := map[common.Hash]bool{}
	kis := map[lktypes.Key]string{}
	next := map[int]uint64{}
	left := map[int]*big.Int{}
	for s, n := range cs.nonce {
		next[s] = n
		left[s] = new(big.Int).Set(cs.bal[s])
	}
	desc := func() string { return how + " offers " + in.names(txs) }
	for _, tx := range txs {
		h := tx.Hash()
		nm := in.u.name(h)
		if seen[h] {
			return "offer:duplicate-tx", desc() + ": " + nm + " twice"
		}
		seen[h] = true
		if in.committed[h] {
			return "offer:committed-tx", desc() + ": " + nm + " is already committed"
		}
		s, n, cost, k, err := facts(tx)
		if err != nil {
			return "offer:unknown-tx", desc() + ": " + err.Error()
		}
		cost = in.u.costOf(tx, cost)
		for _, ki := range k {
			if other, ok := kis[ki]; ok {
				return "offer:shared-key-image", desc() + ": " + nm + " and " + other + " spend the same output"
			}
			kis[ki] = nm
			if in.isSpent(cs, ki) {
				return "offer:spent-key-image", desc() + ": " + nm + " spends an output whose key image is committed"
			}
		}
		if s < 0 {
			continue
		}
		switch {
		case n < cs.nonce[s]:
			return "offer:nonce-stale", fmt.Sprintf("%s: %s has nonce %d, the sender's committed nonce is %d", desc(), nm, n, cs.nonce[s])
		case n < next[s]:
			return "offer:nonce-repeated", fmt.Sprintf("%s: %s re-uses nonce %d", desc(), nm, n)
		case n > next[s]:
			return "offer:nonce-gap", fmt.Sprintf("%s: %s has nonce %d, the run from the committed nonce %d continues at %d", desc(), nm, n, cs.nonce[s], next[s])
		}
		next[s]++
		left[s].Sub(left[s], cost)
		if left[s].Sign() < 0 {
			return "offer:exceeds-balance", fmt.Sprintf("%s: the sender's committed balance %v does not cover the run up to %s", desc(), cs.bal[s], nm)
		}
	}
	return "", ""
}

var reapSizes = []int{1, 2, 3, 10000}

// oracle evaluates the whole statement on the current state (the pool must be quiescent).
func (in *inst) oracle() (string, string) {
	mem := in.c.Mempool()
	cs := in.committedState()
	v := mempl.VerifC15View(mem)
	// which limits does this state reach or cross? (non-vacuity record: every limit must be crossed inside the bound)
	in.limits = map[string]bool{}
	typed := 0
	for _, tx := range v.Good {
		if tx.TypeName() == types.TxUTXO {
			typed++
		}
	}
	pooled := len(v.Good) + len(v.UTXO) + len(v.Spec)
	in.limits["pool-size-reached"] = len(v.Good) >= v.Size
	in.limits["future-size-reached"] = v.FutureCount >= v.FutureSize
	in.limits["confidential-quota-exceeded:goodTxs"] = typed > v.UTXOSize
	in.limits["confidential-quota-exceeded:utxoTxs"] = len(v.UTXO) > v.UTXOSize
	in.limits["max-reap-size-exceeded"] = pooled > v.MaxReapSize
	for _, q := range v.Future {
		if len(q) >= v.AccountQueue {
			in.limits["account-queue-reached"] = true
		}
	}
	if in.base.world.name == "age" {
		ages, life := mempl.VerifC15Ages(mem), mempl.VerifC15Lifetime(mem)
		for _, tx := range v.Spec {
			if a := ages[tx.Hash()]; a.HasAdd && a.Add >= life && a.Beat < mempl.GoodTxDropTime {
				in.limits["aged-entry:special-tx-older-than-Lifetime"] = true
			}
		}
		for _, l := range []types.Txs{v.Good, v.UTXO, v.Spec} {
			for _, tx := range l {
				if a := ages[tx.Hash()]; a.HasBeat && a.Beat >= mempl.GoodTxDropTime {
					in.limits["aged-entry:older-than-GoodTxDropTime"] = true
				}
			}
		}
		if len(v.Spec) >= 2 {
			in.limits["two-special-txs-pooled"] = true
		}
	}
	// 1. every Reap(n)
	for _, n := range reapSizes {
		in.reaps++
		offer := mem.Reap(n)
		if n < pooled {
			in.limits["reap-n-below-pool-content"] = true
		}
		if in.base.world.name == "bnd" {
			per := map[int]int{}
			for _, tx := range offer {
				if s, _, _, _, err := facts(tx); err == nil && s >= bndFirst && s < idxMultiSign {
					per[s]++
				}
			}
			for s, k := range per {
				if k >= 2 {
					in.limits["boundary-both-offered:"+allAccounts[s].Name] = true
				}
			}
		}
		if k, w := in.checkOffer(offer, cs, fmt.Sprintf("Reap(%d)", n)); k != "" {
			return k, w
		}
	}
	// 2. a block built from the offer executes: proposer side (CreateBlock + PreRunBlock) and validator side (CheckBlock of
	// the block decoded from the parts on an independent replica)
	for _, n := range []int{0, 1} {
		b, parts, err := in.c.MakeBlockFromMempool(n)
		if err != nil {
			if errors.Is(err, minichain.ErrPreRun) {
				return "offered-block-does-not-execute:proposer", fmt.Sprintf("the block built from Reap(%d) fails in PreRunBlock: %v; offered: %s", n, err, in.names(b.Data.Txs))
			}
			vk.Fatalf("MakeBlockFromMempool: %v", err)
		}
		if n == 1 && len(b.Data.Txs) == 0 {
			continue
		}
		if !in.replicaAccepts(b, parts) {
			return "offered-block-does-not-execute:validator", fmt.Sprintf("a replica's CheckBlock rejects the block built from Reap(%d): %s", n, in.names(b.Data.Txs))
		}
	}
	// 3. committed or invalidated transactions are removed (from every list, queued ones included)
	lists := []struct {
		name string
		txs  types.Txs
	}{{"goodTxs", v.Good}, {"utxoTxs", v.UTXO}, {"specGoodTxs", v.Spec}}
	for a, q := range v.Future {
		lists = append(lists, struct {
			name string
			txs  types.Txs
		}{"futureTxs[" + a.Hex()[:8] + "]", q})
	}
	sort.Slice(lists[3:], func(i, j int) bool { return lists[3+i].name < lists[3+j].name })
	for _, l := range lists {
		for _, tx := range l.txs {
			nm := in.u.name(tx.Hash())
			if in.committed[tx.Hash()] {
				return "not-removed:committed-tx", fmt.Sprintf("%s is committed but still in %s", nm, l.name)
			}
			s, n, _, k, err := facts(tx)
			if err != nil {
				return "offer:unknown-tx", err.Error()
			}
			if s >= 0 && n < cs.nonce[s] {
				return "not-removed:stale-nonce", fmt.Sprintf("%s (nonce %d) is still in %s although the sender's committed nonce is %d", nm, n, l.name, cs.nonce[s])
			}
			for _, ki := range k {
				if in.isSpent(cs, ki) {
					return "not-removed:spent-key-image", fmt.Sprintf("%s is still in %s although its key image is committed", nm, l.name)
				}
			}
		}
	}
	// 4. queued transactions that have become executable are promoted (as far as the executable list has room)
	if len(v.Good) < v.Size {
		pendN := map[int]uint64{}
		pendB := map[int]*big.Int{}
		for s, n := range cs.nonce {
			pendN[s], pendB[s] = n, new(big.Int).Set(cs.bal[s])
		}
		for _, tx := range v.Good {
			if s, _, cost, _, err := facts(tx); err == nil && s >= 0 {
				pendN[s]++
				pendB[s].Sub(pendB[s], in.u.costOf(tx, cost))
			}
		}
		for a, q := range v.Future {
			s := acctIndexOrNew(a)
			for _, tx := range q {
				_, n, cost, _, _ := facts(tx)
				cost = in.u.costOf(tx, cost)
				if n == pendN[s] && cost.Cmp(pendB[s]) <= 0 {
					return "not-promoted:executable-tx-left-queued", fmt.Sprintf("%s (nonce %d) is queued although the sender's executable run ends at nonce %d, the balance covers it and goodTxs has room (%d/%d)",
						in.u.name(tx.Hash()), n, pendN[s], len(v.Good), v.Size)
				}
			}
		}
	}
	return "", ""
}

// ---------------------------------------------------------------------------------------------------
// canonical state key

func (in *inst) stateString() string {
	mem := in.c.Mempool()
	v := mempl.VerifC15View(mem)
	var b strings.Builder
	nm := func(txs types.Txs) string { return in.names(txs) }
	ages := mempl.VerifC15Ages(mem)
	life := mempl.VerifC15Lifetime(mem)
	// age class of an entry, as far as the pool's code can tell the difference: ">drop" = filterTxs will drop it at the next
	// Update, ">life" = a special transaction that recheckSpecTxs will time out
	aged := func(txs types.Txs, spec bool) string {
		var out []string
		for _, tx := range txs {
			n := in.u.name(tx.Hash())
			a := ages[tx.Hash()]
			switch {
			case a.HasBeat && a.Beat >= mempl.GoodTxDropTime:
				n += ">drop"
			case spec && a.HasAdd && a.Add >= life:
				n += ">life"
			}
			out = append(out, n)
		}
		return "[" + strings.Join(out, " ") + "]"
	}
	_ = nm
	fmt.Fprintf(&b, "good%s utxo%s spec%s", aged(v.Good, false), aged(v.UTXO, false), aged(v.Spec, true))
	var fs []string
	for a, q := range v.Future {
		fs = append(fs, fmt.Sprintf("%d:%s", acctIndexOrNew(a), nm(q)))
	}
	sort.Strings(fs)
	fmt.Fprintf(&b, " future{%s} fcount=%d", strings.Join(fs, " "), v.FutureCount)
	var ks []string
	for _, k := range v.KeyImages {
		switch k {
		case in.u.o1:
			ks = append(ks, "o1")
		case in.u.o2:
			ks = append(ks, "o2")
		default:
			ks = append(ks, hex.EncodeToString(k[:4]))
		}
	}
	fmt.Fprintf(&b, " ki%v", ks)
	if v.Cache != nil {
		var cs []string
		for _, e := range v.Cache {
			s := in.u.name(e.Hash)
			if e.BasicChecked {
				s += "+"
			}
			if e.DelayDeleted {
				s += "~"
			}
			cs = append(cs, s)
		}
		sort.Strings(cs)
		fmt.Fprintf(&b, " cache%v", cs)
	}
	for _, i := range in.base.world.accts {
		a := allAccounts[i]
		fmt.Fprintf(&b, " %s:%d/%v|%d/%v", a.Name, in.c.Nonce(a.Addr), in.c.Balance(a.Addr), in.c.PendingNonce(a.Addr), in.c.PendingBalance(a.Addr))
	}
	fmt.Fprintf(&b, " spent[o1=%v o2=%v]", in.c.KeyImageSpent(in.u.o1), in.c.KeyImageSpent(in.u.o2))
	var cm []string
	for h := range in.committed {
		cm = append(cm, in.u.name(h))
	}
	sort.Strings(cm)
	fmt.Fprintf(&b, " committed%v", cm)
	return b.String()
}

func hashKey(s string) string {
	h := sha256.Sum256([]byte(s))
	return hex.EncodeToString(h[:12])
}
