// C15 — the mempool offers consensus only executable, non-conflicting, ordered transactions.
//
// Sequential half (seq.go): BFS over {AddTx(t) for a universe of pre-signed transactions, CommitReaped(all|1),
// CommitOther(conflicting block)} on the real Mempool + LinkApplication (minichain), for several pool size
// configurations, with the whole statement evaluated after every operation (every Reap(n), a block built from the offer
// executed by the proposer AND validated by an independent replica, removal, promotion).
// Concurrent half (conc.go): every interleaving with <= 2 preemptions of {AddTx a || AddTx b || commit} on the
// instrumented pool (cooperative scheduler), same statement at every Reap and at quiescence.
package main

import (
	"flag"
	"fmt"
	"os"
	"runtime/pprof"
	"time"

	"verif/vk"

	"github.com/lianxiangcloud/linkchain/libs/log"
)

var (
	flagProbe = flag.Bool("c15-probe", false, "development: print measured costs and exit")
	flagJob   = flag.String("c15-job", "", "internal: job file of a worker")
	flagPart  = flag.String("c15-part", "all", "seq|conc|all")
	flagOnly  = flag.String("c15-only", "", "development: run only the search / scenario with this name")
)

func main() {
	log.Root().SetHandler(log.DiscardHandler())
	r := vk.Start("C15", "model_checking")
	if vk.IsWorker() {
		switch *flagPart {
		case "seq":
			job := &seqJob{}
			loadJob(*flagJob, job)
			seqWorker(r, job)
		case "conc":
			job := &concJob{}
			loadJob(*flagJob, job)
			concWorker(r, job)
		}
		vk.Fatalf("unknown worker part %q", *flagPart)
	}
	if *flagProbe {
		probe(r)
		return
	}
	if r.ReplayPath != "" {
		replay(r)
		return
	}
	sweepStale()
	if err := os.MkdirAll(scratchDir(), 0700); err != nil {
		vk.Fatalf("scratch: %v", err)
	}
	u := buildUniverse(allCfgs)
	ops := u.ops()
	var opNames []string
	for _, o := range ops {
		opNames = append(opNames, u.opName(o))
	}
	r.Set("alphabet", opNames)
	var txs []string
	for _, t := range u.txs {
		txs = append(txs, fmt.Sprintf("%s: %s, sender %d nonce %d", t.Name, t.Class, t.Sender, t.Nonce))
	}
	r.Set("transactions", txs)
	r.Set("pool_configurations", allCfgs)
	r.Set("boundary_senders", u.boundaryReport())
	if orderControlled = seamActive(u, "default"); !orderControlled {
		r.Capped("the build has no promotion-order seam (tools/gen_c15_maporder.py did not find the loop in promoteExecutables): Go's random map order decides which queued sender is promoted first; orders are not enumerated and counts may vary between runs")
	}
	r.Set("promotion_order_controlled", orderControlled)
	states, trans, evals := 0, 0, 0

	if *flagPart == "all" || *flagPart == "seq" {
		specs := searchSpecs(!r.Quick())
		if *flagOnly != "" {
			var keep []searchSpec
			for _, sp := range specs {
				if sp.Name == *flagOnly {
					keep = append(keep, sp)
				}
			}
			specs = keep
		}
		t0 := time.Now()
		var per []interface{}
		limits := map[string]int{}
		seqCapped := false
		mergeEvery := 25
		if !orderControlled {
			mergeEvery = 0 // successors are not a function of the state when Go's map order decides
		}
		for _, st := range runSeq(r, u, specs, mergeEvery) {
			fmt.Printf("seq/%-16s depth %d: states=%d transitions=%d disabled=%d per_depth=%v order_variants=%d merge_checks=%d reaps=%d capped=%v\n",
				st.Name, st.Depth, st.States, st.Transitions, st.Disabled, st.PerDepth, st.OrderVariants, st.MergeChecks, st.Reaps, st.Capped)
			fmt.Printf("    AddTx results: %v\n    limits reached/crossed (transitions): %v\n", st.AddResults, st.LimitsCrossed)
			for l, n := range st.LimitsCrossed {
				limits[l] += n
			}
			if st.Capped {
				seqCapped = true
			}
			states += st.States
			trans += st.Transitions
			evals += st.Transitions + st.Reaps
			per = append(per, st)
		}
		fmt.Printf("seq: %.1fs\n", time.Since(t0).Seconds())
		r.Set("seq_searches", per)
		r.Set("limits_crossed", limits)
		// non-vacuity: every limit the pool and Reap apply must be reached or crossed by some history inside the bound
		// (judged only on complete, violation-free runs of the whole sequential half)
		if *flagOnly == "" && !seqCapped && r.NViolations() == 0 {
			for _, l := range []string{"pool-size-reached", "future-size-reached", "account-queue-reached", "confidential-quota-exceeded:goodTxs",
				"confidential-quota-exceeded:utxoTxs", "max-reap-size-exceeded", "reap-n-below-pool-content",
				"aged-entry:special-tx-older-than-Lifetime", "aged-entry:older-than-GoodTxDropTime", "two-special-txs-pooled"} {
				if limits[l] == 0 {
					vk.Fatalf("vacuous bound: no explored history reaches the limit %q", l)
				}
			}
			// exact balance boundaries: the sender that owns exactly cost(T1)+cost(T2) must get both offered somewhere (the
			// one that owns 1 wei less never does: that would be a violation of the oracle)
			for _, k := range boundaryKinds {
				if limits["boundary-both-offered:"+k.key+"x"] == 0 {
					vk.Fatalf("vacuous boundary: sender %sx owns exactly what execution debits for its two transactions (%s, then a cheap transfer) but no explored history offers both", k.key, k.what)
				}
			}
		}
	}
	if *flagPart == "all" || *flagPart == "conc" {
		s, t, e := runConc(r, u)
		states += s
		trans += t
		evals += e
	}
	u.close()
	os.RemoveAll(scratchDir())
	r.Set("states", states)
	r.Set("transitions", trans)
	r.Set("traces_validated_against_impl", trans)
	r.Set("evaluations", evals)
	r.Set("distinct_nontrivial", states)
	r.Set("rule", "seq: BFS over operation sequences on the real pool+application, state = pool lists, future queues, cache, key images, speculative and committed accounts; conc: every schedule with <= bound preemptions; every transition / execution runs the real code and is judged by the statement's oracle; non-trivial = distinct canonical state / distinct final state")
	r.Assume("minichain fixture (node start-up recipe, proposer/committer roles) stands for the node; block validation by an independent replica stands for the other validators")
	r.Assume("wall-clock expiry (GoodTxDropTime, Lifetime, 30 s delayed cache delete) is outside the bound: all set to 1000 h / never")
	r.Assume("xcrypto stand-in: real curve arithmetic, key images and ring signatures; Bulletproofs are an ideal functionality")
	r.Finish()
}

// replay re-runs one recorded case and prints what happens (./check C15 --tier <tier of the record> --replay <file>).
func replay(r *vk.Run) {
	var rec struct {
		Search   string
		Steps    []int
		Scenario string
		Choices  []int
	}
	r.LoadReplay(&rec)
	u := buildUniverse(allCfgs)
	defer u.close()
	if rec.Scenario != "" {
		for _, sc := range scenarios(!r.Quick()) {
			if sc.Name != rec.Scenario {
				continue
			}
			c := &chooser{prefix: rec.Choices}
			er := u.runSchedule(&sc, c)
			fmt.Printf("scenario %s (%s) setup %v threads %v\nschedule (thread ids): %v\nfinal: %s\n", sc.Name, sc.Cfg, sc.Setup, sc.Threads, er.Trace, er.Final)
			for _, v := range er.Viol {
				fmt.Printf("VIOLATION %s :: %s\n", v[0], v[1])
			}
			return
		}
		vk.Fatalf("replay: unknown scenario %q (recorded in the other tier?)", rec.Scenario)
	}
	ops := u.ops()
	cfgName := rec.Search
	if sp := findSearch(!r.Quick(), rec.Search); sp != nil {
		cfgName = sp.Cfg
	} else if sp := findSearch(r.Quick(), rec.Search); sp != nil {
		cfgName = sp.Cfg
	}
	in := u.newInst(cfgName)
	defer in.close()
	fmt.Println("start:", in.stateString())
	for _, st := range rec.Steps {
		if st/stepBase >= len(ops) {
			vk.Fatalf("replay: step %d is outside this tier's alphabet", st)
		}
		en, k, w := in.apply(ops[st/stepBase], st%stepBase)
		fmt.Printf("%s: enabled=%v", u.stepName(ops, st), en)
		if ops[st/stepBase].kind == opAdd {
			fmt.Printf(" result=%q", in.lastAdd)
		}
		fmt.Println()
		if k != "" {
			fmt.Printf("VIOLATION %s :: %s\n", k, w)
			return
		}
		fmt.Println("   ", in.stateString())
	}
	if k, w := in.oracle(); k != "" {
		fmt.Printf("VIOLATION %s :: %s\n", k, w)
	} else {
		fmt.Println("oracle: holds")
	}
}

func probe(r *vk.Run) {
	t0 := time.Now()
	u := buildUniverse(allCfgs)
	defer u.close()
	if os.Getenv("C15_BENCH") != "" {
		defer pprof.StopCPUProfile()
		ops := u.ops()
		hists := [][]int{{0, 16, 14 * stepBase}, {5 * stepBase, 0, 13 * stepBase, 16}, {7 * stepBase, 5 * stepBase, 13 * stepBase, 0, 16}, {0, 16, 32, 13 * stepBase}}
		n := 0
		for rep := 0; rep < 40; rep++ {
			for _, h := range hists {
				for oi := range ops {
					execHist(u, "s2f2q2", ops, append(append([]int{}, h...), oi*stepBase), "")
					n++
				}
			}
		}
		fmt.Printf("bench: %d transitions in %v = %v each\n", n, time.Since(t0), time.Since(t0)/time.Duration(n))
		return
	}
	fmt.Printf("universe: %d txs (%d in the AddTx alphabet), %v\n", len(u.txs), u.nAdd, time.Since(t0))
	for _, t := range u.txs {
		fmt.Printf("  %-4s %-14s sender=%d nonce=%d cost=%v kis=%d size=%d\n", t.Name, t.Class, t.Sender, t.Nonce, t.Cost, len(t.KIs), len(t.Raw))
	}
	ops := u.ops()
	for _, pc := range allCfgs {
		t0 = time.Now()
		const n = 50
		for i := 0; i < n; i++ {
			in := u.newInst(pc.Name)
			in.close()
		}
		fmt.Printf("%s: newInst+close %v\n", pc.Name, time.Since(t0)/n)
		in := u.newInst(pc.Name)
		fmt.Println("  root:", in.stateString())
		for _, o := range ops {
			t1 := time.Now()
			en, k, w := in.apply(o, 0)
			t2 := time.Now()
			ok, ow := in.oracle()
			t3 := time.Now()
			fmt.Printf("  %-22s enabled=%v add=%q viol=%q %s oracle=%q %s apply=%v oracle=%v K=%d\n    %s\n", u.opName(o), en, in.lastAdd, k, w, ok, ow, t2.Sub(t1), t3.Sub(t2), in.lastK, in.stateString())
		}
		in.close()
	}
}
