package main

// Sequential half: explicit-state BFS over operation sequences (engine E1). Real objects cannot be cloned, so a state is
// represented by the shortest history that reaches it and a successor is computed on a fresh instance by replay.
// minichain allows one driving goroutine per process, so every BFS level is sharded over worker subprocesses
// (vk.RunIsolated): a case = one frontier node, expanded by every operation of the alphabet (and, for commits that
// have to order several queued senders, by every promotion order).

import (
	"encoding/json"
	"fmt"
	"io/ioutil"
	"os"
	"path/filepath"
	"sort"
	"strings"
	"time"

	"verif/vk"

	mempl "github.com/lianxiangcloud/linkchain/mempool"
)

type seqNode struct {
	Search string
	Cfg    string
	Hist   []int
	Key    string // expected key after replaying Hist (determinism check)
}

type seqJob struct {
	Nodes []seqNode
}

type seqSucc struct {
	Step     int
	Disabled bool     `json:",omitempty"`
	Key      string   `json:",omitempty"`
	State    string   `json:",omitempty"` // readable state (only kept for samples)
	Err      string   `json:",omitempty"`
	What     string   `json:",omitempty"`
	Add      string   `json:",omitempty"` // AddTx result
	K        int      `json:",omitempty"` // queued senders ordered by this commit
	Limits   []string `json:",omitempty"` // limits of the pool / of Reap reached or crossed in the resulting state
}

type seqResult struct {
	Succs      []seqSucc
	Mismatch   string `json:",omitempty"` // replay of the node did not reproduce its key
	Reaps      int
	OrderCalls int
}

// exec: fresh instance, replay hist, oracle after the last step.
func execHist(u *universe, cfgName string, ops []op, hist []int, wantParentKey string) (out seqSucc, mismatch string, reaps int) {
	return execHistRetry(u, cfgName, ops, hist, wantParentKey, 0)
}

// orderControlled: the build contains the seam that lets the harness choose the order in which promoteExecutables(nil)
// visits the queued senders (set by seamActive()).
var orderControlled = true

// seamActive asks the pool of a fresh instance (empty queues) whether promoteExecutables(nil) reaches the seam.
func seamActive(u *universe, cfgName string) bool {
	in := u.newInst(cfgName)
	defer in.close()
	return mempl.VerifC15SeamActive(in.c.Mempool())
}

func execHistRetry(u *universe, cfgName string, ops []op, hist []int, wantParentKey string, retries int) (out seqSucc, mismatch string, reaps int) {
	in := u.newInst(cfgName)
	defer in.close()
	if len(hist) > 0 {
		out.Step = hist[len(hist)-1]
	}
	defer func() {
		reaps = in.reaps
		if e := recover(); e != nil {
			kind := "root"
			if len(hist) > 0 {
				kind = ops[hist[len(hist)-1]/stepBase].kindName()
			}
			msg := strings.SplitN(fmt.Sprint(e), "\n", 2)[0]
			out = seqSucc{Step: out.Step, Err: "panic@" + kind, What: "panic: " + msg}
		}
	}()
	for i, st := range hist {
		last := i == len(hist)-1
		if last && wantParentKey != "" {
			if got := hashKey(in.stateString()); got != wantParentKey {
				if !orderControlled && retries < 200 {
					// the build has no promotion-order seam (see tools/gen_c15_maporder.py): Go's map order decided; try again
					retries++
					in.close()
					return execHistRetry(u, cfgName, ops, hist, wantParentKey, retries)
				}
				return out, fmt.Sprintf("replaying %v gives key %s, the search recorded %s: %s", hist[:i], got, wantParentKey, in.stateString()), in.reaps
			}
		}
		en, k, w := in.apply(ops[st/stepBase], st%stepBase)
		if !en {
			if !last {
				vk.Fatalf("replay: step %d of %v is disabled", i, hist)
			}
			out.Disabled = true
			return
		}
		if k != "" {
			if !last {
				vk.Fatalf("replay: step %d of %v violates (%s) but was expanded", i, hist, k)
			}
			out.Err, out.What = in.rootCause(k+"@"+ops[st/stepBase].kindName(), w)
			return
		}
		if last {
			out.K = in.lastK
			if ops[st/stepBase].kind == opAdd {
				out.Add = in.lastAdd
			}
		}
	}
	if k, w := in.oracle(); k != "" {
		kind := "root"
		if len(hist) > 0 {
			kind = ops[hist[len(hist)-1]/stepBase].kindName()
		}
		out.Err, out.What = in.rootCause(k+"@"+kind, w)
		return
	}
	for l, on := range in.limits {
		if on {
			out.Limits = append(out.Limits, l)
		}
	}
	sort.Strings(out.Limits)
	out.State = in.stateString()
	out.Key = hashKey(out.State)
	return
}

func loadJob(path string, v interface{}) {
	data, err := ioutil.ReadFile(path)
	if err != nil {
		vk.Fatalf("job file: %v", err)
	}
	if err := json.Unmarshal(data, v); err != nil {
		vk.Fatalf("job file: %v", err)
	}
}

// seqWorker never returns.
func seqWorker(r *vk.Run, job *seqJob) {
	need := map[string]bool{}
	for _, n := range job.Nodes {
		need[n.Cfg] = true
	}
	var pcs []poolCfg
	for _, pc := range allCfgs {
		if need[pc.Name] {
			pcs = append(pcs, pc)
		}
	}
	u := buildUniverse(pcs)
	ops := u.ops()
	orderControlled = seamActive(u, pcs[0].Name)
	masks := map[string][]bool{}
	vk.WorkerLoop(len(job.Nodes), func(i int) interface{} {
		n := job.Nodes[i]
		mask, ok := masks[n.Search]
		if !ok {
			sp := findSearch(!r.Quick(), n.Search)
			if sp == nil {
				vk.Fatalf("worker: unknown search %q", n.Search)
			}
			mask = u.enabledOps(sp)
			masks[n.Search] = mask
		}
		res := &seqResult{}
		calls0 := mempl.VerifC15OrderCalls
		for oi := range ops {
			if !mask[oi] {
				continue
			}
			variants := 1
			for v := 0; v < variants; v++ {
				h := append(append(make([]int, 0, len(n.Hist)+1), n.Hist...), oi*stepBase+v)
				s, mm, reaps := execHist(u, n.Cfg, ops, h, n.Key)
				res.Reaps += reaps
				if mm != "" {
					res.Mismatch = mm
					return res
				}
				if v == 0 && s.K >= 2 {
					variants = factorial(s.K)
					if variants > stepBase {
						vk.Fatalf("%d queued senders: more promotion orders than the step encoding holds", s.K)
					}
				}
				res.Succs = append(res.Succs, s)
			}
		}
		res.OrderCalls = mempl.VerifC15OrderCalls - calls0
		return res
	})
}

type seqStats struct {
	Name                string
	Depth               int
	States, Transitions int
	Disabled            int
	PerDepth            []int
	DepthCompleted      int
	Capped              bool
	MergeChecks         int
	OrderVariants       int // transitions executed with a non-default promotion order
	Reaps               int
	AddResults          map[string]int
	LimitsCrossed       map[string]int // transitions whose resulting state reaches / crosses the limit
	Letters             []string
	Cfg                 string
	Alphabet            int
	OrderCalls          int
}

// scratchDir: /dev/shm/C15-<pid of the parent>; workers are handed a job file inside it and keep their own files there,
// so that removing it at the end of the run removes everything.
func scratchDir() string {
	if *flagJob != "" {
		return filepath.Dir(*flagJob)
	}
	return fmt.Sprintf("/dev/shm/C15-%d", os.Getpid())
}

// sweepStale removes scratch directories of C15 runs whose process is gone (killed runs).
func sweepStale() {
	ds, _ := filepath.Glob("/dev/shm/C15-*")
	for _, d := range ds {
		var pid int
		if _, err := fmt.Sscanf(filepath.Base(d), "C15-%d", &pid); err != nil || pid == os.Getpid() {
			continue
		}
		if _, err := os.Stat(fmt.Sprintf("/proc/%d", pid)); os.IsNotExist(err) {
			os.RemoveAll(d)
		}
	}
}

func isoWorkers() int {
	var w int
	fmt.Sscanf(os.Getenv("VERIF_WORKERS"), "%d", &w)
	return w
}

type seqSearch struct {
	name     string
	cfg      string
	depth    int
	st       seqStats
	seen     map[string][]int  // key -> representative history
	sigOf    map[string]string // key -> hash of the successor signature list (filled when expanded)
	frontier []seqNode
	shadow   []seqNode // merged histories re-expanded to test the adequacy of the state key
	merges   int
	done     bool
}

// runSeq runs the BFS of every search in lockstep: level d of all searches is one batch of worker cases (fewer process
// starts, better balance). The parent holds the universe only for names and the roots.
func runSeq(r *vk.Run, u *universe, specs []searchSpec, mergeEvery int) []seqStats {
	ops := u.ops()
	names := func(h []int) []string {
		out := make([]string, len(h))
		for i, s := range h {
			out[i] = u.stepName(ops, s)
		}
		return out
	}
	var searches []*seqSearch
	maxDepth := 0
	for _, sp := range specs {
		s := &seqSearch{name: sp.Name, cfg: sp.Cfg, depth: sp.Depth, seen: map[string][]int{}, sigOf: map[string]string{}}
		nops := 0
		for _, on := range u.enabledOps(&sp) {
			if on {
				nops++
			}
		}
		s.st = seqStats{Name: s.name, Cfg: s.cfg, Letters: sp.Letters, AddResults: map[string]int{}, LimitsCrossed: map[string]int{}, Alphabet: nops, Depth: s.depth}
		root, _, reaps := execHist(u, s.cfg, ops, nil, "")
		s.st.Reaps += reaps
		if root.Err != "" {
			r.Violation(root.Err, root.What, map[string]interface{}{"search": s.name, "ops": []string{}, "steps": []int{}})
			s.done = true
		} else {
			s.seen[root.Key] = nil
			s.st.States = 1
			s.st.PerDepth = []int{1}
			s.frontier = []seqNode{{s.name, s.cfg, nil, root.Key}}
		}
		if s.depth > maxDepth {
			maxDepth = s.depth
		}
		searches = append(searches, s)
	}
	sig := func(res *seqResult) string {
		var b strings.Builder
		for _, s := range res.Succs {
			fmt.Fprintf(&b, "%d:%v:%s:%s;", s.Step, s.Disabled, s.Key, s.Err)
		}
		return hashKey(b.String())
	}
	capAll := func(what string, d int) {
		for _, s := range searches {
			if !s.done && len(s.frontier) > 0 && d <= s.depth {
				s.st.Capped = true
				s.done = true
				r.Capped(fmt.Sprintf("seq/%s: %s depth %d (depth %d fully covered)", s.name, what, d, d-1))
			}
		}
	}
	for d := 1; d <= maxDepth; d++ {
		var job seqJob
		type span struct{ from, nf, to int }
		spans := map[*seqSearch]span{}
		for _, s := range searches {
			if s.done || d > s.depth || len(s.frontier) == 0 {
				s.done = true
				continue
			}
			from := len(job.Nodes)
			job.Nodes = append(job.Nodes, s.frontier...)
			job.Nodes = append(job.Nodes, s.shadow...)
			spans[s] = span{from, len(s.frontier), len(job.Nodes)}
		}
		if len(job.Nodes) == 0 {
			break
		}
		if r.Expired() {
			capAll("deadline before", d)
			break
		}
		path := filepath.Join(scratchDir(), fmt.Sprintf("seq-%d.json", d))
		data, _ := json.Marshal(job)
		if err := ioutil.WriteFile(path, data, 0600); err != nil {
			vk.Fatalf("job file: %v", err)
		}
		results := make([]*seqResult, len(job.Nodes))
		r.RunIsolated(len(job.Nodes), vk.IsoOpts{CaseTimeout: 5 * time.Minute, Workers: isoWorkers(),
			ExtraArgs: []string{"--c15-job", path, "--c15-part", "seq", "--budget", r.Remaining().String()}},
			func(i int, raw json.RawMessage, fatal string) {
				if fatal != "" {
					n := job.Nodes[i]
					r.Violation("process-dies:"+fatal, fmt.Sprintf("expanding %v kills the worker process: %s", names(n.Hist), fatal),
						map[string]interface{}{"search": n.Search, "ops": names(n.Hist), "steps": n.Hist})
					results[i] = &seqResult{}
					return
				}
				res := &seqResult{}
				if err := json.Unmarshal(raw, res); err != nil {
					vk.Fatalf("worker result: %v", err)
				}
				results[i] = res
			})
		os.Remove(path)
		incomplete := false
		for _, res := range results {
			if res == nil {
				incomplete = true
			}
		}
		if incomplete {
			capAll("deadline inside", d)
			break
		}
		for _, s := range searches {
			sp, ok := spans[s]
			if !ok {
				continue
			}
			st := &s.st
			for i := sp.from; i < sp.to; i++ {
				if results[i].Mismatch != "" {
					vk.Fatalf("seq/%s: nondeterministic replay: %s", s.name, results[i].Mismatch)
				}
			}
			var next, nextShadow []seqNode
			for i := sp.from; i < sp.from+sp.nf; i++ {
				n, res := job.Nodes[i], results[i]
				st.Reaps += res.Reaps
				st.OrderCalls += res.OrderCalls
				s.sigOf[n.Key] = sig(res)
				for _, sc := range res.Succs {
					h := append(append(make([]int, 0, len(n.Hist)+1), n.Hist...), sc.Step)
					if sc.Disabled {
						st.Disabled++
						continue
					}
					st.Transitions++
					if sc.Step%stepBase != 0 {
						st.OrderVariants++
					}
					if sc.Add != "" {
						st.AddResults[sc.Add]++
					}
					for _, l := range sc.Limits {
						st.LimitsCrossed[l]++
					}
					if sc.Err != "" {
						r.Violation(sc.Err, sc.What, map[string]interface{}{"search": s.name, "ops": names(h), "steps": h})
						continue
					}
					if rep, ok := s.seen[sc.Key]; ok {
						s.merges++
						if mergeEvery > 0 && s.merges%mergeEvery == 0 && d < s.depth && fmt.Sprint(rep) != fmt.Sprint(h) {
							nextShadow = append(nextShadow, seqNode{s.name, s.cfg, h, sc.Key})
						}
						continue
					}
					s.seen[sc.Key] = h
					st.States++
					next = append(next, seqNode{s.name, s.cfg, h, sc.Key})
					if st.States%1499 == 2 {
						r.Sample(map[string]interface{}{"search": "seq/" + s.name, "ops": names(h), "state": sc.State})
					}
				}
			}
			// adequacy of the state key: a merged history must have exactly the successors of its representative
			for i := sp.from + sp.nf; i < sp.to; i++ {
				n := job.Nodes[i]
				st.MergeChecks++
				if want, ok := s.sigOf[n.Key]; ok && sig(results[i]) != want {
					vk.Fatalf("seq/%s: state key too coarse: %v and %v share key %s but their successors differ", s.name, names(s.seen[n.Key]), names(n.Hist), n.Key)
				}
			}
			s.shadow = nextShadow
			st.PerDepth = append(st.PerDepth, len(next))
			st.DepthCompleted = d
			s.frontier = next
		}
	}
	var out []seqStats
	for _, s := range searches {
		out = append(out, s.st)
	}
	return out
}
