package main

// Sequential half: explicit-state BFS over operation sequences (engine E1). Real objects cannot be cloned, so a state is
// represented by the shortest history that reaches it and a successor is computed on a fresh instance by replay.
// minichain allows one driving goroutine per process, so every BFS level is sharded over worker subprocesses
// (vk.RunIsolated): a case = one frontier node, expanded by every operation of the alphabet (and, for commits that
// have to order several queued senders, by every promotion order).

import (
	"encoding/json"
	"fmt"
	"io/ioutil"
	"os"
	"path/filepath"
	"strings"
	"time"

	"verif/vk"

	mempl "github.com/lianxiangcloud/linkchain/mempool"
)

type seqNode struct {
	Hist []int
	Key  string // expected key after replaying Hist (determinism check)
}

type seqJob struct {
	Cfg   string
	Nodes []seqNode
}

type seqSucc struct {
	Step     int
	Disabled bool   `json:",omitempty"`
	Key      string `json:",omitempty"`
	State    string `json:",omitempty"` // readable state (only kept for samples)
	Err      string `json:",omitempty"`
	What     string `json:",omitempty"`
	Add      string `json:",omitempty"` // AddTx result
	K        int    `json:",omitempty"` // queued senders ordered by this commit
}

type seqResult struct {
	Succs      []seqSucc
	Mismatch   string `json:",omitempty"` // replay of the node did not reproduce its key
	Reaps      int
	OrderCalls int
}

// exec: fresh instance, replay hist, oracle after the last step.
func execHist(u *universe, cfgName string, ops []op, hist []int, wantParentKey string) (out seqSucc, mismatch string, reaps int) {
	in := u.newInst(cfgName)
	defer in.close()
	if len(hist) > 0 {
		out.Step = hist[len(hist)-1]
	}
	defer func() {
		reaps = in.reaps
		if e := recover(); e != nil {
			kind := "root"
			if len(hist) > 0 {
				kind = ops[hist[len(hist)-1]/stepBase].kindName()
			}
			msg := strings.SplitN(fmt.Sprint(e), "\n", 2)[0]
			out = seqSucc{Step: out.Step, Err: "panic@" + kind, What: "panic: " + msg}
		}
	}()
	for i, st := range hist {
		last := i == len(hist)-1
		if last && wantParentKey != "" {
			if got := hashKey(in.stateString()); got != wantParentKey {
				return out, fmt.Sprintf("replaying %v gives key %s, the search recorded %s: %s", hist[:i], got, wantParentKey, in.stateString()), in.reaps
			}
		}
		en, k, w := in.apply(ops[st/stepBase], st%stepBase)
		if !en {
			if !last {
				vk.Fatalf("replay: step %d of %v is disabled", i, hist)
			}
			out.Disabled = true
			return
		}
		if k != "" {
			if !last {
				vk.Fatalf("replay: step %d of %v violates (%s) but was expanded", i, hist, k)
			}
			out.Err, out.What = k+"@"+ops[st/stepBase].kindName(), w
			return
		}
		if last {
			out.K = in.lastK
			if ops[st/stepBase].kind == opAdd {
				out.Add = in.lastAdd
			}
		}
	}
	if k, w := in.oracle(); k != "" {
		kind := "root"
		if len(hist) > 0 {
			kind = ops[hist[len(hist)-1]/stepBase].kindName()
		}
		out.Err, out.What = k+"@"+kind, w
		return
	}
	out.State = in.stateString()
	out.Key = hashKey(out.State)
	return
}

func loadJob(path string, v interface{}) {
	data, err := ioutil.ReadFile(path)
	if err != nil {
		vk.Fatalf("job file: %v", err)
	}
	if err := json.Unmarshal(data, v); err != nil {
		vk.Fatalf("job file: %v", err)
	}
}

// seqWorker never returns.
func seqWorker(r *vk.Run, job *seqJob) {
	var pcs []poolCfg
	for _, pc := range allCfgs {
		if pc.Name == job.Cfg {
			pcs = append(pcs, pc)
		}
	}
	u := buildUniverse(!r.Quick(), pcs)
	ops := u.ops()
	vk.WorkerLoop(len(job.Nodes), func(i int) interface{} {
		n := job.Nodes[i]
		res := &seqResult{}
		calls0 := mempl.VerifC15OrderCalls
		for oi := range ops {
			variants := 1
			for v := 0; v < variants; v++ {
				h := append(append(make([]int, 0, len(n.Hist)+1), n.Hist...), oi*stepBase+v)
				s, mm, reaps := execHist(u, job.Cfg, ops, h, n.Key)
				res.Reaps += reaps
				if mm != "" {
					res.Mismatch = mm
					return res
				}
				if v == 0 && s.K >= 2 {
					variants = factorial(s.K)
					if variants > stepBase {
						vk.Fatalf("%d queued senders: more promotion orders than the step encoding holds", s.K)
					}
				}
				s.State = shorten(s.State)
				res.Succs = append(res.Succs, s)
			}
		}
		res.OrderCalls = mempl.VerifC15OrderCalls - calls0
		return res
	})
}

func shorten(s string) string {
	// balances are long decimal numbers: cut them to keep the result lines small (the key hashes the full string)
	return s
}

type seqStats struct {
	Name                string
	States, Transitions int
	Disabled            int
	PerDepth            []int
	DepthCompleted      int
	Capped              bool
	MergeChecks         int
	OrderVariants       int // transitions executed with a non-default promotion order
	Reaps               int
	AddResults          map[string]int
	Alphabet            int
	OrderCalls          int
}

func scratchDir() string { return fmt.Sprintf("/dev/shm/C15-%d", os.Getpid()) }

func isoWorkers() int {
	var w int
	fmt.Sscanf(os.Getenv("VERIF_WORKERS"), "%d", &w)
	return w
}

// runSeq runs one BFS. The parent holds the universe only for names and the root.
func runSeq(r *vk.Run, u *universe, cfgName string, depth, maxStates, mergeEvery int) seqStats {
	ops := u.ops()
	st := seqStats{Name: cfgName, AddResults: map[string]int{}, Alphabet: len(ops)}
	names := func(h []int) []string {
		out := make([]string, len(h))
		for i, s := range h {
			out[i] = u.stepName(ops, s)
		}
		return out
	}
	root, _, reaps := execHist(u, cfgName, ops, nil, "")
	st.Reaps += reaps
	if root.Err != "" {
		r.Violation(root.Err, root.What, map[string]interface{}{"search": cfgName, "ops": []string{}})
		return st
	}
	seen := map[string][]int{root.Key: nil} // key -> representative history
	sigOf := map[string]string{}            // key -> hash of the successor signature list (filled when expanded)
	st.States = 1
	st.PerDepth = []int{1}
	frontier := []seqNode{{nil, root.Key}}
	var shadow []seqNode // merged histories re-expanded to test the adequacy of the state key
	merges := 0
	for d := 1; d <= depth && len(frontier) > 0; d++ {
		if r.Expired() {
			st.Capped = true
			r.Capped(fmt.Sprintf("seq/%s: deadline before depth %d (depth %d fully covered)", cfgName, d, d-1))
			break
		}
		job := seqJob{Cfg: cfgName, Nodes: append(append([]seqNode{}, frontier...), shadow...)}
		path := filepath.Join(scratchDir(), fmt.Sprintf("seq-%s-%d.json", cfgName, d))
		data, _ := json.Marshal(job)
		if err := ioutil.WriteFile(path, data, 0600); err != nil {
			vk.Fatalf("job file: %v", err)
		}
		results := make([]*seqResult, len(job.Nodes))
		r.RunIsolated(len(job.Nodes), vk.IsoOpts{CaseTimeout: 5 * time.Minute, Workers: isoWorkers(),
			ExtraArgs: []string{"--c15-job", path, "--c15-part", "seq", "--budget", r.Remaining().String()}},
			func(i int, raw json.RawMessage, fatal string) {
				if fatal != "" {
					r.Violation("process-dies:"+fatal, fmt.Sprintf("expanding %v kills the worker process: %s", names(job.Nodes[i].Hist), fatal),
						map[string]interface{}{"search": cfgName, "ops": names(job.Nodes[i].Hist), "steps": job.Nodes[i].Hist})
					results[i] = &seqResult{}
					return
				}
				res := &seqResult{}
				if err := json.Unmarshal(raw, res); err != nil {
					vk.Fatalf("worker result: %v", err)
				}
				results[i] = res
			})
		os.Remove(path)
		incomplete := false
		for _, res := range results {
			if res == nil {
				incomplete = true
			}
		}
		if incomplete {
			st.Capped = true
			r.Capped(fmt.Sprintf("seq/%s: deadline inside depth %d (depth %d fully covered)", cfgName, d, d-1))
			break
		}
		sig := func(res *seqResult) string {
			var b strings.Builder
			for _, s := range res.Succs {
				fmt.Fprintf(&b, "%d:%v:%s:%s;", s.Step, s.Disabled, s.Key, s.Err)
			}
			return hashKey(b.String())
		}
		// shadows first: they belong to states expanded in this or an earlier level
		for i := len(frontier); i < len(job.Nodes); i++ {
			if results[i].Mismatch != "" {
				vk.Fatalf("seq/%s: nondeterministic replay: %s", cfgName, results[i].Mismatch)
			}
		}
		var next []seqNode
		var nextShadow []seqNode
		for i, n := range frontier {
			res := results[i]
			if res.Mismatch != "" {
				vk.Fatalf("seq/%s: nondeterministic replay: %s", cfgName, res.Mismatch)
			}
			st.Reaps += res.Reaps
			st.OrderCalls += res.OrderCalls
			sigOf[n.Key] = sig(res)
			for _, s := range res.Succs {
				h := append(append(make([]int, 0, len(n.Hist)+1), n.Hist...), s.Step)
				if s.Disabled {
					st.Disabled++
					continue
				}
				st.Transitions++
				if s.Step%stepBase != 0 {
					st.OrderVariants++
				}
				if s.Add != "" {
					st.AddResults[s.Add]++
				}
				if s.Err != "" {
					r.Violation(s.Err, s.What, map[string]interface{}{"search": cfgName, "ops": names(h), "steps": h})
					continue
				}
				if rep, ok := seen[s.Key]; ok {
					merges++
					if mergeEvery > 0 && merges%mergeEvery == 0 && d < depth && fmt.Sprint(rep) != fmt.Sprint(h) {
						nextShadow = append(nextShadow, seqNode{h, s.Key})
					}
					continue
				}
				if maxStates > 0 && st.States >= maxStates {
					if !st.Capped {
						st.Capped = true
						r.Capped(fmt.Sprintf("seq/%s: state cap %d reached at depth %d (depth %d fully covered)", cfgName, maxStates, d, d-1))
					}
					continue
				}
				seen[s.Key] = h
				st.States++
				next = append(next, seqNode{h, s.Key})
				if st.States%1499 == 2 {
					r.Sample(map[string]interface{}{"search": "seq/" + cfgName, "ops": names(h), "state": s.State})
				}
			}
		}
		// adequacy of the state key: a merged history must have exactly the successors of its representative
		for i := len(frontier); i < len(job.Nodes); i++ {
			n := job.Nodes[i]
			st.MergeChecks++
			want, ok := sigOf[n.Key]
			if !ok {
				continue // representative is in the next frontier; compared when both are known
			}
			if got := sig(results[i]); got != want {
				vk.Fatalf("seq/%s: state key too coarse: %v and %v share key %s but their successors differ", cfgName, names(seen[n.Key]), names(n.Hist), n.Key)
			}
		}
		// shadows whose representative is expanded in the NEXT level are carried along with it
		shadow = nextShadow
		st.PerDepth = append(st.PerDepth, len(next))
		if !st.Capped {
			st.DepthCompleted = d
		}
		frontier = next
		if st.Capped {
			break
		}
	}
	return st
}
