package main

// Exact balance boundaries. The speculative debit the pool applies when it admits a transaction and the debit block
// execution applies can differ by a small amount (a fee, a gas refund); only a sender whose balance is TIGHT shows it.
// For every debiting kind (plain transfer, token transfer, contract call with value, account->confidential transfer in
// the coin and in a token) there are two dedicated senders with a first transaction T1 of that kind (nonce 0) and a
// cheap plain transfer T2 (nonce 1):
//
//	<k>m  owns exactly cost(T1)+cost(T2)-1 wei: T2 must never be offered together with T1
//	<k>x  owns exactly cost(T1)+cost(T2):       both can be offered and the block executes
//
// where cost() is what block EXECUTION debits: measured by executing the transaction alone in a block on a chain with
// rich senders and diffing the sender's balance (no formula, nothing shared with the pool's checkState).

import (
	"fmt"
	"math/big"

	"verif/csnet"
	"verif/kv"
	"verif/minichain"
	"verif/txkit"
	"verif/vk"

	"github.com/lianxiangcloud/linkchain/libs/common"
	"github.com/lianxiangcloud/linkchain/libs/crypto"
	"github.com/lianxiangcloud/linkchain/libs/cryptonote/xcrypto"
	dbm "github.com/lianxiangcloud/linkchain/libs/db"
	"github.com/lianxiangcloud/linkchain/types"
)

// a world = genesis + committed prefix that every instance of a pool configuration starts from
type world struct {
	name   string
	accts  []int // indices into allAccounts: the accounts whose committed and speculative state the harness follows
	alloc  []minichain.Alloc
	blocks [][][]byte             // transactions of the prefix blocks
	pnames map[common.Hash]string // names of the prefix transactions
}

func mkBoundaryAccount(name string) *txkit.Account {
	k, err := crypto.ToECDSA(crypto.Keccak256([]byte("verif-c15-boundary-" + name)))
	if err != nil {
		panic(err)
	}
	return &txkit.Account{Name: name, Key: k, Addr: crypto.PubkeyToAddress(k.PublicKey)}
}

var boundaryKinds = []struct{ key, what string }{
	{"p", "plain transfer"},
	{"t", "token transfer"},
	{"k", "contract call with value"},
	{"u", "account->confidential transfer (coin)"},
	{"v", "account->confidential transfer (token)"},
}

var (
	bndDeployer = mkBoundaryAccount("deployer")
	bndProbe    = mkBoundaryAccount("gas-probe")
	bndSenders  = func() []*txkit.Account { // pm px tm tx km kx um ux vm vx
		var out []*txkit.Account
		for _, k := range boundaryKinds {
			out = append(out, mkBoundaryAccount(k.key+"m"), mkBoundaryAccount(k.key+"x"))
		}
		return out
	}()
	// every account the harness can attribute a transaction to; the index is what txSpec.Sender and the oracle use
	allAccounts = append(append([]*txkit.Account{txkit.A, txkit.B, txkit.C}, bndSenders...),
		&txkit.Account{Name: "M", Addr: types.MultiSignNonceAddr}) // the account whose nonce special transactions consume
	idxMultiSign = len(allAccounts) - 1
)

const bndFirst = 3 // allAccounts[bndFirst:] are the boundary senders

func boundaryLetters(kind string) []string {
	return []string{kind + "m1", kind + "m2", kind + "x1", kind + "x2"}
}

func rich() *big.Int { return txkit.LKC(10000000) }

func (u *universe) newPlainChain(w *world, pc poolCfg, rec *kv.Recorder) *minichain.Chain {
	o := minichain.Options{IsTrie: true, Alloc: w.alloc, Mempool: pc.mempool(), MempoolCache: pc.Cache,
		WalDir:  u.walDir,                      // trie mode writes nothing there; an explicit directory keeps minichain from creating its own
		Fixture: csnet.NewFixture([]int64{10}), // one validator: the size of the validator set is irrelevant here, signing dominates a commit
	}
	if rec != nil {
		o.NewDB = func(n string) dbm.DB { return rec.DB(n) }
	}
	c, err := minichain.New(o)
	if err != nil {
		vk.Fatalf("world %s: chain: %v", w.name, err)
	}
	for i, blk := range w.blocks {
		var txs types.Txs
		for _, raw := range blk {
			txs = append(txs, decodeTx(raw))
		}
		if _, err := c.Step(txs); err != nil {
			vk.Fatalf("world %s: prefix block %d: %v", w.name, i+1, err)
		}
	}
	return c
}

// measure executes the named letters one per block, in order, on chain c and records what execution debits the sender.
func (u *universe) measure(c *minichain.Chain, names ...string) {
	for _, n := range names {
		t := u.txByName(n)
		if t.Sender < 0 {
			continue
		}
		a := allAccounts[t.Sender].Addr
		before := c.Balance(a)
		b, err := c.Step(types.Txs{decodeTx(t.Raw)})
		if err != nil {
			vk.Fatalf("measuring %s: the block [%s] does not execute on the rich chain: %v", n, n, err)
		}
		if rs := c.Receipts(b.Height); len(rs) != 1 || rs[0].Status != types.ReceiptStatusSuccessful {
			if _, isUTXO := t.obj.(*types.UTXOTransaction); !isUTXO || len(rs) != 1 {
				vk.Fatalf("measuring %s: receipt %v", n, rs)
			}
		}
		cost := new(big.Int).Sub(before, c.Balance(a))
		if t.CostExec != nil && t.CostExec.Cmp(cost) != 0 {
			vk.Fatalf("measuring %s: execution debits %v on one chain and %v on another", n, t.CostExec, cost)
		}
		t.CostExec = cost
	}
}

// buildBoundary adds the boundary letters (always: operation indices are global) and, if a requested configuration
// lives in the boundary world, measures the execution costs and builds its base chains with the exact balances.
func (u *universe) buildBoundary(kit *txkit.Kit, cfgs []poolCfg) {
	D := txkit.D
	P := bndDeployer
	storeInit := txkit.LogContract() // no storage: what a call costs does not depend on earlier calls
	storeAddr := txkit.ContractAddress(P.Addr, 0, storeInit)
	issuerInit := txkit.TokenIssuerContract(txkit.LKC(1000000))
	token := txkit.ContractAddress(P.Addr, 1, issuerInit)
	tokUnits := txkit.LKC(50)
	byName := func(n string) *txkit.Account {
		for _, a := range bndSenders {
			if a.Name == n {
				return a
			}
		}
		panic(n)
	}
	need := false
	for _, pc := range cfgs {
		if pc.World == "bnd" {
			need = true
		}
	}
	// prefix of the boundary world: block 1 deploys a contract that logs its argument and the token issuer, block 2 hands the token to the
	// two senders of kind v
	w := &world{name: "bnd", pnames: map[common.Hash]string{}}
	for i := range bndSenders {
		w.accts = append(w.accts, bndFirst+i)
	}
	pre := func(blk int, name string, tx types.Tx) {
		for len(w.blocks) <= blk {
			w.blocks = append(w.blocks, nil)
		}
		raw := txkit.Bytes(tx)
		w.blocks[blk] = append(w.blocks[blk], raw)
		w.pnames[decodeTx(raw).Hash()] = name
	}
	pre(0, "deploy-store", txkit.Create(P, 0, storeInit, new(big.Int)))
	pre(0, "deploy-token", txkit.Create(P, 1, issuerInit, new(big.Int)))
	pre(1, "fund-vm", txkit.TokenTransfer(P, 2, token, byName("vm").Addr, tokUnits))
	pre(1, "fund-vx", txkit.TokenTransfer(P, 3, token, byName("vx").Addr, tokUnits))
	u.worlds["bnd"] = w
	genesis := func(bal func(a *txkit.Account) *big.Int) []minichain.Alloc {
		out := []minichain.Alloc{{Addr: P.Addr, Balance: rich()}, {Addr: bndProbe.Addr, Balance: rich()}}
		for _, a := range bndSenders {
			al := minichain.Alloc{Addr: a.Addr, Balance: bal(a)}
			if a.Name[0] == 't' {
				al.Tokens = map[common.Address]*big.Int{txkit.GenesisToken: new(big.Int).Set(tokUnits)}
			}
			out = append(out, al)
		}
		return out
	}
	// the gas a call of the store contract with value uses (the limit of the letters is exactly that, so that what the pool
	// reserves and what execution debits coincide for this kind too)
	callValue, callData := txkit.LKC(10), txkit.Word(big.NewInt(7))
	callGas := txkit.DefaultVMGas
	// The rich chain is built in every process: constructing the token letters asks the application created last for the
	// token's decimals (types.RegisterUTXORateGetter is process-wide), so a chain that has the token contract must be that one.
	var richChain *minichain.Chain
	{
		w.alloc = genesis(func(*txkit.Account) *big.Int { return rich() })
		richChain = u.newPlainChain(w, poolCfg{Name: "measure", Cache: "none"}, nil)
		defer richChain.Close()
		b, err := richChain.Step(types.Txs{txkit.Call(bndProbe, 0, storeAddr, callValue, callData)})
		if err != nil {
			vk.Fatalf("boundary: probing the call: %v", err)
		}
		rs := richChain.Receipts(b.Height)
		if len(rs) != 1 || rs[0].Status != types.ReceiptStatusSuccessful {
			vk.Fatalf("boundary: the probe call fails: %v", rs)
		}
		callGas = rs[0].GasUsed
	}
	mk := func(tx *types.UTXOTransaction, err error) *types.UTXOTransaction {
		if err != nil {
			vk.Fatalf("boundary: %v", err)
		}
		return tx
	}
	tokenSeed := uint64(0)
	tokenAin := func(from *txkit.Account) (*types.UTXOTransaction, error) {
		var tx *types.UTXOTransaction
		var err error
		fee := new(big.Int).Mul(txkit.GasPrice, new(big.Int).SetUint64(types.CalNewAmountGas(new(big.Int), types.EverLiankeFee)))
		dest := txkit.ToWallet(txkit.W1, 1, tokUnits)
		tokenSeed++
		xcrypto.VerifSetLocalSeed(15<<20 + 5000 + tokenSeed) // reproducible bytes, as txkit.Kit does for its own builders
		tx, _, err = types.NewAinTokenTransaction(&types.AccountSourceEntry{From: from.Addr, Nonce: 0, Amount: new(big.Int).Set(tokUnits)},
			[]types.DestEntry{&types.UTXODestEntry{Addr: dest.Wallet.Addr(dest.Sub), Amount: dest.Amount, IsSubaddress: dest.Sub > 0}}, token, fee, nil)
		xcrypto.VerifClearLocalSeed()
		if err != nil {
			return nil, err
		}
		return tx, tx.Sign(types.GlobalSTDSigner, from.Key)
	}
	for _, k := range boundaryKinds {
		for _, sfx := range []string{"m", "x"} {
			s := byName(k.key + sfx)
			var t1 types.Tx
			switch k.key {
			case "p":
				t1 = txkit.Transfer(s, 0, D.Addr, txkit.LKC(100))
			case "t":
				t1 = txkit.TokenTransfer(s, 0, txkit.GenesisToken, D.Addr, tokUnits)
			case "k":
				t1 = txkit.TransferWithGas(s, 0, storeAddr, callValue, callGas, callData)
			case "u":
				t1 = mk(kit.AccountToUTXO(s, 0, []txkit.Dest{txkit.ToWallet(txkit.W1, 0, txkit.LKC(100))}, nil))
			case "v":
				t1 = mk(tokenAin(s))
			}
			u.add(s.Name+"1", "boundary:"+k.what, t1, true)
			u.add(s.Name+"2", "boundary:cheap plain transfer", txkit.Transfer(s, 1, D.Addr, new(big.Int).Div(txkit.LKC(1), big.NewInt(5))), true)
		}
	}
	if !need {
		return
	}
	// execution costs: T1 then T2 of every sender, each alone in a block
	for _, s := range bndSenders {
		u.measure(richChain, s.Name+"1", s.Name+"2")
	}
	w.alloc = genesis(func(a *txkit.Account) *big.Int {
		sum := new(big.Int).Add(u.txByName(a.Name+"1").CostExec, u.txByName(a.Name+"2").CostExec)
		if a.Name[1] == 'm' {
			sum.Sub(sum, big.NewInt(1))
		}
		return sum
	})
	for _, pc := range cfgs {
		if pc.World != "bnd" {
			continue
		}
		rec := kv.NewRecorder()
		c := u.newPlainChain(w, pc, rec)
		u.bases[pc.Name] = &base{cfg: pc, rec: rec, chain: c, n: rec.Len(), world: w}
		for _, s := range bndSenders {
			want := new(big.Int).Add(u.txByName(s.Name+"1").CostExec, u.txByName(s.Name+"2").CostExec)
			if s.Name[1] == 'm' {
				want.Sub(want, big.NewInt(1))
			}
			if got := c.Balance(s.Addr); got.Cmp(want) != 0 || c.Nonce(s.Addr) != 0 {
				vk.Fatalf("boundary: %s starts with balance %v nonce %d, want %v and 0", s.Name, got, c.Nonce(s.Addr), want)
			}
		}
	}
}

func (u *universe) boundaryReport() []string {
	var out []string
	for _, s := range bndSenders {
		t1, t2 := u.txByName(s.Name+"1"), u.txByName(s.Name+"2")
		if t1.CostExec == nil {
			continue
		}
		out = append(out, fmt.Sprintf("%s: %s; execution debits T1 %v + T2 %v wei; the pool's own figure for T1 is %v", s.Name, t1.Class, t1.CostExec, t2.CostExec, t1.Cost))
	}
	return out
}
