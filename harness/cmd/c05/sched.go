package main

// Sub-check 3: schedules of the parallel signature pre-check (app.verifyTxsOnProcess, instrumented for the cooperative
// scheduler). The number of workers the function starts is (runtime.NumCPU()+3)>>2, fixed when the process starts
// (affinity mask): the parent re-executes this binary under `taskset` with 8, 12 and 16 CPUs (2, 3, 4 workers) - as
// far as the machine has them - and every child explores, for blocks with no fault, one invalid signature at each
// position, one black-listed address at each position (thorough: also every pair of one of each), in several
// sender-cache states, EVERY interleaving of the function's goroutines with at most 2 preemptions (scheduling points:
// the lock operations of the instrumented mempool cache, WaitGroup.Done/Wait, goroutine start and end). Oracle on every
// schedule: the returned error and the senders stored in the transactions equal what a plain sequential reference
// model of the partition says, hence do not depend on the schedule.

import (
	"encoding/json"
	"flag"
	"fmt"
	"io/ioutil"
	"math/big"
	"os"
	"os/exec"
	"runtime"
	"sort"
	"strconv"
	"strings"
	"sync"

	"verif/kv"
	"verif/schedx"
	"verif/txkit"
	"verif/vk"

	"github.com/lianxiangcloud/linkchain/app"
	"github.com/lianxiangcloud/linkchain/libs/common"
	mempl "github.com/lianxiangcloud/linkchain/mempool"
	"github.com/lianxiangcloud/linkchain/types"
)

var schedChildFlag = flag.String("c05-sched-child", "", "internal: run the schedule exploration in this process (value: label)")

type schedScenario struct {
	N      int    // transactions
	BadSig int    // position with an invalid signature (-1 none)
	Black  int    // position whose recipient is black-listed (-1 none)
	Cache  string // cold | warm | mixed
}

func (s schedScenario) String() string {
	return fmt.Sprintf("n=%d badsig@%d blacklisted@%d cache=%s", s.N, s.BadSig, s.Black, s.Cache)
}

type schedChildResult struct {
	Label      string         `json:"label"`
	NumCPU     int            `json:"num_cpu"`
	Workers    int            `json:"workers"` // goroutines verifyTxsOnProcess started (observed)
	Scenarios  int            `json:"scenarios"`
	Executions int            `json:"executions"`
	Points     int            `json:"points"`
	ByCost     map[string]int `json:"by_cost"`
	Outcomes   map[string]int `json:"outcomes"` // distinct (error) outcomes over all scenarios
	Capped     bool           `json:"capped"`
	Viol       []violRec      `json:"viol"`
	Replays    []interface{}  `json:"replays"`
}

func recipient(i int) common.Address {
	return common.BytesToAddress([]byte{0xc0, 0x05, byte(i + 1)})
}

// schedBase builds the n transactions of the scenario family (fixed keys, recipients distinct per position, plain and
// token transactions alternating) and, for badsig positions, a plain transaction whose signature values are invalid.
func schedBase(n int) (good types.Txs, bad types.Txs) {
	accts := []*txkit.Account{txkit.A, txkit.B, txkit.C}
	for i := 0; i < n; i++ {
		a := accts[i%3]
		nonce := uint64(i / 3)
		var tx types.Tx
		if i%2 == 0 {
			tx = txkit.Transfer(a, nonce, recipient(i), txkit.LKC(int64(i+1)))
		} else {
			tx = txkit.TokenTransfer(a, nonce, txkit.GenesisToken, recipient(i), big.NewInt(int64(100+i)))
		}
		good = append(good, tx)
		pt := types.NewTransaction(nonce, recipient(i), txkit.LKC(int64(i+1)), txkit.TransferGas(txkit.LKC(int64(i+1))), txkit.GasPrice, nil)
		sig := make([]byte, 65)
		sig[31] = 1 // r = 1, s = 0: ValidateSignatureValues refuses s < 1
		btx, err := pt.WithSignature(types.GlobalSTDSigner, sig)
		if err != nil {
			vk.Fatalf("sched: WithSignature: %v", err)
		}
		if _, err := btx.From(); err == nil {
			vk.Fatalf("sched: the invalid signature recovers")
		}
		bad = append(bad, btx)
	}
	return
}

func setBlacklist(add bool, addrs ...common.Address) {
	if len(addrs) == 0 {
		return
	}
	op := "delBlackAddress"
	if add {
		op = "addBlackAddress"
	}
	s := op
	for _, a := range addrs {
		s += "0x" + fmt.Sprintf("%040x", a[:])
	}
	msg, _ := json.Marshal(map[string]string{"ret": s})
	types.BlacklistInstance.DealBlackAddrsChanges(msg)
	if err := types.BlacklistInstance.UpdateBlacklist(); err != nil {
		vk.Fatalf("sched: blacklist: %v", err)
	}
	for _, a := range addrs {
		if types.BlacklistInstance.IsBlackAddress(a) != add {
			vk.Fatalf("sched: blacklist update did not take effect")
		}
	}
}

func schedScenarios(quick bool, workers int) []schedScenario {
	n := workers + 1
	if !quick {
		n = workers + 3
	}
	if n < 5 {
		n = 5
	}
	var out []schedScenario
	caches := []string{"mixed"}
	if !quick {
		caches = []string{"cold", "warm", "mixed"}
	} else {
		out = append(out, schedScenario{n, -1, -1, "cold"}, schedScenario{n, -1, -1, "warm"})
	}
	for _, c := range caches {
		out = append(out, schedScenario{n, -1, -1, c})
		for p := 0; p < n; p++ {
			out = append(out, schedScenario{n, p, -1, c})
			out = append(out, schedScenario{n, -1, p, c})
		}
	}
	if !quick {
		for p := 0; p < n; p++ {
			for q := 0; q < n; q++ {
				if p != q {
					out = append(out, schedScenario{n, p, q, "mixed"})
				}
			}
		}
	}
	return out
}

// expected is the sequential reference model of the partition: worker k takes positions k, k+W, ... in order and stops
// at its first fault; the block is refused iff some worker stopped. (WHICH error is returned when two workers stop only
// reaches the log; it is recorded as coverage, not judged.)
func expected(s schedScenario, W int) (reject bool, stored []bool) {
	stored = make([]bool, s.N)
	for k := 0; k < W; k++ {
		for i := k; i < s.N; i += W {
			if i == s.BadSig {
				reject = true
				break
			}
			stored[i] = true
			if i == s.Black {
				reject = true
				break
			}
		}
	}
	return reject, stored
}

func schedChild(r *vk.Run, label string) {
	types.BlacklistInstance.Init(kv.NewCopyDB())
	res := schedChildResult{Label: label, NumCPU: runtime.NumCPU(), ByCost: map[string]int{}, Outcomes: map[string]int{}}
	var mu sync.Mutex
	viol := func(key, what string, replay interface{}) {
		mu.Lock()
		defer mu.Unlock()
		for _, v := range res.Viol {
			if v.Key == key {
				return
			}
		}
		res.Viol = append(res.Viol, violRec{key, what})
		res.Replays = append(res.Replays, replay)
	}
	// how many goroutines does the function start in this process? one probe execution (default schedule)
	workers := 0
	{
		good, _ := schedBase(4)
		schedx.Explore(r, "probe", 0, func() ([]schedx.Thread, func(schedx.Outcome) (string, string)) {
			txs := wireCopies(good)
			mp := mempl.VerifC05CacheOnlyMempool(nil)
			return []schedx.Thread{{Name: "check", Body: func() { app.VerifC05VerifyTxs(mp, txs) }}}, func(o schedx.Outcome) (string, string) {
				max := 0
				for _, id := range o.Trace {
					if id > max {
						max = id
					}
				}
				mu.Lock()
				if max > workers {
					workers = max
				}
				mu.Unlock()
				return "", ""
			}
		})
	}
	res.Workers = workers
	if workers < 1 {
		vk.Fatalf("sched: verifyTxsOnProcess started no goroutine (instrumentation missing?)")
	}
	scen := schedScenarios(r.Quick(), workers)
	for _, s := range scen {
		if r.Expired() {
			res.Capped = true
			break
		}
		s := s
		good, bad := schedBase(s.N)
		truth := make([]common.Address, s.N)
		for i, tx := range good {
			truth[i], _ = txkit.WireCopy(tx).From()
		}
		twins := make(types.Txs, s.N)
		twinSender := make([]common.Address, s.N)
		for i, tx := range good {
			twins[i] = schedTwin(tx, i)
			twinSender[i], _ = twins[i].From()
			if twinSender[i] == truth[i] || twins[i].Hash() == tx.Hash() {
				vk.Fatalf("sched: twin is not a twin")
			}
		}
		if s.Black >= 0 {
			setBlacklist(true, recipient(s.Black))
		}
		wantReject, wantStored := expected(s, workers)
		var first *string
		st := schedx.Explore(r, s.String(), 2, func() ([]schedx.Thread, func(schedx.Outcome) (string, string)) {
			txs := wireCopies(good)
			if s.BadSig >= 0 {
				txs[s.BadSig] = txkit.WireCopy(bad[s.BadSig])
			}
			var entries []mempl.VerifC05CacheEntry
			for i, tx := range good {
				if i == s.BadSig {
					continue // the mempool never marks a transaction with an invalid signature as checked
				}
				cached, checked := false, true
				switch s.Cache {
				case "warm":
					cached = true
				case "mixed":
					cached = i%2 == 0 || i == 1
					checked = i != 1 // position 1: in the cache, basic check not finished
				}
				if cached {
					c := txkit.WireCopy(tx)
					if checked {
						storeSender(c, truth[i]) // AddTx's basic check computed and cached the sender
					}
					entries = append(entries, mempl.VerifC05CacheEntry{Tx: c, Checked: checked})
				}
				if s.Cache == "mixed" {
					// a same-fields-different-signature twin of every transaction is in the cache too
					if tw := txkit.WireCopy(twins[i]); tw != nil {
						storeSender(tw, twinSender[i])
						entries = append(entries, mempl.VerifC05CacheEntry{Tx: tw, Checked: true})
					}
				}
			}
			mp := mempl.VerifC05CacheOnlyMempool(entries)
			var err error
			done := false
			return []schedx.Thread{{Name: "check", Body: func() { err = app.VerifC05VerifyTxs(mp, txs); done = true }}}, func(o schedx.Outcome) (string, string) {
				replay := map[string]interface{}{"label": label, "workers": workers, "scenario": s.String(), "schedule_thread_ids": o.Trace}
				if o.Deadlock {
					viol("sigcheck:deadlock", fmt.Sprintf("%s: deadlock under schedule %v", s, o.Trace), replay)
					return "", ""
				}
				if len(o.Panics) > 0 {
					viol("sigcheck:panic", fmt.Sprintf("%s: %v under schedule %v", s, o.Panics, o.Trace), replay)
					return "", ""
				}
				if o.Stuck != "" || !done {
					viol("sigcheck:does-not-terminate", fmt.Sprintf("%s: %s under schedule %v", s, o.Stuck, o.Trace), replay)
					return "", ""
				}
				got := fmtErr(err)
				out := fmt.Sprintf("rejected=%v stored=", err != nil)
				okStored := true
				for i, tx := range txs {
					a, ok := types.VerifC05CachedSender(tx)
					if ok {
						out += "1"
						if i == s.BadSig || a != truth[i] {
							viol("sigcheck:stored-sender-wrong", fmt.Sprintf("%s: transaction %d carries sender %x, its signer is %x (schedule %v)", s, i, a, truth[i], o.Trace), replay)
						}
					} else {
						out += "0"
					}
					if ok != wantStored[i] {
						okStored = false
					}
				}
				mu.Lock()
				res.Outcomes[got]++
				if first == nil {
					first = &out
				}
				differs := *first != out
				mu.Unlock()
				if differs {
					viol("sigcheck:schedule-dependent-outcome", fmt.Sprintf("%s (%d workers): outcome %q under schedule %v, %q under the default schedule", s, workers, out, o.Trace, *first), replay)
				}
				if (err != nil) != wantReject {
					kind := "fault-not-reported"
					if !wantReject {
						kind = "valid-block-refused"
					}
					viol("sigcheck:outcome-differs-from-sequential-reference:"+kind, fmt.Sprintf("%s (%d workers): returns %q, the sequential reference says refuse=%v (schedule %v)", s, workers, got, wantReject, o.Trace), replay)
				} else if !okStored {
					viol("sigcheck:outcome-differs-from-sequential-reference:stored-senders", fmt.Sprintf("%s (%d workers): %s, the sequential reference stores senders at %v (schedule %v)", s, workers, out, wantStored, o.Trace), replay)
				}
				return "", ""
			}
		})
		if s.Black >= 0 {
			setBlacklist(false, recipient(s.Black))
		}
		res.Scenarios++
		res.Executions += st.Executions
		res.Points += st.ChoicePoints
		for c, n := range st.ByCost {
			res.ByCost[strconv.Itoa(c)] += n
		}
		if st.Capped {
			res.Capped = true
		}
	}
	bz, _ := json.Marshal(res)
	fmt.Println("C05SCHED " + string(bz))
	os.Exit(0)
}

// storeSender puts a known sender into the transaction's signature cache (what From() leaves there after recovering it).
func storeSender(tx types.Tx, a common.Address) {
	switch t := tx.(type) {
	case *types.Transaction:
		t.StoreFrom(a)
	case *types.TokenTransaction:
		t.StoreFrom(a)
	default:
		tx.From()
	}
}

// schedTwin: same sign fields as tx, signed by the next account (another funded sender).
func schedTwin(tx types.Tx, i int) types.Tx {
	accts := []*txkit.Account{txkit.A, txkit.B, txkit.C}
	other := accts[(i+1)%3]
	switch t := tx.(type) {
	case *types.Transaction:
		tw := types.NewTransaction(t.Nonce(), *t.To(), t.Value(), t.Gas(), t.GasPrice(), t.Data())
		if err := tw.Sign(types.GlobalSTDSigner, other.Key); err != nil {
			vk.Fatalf("twin: %v", err)
		}
		return tw
	case *types.TokenTransaction:
		tw := types.NewTokenTransaction(t.TokenAddress(), t.Nonce(), *t.To(), t.Value(), t.Gas(), t.GasPrice(), t.Data())
		if err := tw.Sign(types.GlobalSTDSigner, other.Key); err != nil {
			vk.Fatalf("twin: %v", err)
		}
		return tw
	}
	return nil
}

// ---- parent side ---------------------------------------------------------------------------------------------------

func allowedCPUs() []int {
	bz, err := ioutil.ReadFile("/proc/self/status")
	if err != nil {
		return nil
	}
	for _, line := range strings.Split(string(bz), "\n") {
		if !strings.HasPrefix(line, "Cpus_allowed_list:") {
			continue
		}
		var out []int
		for _, part := range strings.Split(strings.TrimSpace(strings.TrimPrefix(line, "Cpus_allowed_list:")), ",") {
			if part == "" {
				continue
			}
			lo, hi := part, part
			if k := strings.IndexByte(part, '-'); k >= 0 {
				lo, hi = part[:k], part[k+1:]
			}
			a, e1 := strconv.Atoi(lo)
			b, e2 := strconv.Atoi(hi)
			if e1 != nil || e2 != nil {
				return nil
			}
			for c := a; c <= b; c++ {
				out = append(out, c)
			}
		}
		sort.Ints(out)
		return out
	}
	return nil
}

// runSched starts one child per reachable worker count and folds the results into the run.
func runSched(r *vk.Run) {
	self, err := os.Executable()
	if err != nil {
		vk.Fatalf("executable: %v", err)
	}
	cpus := allowedCPUs()
	_, terr := exec.LookPath("taskset")
	type cfg struct {
		label string
		ncpu  int // 0 = unrestricted
	}
	var cfgs []cfg
	if terr == nil && len(cpus) > 0 {
		for _, n := range []int{8, 12, 16} { // 2, 3, 4 workers
			if n <= len(cpus) {
				cfgs = append(cfgs, cfg{fmt.Sprintf("taskset-%dcpu", n), n})
			}
		}
	}
	if len(cfgs) == 0 {
		cfgs = append(cfgs, cfg{"unrestricted", 0})
		r.Note("sched: taskset or a CPU list is not available; only the worker count of this machine (%d CPUs) is explored", runtime.NumCPU())
	}
	var mu sync.Mutex
	var per []interface{}
	workersSeen := map[int]bool{}
	outcomes := map[string]int{}
	total, points, scen, nviol := 0, 0, 0, 0
	// runOne returns false when the child produced no result
	runOne := func(c cfg) (ok bool, diag string) {
		args := fmt.Sprintf("--tier %s --budget %ds --c05-sched-child %s", r.Tier, int(r.Remaining().Seconds())-5, c.label)
		script := fmt.Sprintf("ulimit -v %d; exec \"$0\" %s", 8*1024*1024, args)
		if c.ncpu > 0 {
			var l []string
			for _, id := range cpus[:c.ncpu] {
				l = append(l, strconv.Itoa(id))
			}
			script = fmt.Sprintf("ulimit -v %d; exec taskset -c %s \"$0\" %s", 8*1024*1024, strings.Join(l, ","), args)
		}
		cmd := exec.Command("bash", "-c", script, self)
		cmd.Env = append(os.Environ(), "GOTRACEBACK=single")
		errbuf := &strings.Builder{}
		cmd.Stderr = errbuf
		out, err := cmd.Output()
		var res schedChildResult
		found := false
		for _, line := range strings.Split(string(out), "\n") {
			if strings.HasPrefix(line, "C05SCHED ") {
				if e := json.Unmarshal([]byte(line[len("C05SCHED "):]), &res); e != nil {
					vk.Fatalf("sched child %s: bad result: %v", c.label, e)
				}
				found = true
			}
		}
		if !found {
			es := errbuf.String()
			if len(es) > 1500 {
				es = es[:1500]
			}
			return false, fmt.Sprintf("%v\n%s", err, es)
		}
		mu.Lock()
		defer mu.Unlock()
		for i, v := range res.Viol {
			r.Violation(v.Key, v.What, res.Replays[i])
			nviol++
		}
		workersSeen[res.Workers] = true
		total += res.Executions
		points += res.Points
		scen += res.Scenarios
		for k, n := range res.Outcomes {
			outcomes[k] += n
		}
		if res.Capped {
			r.Capped(fmt.Sprintf("sched %s (%d workers): %d scenarios fully explored before the deadline", c.label, res.Workers, res.Scenarios))
		}
		per = append(per, map[string]interface{}{"config": c.label, "num_cpu": res.NumCPU, "workers": res.Workers, "scenarios": res.Scenarios, "schedules": res.Executions,
			"scheduling_points": res.Points, "by_preemptions": res.ByCost})
		return true, ""
	}
	var wg sync.WaitGroup
	succeeded := 0
	for _, c := range cfgs {
		wg.Add(1)
		go func(c cfg) {
			defer wg.Done()
			ok, diag := runOne(c)
			mu.Lock()
			defer mu.Unlock()
			if ok {
				succeeded++
			} else if c.ncpu > 0 && strings.Contains(diag, "taskset:") {
				r.Note("sched: the child under %s produced no result (taskset not permitted here?): %s", c.label, strings.SplitN(diag, "\n", 2)[0])
			} else {
				vk.Fatalf("sched child %s died without a result: %s", c.label, diag)
			}
		}(c)
	}
	wg.Wait()
	if succeeded == 0 {
		if ok, diag := runOne(cfg{"unrestricted", 0}); !ok {
			vk.Fatalf("sched child (unrestricted) died without a result: %s", diag)
		}
	}
	var ws []int
	for w := range workersSeen {
		ws = append(ws, w)
	}
	sort.Ints(ws)
	sort.Slice(per, func(i, j int) bool { return fmt.Sprint(per[i]) < fmt.Sprint(per[j]) })
	r.Set("sched_configs", per)
	r.Set("sched_worker_counts", ws)
	r.Set("sched_schedules", total)
	r.Set("sched_scenarios", scen)
	r.Set("sched_scheduling_points", points)
	r.Set("sched_outcomes", outcomes)
	if len(outcomes) < 3 && nviol == 0 {
		vk.Fatalf("sched: only %d distinct outcomes (%v): the fault scenarios do not bite", len(outcomes), outcomes)
	}
	if len(ws) < 2 {
		r.Note("sched: only worker count(s) %v could be reached on this machine", ws)
	}
}
