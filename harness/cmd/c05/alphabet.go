package main

// Block alphabet of C05: two prior states (genesis; after one mixed block) and, per prior state, a list of "letters".
// A block is a sequence of letters; a letter becomes a transaction when the block is built (account nonces are the
// state nonce plus the number of earlier transactions of the same sender in the block, so that sequences are valid
// unless a letter is hostile on purpose). Addresses, amounts and contracts are chosen to collide: the same accounts,
// the same storage slot, the same confidential output appear in several letters.

import (
	"fmt"
	"math/big"

	"verif/minichain"
	"verif/txkit"

	cfg "github.com/lianxiangcloud/linkchain/config"
	"github.com/lianxiangcloud/linkchain/libs/common"
	"github.com/lianxiangcloud/linkchain/libs/cryptonote/xcrypto"
	"github.com/lianxiangcloud/linkchain/types"
)

// addresses of the contracts the mixed block deploys (creator A, nonces 0..7)
var (
	multiInit                                          []byte         // contract with eight filled storage slots
	multiAddr, sdAddr2, sdAddr3                        common.Address // ... and two more self-destructing contracts (other account-trie keys)
	storeInit, revertInit, sdInit, logInit, issuerInit []byte
	storeAddr, revertAddr, sdAddr, logAddr, issuerAddr common.Address
	issuerInitB                                        []byte
	tokenUnits                                         = txkit.LKC(1000)
	failingInit                                        = append([]byte{}, txkit.RevertRuntime...) // init code that REVERTs: a failing creation
	numStates                                          = 3
	stateNames                                         = []string{"genesis", "after-mixed-block", "candidate-elected"}
)

func init() {
	storeInit, revertInit, sdInit, logInit = txkit.StoreContract(), txkit.RevertContract(), txkit.SelfDestructContract(), txkit.LogContract()
	issuerInit = txkit.TokenIssuerContract(txkit.LKC(500))
	issuerInitB = txkit.TokenIssuerContract(txkit.LKC(300))
	A := txkit.A.Addr
	storeAddr, revertAddr = txkit.ContractAddress(A, 0, storeInit), txkit.ContractAddress(A, 1, revertInit)
	sdAddr, logAddr = txkit.ContractAddress(A, 2, sdInit), txkit.ContractAddress(A, 3, logInit)
	issuerAddr = txkit.ContractAddress(A, 4, issuerInit)
	multiInit = multiSlotContract()
	multiAddr = txkit.ContractAddress(A, 5, multiInit)
	sdAddr2, sdAddr3 = txkit.ContractAddress(A, 6, sdInit), txkit.ContractAddress(A, 7, sdInit)
}

// multiSlotContract: the constructor fills storage slots 1..8 with 0x11..0x18. A call with calldata (k, k2, v) - three
// 32-byte words - writes, for every slot i in 1..8, the value 0 if i == k or i == k2 (a CLEAR of a committed, non-empty
// slot: TryDelete on the storage trie) and v otherwise (seven or six updates next to the deletes, in the order Go
// iterates stateObject.dirtyStorage). Branch-free: value = iszero((i==k)|(i==k2)) * v.
func multiSlotContract() []byte {
	const (
		opMUL, opEQ, opISZERO, opOR, opCALLDATALOAD, opSSTORE, opPUSH1, opSTOP = 0x02, 0x14, 0x15, 0x17, 0x35, 0x55, 0x60, 0x00
	)
	var prefix, rt []byte
	for i := byte(1); i <= 8; i++ {
		prefix = append(prefix, opPUSH1, 0x10+i, opPUSH1, i, opSSTORE)
		rt = append(rt,
			opPUSH1, i, opPUSH1, 0, opCALLDATALOAD, opEQ,
			opPUSH1, i, opPUSH1, 32, opCALLDATALOAD, opEQ, opOR,
			opISZERO,
			opPUSH1, 64, opCALLDATALOAD, opMUL,
			opPUSH1, i, opSSTORE)
	}
	rt = append(rt, opSTOP)
	return txkit.Deploy(prefix, rt)
}

func clearData(k, k2 int64) []byte {
	d := append(txkit.Word(big.NewInt(k)), txkit.Word(big.NewInt(k2))...)
	return append(d, txkit.Word(big.NewInt(0x77))...)
}

func alloc() []minichain.Alloc { return txkit.AllocWithToken(nil, txkit.GenesisToken, tokenUnits) }

// validatorSigners: 3 of the 4 equal validators (> 2/3 of the power)
func validatorSigners(c *minichain.Chain) []txkit.ValidatorSigner {
	var s []txkit.ValidatorSigner
	for _, k := range c.Fixture().Keys[:3] {
		s = append(s, txkit.SignerOf(k))
	}
	return s
}

// mixedBlock is the block that leads from genesis to prior state 1: eight contract creations (three with an endowment,
// one that issues a token, one that fills eight storage slots), a coin transfer, a token transfer, an account -> confidential transaction with three
// outputs (two wallets, one sub-address) and the multi-signature account transaction that installs the signer table
// contract upgrades need. C sends nothing (its nonce stays 0).
func mixedBlock(c *minichain.Chain) types.Txs {
	A, B, C := txkit.A, txkit.B, txkit.C
	kit := txkit.NewKit(11)
	ain, err := kit.AccountToUTXO(B, 0, []txkit.Dest{txkit.ToWallet(txkit.W0, 0, txkit.LKC(300)), txkit.ToWallet(txkit.W0, 1, txkit.LKC(200)), txkit.ToWallet(txkit.W1, 0, txkit.LKC(100))}, nil)
	if err != nil {
		panic(err)
	}
	mst := txkit.MultiSign(0, types.TxContractCreateType, 20, []*types.SignerEntry{{Power: 10, Addr: A.Addr}, {Power: 10, Addr: B.Addr}}, validatorSigners(c))
	return types.Txs{
		txkit.Create(A, 0, storeInit, nil),
		txkit.Create(A, 1, revertInit, nil),
		txkit.Create(A, 2, sdInit, txkit.LKC(5)),
		txkit.Create(A, 3, logInit, nil),
		txkit.Create(A, 4, issuerInit, nil),
		txkit.Create(A, 5, multiInit, nil),
		txkit.Create(A, 6, sdInit, txkit.LKC(6)),
		txkit.Create(A, 7, sdInit, txkit.LKC(7)),
		txkit.Transfer(A, 8, B.Addr, txkit.LKC(10)),
		txkit.TokenTransfer(A, 9, txkit.GenesisToken, C.Addr, big.NewInt(12345)),
		ain,
		mst,
	}
}

// bctx is the context in which the letters of ONE block become transactions.
type bctx struct {
	w     *prior // the prior state (nonces, ledger)
	kit   *txkit.Kit
	used  map[common.Address]uint64 // transactions of the sender earlier in this block
	msUse uint64
	own   uint64           // confidential transactions built outside the Kit
	chain *minichain.Chain // any chain at the prior state (validator keys, balances)
}

func (x *bctx) next(a *txkit.Account) uint64 {
	n := x.w.nonce[a.Addr] + x.used[a.Addr]
	x.used[a.Addr]++
	return n
}

type letter struct {
	name  string
	build func(x *bctx) (types.Tx, error)
	// special letters (deletes next to other writes in one trie) are not part of the free alphabet: they appear alone and
	// next to each partner letter, in both orders (their long update sequences make every block that holds them costly)
	special bool
}

func plain(name string, f func(x *bctx) types.Tx) letter {
	return letter{name: name, build: func(x *bctx) (types.Tx, error) { return f(x), nil }}
}

func special(name string, f func(x *bctx) types.Tx) letter {
	return letter{name: name, build: func(x *bctx) (types.Tx, error) { return f(x), nil }, special: true}
}

// partners of the special letters
var partnerNames = []string{"transfer(A->B,10)", "call(B,selfdestruct->D)", "call(A,store,42)"}

// letters shared by both prior states
func commonLetters() []letter {
	A, B, C, D := txkit.A, txkit.B, txkit.C, txkit.D
	return []letter{
		plain("transfer(A->B,10)", func(x *bctx) types.Tx { return txkit.Transfer(A, x.next(A), B.Addr, txkit.LKC(10)) }),
		plain("transfer(B->A,7)", func(x *bctx) types.Tx { return txkit.Transfer(B, x.next(B), A.Addr, txkit.LKC(7)) }),
		plain("transfer(A->D,3)[new account]", func(x *bctx) types.Tx { return txkit.Transfer(A, x.next(A), D.Addr, txkit.LKC(3)) }),
		plain("token(A->C,genesis-token)", func(x *bctx) types.Tx {
			return txkit.TokenTransfer(A, x.next(A), txkit.GenesisToken, C.Addr, big.NewInt(777))
		}),
		letter{name: "A->U(C->W1,W2)", build: func(x *bctx) (types.Tx, error) {
			return x.kit.AccountToUTXO(C, x.next(C), []txkit.Dest{txkit.ToWallet(txkit.W1, 1, txkit.LKC(70)), txkit.ToWallet(txkit.W2, 2, txkit.LKC(30))}, nil)
		}},
		// the same kind from an account whose nonce is > 0 in the second prior state (7) and, after any other letter of A,
		// also at genesis
		letter{name: "A->U(A->W0,W2)", build: func(x *bctx) (types.Tx, error) {
			return x.kit.AccountToUTXO(A, x.next(A), []txkit.Dest{txkit.ToWallet(txkit.W0, 2, txkit.LKC(40)), txkit.ToWallet(txkit.W2, 0, txkit.LKC(60))}, nil)
		}},
		plain("multisign", func(x *bctx) types.Tx {
			n := x.w.msNonce + x.msUse
			x.msUse++
			return txkit.MultiSign(n, types.TxUpdateValidatorsType, 10, []*types.SignerEntry{{Power: 10, Addr: C.Addr}}, validatorSigners(x.chain))
		}),
		plain("upgrade(A)[fails in VM / no signer table at genesis]", func(x *bctx) types.Tx {
			return txkit.Upgrade(A, x.next(A), cfg.ContractFoundationAddr, append(append([]byte{}, txkit.WasmMagic...), 1, 0, 0, 0), A, B)
		}),
		// hostile on purpose
		plain("transfer(A->C,2)@state-nonce[duplicate nonce after another A tx]", func(x *bctx) types.Tx {
			if x.used[A.Addr] == 0 {
				x.used[A.Addr] = 1
			}
			return txkit.Transfer(A, x.w.nonce[A.Addr], C.Addr, txkit.LKC(2))
		}),
		plain("underfunded(C->A,whole balance)", func(x *bctx) types.Tx {
			return txkit.Underfunded(C, x.next(C), A.Addr, x.w.balC)
		}),
	}
}

// candidateLetterNames: the (small) alphabet of the third prior state, whose point is the candidate list and the evidence
// every block carries, not the transactions
var candidateLetterNames = []string{"transfer(A->B,10)", "transfer(B->A,7)", "A->U(C->W1,W2)", "transfer(A->C,2)@state-nonce[duplicate nonce after another A tx]"}

func lettersFor(st int) []letter {
	A, B, C, D := txkit.A, txkit.B, txkit.C, txkit.D
	ls := commonLetters()
	if st == 2 {
		var out []letter
		for _, n := range candidateLetterNames {
			for _, l := range ls {
				if l.name == n {
					out = append(out, l)
				}
			}
		}
		if len(out) != len(candidateLetterNames) {
			panic("candidate-state letters not found")
		}
		return out
	}
	if st == 0 {
		ls = append(ls,
			plain("transfer(A->A,1)[self]", func(x *bctx) types.Tx { return txkit.Transfer(A, x.next(A), A.Addr, txkit.LKC(1)) }),
			plain("create(A,store)", func(x *bctx) types.Tx { return txkit.Create(A, x.next(A), storeInit, nil) }),
			plain("create(B,token-issuer)", func(x *bctx) types.Tx { return txkit.Create(B, x.next(B), issuerInitB, nil) }),
			plain("create(C,reverting init,value 2)[failing creation]", func(x *bctx) types.Tx { return txkit.Create(C, x.next(C), failingInit, txkit.LKC(2)) }),
		)
		return ls
	}
	ls = append(ls,
		plain("call(A,store,42)", func(x *bctx) types.Tx { return txkit.Call(A, x.next(A), storeAddr, nil, txkit.Word(big.NewInt(42))) }),
		plain("call(B,store,43)[same slot]", func(x *bctx) types.Tx { return txkit.Call(B, x.next(B), storeAddr, nil, txkit.Word(big.NewInt(43))) }),
		plain("call(C,store,0)[slot delete]", func(x *bctx) types.Tx { return txkit.Call(C, x.next(C), storeAddr, nil, txkit.Word(big.NewInt(0))) }),
		plain("call(A,revert,value 1)[failing call]", func(x *bctx) types.Tx { return txkit.Call(A, x.next(A), revertAddr, txkit.LKC(1), nil) }),
		plain("call(B,selfdestruct->D)", func(x *bctx) types.Tx { return txkit.Call(B, x.next(B), sdAddr, nil, txkit.AddrWord(D.Addr)) }),
		plain("call(A,log)", func(x *bctx) types.Tx { return txkit.Call(A, x.next(A), logAddr, nil, txkit.Word(big.NewInt(0xbeef))) }),
		plain("call(B,issuer,issue 250)", func(x *bctx) types.Tx { return txkit.Call(B, x.next(B), issuerAddr, nil, txkit.Word(txkit.LKC(250))) }),
		plain("token(A->C,issued token)", func(x *bctx) types.Tx {
			return txkit.TokenTransfer(A, x.next(A), issuerAddr, C.Addr, txkit.LKC(100))
		}),
		letter{name: "U->U(W0 out0 -> W2, ring 1)", build: func(x *bctx) (types.Tx, error) {
			return x.kit.Transfer(x.w.led, txkit.W0, x.w.spendW0[:1], 1, []txkit.Dest{txkit.ToWallet(txkit.W2, 0, txkit.LKC(50))}, 2)
		}},
		letter{name: "U->U(W0 out1 -> W1, ring 3 MLSAG)", build: func(x *bctx) (types.Tx, error) {
			return x.kit.Transfer(x.w.led, txkit.W0, x.w.spendW0[1:2], 3, []txkit.Dest{txkit.ToWallet(txkit.W1, 2, txkit.LKC(20))}, 0)
		}},
		letter{name: "U->U(W0 out0 -> W1)[double spend with the first U->U]", build: func(x *bctx) (types.Tx, error) {
			return x.kit.Transfer(x.w.led, txkit.W0, x.w.spendW0[:1], 1, []txkit.Dest{txkit.ToWallet(txkit.W1, 0, txkit.LKC(1))}, 0)
		}},
		// account -> confidential in an issued TOKEN: amount in token units, fee in coin from the same account (nonce 7+)
		letter{name: "A->U token(A->W1, issued token, fee from account)", build: func(x *bctx) (types.Tx, error) {
			return tokenAin(x, A, issuerAddr, txkit.LKC(30))
		}},
		letter{name: "U->A(W1 -> C)", build: func(x *bctx) (types.Tx, error) {
			tx, _, err := x.kit.ToAccountAll(x.w.led, txkit.W1, x.w.spendW1[:1], 1, C.Addr)
			return tx, err
		}},
	)
	// special letters: a delete next to other writes in ONE trie
	for k := int64(1); k <= 8; k++ {
		k := k
		ls = append(ls, special(fmt.Sprintf("call(A,multi-slot: clear slot %d, rewrite the other 7)", k), func(x *bctx) types.Tx {
			return txkit.Call(A, x.next(A), multiAddr, nil, clearData(k, 0))
		}))
	}
	ls = append(ls,
		special("call(A,multi-slot: clear slots 2 and 5, rewrite the other 6)", func(x *bctx) types.Tx {
			return txkit.Call(A, x.next(A), multiAddr, nil, clearData(2, 5))
		}),
		special("call(B,selfdestruct#2->D)", func(x *bctx) types.Tx { return txkit.Call(B, x.next(B), sdAddr2, nil, txkit.AddrWord(D.Addr)) }),
		special("call(C,selfdestruct#3->A)", func(x *bctx) types.Tx { return txkit.Call(C, x.next(C), sdAddr3, nil, txkit.AddrWord(A.Addr)) }),
	)
	return ls
}

// blockCases: every sequence of at most maxLen letters, per prior state, shortest first.
type blockCase struct {
	st      int
	letters []int
	dup     bool // second execution of an earlier case in (normally) another worker process: run-to-run comparison
}

func (c blockCase) name() string {
	ls := lettersFor(c.st)
	s := stateNames[c.st] + ": ["
	for i, l := range c.letters {
		if i > 0 {
			s += " ; "
		}
		s += ls[l].name
	}
	return s + "]"
}

func blockCases(maxLen int) []blockCase {
	var out []blockCase
	var short []blockCase
	for st := 0; st < numStates; st++ {
		ls := lettersFor(st)
		n := 0 // the free alphabet: the non-special letters (they come first)
		for n < len(ls) && !ls[n].special {
			n++
		}
		// breadth-first by length so that indices of short blocks are stable across tiers
		for L := 0; L <= maxLen; L++ {
			var gen func(prefix []int)
			gen = func(prefix []int) {
				if len(prefix) == L {
					c := blockCase{st: st, letters: append([]int{}, prefix...)}
					out = append(out, c)
					if L <= 1 {
						short = append(short, c)
					}
					return
				}
				for l := 0; l < n; l++ {
					gen(append(prefix, l))
				}
			}
			gen(nil)
		}
		// special letters: alone, and before / after each partner
		for s := n; s < len(ls); s++ {
			if !ls[s].special {
				panic("special letters must come last")
			}
			out = append(out, blockCase{st: st, letters: []int{s}})
			for _, pn := range partnerNames {
				for p := 0; p < n; p++ {
					if ls[p].name == pn {
						out = append(out, blockCase{st: st, letters: []int{p, s}}, blockCase{st: st, letters: []int{s, p}})
					}
				}
			}
		}
	}
	for _, c := range short {
		c.dup = true
		out = append(out, c)
	}
	return out
}

func fmtErr(err error) string {
	if err == nil {
		return ""
	}
	return fmt.Sprint(err)
}

// tokenAin builds an account -> confidential transaction in a token (types.NewAinTokenTransaction + Sign). The unit of
// the hidden amount comes from the token contract's decimals() through a process-wide getter that is bound to the
// application created last: a throw-away replica of the prior state binds it to a state that has the contract.
func tokenAin(x *bctx, from *txkit.Account, token common.Address, amount *big.Int) (types.Tx, error) {
	rb := x.w.tmpl[0].clone()
	defer rb.Close()
	src := &types.AccountSourceEntry{From: from.Addr, Nonce: x.next(from), Amount: new(big.Int).Set(amount)}
	dests := []types.DestEntry{&types.UTXODestEntry{Addr: txkit.W1.Addr(0), Amount: new(big.Int).Set(amount)}}
	var tx *types.UTXOTransaction
	var err error
	// deterministic randomness, disjoint from the Kit's own sequence (per-goroutine generator of the crypto stand-in)
	x.own++
	xcrypto.VerifSetLocalSeed(x.kit.Seed<<20 + 1<<19 + x.own)
	tx, _, err = types.NewAinTokenTransaction(src, dests, token, txkit.FeeAin(amount), nil)
	xcrypto.VerifClearLocalSeed()
	if err != nil {
		return nil, err
	}
	if err := tx.Sign(types.GlobalSTDSigner, from.Key); err != nil {
		return nil, err
	}
	return tx, nil
}
