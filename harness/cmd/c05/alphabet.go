package main

// Block alphabet of C05: two prior states (genesis; after one mixed block) and, per prior state, a list of "letters".
// A block is a sequence of letters; a letter becomes a transaction when the block is built (account nonces are the
// state nonce plus the number of earlier transactions of the same sender in the block, so that sequences are valid
// unless a letter is hostile on purpose). Addresses, amounts and contracts are chosen to collide: the same accounts,
// the same storage slot, the same confidential output appear in several letters.

import (
	"fmt"
	"math/big"

	"verif/minichain"
	"verif/txkit"

	cfg "github.com/lianxiangcloud/linkchain/config"
	"github.com/lianxiangcloud/linkchain/libs/common"
	"github.com/lianxiangcloud/linkchain/libs/cryptonote/xcrypto"
	"github.com/lianxiangcloud/linkchain/types"
)

// addresses of the contracts the mixed block deploys (creator A, nonces 0..4)
var (
	storeInit, revertInit, sdInit, logInit, issuerInit []byte
	storeAddr, revertAddr, sdAddr, logAddr, issuerAddr common.Address
	issuerInitB                                        []byte
	tokenUnits                                         = txkit.LKC(1000)
	failingInit                                        = append([]byte{}, txkit.RevertRuntime...) // init code that REVERTs: a failing creation
	numStates                                          = 2
	stateNames                                         = []string{"genesis", "after-mixed-block"}
)

func init() {
	storeInit, revertInit, sdInit, logInit = txkit.StoreContract(), txkit.RevertContract(), txkit.SelfDestructContract(), txkit.LogContract()
	issuerInit = txkit.TokenIssuerContract(txkit.LKC(500))
	issuerInitB = txkit.TokenIssuerContract(txkit.LKC(300))
	A := txkit.A.Addr
	storeAddr, revertAddr = txkit.ContractAddress(A, 0, storeInit), txkit.ContractAddress(A, 1, revertInit)
	sdAddr, logAddr = txkit.ContractAddress(A, 2, sdInit), txkit.ContractAddress(A, 3, logInit)
	issuerAddr = txkit.ContractAddress(A, 4, issuerInit)
}

func alloc() []minichain.Alloc { return txkit.AllocWithToken(nil, txkit.GenesisToken, tokenUnits) }

// validatorSigners: 3 of the 4 equal validators (> 2/3 of the power)
func validatorSigners(c *minichain.Chain) []txkit.ValidatorSigner {
	var s []txkit.ValidatorSigner
	for _, k := range c.Fixture().Keys[:3] {
		s = append(s, txkit.SignerOf(k))
	}
	return s
}

// mixedBlock is the block that leads from genesis to prior state 1: five contract creations (one with an endowment,
// one that issues a token), a coin transfer, a token transfer, an account -> confidential transaction with three
// outputs (two wallets, one sub-address) and the multi-signature account transaction that installs the signer table
// contract upgrades need. C sends nothing (its nonce stays 0).
func mixedBlock(c *minichain.Chain) types.Txs {
	A, B, C := txkit.A, txkit.B, txkit.C
	kit := txkit.NewKit(11)
	ain, err := kit.AccountToUTXO(B, 0, []txkit.Dest{txkit.ToWallet(txkit.W0, 0, txkit.LKC(300)), txkit.ToWallet(txkit.W0, 1, txkit.LKC(200)), txkit.ToWallet(txkit.W1, 0, txkit.LKC(100))}, nil)
	if err != nil {
		panic(err)
	}
	mst := txkit.MultiSign(0, types.TxContractCreateType, 20, []*types.SignerEntry{{Power: 10, Addr: A.Addr}, {Power: 10, Addr: B.Addr}}, validatorSigners(c))
	return types.Txs{
		txkit.Create(A, 0, storeInit, nil),
		txkit.Create(A, 1, revertInit, nil),
		txkit.Create(A, 2, sdInit, txkit.LKC(5)),
		txkit.Create(A, 3, logInit, nil),
		txkit.Create(A, 4, issuerInit, nil),
		txkit.Transfer(A, 5, B.Addr, txkit.LKC(10)),
		txkit.TokenTransfer(A, 6, txkit.GenesisToken, C.Addr, big.NewInt(12345)),
		ain,
		mst,
	}
}

// bctx is the context in which the letters of ONE block become transactions.
type bctx struct {
	w     *prior // the prior state (nonces, ledger)
	kit   *txkit.Kit
	used  map[common.Address]uint64 // transactions of the sender earlier in this block
	msUse uint64
	own   uint64           // confidential transactions built outside the Kit
	chain *minichain.Chain // any chain at the prior state (validator keys, balances)
}

func (x *bctx) next(a *txkit.Account) uint64 {
	n := x.w.nonce[a.Addr] + x.used[a.Addr]
	x.used[a.Addr]++
	return n
}

type letter struct {
	name  string
	build func(x *bctx) (types.Tx, error)
}

func plain(name string, f func(x *bctx) types.Tx) letter {
	return letter{name, func(x *bctx) (types.Tx, error) { return f(x), nil }}
}

// letters shared by both prior states
func commonLetters() []letter {
	A, B, C, D := txkit.A, txkit.B, txkit.C, txkit.D
	return []letter{
		plain("transfer(A->B,10)", func(x *bctx) types.Tx { return txkit.Transfer(A, x.next(A), B.Addr, txkit.LKC(10)) }),
		plain("transfer(B->A,7)", func(x *bctx) types.Tx { return txkit.Transfer(B, x.next(B), A.Addr, txkit.LKC(7)) }),
		plain("transfer(A->D,3)[new account]", func(x *bctx) types.Tx { return txkit.Transfer(A, x.next(A), D.Addr, txkit.LKC(3)) }),
		plain("token(A->C,genesis-token)", func(x *bctx) types.Tx {
			return txkit.TokenTransfer(A, x.next(A), txkit.GenesisToken, C.Addr, big.NewInt(777))
		}),
		letter{"A->U(C->W1,W2)", func(x *bctx) (types.Tx, error) {
			return x.kit.AccountToUTXO(C, x.next(C), []txkit.Dest{txkit.ToWallet(txkit.W1, 1, txkit.LKC(70)), txkit.ToWallet(txkit.W2, 2, txkit.LKC(30))}, nil)
		}},
		// the same kind from an account whose nonce is > 0 in the second prior state (7) and, after any other letter of A,
		// also at genesis
		letter{"A->U(A->W0,W2)", func(x *bctx) (types.Tx, error) {
			return x.kit.AccountToUTXO(A, x.next(A), []txkit.Dest{txkit.ToWallet(txkit.W0, 2, txkit.LKC(40)), txkit.ToWallet(txkit.W2, 0, txkit.LKC(60))}, nil)
		}},
		plain("multisign", func(x *bctx) types.Tx {
			n := x.w.msNonce + x.msUse
			x.msUse++
			return txkit.MultiSign(n, types.TxUpdateValidatorsType, 10, []*types.SignerEntry{{Power: 10, Addr: C.Addr}}, validatorSigners(x.chain))
		}),
		plain("upgrade(A)[fails in VM / no signer table at genesis]", func(x *bctx) types.Tx {
			return txkit.Upgrade(A, x.next(A), cfg.ContractFoundationAddr, append(append([]byte{}, txkit.WasmMagic...), 1, 0, 0, 0), A, B)
		}),
		// hostile on purpose
		plain("transfer(A->C,2)@state-nonce[duplicate nonce after another A tx]", func(x *bctx) types.Tx {
			if x.used[A.Addr] == 0 {
				x.used[A.Addr] = 1
			}
			return txkit.Transfer(A, x.w.nonce[A.Addr], C.Addr, txkit.LKC(2))
		}),
		plain("underfunded(C->A,whole balance)", func(x *bctx) types.Tx {
			return txkit.Underfunded(C, x.next(C), A.Addr, x.w.balC)
		}),
	}
}

func lettersFor(st int) []letter {
	A, B, C, D := txkit.A, txkit.B, txkit.C, txkit.D
	ls := commonLetters()
	if st == 0 {
		ls = append(ls,
			plain("transfer(A->A,1)[self]", func(x *bctx) types.Tx { return txkit.Transfer(A, x.next(A), A.Addr, txkit.LKC(1)) }),
			plain("create(A,store)", func(x *bctx) types.Tx { return txkit.Create(A, x.next(A), storeInit, nil) }),
			plain("create(B,token-issuer)", func(x *bctx) types.Tx { return txkit.Create(B, x.next(B), issuerInitB, nil) }),
			plain("create(C,reverting init,value 2)[failing creation]", func(x *bctx) types.Tx { return txkit.Create(C, x.next(C), failingInit, txkit.LKC(2)) }),
		)
		return ls
	}
	ls = append(ls,
		plain("call(A,store,42)", func(x *bctx) types.Tx { return txkit.Call(A, x.next(A), storeAddr, nil, txkit.Word(big.NewInt(42))) }),
		plain("call(B,store,43)[same slot]", func(x *bctx) types.Tx { return txkit.Call(B, x.next(B), storeAddr, nil, txkit.Word(big.NewInt(43))) }),
		plain("call(C,store,0)[slot delete]", func(x *bctx) types.Tx { return txkit.Call(C, x.next(C), storeAddr, nil, txkit.Word(big.NewInt(0))) }),
		plain("call(A,revert,value 1)[failing call]", func(x *bctx) types.Tx { return txkit.Call(A, x.next(A), revertAddr, txkit.LKC(1), nil) }),
		plain("call(B,selfdestruct->D)", func(x *bctx) types.Tx { return txkit.Call(B, x.next(B), sdAddr, nil, txkit.AddrWord(D.Addr)) }),
		plain("call(A,log)", func(x *bctx) types.Tx { return txkit.Call(A, x.next(A), logAddr, nil, txkit.Word(big.NewInt(0xbeef))) }),
		plain("call(B,issuer,issue 250)", func(x *bctx) types.Tx { return txkit.Call(B, x.next(B), issuerAddr, nil, txkit.Word(txkit.LKC(250))) }),
		plain("token(A->C,issued token)", func(x *bctx) types.Tx {
			return txkit.TokenTransfer(A, x.next(A), issuerAddr, C.Addr, txkit.LKC(100))
		}),
		letter{"U->U(W0 out0 -> W2, ring 1)", func(x *bctx) (types.Tx, error) {
			return x.kit.Transfer(x.w.led, txkit.W0, x.w.spendW0[:1], 1, []txkit.Dest{txkit.ToWallet(txkit.W2, 0, txkit.LKC(50))}, 2)
		}},
		letter{"U->U(W0 out1 -> W1, ring 3 MLSAG)", func(x *bctx) (types.Tx, error) {
			return x.kit.Transfer(x.w.led, txkit.W0, x.w.spendW0[1:2], 3, []txkit.Dest{txkit.ToWallet(txkit.W1, 2, txkit.LKC(20))}, 0)
		}},
		letter{"U->U(W0 out0 -> W1)[double spend with the first U->U]", func(x *bctx) (types.Tx, error) {
			return x.kit.Transfer(x.w.led, txkit.W0, x.w.spendW0[:1], 1, []txkit.Dest{txkit.ToWallet(txkit.W1, 0, txkit.LKC(1))}, 0)
		}},
		// account -> confidential in an issued TOKEN: amount in token units, fee in coin from the same account (nonce 7+)
		letter{"A->U token(A->W1, issued token, fee from account)", func(x *bctx) (types.Tx, error) {
			return tokenAin(x, A, issuerAddr, txkit.LKC(30))
		}},
		letter{"U->A(W1 -> C)", func(x *bctx) (types.Tx, error) {
			tx, _, err := x.kit.ToAccountAll(x.w.led, txkit.W1, x.w.spendW1[:1], 1, C.Addr)
			return tx, err
		}},
	)
	return ls
}

// blockCases: every sequence of at most maxLen letters, per prior state, shortest first.
type blockCase struct {
	st      int
	letters []int
	dup     bool // second execution of an earlier case in (normally) another worker process: run-to-run comparison
}

func (c blockCase) name() string {
	ls := lettersFor(c.st)
	s := stateNames[c.st] + ": ["
	for i, l := range c.letters {
		if i > 0 {
			s += " ; "
		}
		s += ls[l].name
	}
	return s + "]"
}

func blockCases(maxLen int) []blockCase {
	var out []blockCase
	var short []blockCase
	for st := 0; st < numStates; st++ {
		n := len(lettersFor(st))
		// breadth-first by length so that indices of short blocks are stable across tiers
		for L := 0; L <= maxLen; L++ {
			var gen func(prefix []int)
			gen = func(prefix []int) {
				if len(prefix) == L {
					c := blockCase{st: st, letters: append([]int{}, prefix...)}
					out = append(out, c)
					if L <= 1 {
						short = append(short, c)
					}
					return
				}
				for l := 0; l < n; l++ {
					gen(append(prefix, l))
				}
			}
			gen(nil)
		}
	}
	for _, c := range short {
		c.dup = true
		out = append(out, c)
	}
	return out
}

func fmtErr(err error) string {
	if err == nil {
		return ""
	}
	return fmt.Sprint(err)
}

// tokenAin builds an account -> confidential transaction in a token (types.NewAinTokenTransaction + Sign). The unit of
// the hidden amount comes from the token contract's decimals() through a process-wide getter that is bound to the
// application created last: a throw-away replica of the prior state binds it to a state that has the contract.
func tokenAin(x *bctx, from *txkit.Account, token common.Address, amount *big.Int) (types.Tx, error) {
	rb := x.w.tmpl[0].clone()
	defer rb.Close()
	src := &types.AccountSourceEntry{From: from.Addr, Nonce: x.next(from), Amount: new(big.Int).Set(amount)}
	dests := []types.DestEntry{&types.UTXODestEntry{Addr: txkit.W1.Addr(0), Amount: new(big.Int).Set(amount)}}
	var tx *types.UTXOTransaction
	var err error
	// deterministic randomness, disjoint from the Kit's own sequence (per-goroutine generator of the crypto stand-in)
	x.own++
	xcrypto.VerifSetLocalSeed(x.kit.Seed<<20 + 1<<19 + x.own)
	tx, _, err = types.NewAinTokenTransaction(src, dests, token, txkit.FeeAin(amount), nil)
	xcrypto.VerifClearLocalSeed()
	if err != nil {
		return nil, err
	}
	if err := tx.Sign(types.GlobalSTDSigner, from.Key); err != nil {
		return nil, err
	}
	return tx, nil
}
