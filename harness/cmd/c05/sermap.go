package main

// Sub-check 2b: the encoding of state.Account (what updateStateObject writes into the account trie, hence into the state
// hash) must not depend on the order in which Go iterates Account.Tokens.
//
// For the C05 build tools/gen_c05_ser.py routes the map writer's `val.MapKeys()` through a seam (hooks/libs/ser/
// c05_hooks.go) so that the harness dictates the iteration order: for every token set of <= 4 tokens out of a pool of
// colliding addresses, EVERY iteration order (n!) and, independently, EVERY insertion order (n!) of the map is encoded
// through ser.EncodeToBytes(state.Account); all encodings of one token set must be byte-identical, decode back to the
// same map, and differ from the encodings of every other token set. If the seam is not compiled in (the repository's
// map writer no longer calls val.MapKeys()), only insertion orders x 64 repetitions under Go's own random iteration
// start are covered and the run says so.

import (
	"bytes"
	"fmt"
	"math/big"

	"verif/vk"

	"github.com/lianxiangcloud/linkchain/libs/common"
	"github.com/lianxiangcloud/linkchain/libs/ser"
	"github.com/lianxiangcloud/linkchain/state"
)

func tokenPool() []common.Address {
	return []common.Address{
		common.HexToAddress("0x0000000000000000000000000000000000000001"),
		common.HexToAddress("0x0000000000000000000000000000000000000100"), // same bytes, other position
		common.HexToAddress("0x0100000000000000000000000000000000000000"),
		common.HexToAddress("0x00000000000000000000000000000000746f6b31"), // txkit.GenesisToken
		common.HexToAddress("0xffffffffffffffffffffffffffffffffffffffff"),
		common.HexToAddress("0xff00000000000000000000000000000000000000"),
	}
}

func runSerMap(r *vk.Run) {
	pool := tokenPool()
	vals := []*big.Int{big.NewInt(0), big.NewInt(1), big.NewInt(255), new(big.Int).Lsh(big.NewInt(1), 70), big.NewInt(256), big.NewInt(7)}
	encodings, sets, orders := 0, 0, 0
	seen := map[string]string{} // encoding -> token set
	instrumented := false
	for mask := 0; mask < 1<<uint(len(pool)); mask++ {
		var toks []int
		for i := range pool {
			if mask&(1<<uint(i)) != 0 {
				toks = append(toks, i)
			}
		}
		if len(toks) > 4 {
			continue
		}
		sets++
		setName := fmt.Sprint(toks)
		var ref []byte
		check := func(m map[common.Address]*big.Int, how string) bool {
			acc := state.Account{Nonce: 3, Credits: 1, Balance: big.NewInt(12345), Tokens: m, Root: common.HexToHash("0x01"), CodeHash: []byte{0xaa}}
			bz, err := ser.EncodeToBytes(acc)
			encodings++
			if err != nil {
				r.Violation("ser-map:encode-error", fmt.Sprintf("tokens %s (%s): %v", setName, how, err), map[string]interface{}{"tokens": toks, "how": how})
				return false
			}
			if ref == nil {
				ref = bz
				if prev, dup := seen[string(bz)]; dup && prev != setName {
					r.Violation("ser-map:different-token-sets-same-encoding", fmt.Sprintf("token sets %s and %s encode to the same bytes", prev, setName), map[string]interface{}{"a": prev, "b": setName})
				}
				seen[string(bz)] = setName
				var back state.Account
				if err := ser.DecodeBytes(bz, &back); err != nil {
					r.Violation("ser-map:roundtrip", fmt.Sprintf("tokens %s: encoding does not decode: %v", setName, err), map[string]interface{}{"tokens": toks})
					return false
				}
				if len(back.Tokens) != len(m) {
					r.Violation("ser-map:roundtrip", fmt.Sprintf("tokens %s: decodes to %d tokens", setName, len(back.Tokens)), map[string]interface{}{"tokens": toks})
					return false
				}
				for k, v := range m {
					if bv := back.Tokens[k]; bv == nil || bv.Cmp(v) != 0 {
						r.Violation("ser-map:roundtrip", fmt.Sprintf("tokens %s: token %x decodes to %v, want %v", setName, k, bv, v), map[string]interface{}{"tokens": toks})
						return false
					}
				}
				return true
			}
			if !bytes.Equal(bz, ref) {
				r.Violation("ser-map:encoding-depends-on-map-order", fmt.Sprintf("Account with tokens %s encodes to %x with %s, to %x with the first order", setName, bz, how, ref),
					map[string]interface{}{"tokens": toks, "how": how})
				return false
			}
			return true
		}
		build := func(order []int) map[common.Address]*big.Int {
			m := map[common.Address]*big.Int{}
			for _, j := range order {
				m[pool[toks[j]]] = vals[toks[j]]
			}
			return m
		}
		n := len(toks)
		ok := true
		// (i) every iteration order, dictated through the seam, on a map inserted in ascending order
		vk.Permutations(n, func(p []int) bool {
			before := ser.VerifC05MapOrderCalls()
			ser.VerifC05SetMapOrder(p)
			id := make([]int, n)
			for i := range id {
				id[i] = i
			}
			ok = check(build(id), fmt.Sprintf("iteration order %v", p))
			if ser.VerifC05MapOrderCalls() > before {
				instrumented = true
			}
			orders++
			return ok
		})
		ser.VerifC05SetMapOrder(nil)
		if !ok {
			continue
		}
		// (ii) every insertion order under Go's native iteration (the start offset inside a bucket is random: repeat)
		reps := 4
		if !instrumented {
			reps = 64
		}
		vk.Permutations(n, func(p []int) bool {
			m := build(p)
			for k := 0; k < reps && ok; k++ {
				ok = check(m, fmt.Sprintf("insertion order %v, native iteration", p))
			}
			orders++
			return ok
		})
	}
	r.Set("sermap_token_sets", sets)
	r.Set("sermap_orders", orders)
	r.Set("sermap_encodings", encodings)
	r.Set("sermap_iteration_order_seam", instrumented)
	if !instrumented {
		r.Capped("ser map writer: the iteration-order seam is not compiled in (makeMapWriter does not call val.MapKeys() any more, or the file was replaced by an overlay); covered: all insertion orders x 64 encodings under Go's random iteration start")
	}
	if len(seen) != sets {
		vk.Fatalf("sermap: %d token sets, %d distinct encodings", sets, len(seen))
	}
}
