package main

// Sub-check 2a: order insensitivity of the state-update sequence, exhaustively.
//
// The block is executed once more through the application's own processBlock, on a state object that sits on a
// RECORDING state.Database (a wrapper around the repository's state.NewKeyValueDBWithCache, i.e. around wrappedTrie in
// both storage modes) over a copy of the replica's state database. The wrapper records, per trie (the account trie
// and every storage trie), the sequence of TryUpdate/TryDelete calls, every Hash() with its result and every Commit()
// with its result. In the implementation the order inside each segment between two such markers is the iteration
// order of Go maps (journal.dirties in Finalise, dirtyStorage in updateTrie, stateObjects in Commit). The harness
// replays EVERY permutation of every segment on a fresh wrappedTrie opened on a fresh copy of the pre-state database:
// every Hash() result, every Commit() result and the database content after Commit must not depend on the permutation.

import (
	"crypto/sha256"
	"encoding/hex"
	"fmt"
	"sort"

	"verif/kv"
	"verif/minichain"
	"verif/vk"

	"github.com/lianxiangcloud/linkchain/libs/common"
	dbm "github.com/lianxiangcloud/linkchain/libs/db"
	"github.com/lianxiangcloud/linkchain/libs/trie"
	"github.com/lianxiangcloud/linkchain/state"
	"github.com/lianxiangcloud/linkchain/types"
)

type trieOp struct {
	kind byte // 'U' update, 'D' delete, 'H' Hash(), 'C' Commit()
	k, v []byte
	h    common.Hash // result of H / C
}

type trieRec struct {
	storage  bool
	addrHash common.Hash
	openRoot common.Hash
	ops      []trieOp
}

type recording struct {
	tries []*trieRec
}

type recDB struct {
	state.Database
	rec *recording
}

type recTrie struct {
	state.Trie
	t *trieRec
}

func (d *recDB) wrap(t state.Trie, storage bool, addrHash, root common.Hash) state.Trie {
	if t == nil {
		return nil
	}
	tr := &trieRec{storage: storage, addrHash: addrHash, openRoot: root}
	d.rec.tries = append(d.rec.tries, tr)
	return &recTrie{t, tr}
}

func (d *recDB) OpenTrie(root common.Hash) (state.Trie, error) {
	t, err := d.Database.OpenTrie(root)
	return d.wrap(t, false, common.Hash{}, root), err
}

func (d *recDB) OpenStorageTrie(addrHash, root common.Hash) (state.Trie, error) {
	t, err := d.Database.OpenStorageTrie(addrHash, root)
	return d.wrap(t, true, addrHash, root), err
}

func (d *recDB) CopyTrie(t state.Trie) state.Trie {
	rt, ok := t.(*recTrie)
	if !ok {
		hfail("recording database: foreign trie %T", t)
	}
	// a copy starts a new record (the repository's CopyTrie gives the copy an empty pending-update set)
	return d.wrap(d.Database.CopyTrie(rt.Trie), rt.t.storage, rt.t.addrHash, rt.t.openRoot)
}

func cp(b []byte) []byte { return append([]byte{}, b...) }

func (t *recTrie) TryUpdate(k, v []byte) error {
	t.t.ops = append(t.t.ops, trieOp{kind: 'U', k: cp(k), v: cp(v)})
	return t.Trie.TryUpdate(k, v)
}

func (t *recTrie) TryDelete(k []byte) error {
	t.t.ops = append(t.t.ops, trieOp{kind: 'D', k: cp(k)})
	return t.Trie.TryDelete(k)
}

func (t *recTrie) Hash() common.Hash {
	h := t.Trie.Hash()
	t.t.ops = append(t.t.ops, trieOp{kind: 'H', h: h})
	return h
}

func (t *recTrie) Commit(onleaf trie.LeafCallback, height uint64) (common.Hash, error) {
	h, err := t.Trie.Commit(onleaf, height)
	t.t.ops = append(t.t.ops, trieOp{kind: 'C', h: h})
	return h, err
}

type orderStats struct {
	Tries        int `json:"tries"`         // tries with at least one update
	Segments     int `json:"segments"`      // permuted segments
	Permutations int `json:"permutations"`  // replays
	MaxSegment   int `json:"max_segment"`   // longest segment (operations between two Hash/Commit markers)
	Skipped      int `json:"skipped"`       // segments longer than the cap (not permuted)
	Ops          int `json:"ops"`           // recorded TryUpdate/TryDelete calls
	Deletes      int `json:"deletes"`       // of which TryDelete
	StorageTries int `json:"storage_tries"` // storage tries with updates
	// Long: signatures of long storage-trie sequences fully permuted by this case; Deferred: of those left to the
	// one-letter block that records the same sequence
	Long     []string `json:"long,omitempty"`
	Deferred []string `json:"deferred,omitempty"`
}

const maxSegment = 8 // 8! = 40320 replays
const deferAbove = 6 // storage-trie segments longer than this are permuted once (in the one-letter block)

// segSig identifies a recorded trie sequence together with the state it applies to.
func segSig(st int, isTrie bool, tr *trieRec) string {
	// the recorded order inside a segment is Go's map order of that run: the signature sorts each segment
	s := fmt.Sprintf("state%d %v %x %x|", st, isTrie, tr.addrHash, tr.openRoot)
	var seg []string
	for _, o := range tr.ops {
		if o.kind == 'H' || o.kind == 'C' {
			sort.Strings(seg)
			s += fmt.Sprint(seg) + string(o.kind) + "|"
			seg = nil
			continue
		}
		seg = append(seg, fmt.Sprintf("%c%x=%x", o.kind, o.k, o.v))
	}
	return hashOf(s)
}

func skipKVH(k []byte) bool { return string(k) == "kvh" }

func openStateDB(db dbm.DB, isTrie bool, height uint64) state.Database {
	// cache = 0: no undo-log file (it is outside the property and would be shared by the replays)
	return state.NewKeyValueDBWithCache(db, 0, isTrie, height)
}

// replay applies the recorded operations of one trie, with segment seg (index into the segments) permuted by perm, to
// a fresh trie over a fresh copy of pre; returns the marker results and the database dump after the last Commit.
func replay(pre dbm.DB, isTrie bool, height uint64, tr *trieRec, segs [][2]int, seg int, perm []int) (markers []common.Hash, dump string, err error) {
	db := newOvDB(pre)
	sdb := openStateDB(db, isTrie, height)
	var t state.Trie
	if tr.storage {
		t, err = sdb.OpenStorageTrie(tr.addrHash, tr.openRoot)
	} else {
		t, err = sdb.OpenTrie(tr.openRoot)
	}
	if err != nil || t == nil {
		return nil, "", fmt.Errorf("open: %v", err)
	}
	apply := func(o trieOp) error {
		if o.kind == 'U' {
			return t.TryUpdate(o.k, o.v)
		}
		return t.TryDelete(o.k)
	}
	for si, s := range segs {
		n := s[1] - s[0]
		for j := 0; j < n; j++ {
			idx := s[0] + j
			if si == seg {
				idx = s[0] + perm[j]
			}
			if err := apply(tr.ops[idx]); err != nil {
				return nil, "", err
			}
		}
		mk := tr.ops[s[1]]
		switch mk.kind {
		case 'H':
			markers = append(markers, t.Hash())
		case 'C':
			root, err := t.Commit(nil, height+1)
			if err != nil {
				return nil, "", err
			}
			markers = append(markers, root)
			if isTrie && !tr.storage {
				if err := sdb.TrieDB().Commit(root, false); err != nil {
					return nil, "", err
				}
			}
		}
	}
	if isTrie && tr.storage {
		// content through the committed root: every key the record touched
		last := common.Hash{}
		if len(markers) > 0 {
			last = markers[len(markers)-1]
		}
		rt, err := sdb.OpenStorageTrie(tr.addrHash, last)
		if err != nil {
			return markers, "", fmt.Errorf("reopen storage trie at its committed root: %v", err)
		}
		s := ""
		for _, o := range tr.ops {
			if o.kind == 'U' || o.kind == 'D' {
				v, _ := rt.TryGet(o.k)
				s += fmt.Sprintf("%x=%x;", o.k, v)
			}
		}
		return markers, hashOf(s), nil
	}
	return markers, db.dump(), nil
}

// ovDB is a copy-on-write view of a read-only base database: reads fall through to the base, writes and deletes stay in
// the overlay. What a replay leaves in the overlay IS the write set of its Commit (millions of replays: copying and
// hashing the whole pre-state per replay would dominate the run).
type ovDB struct {
	*kv.CopyDB // the overlay (it also serves the iterator methods, which trie code does not use)
	base       dbm.DB
	dels       map[string]bool
}

func newOvDB(base dbm.DB) *ovDB { return &ovDB{kv.NewCopyDB(), base, map[string]bool{}} }

func (d *ovDB) Load(k []byte) ([]byte, error) {
	if d.dels[string(k)] {
		return nil, kv.ErrNotFound
	}
	if d.CopyDB.MemDB.Has(k) {
		return d.CopyDB.MemDB.Get(k), nil
	}
	return d.base.Load(k)
}
func (d *ovDB) Get(k []byte) []byte { v, _ := d.Load(k); return v }
func (d *ovDB) Has(k []byte) bool {
	if d.dels[string(k)] {
		return false
	}
	return d.CopyDB.MemDB.Has(k) || d.base.Has(k)
}
func (d *ovDB) Exist(k []byte) (bool, error) { v, err := d.Load(k); return v != nil, err }
func (d *ovDB) Set(k, v []byte)              { delete(d.dels, string(k)); d.CopyDB.Set(k, v) }
func (d *ovDB) SetSync(k, v []byte)          { d.Set(k, v) }
func (d *ovDB) Put(k, v []byte) error        { d.Set(k, v); return nil }
func (d *ovDB) Delete(k []byte)              { d.dels[string(k)] = true; d.CopyDB.MemDB.Delete(cp(k)) }
func (d *ovDB) DeleteSync(k []byte)          { d.Delete(k) }
func (d *ovDB) Del(k []byte) error           { d.Delete(k); return nil }
func (d *ovDB) NewBatch() dbm.Batch          { return &ovBatch{d: d} }

type ovOp struct {
	del  bool
	k, v []byte
}

type ovBatch struct {
	d   *ovDB
	ops []ovOp
	sz  int
}

func (b *ovBatch) Set(k, v []byte) { b.ops = append(b.ops, ovOp{false, cp(k), cp(v)}); b.sz += len(v) }
func (b *ovBatch) Delete(k []byte) { b.ops = append(b.ops, ovOp{true, cp(k), nil}); b.sz++ }
func (b *ovBatch) Write() {
	for _, o := range b.ops {
		if o.del {
			b.d.Delete(o.k)
		} else {
			b.d.Set(o.k, o.v)
		}
	}
}
func (b *ovBatch) WriteSync()     { b.Write() }
func (b *ovBatch) Commit() error  { b.Write(); return nil }
func (b *ovBatch) ValueSize() int { return b.sz }
func (b *ovBatch) Reset()         { b.ops, b.sz = nil, 0 }

// dump: the write set (sets in key order, then deletes in key order).
func (d *ovDB) dump() string {
	h := sha256.New()
	n := 0
	it := d.CopyDB.Iterator(nil, nil)
	for ; it.Valid(); it.Next() {
		fmt.Fprintf(h, "%x=%x;", it.Key(), it.Value())
		n++
	}
	it.Close()
	var ds []string
	for k := range d.dels {
		ds = append(ds, k)
	}
	sort.Strings(ds)
	for _, k := range ds {
		fmt.Fprintf(h, "-%x;", k)
	}
	return fmt.Sprintf("%d sets %d deletes:%s", n, len(ds), hex.EncodeToString(h.Sum(nil)[:12]))
}

func orderCheck(res *caseResult, o *minichain.Chain, isTrie bool, b *types.Block, v *replica) {
	mode := modeName(isTrie)
	pre := copyDB(o.DB("state"))
	work := copyDB(pre)
	rec := &recording{}
	rdb := &recDB{openStateDB(work, isTrie, o.Height()), rec}
	st, err := state.New(o.LastTxsResult().TrieRoot, rdb)
	if err != nil {
		hfail("order: open state on the recording database: %v", err)
	}
	blk := minichain.CloneBlock(b)
	// preRun=true: the execution PreRunBlock performs (processBlock without the signature pre-check, which writes no state)
	var out = o.App().VerifC05ProcessOn(blk, st, true)
	res.Executions++
	if !out.Ok {
		res.viol("order:recorded-run-differs-from-replicas", "%s: the block PreRunBlock executed fails on the recording state database", mode)
		return
	}
	if out.Result.StateHash != b.Header.StateHash || out.Result.ReceiptHash != b.Header.ReceiptHash || out.Result.GasUsed != b.Header.GasUsed {
		// one more execution of the same block on the same state with another result: a divergence by itself; the
		// permutations below say whether the update order is the cause
		res.viol("order:recorded-run-differs-from-replicas", "%s: execution on the recording state database gives state %x receipts %x gas %d, the header says %x %x %d", mode,
			out.Result.StateHash, out.Result.ReceiptHash, out.Result.GasUsed, b.Header.StateHash, b.Header.ReceiptHash, b.Header.GasUsed)
	}
	root, err := st.Commit(false, blk.Height)
	if err != nil {
		res.viol("order:recorded-run-differs-from-replicas", "%s: Commit on the recording state database: %v", mode, err)
		return
	}
	rdb.TrieDB().Commit(root, false)
	// the committed bytes must be the bytes the validator replica wrote
	if v.o.accepted {
		if got, want := dumpDB(work, skipKVH), dumpDB(v.c.DB("state"), skipKVH); got != want {
			res.viol("order:recorded-commit-differs-from-replica-db", "%s: state database after the recorded commit %s, after the validator's CommitBlock %s", mode, got, want)
		}
	}
	for _, tr := range rec.tries {
		nops := 0
		for _, op := range tr.ops {
			if op.kind == 'U' || op.kind == 'D' {
				nops++
				res.Order.Ops++
				if op.kind == 'D' {
					res.Order.Deletes++
				}
			}
		}
		if nops == 0 {
			continue
		}
		res.Order.Tries++
		if tr.storage {
			res.Order.StorageTries++
		}
		what := "account-trie"
		if tr.storage {
			what = "storage-trie"
		}
		// segments: [start, marker index)
		var segs [][2]int
		start := 0
		for i, op := range tr.ops {
			if op.kind == 'H' || op.kind == 'C' {
				segs = append(segs, [2]int{start, i})
				start = i + 1
			}
		}
		if start != len(tr.ops) {
			// updates after the last marker never reach a hash or the database: not part of any result
			tr.ops = tr.ops[:start]
		}
		// reference: recorded order; it must reproduce the recorded markers
		refM, refD, err := replay(pre, isTrie, o.Height(), tr, segs, -1, nil)
		if err != nil {
			hfail("order: %s: reference replay of the %s failed: %v", mode, what, err)
		}
		mi := 0
		for _, op := range tr.ops {
			if op.kind == 'H' || op.kind == 'C' {
				if refM[mi] != op.h {
					res.viol("order:replay-differs-from-recorded-run:"+what, "%s: replaying the recorded %s operations in the recorded order gives %x at marker %d (%c), the run gave %x", mode, what, refM[mi], mi, op.kind, op.h)
				}
				mi++
			}
		}
		for si, s := range segs {
			n := s[1] - s[0]
			if n > res.Order.MaxSegment {
				res.Order.MaxSegment = n
			}
			if n < 2 {
				continue
			}
			if n > maxSegment {
				res.Order.Skipped++
				continue
			}
			if n > deferAbove && tr.storage {
				// a long storage-trie sequence (the multi-slot contract): the block that holds the special letter ALONE
				// permutes it; a block that holds it next to a partner letter records the identical sequence on the
				// identical pre-state. The parent checks that every deferred sequence was permuted somewhere.
				sig := segSig(res.State, isTrie, tr)
				if len(res.Letters) > 1 {
					res.Order.Deferred = append(res.Order.Deferred, sig)
					continue
				}
				res.Order.Long = append(res.Order.Long, sig)
			}
			res.Order.Segments++
			phase := "hash"
			if tr.ops[s[1]].kind == 'C' {
				phase = "commit"
			}
			vk.Permutations(n, func(perm []int) bool {
				res.Order.Permutations++
				m, d, err := replay(pre, isTrie, o.Height(), tr, segs, si, perm)
				if err != nil {
					res.viol("order:replay-error:"+what, "%s: %s with segment %d in order %v: %v", mode, what, si, perm, err)
					return false
				}
				for i := range m {
					if m[i] != refM[i] {
						kind := "hash"
						if tr.ops[segs[i][1]].kind == 'C' {
							kind = "commit-root"
						}
						res.viol(fmt.Sprintf("order:%s-depends-on-update-order:%s:%s", kind, what, mode), "%s: %s: applying the %d updates before the %s marker in order %v gives %x, the recorded order gives %x (keys %s)",
							mode, what, n, phase, perm, m[i], refM[i], opKeys(tr.ops[s[0]:s[1]]))
						return false
					}
				}
				if d != refD {
					res.viol(fmt.Sprintf("order:committed-content-depends-on-update-order:%s:%s", what, mode), "%s: %s: applying the %d updates before the %s marker in order %v leaves database content %s, the recorded order %s",
						mode, what, n, phase, perm, d, refD)
					return false
				}
				return true
			})
		}
	}
}

func opKeys(ops []trieOp) string {
	s := ""
	for _, o := range ops {
		s += fmt.Sprintf("%c:%x ", o.kind, o.k[:4])
	}
	return s
}
