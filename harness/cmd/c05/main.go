// C05 - block execution is a deterministic function of the prior state and the block.
//
// Four sub-checks (DESIGN "C05"), all bounded-exhaustive on the real code:
//
//  1. replica equality (chain.go): every block of <= 2 (quick) / <= 3 (thorough) transactions over the letter
//     alphabets of alphabet.go, on two prior states, in both storage modes, through the proposer path, the validator
//     path (cold; after / before another proposal for the same height), the fast-sync path;
//  4. cache states (chain.go): the same blocks on validators whose mempool holds the identical transactions / twins with
//     the same sign fields and another signature; (sched.go: also entries whose basic check has not finished);
//     2a. order insensitivity of the state-update sequence (record.go): all permutations of the recorded TryUpdate/TryDelete
//     sequences between two Hash()/Commit() calls of every trie, for every accepted block of the space above;
//     2b. all iteration and insertion orders of Account.Tokens through the ser map writer (sermap.go);
//     2c. all orders of all update/delete sequences over a 6-key pool on raw wrappedTries (rawtrie.go);
//  3. schedules of the parallel signature pre-check with 2, 3, 4 workers, <= 2 preemptions (sched.go).
//
// Cases of 1/2a/4 run in worker subprocesses (vk.RunIsolated): all chains of a process are driven from one goroutine.
package main

import (
	"encoding/json"
	"flag"
	"fmt"
	"io/ioutil"
	"os"
	"sort"
	"strings"
	"sync"
	"time"

	"verif/minichain"
	"verif/vk"

	"github.com/lianxiangcloud/linkchain/libs/log"
)

var part = flag.String("part", "all", "all|chain|ser|sched (development: run only one part)")
var oneCase = flag.Int("case", -1, "development: run one block case in this process and print its result")

func main() {
	log.Root().SetHandler(log.DiscardHandler())
	r := vk.Start("C05", "model_checking")
	if vk.IsWorker() {
		chainWorker(r)
	}
	if *schedChildFlag != "" {
		schedChild(r, *schedChildFlag)
	}
	if r.ReplayPath != "" {
		replayCase(r)
		return
	}
	if *oneCase >= 0 {
		cases := blockCases(r.Pick(2, 3))
		res := runBlockCase(cases[*oneCase])
		bz, _ := json.MarshalIndent(res, "", " ")
		fmt.Println(string(bz))
		os.RemoveAll(scratchRoot())
		return
	}
	sweepStale()
	os.Setenv("C05_SCRATCH", fmt.Sprintf("/dev/shm/C05-%d", os.Getpid()))
	defer os.RemoveAll(scratchRoot())

	var wg sync.WaitGroup
	if *part == "all" || *part == "sched" {
		wg.Add(1)
		go func() { defer wg.Done(); runSched(r) }()
	}
	if *part == "all" || *part == "ser" {
		runSerMap(r)
		runRawTrie(r)
	}
	if *part == "all" || *part == "chain" {
		runChain(r)
	}
	wg.Wait()
	os.RemoveAll(scratchRoot())

	states := r.Get("chain_distinct_results") + r.Get("sched_scenarios") + r.Get("sermap_token_sets") + r.Get("rawtrie_sequences")
	trans := r.Get("chain_block_executions") + r.Get("order_permutation_replays") + r.Get("sched_schedules") + r.Get("sermap_encodings") + r.Get("rawtrie_permutation_replays")
	r.Set("states", states)
	r.Set("transitions", trans)
	r.Set("traces_validated_against_impl", trans)
	r.Set("evaluations", trans)
	r.Set("distinct_nontrivial", r.Get("chain_distinct_results"))
	r.Set("rule", "states = distinct execution results of the block space + schedule scenarios + token sets; transitions = block executions on real application replicas + permutation replays on real wrappedTries + explored schedules of the real verifyTxsOnProcess + map encodings; every one runs the repository's code and is compared with its siblings (differential) or with a plain sequential reference (schedules); non-trivial = distinct result digest of an accepted block")
	r.Assume("replicas are restarts (node.NewNode recipe mirrored by minichain) on byte copies of one template node per prior state, storage mode and worker process; the templates of all processes are compared with each other")
	r.Assume("system contracts are absent (minichain), WASM is not executed. The third prior state holds ONE elected candidate (candidate-contract record and candidate list installed by a hook before the first block, then persisted by real block execution) whose score the per-block evidence raises; the election itself (calculateCandidates at multiples of VotePeriod = 1321, p2p connection manager) and validator-set changes through candidates are not executed")
	r.Assume("crypto stand-in xcrypto_model for confidential transactions (real group arithmetic, ideal range proofs)")
	r.Assume("the cooperative scheduler sees the sync/WaitGroup/goroutine operations of app/app.go and the mempool cache; unsynchronised accesses between them are not interleaved (no -race pass is part of this check)")
	r.Assume("the balance-record journal (types.BlockBalanceRecordsInstance, RPC-served auxiliary data) is not among the results the property lists; its divergence is recorded as a note")
	if !minichain.RecipeFingerprintOK() {
		r.Assume(minichain.RecipeAssumption)
	}
	r.Finish()
}

func runChain(r *vk.Run) {
	cases := blockCases(r.Pick(2, 3))
	os.MkdirAll(scratchRoot(), 0700)
	type agg struct {
		outcome map[string]int
		digests map[string]bool
		tmpl    map[string]int
		kinds   map[string]int
		auxDiff map[string]int
		first   map[string]string // case name (without dup) -> digest
	}
	a := agg{map[string]int{}, map[string]bool{}, map[string]int{}, map[string]int{}, map[string]int{}, map[string]string{}}
	var order orderStats
	execs, replicas, warm, twins, hits, dupsCompared, awarded := 0, 0, 0, 0, 0, 0, 0
	var slow int64
	var notExec, harness []string
	longDone, longDeferred := map[string]bool{}, map[string]string{}
	results := make([]string, len(cases))
	t0 := time.Now()
	done := r.RunIsolated(len(cases), vk.IsoOpts{CaseTimeout: time.Duration(r.Pick(240, 600)) * time.Second, MemKB: 8 * 1024 * 1024}, func(i int, raw json.RawMessage, fatal string) {
		c := cases[i]
		if fatal != "" {
			r.Violation("worker-died:"+strings.SplitN(fatal, ":", 2)[0], fmt.Sprintf("executing %s kills or hangs the process: %s", c.name(), fatal), map[string]interface{}{"state": c.st, "letters": c.letters, "case": i})
			return
		}
		var res caseResult
		if err := json.Unmarshal(raw, &res); err != nil {
			vk.Fatalf("case result: %v", err)
		}
		if res.Harness != "" {
			harness = append(harness, res.Name+": "+res.Harness)
			return
		}
		for _, v := range res.Viol {
			r.Violation(v.Key, res.Name+": "+v.What, map[string]interface{}{"state": c.st, "letters": c.letters, "case": i, "name": res.Name})
		}
		a.outcome[res.Outcome]++
		adm := "not-admissible-to-a-mempool"
		if res.Admissible {
			adm = "admissible"
		}
		a.outcome[res.Outcome+"/"+adm]++
		if res.AdmissibleNotExecutable {
			notExec = append(notExec, res.Name)
		}
		results[i] = res.Digest
		if res.Outcome == "accepted" {
			a.digests[res.Digest] = true
		}
		for st, d := range res.Tmpl {
			a.tmpl[fmt.Sprintf("state %d %s: %s", res.State, modeName(st == 1), d)]++
		}
		for k, n := range res.Kinds {
			a.kinds[k] += n
		}
		for _, d := range res.AuxDiff {
			a.auxDiff[d]++
		}
		key := fmt.Sprint(c.st, c.letters)
		if prev, ok := a.first[key]; ok {
			dupsCompared++
			if prev != res.Digest {
				r.Violation("replica-divergence:run-to-run", fmt.Sprintf("%s: two executions of the case (different worker processes) give result digests %s and %s", res.Name, prev, res.Digest),
					map[string]interface{}{"state": c.st, "letters": c.letters, "case": i})
			}
		} else {
			a.first[key] = res.Digest
		}
		if res.CandidateAwarded {
			awarded++
		}
		execs += res.Executions
		replicas += res.Replicas
		warm += res.Warm
		twins += res.Twins
		hits += res.CacheHits
		order.Tries += res.Order.Tries
		order.Segments += res.Order.Segments
		order.Permutations += res.Order.Permutations
		order.Skipped += res.Order.Skipped
		order.Ops += res.Order.Ops
		order.Deletes += res.Order.Deletes
		order.StorageTries += res.Order.StorageTries
		for _, sg := range res.Order.Long {
			longDone[sg] = true
		}
		for _, sg := range res.Order.Deferred {
			longDeferred[sg] = res.Name
		}
		if res.Order.MaxSegment > order.MaxSegment {
			order.MaxSegment = res.Order.MaxSegment
		}
		if res.Ms > slow {
			slow = res.Ms
		}
		if i%97 == 0 {
			r.Sample(map[string]interface{}{"case": res.Name, "outcome": res.Outcome, "digest": res.Digest, "replicas": res.Replicas, "order": res.Order})
		}
	})
	if len(harness) > 0 {
		sort.Strings(harness)
		if r.NViolations() == 0 {
			vk.Fatalf("chain: %d cases ended in a harness error, first: %s", len(harness), harness[0])
		}
		// the code under test already diverges; the fixture may not even reach its prior states any more
		r.Capped(fmt.Sprintf("block space: %d cases could not be set up (first: %s)", len(harness), harness[0]))
	}
	if done < len(cases) {
		r.Capped(fmt.Sprintf("block space: %d of %d cases executed before the deadline", done, len(cases)))
	}
	// every worker process built its own templates: they must all be the same node
	perState := map[string]map[string]bool{}
	for k := range a.tmpl {
		st := k[:strings.Index(k, ":")]
		// the digest is mode-independent: flat and trie templates of a state must agree too
		st = st[:strings.LastIndex(st, " ")]
		if perState[st] == nil {
			perState[st] = map[string]bool{}
		}
		perState[st][k[strings.Index(k, ":")+2:]] = true
	}
	for st, ds := range perState {
		if len(ds) != 1 {
			var l []string
			for d := range ds {
				l = append(l, d)
			}
			sort.Strings(l)
			r.Violation("replica-divergence:prior-state:process-or-storage-mode", fmt.Sprintf("the template nodes for %s, built independently in every worker process and storage mode from the same transactions, differ: digests %v", st, l), map[string]interface{}{"state": st})
		}
	}
	all := strings.Join(results, "\n")
	r.Set("chain_cases", done)
	r.Set("chain_case_space", map[string]interface{}{"max_block_len": r.Pick(2, 3), "letters_genesis": len(lettersFor(0)), "letters_after_mixed_block": len(lettersFor(1)), "cases": len(cases)})
	r.Set("chain_outcomes", a.outcome)
	r.Set("chain_distinct_results", len(a.digests))
	r.Set("chain_block_executions", execs)
	r.Set("chain_replicas", replicas)
	r.Set("chain_tx_kinds", a.kinds)
	r.Set("chain_results_digest", hashOf(all))
	r.Set("chain_run_to_run_pairs", dupsCompared)
	r.Set("candidate_state_blocks_that_raised_the_score", awarded)
	r.Set("cache_warm_txs_in_mempool", warm)
	r.Set("cache_senders_taken_from_cache", hits)
	r.Set("cache_twins_in_cache", twins)
	r.Set("order_tries", order.Tries)
	r.Set("order_storage_tries", order.StorageTries)
	r.Set("order_segments_permuted", order.Segments)
	r.Set("order_permutation_replays", order.Permutations)
	r.Set("order_max_segment", order.MaxSegment)
	r.Set("order_recorded_updates", order.Ops)
	r.Set("order_recorded_deletes", order.Deletes)
	r.Set("chain_slowest_case_ms", int(slow))
	r.Set("chain_wall_s", int(time.Since(t0).Seconds()))
	orphan := 0
	for sg, name := range longDeferred {
		if !longDone[sg] {
			orphan++
			if orphan == 1 {
				r.Capped(fmt.Sprintf("order: a long storage-trie sequence of %s was deferred to a one-letter block that did not permute it", name))
			}
		}
	}
	r.Set("order_long_sequences_permuted", len(longDone))
	r.Set("order_long_sequences_deferred_to_them", len(longDeferred))
	if order.Skipped > 0 {
		r.Capped(fmt.Sprintf("order: %d segments with more than %d updates were not permuted", order.Skipped, maxSegment))
	}
	if len(notExec) > 0 {
		sort.Strings(notExec)
		r.Note("outside the statement: %d blocks whose transactions a mempool admits in block order are not executable by PreRunBlock (the proposer would panic): first %s", len(notExec), notExec[0])
	}
	if len(a.auxDiff) > 0 {
		var l []string
		for k, n := range a.auxDiff {
			l = append(l, fmt.Sprintf("%s (%d cases)", k, n))
		}
		sort.Strings(l)
		r.Note("outside the statement (auxiliary data): the balance-record journal saved by CommitBlock differs from the baseline validator's on: %s. A node that executed another proposal after the one it commits stores the OTHER block's transfer journal (types.BlockBalanceRecordsInstance is refilled by every processBlock, CommitBlock saves whatever it holds); state, receipts and all hashes agree.", strings.Join(l, ", "))
		r.Set("aux_balance_record_divergence", a.auxDiff)
	}
	if done == len(cases) && r.NViolations() == 0 {
		if a.outcome["accepted"] == 0 || a.outcome["rejected"] == 0 || len(a.digests) < a.outcome["accepted"]/8 {
			vk.Fatalf("chain: vacuous: outcomes %v, %d distinct digests", a.outcome, len(a.digests))
		}
		if order.Permutations == 0 || order.Deletes == 0 || order.StorageTries == 0 {
			vk.Fatalf("order: vacuous: %+v", order)
		}
		if awarded == 0 {
			vk.Fatalf("candidates: vacuous: no block of the candidate state raised the candidate's score")
		}
		if hits == 0 || twins == 0 {
			vk.Fatalf("cache: vacuous: %d cache hits, %d twins", hits, twins)
		}
	}
}

// replayCase re-runs the case recorded in a replay file in this process and prints its result.
func replayCase(r *vk.Run) {
	var rp map[string]interface{}
	r.LoadReplay(&rp)
	ls, isChain := rp["letters"]
	switch {
	case rp["scenario"] != nil:
		fmt.Println("schedule counterexamples are re-explored by `/verif/check C05 --part sched` (scenario, worker count and schedule are in the replay file)")
		return
	case !isChain:
		fmt.Println("this counterexample belongs to the map-writer / raw wrappedTrie part: `/verif/check C05 --part ser`")
		return
	}
	bc := blockCase{}
	if st, ok := rp["state"].(float64); ok {
		bc.st = int(st)
	}
	if l, ok := ls.([]interface{}); ok {
		for _, x := range l {
			bc.letters = append(bc.letters, int(x.(float64)))
		}
	}
	res := runBlockCase(bc)
	os.RemoveAll(scratchRoot())
	bz, _ := json.MarshalIndent(res, "", " ")
	fmt.Println(string(bz))
	if len(res.Viol) > 0 {
		for _, v := range res.Viol {
			fmt.Printf("VIOLATION property=C05 replay=%s key=%s :: %s\n", r.ReplayPath, v.Key, v.What)
		}
		os.Exit(1)
	}
}

// sweepStale removes the scratch directories of C05 runs whose process no longer exists (a run that ends through
// vk.Fatalf or a kill cannot clean up after itself).
func sweepStale() {
	ents, err := ioutil.ReadDir("/dev/shm")
	if err != nil {
		return
	}
	for _, e := range ents {
		var pid int
		if !e.IsDir() {
			continue
		}
		if k, _ := fmt.Sscanf(e.Name(), "C05-%d", &pid); k != 1 || pid == os.Getpid() {
			continue
		}
		if _, err := os.Stat(fmt.Sprintf("/proc/%d", pid)); os.IsNotExist(err) {
			os.RemoveAll("/dev/shm/" + e.Name())
		}
	}
}
