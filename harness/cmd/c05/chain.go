package main

// Sub-checks 1 (replica equality), 2a (order insensitivity of the state-update sequence, see record.go) and 4 (cache
// states) of C05, one block per case, in worker subprocesses (all chains of a process are driven from one goroutine).
//
// For one case = (prior state, block) and for BOTH storage modes the same block is executed by
//
//	proposer                transactions arrive as bytes, are decoded and admitted by the proposer's own mempool (AddTx);
//	                        CreateBlock + PreRunBlock on exactly these objects (header fields filled from the result), then
//	                        - as the real proposer does with its own parts - CheckBlock of the decoded block, CommitBlock
//	validator               independent node: parts copied, block decoded, CheckBlock, CommitBlock            (baseline)
//	after-other-proposal    validator that executed ANOTHER proposal for the same height first (round 0 / round 1)
//	before-other-proposal   validator that executed this block, then another proposal, then commits this block
//	fast-sync               block as stored by the proposer, part set rebuilt, VerifyCommit, CheckBlock, CommitBlock
//	warm-identical          validator whose mempool (and sender cache) already holds the block's transactions
//	warm-twin               validator whose mempool holds, for every plain/token transaction of the block, a transaction with
//	                        the same fields signed by ANOTHER funded account (same sign fields, different signature)
//
// and everything the property lists must be identical on all of them: accept/reject, state hash, receipt hash, gas
// used, receipts and logs, bloom, confidential outputs, key images, special transactions, candidates, next validator
// set - plus the complete persisted state (the state hash does not commit to it) and the key-image/output stores.

import (
	"bytes"
	"crypto/sha256"
	"encoding/binary"
	"encoding/hex"
	"encoding/json"
	"errors"
	"fmt"
	"math/big"
	"os"
	"sort"
	"strings"
	"time"

	"verif/kv"
	"verif/minichain"
	"verif/txkit"
	"verif/vk"

	"github.com/lianxiangcloud/linkchain/app"
	cfg "github.com/lianxiangcloud/linkchain/config"
	"github.com/lianxiangcloud/linkchain/libs/common"
	"github.com/lianxiangcloud/linkchain/libs/crypto"
	lktypes "github.com/lianxiangcloud/linkchain/libs/cryptonote/types"
	dbm "github.com/lianxiangcloud/linkchain/libs/db"
	mempl "github.com/lianxiangcloud/linkchain/mempool"
	"github.com/lianxiangcloud/linkchain/state"
	"github.com/lianxiangcloud/linkchain/types"
)

func scratchRoot() string {
	if d := os.Getenv("C05_SCRATCH"); d != "" {
		return d
	}
	return fmt.Sprintf("/dev/shm/C05-%d", os.Getpid())
}

func copyDB(src dbm.DB) *kv.CopyDB {
	dst := kv.NewCopyDB()
	it := src.Iterator(nil, nil)
	for ; it.Valid(); it.Next() {
		dst.Set(it.Key(), it.Value())
	}
	it.Close()
	return dst
}

func dumpDB(db dbm.DB, skip func(k []byte) bool) string {
	h := sha256.New()
	it := db.Iterator(nil, nil)
	n := 0
	for ; it.Valid(); it.Next() {
		if skip != nil && skip(it.Key()) {
			continue
		}
		fmt.Fprintf(h, "%x=%x;", it.Key(), it.Value())
		n++
	}
	it.Close()
	return fmt.Sprintf("%d:%s", n, hex.EncodeToString(h.Sum(nil)[:12]))
}

func hashOf(parts ...interface{}) string {
	h := sha256.New()
	for _, p := range parts {
		switch v := p.(type) {
		case []byte:
			h.Write(v)
		case string:
			h.Write([]byte(v))
		default:
			b, err := json.Marshal(v)
			if err != nil {
				hfail("digest: %v", err)
			}
			h.Write(b)
		}
		h.Write([]byte{0})
	}
	return hex.EncodeToString(h.Sum(nil)[:12])
}

// prior is one prior state: what is needed to turn letters into transactions (mode-independent; read from the flat
// template) and the two templates (flat, trie).
type prior struct {
	st      int
	nonce   map[common.Address]uint64
	msNonce uint64
	balC    *big.Int
	led     *txkit.Ledger
	spendW0 []*txkit.Owned
	spendW1 []*txkit.Owned
	tmpl    [2]*template // [flat, trie]
}

// template: a chain at the prior state (never stepped further; replicas are restarts on copies of its databases) and
// the "other proposal" X for the next height.
type template struct {
	trie   bool
	c      *minichain.Chain
	x      *types.Block
	digest string
}

func modeName(trie bool) string {
	if trie {
		return "trie"
	}
	return "flat"
}

var dirs []string

// installCandidate: prior state 3. The validator that proposes height 1 is an elected candidate with score 5 that
// produced the last two blocks in round 0 (ProduceInfo == config.TwoConsecutive): the FaultValidatorsEvidence every block
// of height >= 2 carries names it as round-0 proposer of the previous block, so executing the next block raises its
// score in the candidates contract record (a state write), resets ProduceInfo and reports score 6 in the block's
// candidate list. One candidate: 1*3/5 = 0 candidates are promoted to validators, the validator set stays the fixture's.
func installCandidate(c *minichain.Chain) {
	v := c.Status().Validators.GetProposer()
	pub := v.PubKey
	rec, err := json.Marshal(state.CandidateJSON{PubKey: "0x" + common.Bytes2Hex(pub.Bytes()), CoinBase: v.CoinBase, VotingPower: v.VotingPower, Score: 5})
	if err != nil {
		hfail("candidate record: %v", err)
	}
	// the TLV framing the contracts' storage layer uses (state.UpdateCandidateScore skips 3 bytes and a trailing 0)
	val := append(append([]byte{1, 2, 3}, rec...), 0)
	key2 := "0x" + common.Bytes2Hex(pub.Bytes()) + string(rune(0))
	l := make([]byte, 2)
	binary.LittleEndian.PutUint16(l, uint16(len(key2)))
	key := append(append(append([]byte("cand"), state.TagString), l...), key2...)
	c.App().VerifC05InstallCandidates([]*types.CandidateInOrder{{
		Candidate:   types.Candidate{Address: pub.Address(), PubKey: pub, VotingPower: v.VotingPower, CoinBase: v.CoinBase},
		ProduceInfo: cfg.TwoConsecutive, Score: 5,
	}}, cfg.ContractCandidatesAddr, map[common.Hash][]byte{crypto.Keccak256Hash(key): val})
}

func (t *template) clone() *minichain.Chain {
	dbs := map[string]*kv.CopyDB{}
	for _, n := range minichain.DBNames {
		dbs[n] = copyDB(t.c.DB(n))
	}
	dir, err := minichain.NewWalDir(scratchRoot())
	if err != nil {
		hfail("wal dir: %v", err)
	}
	dirs = append(dirs, dir)
	if err := minichain.PutWal(dir, t.c.WalBytes()); err != nil {
		hfail("wal: %v", err)
	}
	c, err := t.c.RestartOnCopies(dbs, dir)
	if err != nil {
		hfail("replica start-up on a copy of the %s template: %v", modeName(t.trie), err)
	}
	return c
}

func cleanupDirs() {
	for _, d := range dirs {
		os.RemoveAll(d)
	}
	dirs = dirs[:0]
}

var priors [3]*prior

func getPrior(st int) *prior {
	if priors[st] != nil {
		return priors[st]
	}
	os.MkdirAll(scratchRoot(), 0700)
	p := &prior{st: st, nonce: map[common.Address]uint64{}}
	for m, trie := range []bool{false, true} {
		c, err := minichain.New(minichain.Options{IsTrie: trie, Alloc: alloc(), WalRoot: scratchRoot()})
		if err != nil {
			hfail("template: %v", err)
		}
		c.Track(txkit.D.Addr, types.MultiSignNonceAddr, cfg.ContractCandidatesAddr)
		if st == 2 {
			installCandidate(c)
			if _, err := c.Step(types.Txs{txkit.Transfer(txkit.A, 0, txkit.B.Addr, txkit.LKC(10))}); err != nil {
				hfail("template: first block of the candidate state (%s): %v", modeName(trie), err)
			}
			res, err := c.TxsResult(1)
			if err != nil || len(res.Candidates) != 1 || res.Candidates[0].ProduceInfo != cfg.TwoConsecutive || len(c.AllAccounts()[cfg.ContractCandidatesAddr].Storage) != 1 {
				hfail("template: the candidate list / candidate record were not persisted by block 1 (%s): %v %+v", modeName(trie), err, res)
			}
		}
		if st == 1 {
			if _, err := c.Step(mixedBlock(c)); err != nil {
				hfail("template: mixed block (%s): %v", modeName(trie), err)
			}
			rs := c.Receipts(1)
			for i := 0; i < 11; i++ {
				if rs[i].Status != types.ReceiptStatusSuccessful {
					hfail("template: transaction %d of the mixed block failed (%s)", i, modeName(trie))
				}
			}
			if !bytes.Equal(c.Code(storeAddr), txkit.StoreRuntime) || c.TokenBalance(txkit.A.Addr, issuerAddr).Cmp(txkit.LKC(500)) != 0 ||
				len(c.AllAccounts()[multiAddr].Storage) != 8 || len(c.Code(sdAddr2)) == 0 || len(c.Code(sdAddr3)) == 0 {
				hfail("template: contracts of the mixed block are not in place")
			}
		}
		t := &template{trie: trie, c: c}
		p.tmpl[m] = t
	}
	flat := p.tmpl[0].c
	for _, a := range []*txkit.Account{txkit.A, txkit.B, txkit.C, txkit.D} {
		p.nonce[a.Addr] = flat.Nonce(a.Addr)
	}
	p.msNonce = flat.Nonce(types.MultiSignNonceAddr)
	p.balC = flat.Balance(txkit.C.Addr)
	p.led = txkit.NewLedger()
	p.led.Sync(flat)
	p.spendW0, p.spendW1 = p.led.Spendable(txkit.W0), p.led.Spendable(txkit.W1)
	if st == 1 && (len(p.spendW0) != 2 || len(p.spendW1) != 1) {
		hfail("template: ledger scan found %d/%d outputs", len(p.spendW0), len(p.spendW1))
	}
	for _, t := range p.tmpl {
		// the other proposal for the next height, made by a dedicated proposer replica
		px := t.clone()
		x, _, err := px.MakeBlock(types.Txs{txkit.Transfer(txkit.C, p.nonce[txkit.C.Addr], txkit.B.Addr, txkit.LKC(1))})
		if err != nil {
			hfail("template: other proposal: %v", err)
		}
		px.Close()
		t.x = x
		o := observe(t.c, nil)
		t.digest = hashOf(o.common, t.c.LoadBlock(t.c.Height()).Hash().Hex())
	}
	cleanupDirs()
	priors[st] = p
	return p
}

// ---- observation of one replica after it committed (or refused) the block -----------------------------------------

type obs struct {
	accepted bool
	err      string
	common   map[string]string // what must be identical everywhere
	mode     map[string]string // what must be identical among replicas of one storage mode (trie root, storage roots)
	aux      map[string]string // auxiliary data outside the statement's list (balance-record journal): notes only
}

func accountsDigest(c *minichain.Chain) (content, roots string) {
	known := c.AllAccounts()
	var all []minichain.AccountDump
	for _, d := range known {
		all = append(all, d)
	}
	all = append(all, c.Unattributed()...)
	sort.Slice(all, func(i, j int) bool { return bytes.Compare(all[i].AddrHash[:], all[j].AddrHash[:]) < 0 })
	var a, b strings.Builder
	for _, d := range all {
		fmt.Fprintf(&a, "%x n%d b%s code%x:%x", d.AddrHash, d.Nonce, d.Balance, d.CodeHash, d.Code)
		var toks []string
		for t, v := range d.Tokens {
			toks = append(toks, fmt.Sprintf("%x=%s", t, v))
		}
		sort.Strings(toks)
		fmt.Fprintf(&a, " tok%v", toks)
		var slots []string
		for k, v := range d.Storage {
			slots = append(slots, fmt.Sprintf("%x=%x", k, v))
		}
		sort.Strings(slots)
		fmt.Fprintf(&a, " st%v\n", slots)
		fmt.Fprintf(&b, "%x root %x\n", d.AddrHash, d.StorageRoot)
	}
	return fmt.Sprintf("%d accounts:%s", len(all), hashOf(a.String())), hashOf(b.String())
}

// observe reads everything from a chain whose last block is the block under test (b != nil: also what the header says).
func observe(c *minichain.Chain, b *types.Block) obs {
	o := obs{accepted: true, common: map[string]string{}, mode: map[string]string{}, aux: map[string]string{}}
	h := c.Height()
	stored, err := c.TxsResult(h)
	if err != nil || stored == nil {
		hfail("observe: no stored TxsResult at height %d: %v", h, err)
	}
	mem := c.LastTxsResult()
	blk := c.LoadBlock(h)
	o.common["block-hash"] = blk.Hash().Hex()
	o.common["state-hash"] = fmt.Sprintf("stored %x memory %x", stored.StateHash, mem.StateHash)
	o.common["receipt-hash"] = fmt.Sprintf("stored %x memory %x", stored.ReceiptHash, mem.ReceiptHash)
	o.common["gas-used"] = fmt.Sprintf("stored %d memory %d", stored.GasUsed, mem.GasUsed)
	o.common["bloom"] = fmt.Sprintf("stored %s memory %s header %s", hashOf(stored.LogsBloom[:]), hashOf(mem.LogsBloom[:]), hashOf(blk.Header.Bloom().Bytes()))
	o.common["candidates"] = hashOf(stored.Candidates, mem.Candidates)
	var outs []string
	for _, u := range mem.UTXOOutputs() {
		outs = append(outs, hashOf(u))
	}
	o.common["utxo-outputs"] = fmt.Sprintf("%d:%s", len(outs), hashOf(outs))
	var kis []string
	for _, k := range mem.KeyImages() {
		kis = append(kis, hex.EncodeToString(k[:]))
		if !c.KeyImageSpent(lktypes.Key(*k)) {
			o.common["key-image-store"] += "missing " + hex.EncodeToString(k[:4]) + " "
		}
	}
	o.common["key-images"] = fmt.Sprintf("%d:%s", len(kis), hashOf(kis))
	var sp []string
	for _, t := range mem.SpecialTxs() {
		sp = append(sp, t.Hash().Hex())
	}
	o.common["special-txs"] = fmt.Sprintf("%d:%s", len(sp), hashOf(sp))
	rs := c.Receipts(h)
	var rj []string
	nlogs := 0
	for _, r := range rs {
		bz, err := json.Marshal(r)
		if err != nil {
			hfail("observe: receipt: %v", err)
		}
		rj = append(rj, string(bz))
		nlogs += len(r.Logs)
	}
	o.common["receipts-and-logs"] = fmt.Sprintf("%d receipts %d logs:%s", len(rs), nlogs, hashOf(rj))
	content, roots := accountsDigest(c)
	o.common["state-content"] = content
	o.mode["storage-roots"] = roots
	o.mode["trie-root"] = fmt.Sprintf("stored %x memory %x", stored.TrieRoot, mem.TrieRoot)
	o.common["utxo-store"] = fmt.Sprintf("seq %d", c.MaxUtxoOutputSeq())
	st := c.Status()
	o.common["next-validators"] = fmt.Sprintf("%x proposer %x", st.Validators.Hash(), st.Validators.GetProposer().Address)
	if b != nil {
		o.common["header-after-prerun"] = fmt.Sprintf("%x %x %d", b.Header.StateHash, b.Header.ReceiptHash, b.Header.GasUsed)
		if b.Header.StateHash != stored.StateHash || b.Header.ReceiptHash != stored.ReceiptHash || b.Header.GasUsed != stored.GasUsed {
			o.common["header-vs-result"] = "header fields differ from the committed result"
		}
	}
	if br := c.BalanceRecords().Get(h); br != nil {
		o.aux["balance-record-journal"] = hashOf(br)
	} else {
		o.aux["balance-record-journal"] = "none"
	}
	return o
}

// ---- one case -----------------------------------------------------------------------------------------------------

type violRec struct {
	Key  string `json:"key"`
	What string `json:"what"`
}

type caseResult struct {
	Name       string     `json:"name"`
	State      int        `json:"state"`
	Letters    []int      `json:"letters"`
	Dup        bool       `json:"dup"`
	Outcome    string     `json:"outcome"` // accepted | rejected
	Digest     string     `json:"digest"`
	Tmpl       [2]string  `json:"tmpl"`
	Viol       []violRec  `json:"viol"`
	Replicas   int        `json:"replicas"`
	Executions int        `json:"executions"` // block executions on the real application
	AuxDiff    []string   `json:"aux_diff"`   // dimensions on which the balance-record journal differs from the baseline
	Warm       int        `json:"warm"`       // transactions the warm replica's mempool accepted
	Twins      int        `json:"twins"`      // twins the twin replica's cache holds
	CacheHits  int        `json:"cache_hits"` // senders taken from the mempool cache on the warm replica
	Order      orderStats `json:"order"`
	// Admissible: the mempool of a node at the prior state accepts the transactions in block order, i.e. a correct
	// proposer could hold them. Only such blocks must be ACCEPTED by every replica; for the others (a faulty proposer's
	// proposal) every replica must reach the same verdict.
	Admissible              bool           `json:"admissible"`
	AdmissibleNotExecutable bool           `json:"admissible_not_executable"`
	Kinds                   map[string]int `json:"kinds"`
	Ms                      int64          `json:"ms"`
	CandidateAwarded        bool           `json:"candidate_awarded"` // third prior state: the evidence named the candidate, score 5 -> 6
	Harness                 string         `json:"harness"`           // harness error inside the case (not a verdict)
}

type replica struct {
	dim  string // dimension this replica adds over the baseline of its mode
	trie bool
	c    *minichain.Chain
	o    obs
}

func (r *caseResult) viol(key, format string, a ...interface{}) {
	for _, v := range r.Viol {
		if v.Key == key {
			return
		}
	}
	r.Viol = append(r.Viol, violRec{key, fmt.Sprintf(format, a...)})
}

// procDigest: everything one execution of processBlock computed.
func procDigest(o app.VerifC05Processed) string {
	if !o.Ok {
		return "refused"
	}
	var rj, outs, kis, sp []string
	for _, r := range o.Receipts {
		bz, _ := json.Marshal(r)
		rj = append(rj, string(bz))
	}
	for _, u := range o.Result.UTXOOutputs() {
		outs = append(outs, hashOf(u))
	}
	for _, k := range o.Result.KeyImages() {
		kis = append(kis, hex.EncodeToString(k[:]))
	}
	for _, t := range o.Result.SpecialTxs() {
		sp = append(sp, t.Hash().Hex())
	}
	cands, _ := json.Marshal(o.Result.Candidates)
	return fmt.Sprintf("state %x receipts %x gas %d bloom %s candidates %s outputs %s images %s special %v receipts+logs %s", o.Result.StateHash, o.Result.ReceiptHash, o.Result.GasUsed,
		hashOf(o.Result.LogsBloom[:]), cands, hashOf(outs), hashOf(kis), sp, hashOf(rj))
}

// firstDiff shows where two multi-line digests part.
func firstDiff(a, b string) string {
	la, lb := strings.Split(a, "\n"), strings.Split(b, "\n")
	for i := 0; i < len(la) && i < len(lb); i++ {
		if la[i] != lb[i] {
			x, y := la[i], lb[i]
			k := 0
			for k < len(x) && k < len(y) && x[k] == y[k] {
				k++
			}
			from := k - 120
			if from < 0 {
				from = 0
			}
			cut := func(s string) string {
				to := k + 60
				if to > len(s) {
					to = len(s)
				}
				return s[from:to]
			}
			return fmt.Sprintf("before ...%q, after ...%q", cut(x), cut(y))
		}
	}
	return fmt.Sprintf("%d / %d lines", len(la), len(lb))
}

// catch is vk.Catch that lets harness errors through.
func catch(f func()) (bool, interface{}) {
	pan, pv := vk.Catch(f)
	if he, ok := pv.(harnessError); ok {
		panic(he)
	}
	return pan, pv
}

func wireCopies(txs types.Txs) types.Txs {
	out := make(types.Txs, len(txs))
	for i, t := range txs {
		out[i] = txkit.WireCopy(t)
	}
	return out
}

// twinOf returns a transaction with the same sign fields as tx, signed by another funded account whose state nonce
// does not exceed the transaction's nonce (so that the mempool keeps it: as a good or as a future transaction).
func twinOf(p *prior, tx types.Tx) types.Tx {
	from, err := tx.From()
	if err != nil {
		return nil
	}
	var nonce uint64
	switch t := tx.(type) {
	case *types.Transaction:
		nonce = t.Nonce()
	case *types.TokenTransaction:
		nonce = t.Nonce()
	default:
		return nil
	}
	var signer *txkit.Account
	for _, a := range []*txkit.Account{txkit.C, txkit.B, txkit.A} {
		if a.Addr != from && p.nonce[a.Addr] <= nonce {
			signer = a
			break
		}
	}
	if signer == nil {
		return nil
	}
	switch t := tx.(type) {
	case *types.Transaction:
		var tw *types.Transaction
		if t.To() == nil {
			tw = types.NewContractCreation(t.Nonce(), t.Value(), t.Gas(), t.GasPrice(), t.Data())
		} else {
			tw = types.NewTransaction(t.Nonce(), *t.To(), t.Value(), t.Gas(), t.GasPrice(), t.Data())
		}
		if err := tw.Sign(types.GlobalSTDSigner, signer.Key); err != nil {
			hfail("twin: %v", err)
		}
		return tw
	case *types.TokenTransaction:
		tw := types.NewTokenTransaction(t.TokenAddress(), t.Nonce(), *t.To(), t.Value(), t.Gas(), t.GasPrice(), t.Data())
		if err := tw.Sign(types.GlobalSTDSigner, signer.Key); err != nil {
			hfail("twin: %v", err)
		}
		return tw
	}
	return nil
}

func cacheHas(c *minichain.Chain, h common.Hash) bool {
	want := h.Hex() + "+"
	for _, s := range mempl.VerifMinichainCacheHashes(c.Mempool()) {
		if s == want {
			return true
		}
	}
	return false
}

// checkSenders: whatever sender the node stored in the transactions of the block it checked must be the transaction's
// own signer.
func checkSenders(res *caseResult, dim string, rb *types.Block, truth []common.Address, truthOK []bool) (stored int) {
	for i, tx := range rb.Data.Txs {
		got, ok := types.VerifC05CachedSender(tx)
		if !ok {
			continue
		}
		stored++
		if !truthOK[i] || got != truth[i] {
			res.viol("stored-sender-wrong:"+dim, "after CheckBlock transaction %d of the block carries sender %x, its signature recovers to %x (valid=%v)", i, got, truth[i], truthOK[i])
		}
	}
	return stored
}

// harnessError is a harness problem found inside a worker case: it travels to the parent in the case result (a worker
// that exits inside a case would be indistinguishable from a crash of the code under test) and ends the check with exit 2.
type harnessError string

func hfail(format string, a ...interface{}) { panic(harnessError(fmt.Sprintf(format, a...))) }

func runBlockCase(bc blockCase) (res caseResult) {
	defer func() {
		if e := recover(); e != nil {
			he, ok := e.(harnessError)
			if !ok {
				panic(e)
			}
			res = caseResult{Name: bc.name(), State: bc.st, Letters: bc.letters, Dup: bc.dup, Harness: string(he)}
		}
	}()
	return runBlockCase1(bc)
}

func runBlockCase1(bc blockCase) (res caseResult) {
	t0 := time.Now()
	res = caseResult{Name: bc.name(), State: bc.st, Letters: bc.letters, Dup: bc.dup, Kinds: map[string]int{}}
	p := getPrior(bc.st)
	res.Tmpl = [2]string{p.tmpl[0].digest, p.tmpl[1].digest}
	defer cleanupDirs()

	// build the transactions once (mode-independent, deterministic in the case)
	ls := lettersFor(bc.st)
	seed := uint64(1000 + bc.st*100000)
	for _, l := range bc.letters {
		seed = seed*31 + uint64(l) + 1
	}
	x := &bctx{w: p, kit: txkit.NewKit(seed%1000003 + 1), used: map[common.Address]uint64{}, chain: p.tmpl[0].c}
	var base types.Txs
	for _, l := range bc.letters {
		tx, err := ls[l].build(x)
		if err != nil {
			hfail("case %s: letter %q cannot be built: %v", bc.name(), ls[l].name, err)
		}
		base = append(base, tx)
		res.Kinds[tx.TypeName()]++
	}
	truth := make([]common.Address, len(base))
	truthOK := make([]bool, len(base))
	for i, tx := range base {
		a, err := txkit.WireCopy(tx).From()
		truth[i], truthOK[i] = a, err == nil
		if u, ok := tx.(*types.UTXOTransaction); ok && (u.UTXOKind()&types.Ain) != types.Ain {
			// no account input: no signature; the node's notion of the sender is the zero address
			truth[i], truthOK[i] = common.EmptyAddress, true
		}
	}
	// would a correct proposer ever hold these transactions? (its mempool's admission check, in block order)
	admissible := true
	{
		mc := p.tmpl[0].clone()
		for _, tx := range base {
			if err := mc.Mempool().AddTx("", txkit.WireCopy(tx)); err != nil {
				admissible = false
				break
			}
		}
		mc.Close()
	}
	res.Admissible = admissible

	var all []*replica
	closeAll := func() {
		for _, r := range all {
			r.c.Close()
		}
	}
	defer closeAll()
	var proposed [2]*types.Block
	var outcome [2]string
	for m, t := range p.tmpl {
		mode := modeName(t.trie)
		add := func(dim string) *replica {
			r := &replica{dim: dim, trie: t.trie, c: t.clone()}
			all = append(all, r)
			return r
		}
		P := add("path:proposer")
		// A correct proposer builds its block from the transaction OBJECTS its own mempool holds: they arrived as bytes,
		// were decoded and went through the mempool's admission (CheckBasic leaves memo fields in the object that a
		// freshly decoded copy does not have). PreRunBlock trusts exactly these objects.
		pobjs := wireCopies(base)
		for _, tx := range pobjs {
			P.c.Mempool().AddTx("", tx)
		}
		b, parts, err := P.c.MakeBlock(pobjs)
		res.Executions++
		honest, executable := admissible, err == nil
		if err != nil {
			if !errors.Is(err, minichain.ErrPreRun) {
				hfail("case %s: MakeBlock: %v", bc.name(), err)
			}
			// not executable on the proposer: the proposal a dishonest proposer would send; everybody must refuse it
			honest = false
			if admissible {
				res.AdmissibleNotExecutable = true
			}
			b, parts, err = P.c.Propose(pobjs, false, 0, minichain.BlockOpts{SkipPreRun: true})
			if err != nil {
				hfail("case %s: Propose(SkipPreRun): %v", bc.name(), err)
			}
		}
		proposed[m] = b
		decode := func() (*types.Block, *types.PartSet) {
			rp, err := minichain.CopyParts(parts)
			if err != nil {
				hfail("copy parts: %v", err)
			}
			rb, err := minichain.BlockFromParts(rp, P.c.Status().ConsensusParams.BlockSize.MaxBytes)
			if err != nil {
				hfail("decode block: %v", err)
			}
			return rb, rp
		}
		// check runs CheckBlock (panics are observations) and, when accepted, Commit
		finish := func(r *replica, rb *types.Block, rp *types.PartSet, pre func(), mid func()) {
			var ok bool
			if pan, pv := catch(func() {
				if pre != nil {
					pre()
				}
				ok = r.c.CheckBlock(rb)
				res.Executions++
			}); pan {
				res.viol("panic-in-CheckBlock:"+r.dim, "%s/%s: CheckBlock panics: %v", mode, r.dim, pv)
				r.o = obs{err: "panic"}
				return
			}
			// accepted or not: whatever sender the pre-check stored must be the transaction's own signer
			checkSenders(&res, r.dim, rb, truth, truthOK)
			if !ok {
				r.o = obs{err: "CheckBlock=false"}
				return
			}
			if mid != nil {
				mid()
			}
			if err := r.c.Commit(rb, rp); err != nil {
				res.viol("commit-fails-after-accept:"+r.dim, "%s/%s: CheckBlock accepted but Commit fails: %v", mode, r.dim, err)
				r.o = obs{err: "commit: " + fmtErr(err)}
				return
			}
			r.o = observe(r.c, rb)
		}
		// proposer: works on the block decoded from its own parts
		finish(P, b, parts, nil, nil)
		if honest && !P.o.accepted {
			res.viol("proposer-block-rejected:path:proposer", "%s: the proposer's own CheckBlock refuses the block its PreRunBlock produced (%s)", mode, P.o.err)
		}
		V := add("baseline")
		rb, rp := decode()
		finish(V, rb, rp, nil, nil)
		if honest && !V.o.accepted {
			res.viol("proposer-block-rejected:validator", "%s: an independent validator refuses the block PreRunBlock produced (%s)", mode, V.o.err)
		}
		V2 := add("path:after-other-proposal")
		rb, rp = decode()
		finish(V2, rb, rp, func() { V2.c.CheckBlock(minichain.CloneBlock(t.x)); res.Executions++ }, nil)
		V3 := add("path:before-other-proposal")
		rb, rp = decode()
		finish(V3, rb, rp, nil, func() { V3.c.CheckBlock(minichain.CloneBlock(t.x)); res.Executions++ })
		// repeated executions on ONE application object: the same block k times (as proposer: PreRunBlock, then CheckBlock;
		// as validator of a height that needs several proposals: X, another proposal X', X again). Every execution must give
		// the same result, and an execution that is not committed must leave the objects the application keeps untouched.
		RP := add("path:repeated-execution")
		rb, rp = decode()
		if pan, pv := catch(func() {
			ap := RP.c.App()
			kept := ap.VerifC05KeptDigest()
			first, firstName := "", ""
			step := func(name string, run func() string) {
				d := run()
				res.Executions++
				if d != "" {
					if first == "" {
						first, firstName = d, name
					} else if d != first {
						res.viol("repeat:result-differs-between-executions-on-one-node", "%s: %s gives %s, %s on the same application and committed state gave %s", mode, name, d, firstName, first)
					}
				}
				if k := ap.VerifC05KeptDigest(); k != kept {
					res.viol("repeat:uncommitted-execution-changes-kept-state", "%s: after %s (nothing committed) the objects the application keeps between executions differ: %s", mode, name, firstDiff(kept, k))
					kept = k
				}
			}
			exec := func(preRun bool) func() string {
				return func() string {
					return procDigest(ap.VerifC05ProcessOn(minichain.CloneBlock(rb), ap.VerifStoreState().Copy(), preRun))
				}
			}
			if honest {
				step("execution 1 (proposer path, preRun)", exec(true))
			}
			step("execution 2 (validator path)", exec(false))
			step("execution 3 (validator path again)", exec(false))
			step("CheckBlock of another proposal for the same height", func() string { RP.c.CheckBlock(minichain.CloneBlock(t.x)); return "" })
			step("execution 4 (after the other proposal)", exec(false))
		}); pan {
			res.viol("panic-in-CheckBlock:path:repeated-execution", "%s: repeated execution panics: %v", mode, pv)
		}
		finish(RP, rb, rp, nil, nil)
		// fast sync: the block as the proposer stored it (if it did), otherwise its wire copy
		F := add("path:fast-sync")
		fb := minichain.CloneBlock(b)
		var seen *types.Commit
		if P.o.accepted {
			fb = P.c.LoadBlock(P.c.Height())
			seen = P.c.BlockStore().LoadSeenCommit(P.c.Height())
		}
		if pan, pv := catch(func() {
			err := F.c.CommitFastSync(fb, seen)
			res.Executions++
			switch {
			case err == nil:
				F.o = observe(F.c, fb)
			case errors.Is(err, minichain.ErrCheckBlock):
				F.o = obs{err: "CheckBlock=false"}
			default:
				F.o = obs{err: fmtErr(err)}
				if honest {
					res.viol("fast-sync-fails:path:fast-sync", "%s: fast sync of the committed block fails: %v", mode, err)
				}
			}
		}); pan {
			res.viol("panic-in-CheckBlock:path:fast-sync", "%s: fast sync panics: %v", mode, pv)
			F.o = obs{err: "panic"}
		}
		// cache states
		W := add("cache:warm-identical")
		rb, rp = decode()
		finish(W, rb, rp, func() {
			for _, tx := range base {
				if W.c.Mempool().AddTx("", txkit.WireCopy(tx)) == nil {
					if m == 0 {
						res.Warm++
					}
				}
			}
		}, nil)
		if m == 0 {
			for i, tx := range rb.Data.Txs {
				if _, ok := types.VerifC05CachedSender(tx); ok && cacheHas(W.c, base[i].Hash()) {
					res.CacheHits++
				}
			}
		}
		TW := add("cache:warm-twin")
		rb, rp = decode()
		finish(TW, rb, rp, func() {
			for _, tx := range base {
				if tw := twinOf(p, tx); tw != nil {
					if tw.Hash() == tx.Hash() {
						hfail("twin has the hash of the original")
					}
					TW.c.Mempool().AddTx("", tw)
					if cacheHas(TW.c, tw.Hash()) && m == 0 {
						res.Twins++
					}
				}
			}
		}, nil)

		// ---- comparison inside the mode: everything against the baseline ----
		outcome[m] = "rejected"
		if V.o.accepted {
			outcome[m] = "accepted"
		}
		for _, r := range all {
			if r.trie != t.trie || r == V {
				continue
			}
			compare(&res, V, r, r.dim, mode)
		}
		// ---- sub-check 2a on this mode (every block the proposer could execute) ----
		if executable {
			O := add("order-recorder")
			orderCheck(&res, O.c, t.trie, b, V)
		}
	}
	// ---- storage mode dimension: baselines of the two modes ----
	var vf, vt *replica
	for _, r := range all {
		if r.dim == "baseline" {
			if r.trie {
				vt = r
			} else {
				vf = r
			}
		}
	}
	compare(&res, vf, vt, "storage-mode", "flat-vs-trie")
	if proposed[0].Hash() != proposed[1].Hash() {
		res.viol("replica-divergence:proposed-block:storage-mode", "proposers in flat and trie mode build different blocks from the same transactions: %s / %s (state %x/%x receipts %x/%x gas %d/%d)",
			proposed[0].Hash().Hex(), proposed[1].Hash().Hex(), proposed[0].StateHash, proposed[1].StateHash, proposed[0].ReceiptHash, proposed[1].ReceiptHash, proposed[0].GasUsed, proposed[1].GasUsed)
	}
	if bc.st == 2 && vf.o.accepted {
		// non-vacuity of the candidate state: the block's evidence named the candidate and its score was raised
		if r2, err := vf.c.TxsResult(vf.c.Height()); err == nil && len(r2.Candidates) == 1 && r2.Candidates[0].Score == 6 && r2.Candidates[0].ProduceInfo == 0 {
			res.CandidateAwarded = true
		}
	}
	res.Outcome = outcome[0]
	res.Replicas = len(all)
	if vf.o.accepted {
		var ks []string
		for k := range vf.o.common {
			ks = append(ks, k)
		}
		sort.Strings(ks)
		var sb strings.Builder
		for _, k := range ks {
			sb.WriteString(k + "=" + vf.o.common[k] + "\n")
		}
		res.Digest = hashOf(sb.String())
	} else {
		res.Digest = "rejected:" + vf.o.err
	}
	res.Ms = time.Since(t0).Milliseconds()
	return res
}

// compare two replicas that executed the same block on the same committed state; dim names the only thing that differs
// between them.
func compare(res *caseResult, a, b *replica, dim, where string) {
	if a.o.accepted != b.o.accepted {
		res.viol("accept-divergence:"+dim, "%s: baseline accepted=%v (%s), %s accepted=%v (%s)", where, a.o.accepted, a.o.err, dim, b.o.accepted, b.o.err)
		return
	}
	if !a.o.accepted {
		return
	}
	var ks []string
	for k := range a.o.common {
		ks = append(ks, k)
	}
	for k := range b.o.common {
		if _, ok := a.o.common[k]; !ok {
			ks = append(ks, k)
		}
	}
	sort.Strings(ks)
	for _, k := range ks {
		if a.o.common[k] != b.o.common[k] {
			res.viol("replica-divergence:"+k+":"+dim, "%s: %s differs: baseline %q, %s %q", where, k, a.o.common[k], dim, b.o.common[k])
		}
	}
	if a.trie == b.trie {
		for k := range a.o.mode {
			if a.o.mode[k] != b.o.mode[k] {
				res.viol("replica-divergence:"+k+":"+dim, "%s: %s differs: baseline %q, %s %q", where, k, a.o.mode[k], dim, b.o.mode[k])
			}
		}
	}
	for k := range a.o.aux {
		if a.o.aux[k] != b.o.aux[k] {
			d, have := k+":"+dim, false
			for _, x := range res.AuxDiff {
				have = have || x == d
			}
			if !have {
				res.AuxDiff = append(res.AuxDiff, d)
			}
		}
	}
}

func chainWorker(r *vk.Run) {
	cases := blockCases(r.Pick(2, 3))
	vk.WorkerLoop(len(cases), func(i int) interface{} { return runBlockCase(cases[i]) })
}
