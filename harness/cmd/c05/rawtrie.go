package main

// Sub-check 2c: order insensitivity of wrappedTrie itself, independent of which keys the block alphabet happens to touch
// (whether an ordering defect shows on a recorded sequence depends on how the keccak hashes of the touched keys compare).
//
// For both storage modes, for the account trie and a storage trie (state.NewKeyValueDBWithCache -> OpenTrie /
// OpenStorageTrie = wrappedTrie), over a pre-state that holds all keys of a small pool: for EVERY subset of 2..n keys, EVERY
// assignment of update/delete to its keys and EVERY order of the resulting operations, Hash(), the root returned by
// Commit() and the committed write set must equal those of the first order.

import (
	"fmt"

	"verif/kv"
	"verif/vk"

	"github.com/lianxiangcloud/linkchain/libs/common"
	"github.com/lianxiangcloud/linkchain/libs/crypto"
	"github.com/lianxiangcloud/linkchain/state"
)

func runRawTrie(r *vk.Run) {
	pool := [][]byte{[]byte("slot-a"), []byte("slot-b"), []byte("slot-c"), []byte("slot-d"), []byte("slot-e"), []byte("slot-f")}
	maxN := r.Pick(4, 5)
	addrHash := crypto.Keccak256Hash([]byte("c05-raw-contract"))
	replays, seqs := 0, 0
	outcomes := map[common.Hash]bool{}
	for _, isTrie := range []bool{false, true} {
		for _, storage := range []bool{false, true} {
			what := fmt.Sprintf("raw-%s:%s", map[bool]string{false: "account-trie", true: "storage-trie"}[storage], modeName(isTrie))
			open := func(sdb state.Database, root common.Hash) state.Trie {
				var t state.Trie
				var err error
				if storage {
					t, err = sdb.OpenStorageTrie(addrHash, root)
				} else {
					t, err = sdb.OpenTrie(root)
				}
				if err != nil || t == nil {
					vk.Fatalf("rawtrie: open %s: %v", what, err)
				}
				return t
			}
			// pre-state: every pool key holds an old value, committed and flushed
			base := kv.NewCopyDB()
			sdb := openStateDB(base, isTrie, 0)
			t := open(sdb, common.Hash{})
			for i, k := range pool {
				t.TryUpdate(k, []byte(fmt.Sprintf("old-value-%d", i)))
			}
			t.Hash()
			root, err := t.Commit(nil, 1)
			if err != nil {
				vk.Fatalf("rawtrie: %v", err)
			}
			if isTrie {
				if err := sdb.TrieDB().Commit(root, false); err != nil {
					vk.Fatalf("rawtrie: %v", err)
				}
			}
			run := func(keys []int, del []bool, perm []int) (h, c common.Hash, dump string) {
				db := newOvDB(base)
				sd := openStateDB(db, isTrie, 1)
				tr := open(sd, root)
				for _, j := range perm {
					if del[j] {
						tr.TryDelete(pool[keys[j]])
					} else {
						tr.TryUpdate(pool[keys[j]], []byte(fmt.Sprintf("new-value-%d", keys[j])))
					}
				}
				h = tr.Hash()
				c, err := tr.Commit(nil, 2)
				if err != nil {
					vk.Fatalf("rawtrie: commit: %v", err)
				}
				if isTrie {
					sd.TrieDB().Commit(c, false)
				}
				return h, c, db.dump()
			}
			for mask := 1; mask < 1<<uint(len(pool)); mask++ {
				var keys []int
				for i := range pool {
					if mask&(1<<uint(i)) != 0 {
						keys = append(keys, i)
					}
				}
				n := len(keys)
				if n < 2 || n > maxN {
					continue
				}
				for dm := 0; dm < 1<<uint(n); dm++ {
					del := make([]bool, n)
					for j := range del {
						del[j] = dm&(1<<uint(j)) != 0
					}
					seqs++
					var rh, rc common.Hash
					var rd string
					first := true
					vk.Permutations(n, func(p []int) bool {
						h, c, d := run(keys, del, p)
						replays++
						if first {
							rh, rc, rd, first = h, c, d, false
							outcomes[h] = true
							return true
						}
						rep := map[string]interface{}{"part": "rawtrie", "mode": modeName(isTrie), "storage": storage, "keys": keys, "delete": del, "order": append([]int{}, p...)}
						switch {
						case h != rh:
							r.Violation("order:hash-depends-on-update-order:"+what, fmt.Sprintf("wrappedTrie (%s): keys %v with delete=%v applied in order %v hash to %x, in the first order to %x", what, keys, del, p, h, rh), rep)
						case c != rc:
							r.Violation("order:commit-root-depends-on-update-order:"+what, fmt.Sprintf("wrappedTrie (%s): keys %v with delete=%v applied in order %v commit to root %x, in the first order to %x", what, keys, del, p, c, rc), rep)
						case d != rd:
							r.Violation("order:committed-content-depends-on-update-order:"+what, fmt.Sprintf("wrappedTrie (%s): keys %v with delete=%v applied in order %v leave write set %s, in the first order %s", what, keys, del, p, d, rd), rep)
						default:
							return true
						}
						return false
					})
				}
			}
		}
	}
	r.Set("rawtrie_sequences", seqs)
	r.Set("rawtrie_permutation_replays", replays)
	r.Set("rawtrie_distinct_hashes", len(outcomes))
	if len(outcomes) < seqs/8 {
		vk.Fatalf("rawtrie: vacuous: %d sequences, %d distinct hashes", seqs, len(outcomes))
	}
}
