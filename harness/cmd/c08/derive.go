package main

// Sender / hash caches across the repository's own derivation methods. A transaction object memoises its
// sender (and its hash). The methods that turn an existing object into a differently signed one are Sign (all
// kinds) and WithSignature (Transaction). Enumerated: kind x which caches are warm {none, sender, hash, both} x
// derivation {re-sign with another key, re-sign for another chain parameter, WithSignature with a foreign
// signature}. Oracle: after the derivation the object answers From() and Hash() exactly like a FRESH decode of its
// own wire bytes (reference = the cold path).

import (
	"fmt"
	"math/big"

	"verif/vk"

	"github.com/lianxiangcloud/linkchain/libs/crypto"
	"github.com/lianxiangcloud/linkchain/libs/ser"
	"github.com/lianxiangcloud/linkchain/types"
)

func runCacheDerivations(r *vk.Run) int {
	to := addrX
	type kindD struct {
		name   string
		make   func() types.Tx // fresh object signed by A for this chain
		sign   func(tx types.Tx, s types.STDSigner, b bool) error
		withSg func(tx types.Tx, sig []byte) (types.Tx, error) // nil: kind has no WithSignature
		decode func(wire []byte) (types.Tx, error)
	}
	signedUTXO := signA(ainLKCUnsigned)
	kinds := []kindD{
		{"Transaction", func() types.Tx {
			tx := types.NewTransaction(7, to, e18(5), 0, nil, []byte(`{"memo":"c08"}`))
			tx.Sign(types.GlobalSTDSigner, keyA)
			return tx
		}, func(tx types.Tx, s types.STDSigner, b bool) error {
			if b {
				return tx.(*types.Transaction).Sign(s, keyB)
			}
			return tx.(*types.Transaction).Sign(s, keyA)
		}, func(tx types.Tx, sig []byte) (types.Tx, error) {
			return tx.(*types.Transaction).WithSignature(types.GlobalSTDSigner, sig)
		}, decodeTx},
		{"TokenTransaction", func() types.Tx {
			tx := types.NewTokenTransaction(addrTok, 7, to, e18(5), 0, nil, nil)
			tx.Sign(types.GlobalSTDSigner, keyA)
			return tx
		}, func(tx types.Tx, s types.STDSigner, b bool) error {
			if b {
				return tx.(*types.TokenTransaction).Sign(s, keyB)
			}
			return tx.(*types.TokenTransaction).Sign(s, keyA)
		}, nil, func(wire []byte) (types.Tx, error) {
			tx := new(types.TokenTransaction)
			return tx, ser.DecodeBytes(wire, tx)
		}},
		{"UTXOTransaction", func() types.Tx { return mustDecodeUTXO(signedUTXO) }, func(tx types.Tx, s types.STDSigner, b bool) error {
			if b {
				return tx.(*types.UTXOTransaction).Sign(s, keyB)
			}
			return tx.(*types.UTXOTransaction).Sign(s, keyA)
		}, nil, func(wire []byte) (types.Tx, error) {
			tx, err := decodeUTXO(wire)
			return tx, err
		}},
	}
	cases := 0
	for _, k := range kinds {
		for warm := 0; warm < 4; warm++ {
			type deriv struct {
				name string
				f    func(tx types.Tx) (types.Tx, error)
			}
			ds := []deriv{
				{"Sign(this chain, key B)", func(tx types.Tx) (types.Tx, error) { return tx, k.sign(tx, types.GlobalSTDSigner, true) }},
				{"Sign(chain c+1, key A)", func(tx types.Tx) (types.Tx, error) { return tx, k.sign(tx, signerFor(add(chainC, bi(1))), false) }},
				{"Sign(chain c+1, key B)", func(tx types.Tx) (types.Tx, error) { return tx, k.sign(tx, signerFor(add(chainC, bi(1))), true) }},
			}
			if k.withSg != nil {
				// a 65-byte [R||S||V] signature by B over this transaction's digest, and A's malleable twin
				ds = append(ds, deriv{"WithSignature(signature of key B)", func(tx types.Tx) (types.Tx, error) {
					h, _ := types.VerifC08SigHash(tx, types.GlobalSTDSigner)
					sig, _ := crypto.Sign(h[:], keyB)
					return k.withSg(tx, sig)
				}}, deriv{"WithSignature(A's signature with the other recovery id)", func(tx types.Tx) (types.Tx, error) {
					h, _ := types.VerifC08SigHash(tx, types.GlobalSTDSigner)
					sig, _ := crypto.Sign(h[:], keyA)
					sig[64] ^= 1
					return k.withSg(tx, sig)
				}}, deriv{"WithSignature(A's high-s twin)", func(tx types.Tx) (types.Tx, error) {
					h, _ := types.VerifC08SigHash(tx, types.GlobalSTDSigner)
					sig, _ := crypto.Sign(h[:], keyA)
					s := new(big.Int).Sub(secpN, new(big.Int).SetBytes(sig[32:64])).Bytes()
					copy(sig[32:64], make([]byte, 32))
					copy(sig[64-len(s):64], s)
					sig[64] ^= 1
					return k.withSg(tx, sig)
				}})
			}
			for _, d := range ds {
				cases++
				tx := k.make()
				warmName := []string{"no cache warm", "sender cache warm", "hash cache warm", "sender and hash cache warm"}[warm]
				if warm&1 != 0 {
					if f, err := tx.From(); err != nil || f != addrA {
						vk.Fatalf("derive: %s base sender %x %v", k.name, f, err)
					}
				}
				if warm&2 != 0 {
					tx.Hash()
				}
				out, err := d.f(tx)
				if err != nil {
					vk.Fatalf("derive: %s %s: %v", k.name, d.name, err)
				}
				wire := mustEncode(out)
				ref, err := k.decode(wire)
				if err != nil {
					vk.Fatalf("derive: %s %s: result does not decode: %v", k.name, d.name, err)
				}
				wantFrom, wantErr := ref.From()
				gotFrom, gotErr := out.From()
				method := "Sign"
				if len(d.name) > 4 && d.name[:4] == "With" {
					method = "WithSignature"
				}
				if (wantErr == nil) != (gotErr == nil) || wantFrom != gotFrom {
					r.Violation("stale-sender-cache:"+k.name+"."+method, fmt.Sprintf("%s: after %s on an object with %s, From() = %x (err %v) but a fresh decode of the same bytes gives %x (err %v): the memoised sender outlives the changed signature",
						k.name, d.name, warmName, gotFrom, gotErr, wantFrom, wantErr), replay{"kind": k.name, "derivation": d.name, "warm": warmName, "wire_after": hexb(wire), "A": addrA.Hex(), "B": addrB.Hex()})
				}
				if ref.Hash() != out.Hash() {
					r.Violation("stale-hash-cache:"+k.name+"."+method, fmt.Sprintf("%s: after %s on an object with %s, Hash() = %x but a fresh decode of the same bytes hashes to %x", k.name, d.name, warmName, out.Hash(), ref.Hash()),
						replay{"kind": k.name, "derivation": d.name, "warm": warmName, "wire_after": hexb(wire)})
				}
			}
		}
	}
	r.Set("cache_derivation_cases", cases)
	fmt.Printf("derive cases=%d\n", cases)
	return cases
}
