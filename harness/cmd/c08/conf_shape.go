package main

// Shape of the authorisation data of confidential spends.
//
// The key-set product (runSpendKeySets) tries wrong KEYS for signatures that are present. This part changes the
// SHAPE of what carries the authorisation, after a construction with the repository's own code:
//
//	bases      honest spends of every confidential-input kind (ring 1 = ring-signature path, ring 3 = MLSAG path; one and
//	           two inputs; coin and token with account-paid fee), and "foreign-input" variants of each in which one, the
//	           other or all inputs were signed with a made-up secret and key image instead of the owner's key
//	           (= somebody else's output; the verifier cannot tell the difference)
//	mutations  on the three per-input containers RCTSig.P.Ss (ring signatures), RCTSig.P.MGs (MLSAGs), RCTSig.P.PseudoOuts:
//	           drop last / drop first / empty, entry i := entry j, entries swapped, entry zeroed, extra entry (copy, zero);
//	           the same operation on every subset of the containers; on the inputs: swapped without their signatures,
//	           one dropped (with and without its container entries), one duplicated, one replaced by a foreign output,
//	           a foreign output appended (x every subset of "pad MGs / Ss / PseudoOuts by one entry");
//	           thorough: all pairs of mutations of different containers / inputs
//	each case  wire round trip into a fresh object, then the real CheckBasic (the admission check of mempool and block path)
//
// Oracle (the harness holds every key and knows which inputs it signed with the owner's key): accepted => the base was
// signed by the owners of ALL inputs, the signed message (prefix hash) is the base's, and every input still has its
// own original signature in its own slot of the container the verifier uses for that ring size. Anything else that is
// accepted spends an output whose key holder did not authorise this transaction: unauthorised-accepted:conf:<class>.

import (
	"bytes"
	"fmt"
	"math/big"
	"reflect"
	"sort"
	"strings"
	"sync"
	"sync/atomic"

	"verif/vk"

	lk "github.com/lianxiangcloud/linkchain/libs/cryptonote/types"
	"github.com/lianxiangcloud/linkchain/libs/cryptonote/xcrypto"
	"github.com/lianxiangcloud/linkchain/libs/ser"
	"github.com/lianxiangcloud/linkchain/types"
)

type shapeBase struct {
	name    string
	wire    []byte
	nIn     int
	ring    int  // ring size of every input
	honest  bool // every input signed with its owner's key
	token   bool
	victimG uint64 // global index of an output NOT among the inputs (same token list): the "foreign output"
	victimK lk.Key // its true key image
}

// buildSpendWith: like buildSpend, but the inputs listed in bogus are signed with a made-up secret (and carry the key
// image that goes with it) instead of the owner's. ok=false: the prover refused.
func buildSpendWith(sp *spendSpec, bogus []int) (*spendBuilt, bool) {
	b, err := sp.skeleton()
	if err != nil {
		vk.Fatalf("shape fixture: %s: constructor: %v", sp.name, err)
	}
	tx := mustDecodeUTXO(b.unsigned)
	for _, i := range bogus {
		sk := lk.SecretKey(xcrypto.SkGen())
		ki, err := xcrypto.GenerateKeyImage(lk.PublicKey(sp.ins[i].otaddr), sk)
		if err != nil {
			vk.Fatalf("shape fixture: key image: %v", err)
		}
		b.ephs[i].SKey, b.ephs[i].KeyImage = sk, lk.Key(ki)
		tx.Inputs[i].(*types.UTXOInput).KeyImage = lk.Key(ki)
	}
	if err := b.finish(tx, b.ephs); err != nil {
		return nil, false
	}
	b.wire = mustEncode(tx)
	return b, true
}

func shapeSpecs() []*spendSpec {
	// the four spend bases of the binding part plus: one input with a ring of one; token with two inputs, ring 1 and ring 3
	s5in := fundF1[2] // (W0,2) 3e18 global 2
	s5 := &spendSpec{name: "S5:1in(ring1)->1Uout", w: 0, ins: []*fixOut{s5in}, rings: [][]uint64{{2}},
		outs: []outSpec{{to: pd(2, 0), amount: sub(s5in.amount, utxoFee)}}, extra: []byte("s5")}
	t0, t3 := fundF3[0], fundF3[3] // token outputs of W0: globals 0 (4e18) and 3 (7e18)
	s6 := &spendSpec{name: "S6:token,2in(ring1)->2Uout,fee-payer", w: 0, ins: []*fixOut{t0, t3}, rings: [][]uint64{{0}, {3}}, token: addrTok, fee: new(big.Int).Set(utxoFee), feePayer: true,
		outs: []outSpec{{to: pd(1, 1), amount: e18(5)}, {to: pd(0, 0), amount: e18(6)}}, extra: []byte("s6")}
	s7 := &spendSpec{name: "S7:token,2in(ring3)->2Uout,fee-payer", w: 0, ins: []*fixOut{t0, t3}, rings: [][]uint64{{0, 1, 2}, {1, 2, 3}}, token: addrTok, fee: new(big.Int).Set(utxoFee), feePayer: true,
		outs: []outSpec{{to: pd(2, 2), amount: e18(10)}, {to: pd(0, 1), amount: e18(1)}}, extra: []byte("s7")}
	return append(append([]*spendSpec{}, spendSpecs...), s5, s6, s7)
}

func subsetsOf(n int) [][]int {
	var out [][]int
	for m := 1; m < 1<<uint(n); m++ {
		var s []int
		for i := 0; i < n; i++ {
			if m&(1<<uint(i)) != 0 {
				s = append(s, i)
			}
		}
		out = append(out, s)
	}
	return out
}

func shapeBases() []*shapeBase {
	var bases []*shapeBase
	for si, sp := range shapeSpecs() {
		xcrypto.VerifSetSeed(uint64(800 + si))
		// a foreign output: same token list, not an input of this spend
		used := map[uint64]bool{}
		for _, in := range sp.ins {
			used[in.global] = true
		}
		var victim *fixOut
		for _, fo := range fixOuts {
			if fo.token == sp.token && !used[fo.global] {
				victim = fo
			}
		}
		mk := func(name string, b *spendBuilt, honest bool) *shapeBase {
			return &shapeBase{name: name, wire: b.wire, nIn: len(sp.ins), ring: len(sp.rings[0]), honest: honest, token: sp.feePayer, victimG: victim.global, victimK: victim.owned.KeyImage}
		}
		hb, ok := buildSpendWith(sp, nil)
		if !ok {
			vk.Fatalf("shape fixture: honest %s: prover refused", sp.name)
		}
		if err := mustDecodeUTXO(hb.wire).CheckBasic(theCensor); err != nil {
			vk.Fatalf("shape fixture: honest %s fails CheckBasic: %v", sp.name, err)
		}
		bases = append(bases, mk(sp.name, hb, true))
		for _, bogus := range subsetsOf(len(sp.ins)) {
			fb, ok := buildSpendWith(sp, bogus)
			if !ok {
				continue // the prover refuses a wrong secret: nothing to mutate
			}
			bases = append(bases, mk(fmt.Sprintf("%s/inputs%v-signed-with-a-made-up-key", sp.name, bogus), fb, false))
		}
	}
	return bases
}

// ---- mutations ------------------------------------------------------------------------------------------------

type shapeMut struct {
	target string // Ss | MGs | PseudoOuts | Inputs
	class  string // fewer-entries | more-entries | entry-replaced | entries-permuted | foreign-appended | ...
	label  string
	apply  func(tx *types.UTXOTransaction, b *shapeBase) bool
}

func (m shapeMut) key() string { return m.target + ":" + m.class }

type contT struct {
	name string
	get  func(tx *types.UTXOTransaction) reflect.Value // addressable slice
}

var shapeConts = []contT{
	{"Ss", func(tx *types.UTXOTransaction) reflect.Value { return reflect.ValueOf(&tx.RCTSig.P.Ss).Elem() }},
	{"MGs", func(tx *types.UTXOTransaction) reflect.Value { return reflect.ValueOf(&tx.RCTSig.P.MGs).Elem() }},
	{"PseudoOuts", func(tx *types.UTXOTransaction) reflect.Value { return reflect.ValueOf(&tx.RCTSig.P.PseudoOuts).Elem() }},
}

// deep copy of one element (through the wire codec of the element type)
func cloneElem(v reflect.Value) reflect.Value {
	n := reflect.New(v.Type())
	bz, err := ser.EncodeToBytes(v.Interface())
	if err == nil {
		err = ser.DecodeBytes(bz, n.Interface())
	}
	if err != nil {
		n.Elem().Set(v)
	}
	return n.Elem()
}

func contMuts(c contT, maxN int) []shapeMut {
	var m []shapeMut
	add := func(class, label string, f func(s reflect.Value) (reflect.Value, bool)) {
		m = append(m, shapeMut{c.name, class, c.name + " " + label, func(tx *types.UTXOTransaction, _ *shapeBase) bool {
			s := c.get(tx)
			n, ok := f(s)
			if ok {
				s.Set(n)
			}
			return ok
		}})
	}
	cp := func(s reflect.Value) reflect.Value {
		n := reflect.MakeSlice(s.Type(), s.Len(), s.Len()+1)
		reflect.Copy(n, s)
		return n
	}
	add("fewer-entries", "drop-last", func(s reflect.Value) (reflect.Value, bool) {
		if s.Len() == 0 {
			return s, false
		}
		return cp(s).Slice(0, s.Len()-1), true
	})
	add("fewer-entries", "drop-first", func(s reflect.Value) (reflect.Value, bool) {
		if s.Len() < 2 {
			return s, false
		}
		return cp(s).Slice(1, s.Len()), true
	})
	add("fewer-entries", "empty", func(s reflect.Value) (reflect.Value, bool) {
		if s.Len() == 0 {
			return s, false
		}
		return reflect.Zero(s.Type()), true
	})
	add("more-entries", "append-copy-of-entry-0", func(s reflect.Value) (reflect.Value, bool) {
		if s.Len() == 0 {
			return s, false
		}
		return reflect.Append(cp(s), cloneElem(s.Index(0))), true
	})
	add("more-entries", "append-zero-entry", func(s reflect.Value) (reflect.Value, bool) {
		return reflect.Append(cp(s), reflect.Zero(s.Type().Elem())), true
	})
	for i := 0; i < maxN; i++ {
		i := i
		add("entry-replaced", fmt.Sprintf("entry[%d]:=zero", i), func(s reflect.Value) (reflect.Value, bool) {
			if i >= s.Len() {
				return s, false
			}
			n := cp(s)
			n.Index(i).Set(reflect.Zero(s.Type().Elem()))
			return n, true
		})
		for j := 0; j < maxN; j++ {
			j := j
			if i == j {
				continue
			}
			add("entry-replaced", fmt.Sprintf("entry[%d]:=entry[%d]", i, j), func(s reflect.Value) (reflect.Value, bool) {
				if i >= s.Len() || j >= s.Len() {
					return s, false
				}
				n := cp(s)
				n.Index(i).Set(cloneElem(s.Index(j)))
				return n, true
			})
			if i < j {
				add("entries-permuted", fmt.Sprintf("entry[%d]<->entry[%d]", i, j), func(s reflect.Value) (reflect.Value, bool) {
					if i >= s.Len() || j >= s.Len() {
						return s, false
					}
					n := cp(s)
					a, b := cloneElem(s.Index(i)), cloneElem(s.Index(j))
					n.Index(i).Set(b)
					n.Index(j).Set(a)
					return n, true
				})
			}
		}
	}
	return m
}

// foreignInput: an input naming the base's foreign output (ring of the base's size around it) with its true key image.
func foreignInput(b *shapeBase) *types.UTXOInput {
	in := &types.UTXOInput{KeyImage: b.victimK}
	if b.ring == 1 {
		in.KeyOffset = []uint64{b.victimG}
		return in
	}
	lo := b.victimG
	if lo > 0 {
		lo--
	}
	n := uint64(len(theStore.outs[tokenOf(b)]))
	if lo+uint64(b.ring) > n {
		lo = n - uint64(b.ring)
	}
	in.KeyOffset = []uint64{lo}
	for i := 1; i < b.ring; i++ {
		in.KeyOffset = append(in.KeyOffset, 1)
	}
	return in
}

func tokenOf(b *shapeBase) (t [20]byte) {
	if b.token {
		return addrTok
	}
	return
}

func inputMuts() []shapeMut {
	pad := []shapeMut{
		{"MGs", "more-entries", "MGs padded by an empty entry", func(tx *types.UTXOTransaction, _ *shapeBase) bool {
			tx.RCTSig.P.MGs = append(append([]lk.MgSig{}, tx.RCTSig.P.MGs...), lk.MgSig{})
			return true
		}},
		{"Ss", "more-entries", "Ss padded by a zero signature", func(tx *types.UTXOTransaction, _ *shapeBase) bool {
			tx.RCTSig.P.Ss = append(append([]lk.Signature{}, tx.RCTSig.P.Ss...), lk.Signature{})
			return true
		}},
		{"PseudoOuts", "more-entries", "PseudoOuts padded by a copy of entry 0", func(tx *types.UTXOTransaction, _ *shapeBase) bool {
			if len(tx.RCTSig.P.PseudoOuts) == 0 {
				return false
			}
			tx.RCTSig.P.PseudoOuts = append(append(lk.KeyV{}, tx.RCTSig.P.PseudoOuts...), tx.RCTSig.P.PseudoOuts[0])
			return true
		}},
	}
	var m []shapeMut
	// a foreign output appended, x every subset of the paddings that make the containers as long as the input list
	for mask := 0; mask < 8; mask++ {
		mask := mask
		var names []string
		for i := range pad {
			if mask&(1<<uint(i)) != 0 {
				names = append(names, pad[i].label)
			}
		}
		label := "foreign output appended to the inputs, no signature for it"
		if len(names) > 0 {
			label += "; " + strings.Join(names, ", ")
		}
		m = append(m, shapeMut{"Inputs", "foreign-appended", label, func(tx *types.UTXOTransaction, b *shapeBase) bool {
			tx.Inputs = append(append([]types.Input{}, tx.Inputs...), foreignInput(b))
			for i := range pad {
				if mask&(1<<uint(i)) != 0 && !pad[i].apply(tx, b) {
					return false
				}
			}
			return true
		}})
	}
	for i := 0; i < 2; i++ {
		i := i
		m = append(m, shapeMut{"Inputs", "foreign-substituted", fmt.Sprintf("input[%d] replaced by a foreign output, signatures untouched", i), func(tx *types.UTXOTransaction, b *shapeBase) bool {
			if i >= len(tx.Inputs) {
				return false
			}
			tx.Inputs[i] = foreignInput(b)
			return true
		}}, shapeMut{"Inputs", "foreign-substituted", fmt.Sprintf("key image of input[%d] replaced by the foreign output's, signatures untouched", i), func(tx *types.UTXOTransaction, b *shapeBase) bool {
			if i >= len(tx.Inputs) {
				return false
			}
			in := *tx.Inputs[i].(*types.UTXOInput)
			in.KeyImage = b.victimK
			tx.Inputs[i] = &in
			return true
		}})
	}
	m = append(m,
		shapeMut{"Inputs", "permuted", "inputs swapped without their signatures", func(tx *types.UTXOTransaction, _ *shapeBase) bool {
			if len(tx.Inputs) < 2 {
				return false
			}
			tx.Inputs[0], tx.Inputs[1] = tx.Inputs[1], tx.Inputs[0]
			return true
		}},
		shapeMut{"Inputs", "duplicated", "last input duplicated", func(tx *types.UTXOTransaction, _ *shapeBase) bool {
			tx.Inputs = append(append([]types.Input{}, tx.Inputs...), tx.Inputs[len(tx.Inputs)-1])
			return true
		}},
		shapeMut{"Inputs", "dropped", "last input dropped, containers untouched", func(tx *types.UTXOTransaction, _ *shapeBase) bool {
			if len(tx.Inputs) < 2 {
				return false
			}
			tx.Inputs = tx.Inputs[:len(tx.Inputs)-1]
			return true
		}},
		shapeMut{"Inputs", "dropped", "last input dropped together with its container entries", func(tx *types.UTXOTransaction, _ *shapeBase) bool {
			if len(tx.Inputs) < 2 {
				return false
			}
			n := len(tx.Inputs) - 1
			tx.Inputs = tx.Inputs[:n]
			p := &tx.RCTSig.P
			if len(p.Ss) > n {
				p.Ss = p.Ss[:n]
			}
			if len(p.MGs) > n {
				p.MGs = p.MGs[:n]
			}
			if len(p.PseudoOuts) > n {
				p.PseudoOuts = p.PseudoOuts[:n]
			}
			return true
		}},
	)
	return m
}

// ---- run ---------------------------------------------------------------------------------------------------------

func encEq(a, b interface{}) bool {
	x, e1 := ser.EncodeToBytes(a)
	y, e2 := ser.EncodeToBytes(b)
	return e1 == nil && e2 == nil && bytes.Equal(x, y)
}

// authorised: reference verdict for the mutated transaction t derived from base b (decoded as base).
func authorised(b *shapeBase, base, t *types.UTXOTransaction) bool {
	if !b.honest || t.PrefixHash() != base.PrefixHash() || len(t.Inputs) != b.nIn {
		return false
	}
	for i := 0; i < b.nIn; i++ {
		if b.ring == 1 {
			if i >= len(t.RCTSig.P.Ss) || !encEq(t.RCTSig.P.Ss[i], base.RCTSig.P.Ss[i]) {
				return false
			}
		} else if i >= len(t.RCTSig.P.MGs) || !encEq(t.RCTSig.P.MGs[i], base.RCTSig.P.MGs[i]) {
			return false
		}
	}
	return true
}

func runAuthShape(r *vk.Run) int {
	bases := shapeBases()
	var singles []shapeMut
	for _, c := range shapeConts {
		singles = append(singles, contMuts(c, 2)...)
	}
	singles = append(singles, inputMuts()...)
	// the same container operation on every subset (>= 2) of the containers
	type caseT struct {
		label, key string
		muts       []shapeMut
	}
	var cases []caseT
	for _, m := range singles {
		cases = append(cases, caseT{m.label, m.key(), []shapeMut{m}})
	}
	nSingles := len(cases)
	perCont := map[string][]shapeMut{}
	for _, c := range shapeConts {
		perCont[c.name] = contMuts(c, 2)
	}
	for k := range perCont["Ss"] {
		for _, sub := range [][]string{{"Ss", "MGs"}, {"Ss", "PseudoOuts"}, {"MGs", "PseudoOuts"}, {"Ss", "MGs", "PseudoOuts"}} {
			var ms []shapeMut
			var keys []string
			for _, cn := range sub {
				ms = append(ms, perCont[cn][k])
				keys = append(keys, perCont[cn][k].key())
			}
			op := strings.TrimPrefix(perCont["Ss"][k].label, "Ss ")
			cases = append(cases, caseT{strings.Join(sub, "+") + " " + op, strings.Join(keys, "&"), ms})
		}
	}
	if !r.Quick() {
		for i := range singles {
			for j := i + 1; j < len(singles); j++ {
				if singles[i].target != singles[j].target {
					cases = append(cases, caseT{singles[i].label + " & " + singles[j].label, singles[i].key() + "&" + singles[j].key(), []shapeMut{singles[i], singles[j]}})
				}
			}
		}
	}
	var total, accepted, refused, ineffective, panics, acceptedAuthorised int64
	var bad sync.Map // single class already known to admit an unauthorised spend
	perBase := map[string][2]int64{}
	var pbMu sync.Mutex
	for _, b := range bases {
		b := b
		base := mustDecodeUTXO(b.wire)
		// identity / control
		cerr := mustDecodeUTXO(b.wire).CheckBasic(theCensor)
		atomic.AddInt64(&total, 1)
		switch {
		case b.honest && cerr != nil:
			r.Violation("owner-cannot-spend", fmt.Sprintf("%s: the untouched honest spend is refused: %v", b.name, cerr), replay{"base": b.name, "wire": hexb(b.wire)})
		case !b.honest && cerr == nil:
			r.Violation("unauthorised-accepted:conf:forged-signature", fmt.Sprintf("%s: CheckBasic accepts the spend", b.name), replay{"base": b.name, "wire": hexb(b.wire)})
		}
		var acc, ref int64
		work := func(n int) {
			if r.Expired() {
				return
			}
			cs := cases[n]
			m := mustDecodeUTXO(b.wire)
			for _, mu := range cs.muts {
				ok := false
				if p, _ := vk.Catch(func() { ok = mu.apply(m, b) }); p || !ok {
					return
				}
			}
			wire, err := encodeUTXO(m)
			if err != nil || bytes.Equal(wire, b.wire) {
				atomic.AddInt64(&ineffective, 1)
				return
			}
			atomic.AddInt64(&total, 1)
			atomic.AddInt64(&distinctTx, 1)
			t, err := decodeUTXO(wire)
			if err != nil {
				atomic.AddInt64(&ref, 1)
				return
			}
			var cerr error
			if p, v := vk.Catch(func() { cerr = t.CheckBasic(theCensor) }); p {
				cerr = fmt.Errorf("panic: %v", v)
				atomic.AddInt64(&panics, 1)
			}
			if cerr != nil {
				atomic.AddInt64(&ref, 1)
				return
			}
			atomic.AddInt64(&acc, 1)
			ref2, _ := decodeUTXO(wire)
			if authorised(b, base, ref2) {
				atomic.AddInt64(&acceptedAuthorised, 1)
				return
			}
			key := cs.key
			if n < nSingles {
				bad.Store(key, true)
			} else {
				// a combination is reported under the single classes that are already known to be enough
				var known []string
				for _, k := range strings.Split(cs.key, "&") {
					if _, ok := bad.Load(k); ok {
						known = append(known, k)
					}
				}
				if len(known) > 0 {
					sort.Strings(known)
					key = known[0]
				}
			}
			why := "an input was not signed with its owner's key"
			if b.honest {
				why = "the accepted transaction is not the one the owners signed (changed message, or an input without its own signature in its slot)"
			}
			r.Violation("unauthorised-accepted:conf:"+key, fmt.Sprintf("%s, %s: CheckBasic accepts the transaction (%d inputs, %d ring signatures, %d MLSAGs, %d pseudo outputs, ring size %d): %s",
				b.name, cs.label, len(t.Inputs), len(t.RCTSig.P.Ss), len(t.RCTSig.P.MGs), len(t.RCTSig.P.PseudoOuts), b.ring, why),
				replay{"base": b.name, "mutation": cs.label, "base_wire": hexb(b.wire), "case_wire": hexb(wire)})
		}
		vk.ParallelFor(nSingles, work)
		vk.ParallelFor(len(cases)-nSingles, func(n int) { work(nSingles + n) })
		atomic.AddInt64(&accepted, acc)
		atomic.AddInt64(&refused, ref)
		pbMu.Lock()
		perBase[b.name] = [2]int64{acc, ref}
		pbMu.Unlock()
	}
	if r.Expired() {
		r.Capped("authorisation-shape enumeration hit the deadline")
	}
	honest, forged := 0, 0
	for _, b := range bases {
		if b.honest {
			honest++
		} else {
			forged++
		}
	}
	r.Set("authorisation_shape", map[string]interface{}{"honest_bases": honest, "foreign_input_bases": forged, "mutations_per_base": len(cases), "cases": total, "accepted": accepted,
		"accepted_and_authorised": acceptedAuthorised, "refused": refused, "ineffective_mutations_skipped": ineffective, "verifier_panics_counted_as_refusal": panics, "accepted_refused_per_base": perBase})
	fmt.Printf("conf shape bases=%d(honest %d, foreign-input %d) mutations/base=%d cases=%d accepted=%d (authorised %d) refused=%d panics=%d\n", len(bases), honest, forged, len(cases), total, accepted, acceptedAuthorised, refused, panics)
	if panics > 0 {
		r.Note("authorisation shape: %d mutated transactions make CheckBasic panic (counted as refusals here; a panic on a hostile transaction is another property's concern)", panics)
	}
	if refused == 0 || forged == 0 {
		vk.Fatalf("authorisation-shape enumeration is vacuous (refused=%d, foreign-input bases=%d)", refused, forged)
	}
	_ = big.NewInt
	return int(total)
}
