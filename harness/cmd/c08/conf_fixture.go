package main

// Confidential fixture: 3 wallets x 3 sub-addresses (plus an outsider wallet), funding transactions built with
// the repository's own constructors on the real-curve crypto stand-in, a chain-side output store, and the
// wallet-side scan (what wallet.LinkAccount.processNewTransaction does, without its database). Each base
// transaction is built ONCE; every later use decodes a fresh copy from its wire bytes.

import (
	"fmt"
	"math/big"

	"verif/vk"

	"github.com/lianxiangcloud/linkchain/libs/common"
	"github.com/lianxiangcloud/linkchain/libs/crypto"
	"github.com/lianxiangcloud/linkchain/libs/cryptonote/ringct"
	lk "github.com/lianxiangcloud/linkchain/libs/cryptonote/types"
	"github.com/lianxiangcloud/linkchain/libs/cryptonote/xcrypto"
	"github.com/lianxiangcloud/linkchain/types"
	"github.com/lianxiangcloud/linkchain/wallet/wallet"
)

const nWallets, nSubs = 3, 3

type dest struct{ w, j int } // wallet, sub-address index (0 = main address)

func (d dest) String() string { return fmt.Sprintf("(W%d,%d)", d.w, d.j) }

var (
	wallets  [nWallets]*wallet.AccountBase
	outsider *wallet.AccountBase
)

func mkWallet(seed string) *wallet.AccountBase {
	var rk lk.SecretKey
	copy(rk[:], crypto.Keccak256([]byte(seed)))
	acc, err := wallet.RecoveryKeyToAccount(rk)
	if err != nil {
		vk.Fatalf("wallet %s: %v", seed, err)
	}
	if err := acc.CreateSubAccountN(nSubs); err != nil {
		vk.Fatalf("wallet %s: %v", seed, err)
	}
	if len(acc.Keys) != nSubs || len(acc.KeyIndex) != nSubs {
		vk.Fatalf("wallet %s: %d keys, %d indexed", seed, len(acc.Keys), len(acc.KeyIndex))
	}
	return acc
}

func addrOf(d dest) lk.AccountAddress { return wallets[d.w].Keys[d.j].Addr }

// restricted: the key index of wallet w narrowed to sub-address j only.
func restricted(acc *wallet.AccountBase, j int) map[lk.PublicKey]uint64 {
	return map[lk.PublicKey]uint64{acc.Keys[j].Addr.SpendPublicKey: uint64(j)}
}

// ---- outputs known to the fixture --------------------------------------------------------------------------

type fixOut struct {
	txName   string
	wire     []byte // the transaction carrying the output
	k        int    // index among the UTXO outputs of that transaction
	to       dest
	amount   *big.Int
	token    common.Address
	global   uint64
	otaddr   lk.Key
	owned    *owned // what the destination wallet's scan returned
	viaAddKs bool
}

type owned struct {
	Global   uint64
	RKey     lk.PublicKey
	OutIndex uint64
	Amount   *big.Int
	Mask     lk.Key
	SubIdx   uint64
	KeyImage lk.Key
	SKey     lk.SecretKey
}

var fixOuts []*fixOut

// scanOne: does the key set (keys, keyIndex) recognise UTXO output k of tx, and what does it decode?
// Mirrors wallet.LinkAccount.processNewTransaction (derivations from RKey and every AddKeys entry,
// types.IsOutputBelongToAccount, DeriveSecretKey (+ sub-address secret), key image, EcdhDecode).
type scanRes struct {
	recognised bool
	own        owned
	opens      bool // the decoded (mask, amount) opens the output commitment
}

func utxoOutputs(tx *types.UTXOTransaction) []*types.UTXOOutput {
	var o []*types.UTXOOutput
	for _, x := range tx.Outputs {
		if u, ok := x.(*types.UTXOOutput); ok {
			o = append(o, u)
		}
	}
	return o
}

func rkeysOf(tx *types.UTXOTransaction) []lk.PublicKey {
	return append([]lk.PublicKey{tx.RKey}, tx.AddKeys...)
}

func rateOf(token common.Address) *big.Int {
	rate, err := types.GetUtxoCommitmentChangeRate(token)
	if err != nil {
		vk.Fatalf("rate: %v", err)
	}
	return big.NewInt(rate)
}

func scanOne(keys *lk.AccountKey, keyIndex map[lk.PublicKey]uint64, tx *types.UTXOTransaction, k int) scanRes {
	ro := utxoOutputs(tx)[k]
	var ders []lk.KeyDerivation
	back := map[lk.KeyDerivation]lk.PublicKey{}
	for _, rk := range rkeysOf(tx) {
		d, err := xcrypto.GenerateKeyDerivation(rk, keys.ViewSKey)
		if err != nil {
			continue
		}
		ders = append(ders, d)
		if _, dup := back[d]; !dup {
			back[d] = rk
		}
	}
	der, subIdx, err := types.IsOutputBelongToAccount(keys, keyIndex, ro.OTAddr, ders, uint64(k))
	if err != nil {
		return scanRes{}
	}
	res := scanRes{recognised: true}
	sk, err := xcrypto.DeriveSecretKey(der, k, keys.SpendSKey)
	if err != nil {
		vk.Fatalf("DeriveSecretKey: %v", err)
	}
	if subIdx > 0 {
		sk = xcrypto.SecretAdd(sk, xcrypto.GetSubaddressSecretKey(keys.ViewSKey, uint32(subIdx)))
	}
	ki, err := xcrypto.GenerateKeyImage(lk.PublicKey(ro.OTAddr), sk)
	if err != nil {
		vk.Fatalf("GenerateKeyImage: %v", err)
	}
	mask, amount, opens := decodeWith(der, tx, k)
	res.opens = opens
	res.own = owned{RKey: back[der], OutIndex: uint64(k), Amount: new(big.Int).Mul(types.Hash2BigInt(amount), rateOf(tx.TokenID)), Mask: mask, SubIdx: subIdx, KeyImage: lk.Key(ki), SKey: sk}
	return res
}

// decodeWith: ECDH-decode output k with the given derivation; opens = decoded values open the commitment.
func decodeWith(der lk.KeyDerivation, tx *types.UTXOTransaction, k int) (mask, amount lk.Key, opens bool) {
	ecdh := &lk.EcdhTuple{Mask: tx.RCTSig.EcdhInfo[k].Mask, Amount: tx.RCTSig.EcdhInfo[k].Amount}
	scalar, err := xcrypto.DerivationToScalar(der, k)
	if err != nil {
		return
	}
	if !xcrypto.EcdhDecode(ecdh, lk.Key(scalar), false) {
		return
	}
	c, err := ringct.AddKeys2(ecdh.Mask, ecdh.Amount, ringct.H)
	if err != nil {
		return ecdh.Mask, ecdh.Amount, false
	}
	return ecdh.Mask, ecdh.Amount, c == tx.RCTSig.OutPk[k].Mask
}

// ---- building ---------------------------------------------------------------------------------------------

func lkcFee(total *big.Int) *big.Int {
	return new(big.Int).Mul(bi(types.ParGasPrice), new(big.Int).SetUint64(types.CalNewAmountGas(total, types.EverLiankeFee)))
}

var utxoFee = new(big.Int).Mul(bi(types.ParGasPrice), new(big.Int).SetUint64(theCensor.GetUTXOGas()))

// buildAin: account A -> confidential outputs. Returns the UNSIGNED transaction's wire bytes.
func buildAin(token common.Address, nonce uint64, dests []dest, amounts []*big.Int, extra []byte) []byte {
	var de []types.DestEntry
	total := new(big.Int)
	for i, d := range dests {
		de = append(de, &types.UTXODestEntry{Addr: addrOf(d), Amount: amounts[i], IsSubaddress: d.j > 0, Remark: [32]byte{byte(i + 1), 0xc0, 0x08}})
		total.Add(total, amounts[i])
	}
	var tx *types.UTXOTransaction
	var err error
	if common.IsLKC(token) {
		src := &types.AccountSourceEntry{From: addrA, Nonce: nonce, Amount: new(big.Int).Add(total, lkcFee(total))}
		tx, _, err = types.NewAinTransaction(src, de, token, extra)
	} else {
		src := &types.AccountSourceEntry{From: addrA, Nonce: nonce, Amount: total}
		tx, _, err = types.NewAinTokenTransaction(src, de, token, lkcFee(new(big.Int)), extra)
	}
	if err != nil {
		vk.Fatalf("fixture: NewAin(Token)Transaction: %v", err)
	}
	return mustEncode(tx)
}

func signA(unsignedWire []byte) []byte {
	tx := mustDecodeUTXO(unsignedWire)
	if err := tx.Sign(types.GlobalSTDSigner, keyA); err != nil {
		vk.Fatalf("fixture: sign: %v", err)
	}
	return mustEncode(tx)
}

// commit: the transaction is accepted by the real CheckBasic, its outputs enter the chain store and are
// scanned by their destination wallets.
func commit(name string, wire []byte, dests []dest, amounts []*big.Int) []*fixOut {
	tx := mustDecodeUTXO(wire)
	if err := tx.CheckBasic(theCensor); err != nil {
		vk.Fatalf("fixture: %s fails CheckBasic: %v", name, err)
	}
	first := theStore.add(tx.TokenID, tx.GetOutputData(1))
	var res []*fixOut
	for k, u := range utxoOutputs(tx) {
		fo := &fixOut{txName: name, wire: wire, k: k, to: dests[k], amount: amounts[k], token: tx.TokenID, global: first + uint64(k), otaddr: u.OTAddr}
		acc := wallets[dests[k].w]
		sr := scanOne(acc.GetKeys(), acc.KeyIndex, mustDecodeUTXO(wire), k)
		if !sr.recognised || !sr.opens || sr.own.Amount.Cmp(amounts[k]) != 0 || sr.own.SubIdx != uint64(dests[k].j) {
			// this IS the property (recognition / decoding by the destination): report it and stop, the rest of the
			// fixture cannot be built on an output its owner does not see correctly
			theRun.Violation("fixture:destination-does-not-recognise-or-decode-its-output", fmt.Sprintf("%s output %d sent to %v: the destination wallet's scan yields recognised=%v sub-address=%d amount=%v opens-commitment=%v (sent %v)",
				name, k, dests[k], sr.recognised, sr.own.SubIdx, sr.own.Amount, sr.opens, amounts[k]), replay{"tx": name, "output": k, "destination": dests[k].String(), "wire": hexb(wire)})
			theRun.Capped("fixture could not be completed")
			theRun.Set("states", 1)
			theRun.Set("transitions", 1)
			theRun.Set("traces_validated_against_impl", 1)
			theRun.Finish()
		}
		o := sr.own
		o.Global = fo.global
		fo.owned = &o
		fo.viaAddKs = o.RKey != tx.RKey
		res = append(res, fo)
	}
	fixOuts = append(fixOuts, res...)
	return res
}

var (
	ainLKCUnsigned, ainTokUnsigned []byte // small account-input bases of the account side
	fundF1, fundF2, fundF3         []*fixOut
)

func allDests() []dest {
	var d []dest
	for w := 0; w < nWallets; w++ {
		for j := 0; j < nSubs; j++ {
			d = append(d, dest{w, j})
		}
	}
	return d
}

var theRun *vk.Run

func initConfidentialFixture(r *vk.Run) {
	theRun = r
	xcrypto.VerifSetSeed(8)
	types.RegisterUTXORateGetter(types.NewUTXOChangeRateGetter(func(common.Address) (int64, error) { return types.UTXO_COMMITMENT_CHANGE_RATE, nil }))
	for w := range wallets {
		wallets[w] = mkWallet(fmt.Sprintf("c08-wallet-%d", w))
	}
	outsider = mkWallet("c08-outsider")

	// F1: one output per (wallet, sub-address), in order; F2: the same nine destinations in a rotated order
	// (every destination sits at another output index); F3: token outputs.
	ds := allDests()
	var a1, a2 []*big.Int
	var d2 []dest
	for p := range ds {
		a1 = append(a1, e18(int64(1+p)))
		d2 = append(d2, ds[(p*4+5)%len(ds)])
		a2 = append(a2, e18(int64(10+p)))
	}
	w1 := signA(buildAin(common.EmptyAddress, 0, ds, a1, nil))
	fundF1 = commit("F1", w1, ds, a1)
	w2 := signA(buildAin(common.EmptyAddress, 1, d2, a2, []byte("f2")))
	fundF2 = commit("F2", w2, d2, a2)
	d3 := []dest{{0, 0}, {1, 1}, {2, 2}, {0, 1}}
	a3 := []*big.Int{e18(4), e18(5), e18(6), e18(7)}
	w3 := signA(buildAin(addrTok, 2, d3, a3, []byte("f3")))
	fundF3 = commit("F3", w3, d3, a3)
	otherKeyImage = [32]byte(fundF1[8].owned.KeyImage)

	// small bases for the account side (not committed to the store)
	ainLKCUnsigned = buildAin(common.EmptyAddress, 3, []dest{{0, 0}, {1, 1}}, []*big.Int{e18(3), e18(2)}, []byte("c08"))
	ainTokUnsigned = buildAin(addrTok, 4, []dest{{2, 2}}, []*big.Int{e18(2)}, []byte("c08t"))
	r.Set("fixture_outputs", len(fixOuts))
}
