package main

// Shared fixture of the C08 harness: fixed keys, the plain-Go reference of the secp256k1 signature range, a
// minimal chain side (UTXO store + TxCensor), and ONE real mempool.Mempool whose cache plays the
// "mempool twin" of every base transaction for the block path (app.verifySpecTxSign/verifyTxsOnProcess,
// reached through /verif/hooks/app/c08_hooks.go).

import (
	"crypto/ecdsa"
	"crypto/sha256"
	"fmt"
	"math/big"
	"strings"
	"sync"

	"verif/vk"

	"github.com/lianxiangcloud/linkchain/app"
	cfg "github.com/lianxiangcloud/linkchain/config"
	"github.com/lianxiangcloud/linkchain/libs/common"
	"github.com/lianxiangcloud/linkchain/libs/crypto"
	lk "github.com/lianxiangcloud/linkchain/libs/cryptonote/types"
	"github.com/lianxiangcloud/linkchain/mempool"
	"github.com/lianxiangcloud/linkchain/types"
)

// ---- reference constants (independent of the repository) ----------------------------------------

var (
	secpN, _  = new(big.Int).SetString("fffffffffffffffffffffffffffffffebaaedce6af48a03bbfd25e8cd0364141", 16)
	secpHalfN = new(big.Int).Rsh(secpN, 1)
	two64     = new(big.Int).Lsh(big.NewInt(1), 64)
)

func bi(n int64) *big.Int { return big.NewInt(n) }
func e18(n int64) *big.Int {
	return new(big.Int).Mul(big.NewInt(n), new(big.Int).Exp(big.NewInt(10), big.NewInt(18), nil))
}

// ---- keys ---------------------------------------------------------------------------------------

var (
	keyA, keyB   *ecdsa.PrivateKey // A signs every base transaction, B is "somebody else"
	addrA, addrB common.Address
	addrX        = common.HexToAddress("0x00000000000000000000000000000000000c08aa") // a recipient
	addrY        = common.HexToAddress("0x00000000000000000000000000000000000c08bb") // another one
	addrTok      = common.HexToAddress("0x00000000000000000000000000000000000c0870") // a token id
	addrTok2     = common.HexToAddress("0x0000000000000000000000000000000000c08999")
	chainC       *big.Int // this chain's parameter (types.SignParam)
)

func fixedKey(s string) *ecdsa.PrivateKey {
	k, err := crypto.ToECDSA(crypto.Keccak256([]byte(s)))
	if err != nil {
		vk.Fatalf("key %s: %v", s, err)
	}
	return k
}

func initKeys() {
	keyA, keyB = fixedKey("c08-key-A"), fixedKey("c08-key-B")
	addrA, addrB = crypto.PubkeyToAddress(keyA.PublicKey), crypto.PubkeyToAddress(keyB.PublicKey)
	chainC = new(big.Int).Set(types.SignParam)
	if !types.GlobalSTDSigner.Equal(types.MakeSTDSigner(chainC)) {
		vk.Fatalf("GlobalSTDSigner is not the signer of types.SignParam")
	}
}

// signer for chain parameter c (nil-safe copy).
func signerFor(c *big.Int) types.STDSigner { return types.MakeSTDSigner(new(big.Int).Set(c)) }

// ---- minimal chain side --------------------------------------------------------------------------

// store: global output index = position in the per-token list.
type store struct {
	mu    sync.RWMutex
	outs  map[common.Address][]*types.UTXOOutputData
	spent map[lk.Key]bool
}

func newStore() *store {
	return &store{outs: map[common.Address][]*types.UTXOOutputData{}, spent: map[lk.Key]bool{}}
}

func (s *store) add(token common.Address, o []*types.UTXOOutputData) (first uint64) {
	s.mu.Lock()
	defer s.mu.Unlock()
	first = uint64(len(s.outs[token]))
	s.outs[token] = append(s.outs[token], o...)
	return
}

func (s *store) GetUtxoOutput(token common.Address, seq uint64) (*types.UTXOOutputData, error) {
	s.mu.RLock()
	defer s.mu.RUnlock()
	l := s.outs[token]
	if seq >= uint64(len(l)) {
		return nil, fmt.Errorf("no output %d", seq)
	}
	return l[seq], nil
}

func (s *store) GetUtxoOutputs(seqs []uint64, token common.Address) ([]*types.UTXOOutputData, error) {
	var r []*types.UTXOOutputData
	for _, q := range seqs {
		o, err := s.GetUtxoOutput(token, q)
		if err != nil {
			return nil, err
		}
		r = append(r, o)
	}
	return r, nil
}

func (s *store) HaveTxKeyimgAsSpent(k *lk.Key) bool {
	s.mu.RLock()
	defer s.mu.RUnlock()
	return s.spent[*k]
}

type richState struct{}

func (richState) Exist(common.Address) bool           { return true }
func (richState) GetNonce(common.Address) uint64      { return 0 }
func (richState) SetNonce(common.Address, uint64)     {}
func (richState) GetBalance(common.Address) *big.Int  { return new(big.Int).Lsh(big.NewInt(1), 100) }
func (richState) SubBalance(common.Address, *big.Int) {}
func (richState) GetTokenBalance(a, t common.Address) *big.Int {
	return new(big.Int).Lsh(big.NewInt(1), 100)
}
func (richState) SubTokenBalance(common.Address, common.Address, *big.Int) {}
func (richState) IsContract(common.Address) bool                           { return false }

type txMgr struct{ info *types.SignersInfo }

func (m txMgr) GetMultiSignersInfo(types.SupportType) *types.SignersInfo { return m.info }

// censor: what CheckBasic needs. Signer set and validator set are those of the special-transaction fixture.
type censor struct {
	st      *store
	signers *types.SignersInfo
	vals    []*types.Validator
}

func (c *censor) TxMgr() types.TxMgr                               { return txMgr{c.signers} }
func (c *censor) State() types.State                               { return richState{} }
func (c *censor) Block() *types.Block                              { return nil }
func (c *censor) GetLastChangedVals() (uint64, []*types.Validator) { return 0, c.vals }
func (c *censor) LockState()                                       {}
func (c *censor) UnlockState()                                     {}
func (c *censor) IsWasmContract(d []byte) bool                     { return types.IsWasmContract(d) }
func (c *censor) BlockChain() types.BlockChain                     { return c }
func (c *censor) IsTxSpendTimeUnlocked(uint64) bool                { return true }
func (c *censor) UTXOStore() types.UTXOStore                       { return c.st }
func (c *censor) Mempool() types.Mempool                           { return nil }
func (c *censor) GetUTXOGas() uint64                               { return 0x7a120 }

var (
	theStore  = newStore()
	theCensor = &censor{st: theStore}
)

// ---- one real mempool: its cache is the "twin" source ---------------------------------------------

// poolApp: the mempool's application side. BasicCheck is the real CheckBasic of the transaction against
// theCensor; the state check is permissive (balances/nonces are not part of this property).
type poolApp struct{}

func (poolApp) GetNonce(common.Address) uint64     { return 0 }
func (poolApp) GetBalance(common.Address) *big.Int { return new(big.Int).Lsh(big.NewInt(1), 100) }
func (poolApp) CheckTx(tx types.Tx, basic bool) error {
	if basic {
		return tx.CheckBasic(theCensor)
	}
	return nil
}

var thePool *mempool.Mempool

func initPool() {
	c := cfg.DefaultMempoolConfig()
	c.Broadcast = false
	c.Recheck = false
	thePool = mempool.NewMempool(c, 0, nil)
	thePool.SetApp(poolApp{})
}

// poolAdd submits a FRESH decode of wire to the real mempool (AddTx: cache.Put, CheckBasic, good list).
func poolAdd(what string, tx types.Tx) {
	if err := thePool.AddTx("", tx); err != nil {
		vk.Fatalf("fixture: mempool refuses base transaction %s: %v", what, err)
	}
	if thePool.GetTxFromCache(tx.Hash()) == nil {
		vk.Fatalf("fixture: base transaction %s is not served by the mempool cache", what)
	}
}

// blockPath runs the signature part of block validation for a block holding exactly tx.
func blockPath(tx types.Tx) (specErr, procErr error) {
	return app.VerifC08BlockSigCheck(thePool, types.Txs{tx}, theCensor.signers, theCensor.vals)
}

// ---- violation bookkeeping -----------------------------------------------------------------------

type replay map[string]interface{}

func hexb(b []byte) string { return fmt.Sprintf("%x", b) }

// global injectivity of the transaction hash over everything enumerated: hash -> wire bytes
var hashOwner sync.Map

func checkHashOwner(r *vk.Run, kind string, h common.Hash, wire []byte) {
	if prev, loaded := hashOwner.LoadOrStore(h, wireDigest(wire)); loaded && prev.(string) != wireDigest(wire) {
		r.Violation("tx-hash-collision:"+strings.SplitN(strings.SplitN(kind, "/", 2)[0], "(", 2)[0], fmt.Sprintf("two different %s encodings share the transaction hash %x (the mempool twin lookup is keyed by it)", kind, h),
			replay{"kind": kind, "wireA_sha256_16": hexb([]byte(prev.(string))), "wireB": hexb(wire)})
	}
}

func wireDigest(w []byte) string {
	d := sha256.Sum256(w)
	return string(d[:16])
}
