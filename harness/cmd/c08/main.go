// C08 — only the key holder can move funds; signatures bind every transaction field.
//
// Bounded exhaustive input enumeration on the real code (types/sign.go, the transaction kinds, the mempool
// cache and the block path of app.go; the confidential half on the real-curve xcrypto stand-in):
//
//	account side       every kind with a sender: (<=2 field mutations) x r x s x v x chain parameter x sender-cache state
//	special kinds      ContractUpgradeTx (secp256k1 multi-signature) and MultiSignAccountTx (validator signatures)
//	cache derivations  Sign / WithSignature on objects whose sender or hash cache is warm
//	confidential side  3 wallets x 3 sub-addresses: recognition/decoding matrix, spends with all 27 key sets,
//	                   single mutations of every field under the ring-signature message,
//	                   structural mutations of the signature containers / input list of honest and foreign-input spends
package main

import (
	"os"
	"time"

	"verif/vk"

	"github.com/lianxiangcloud/linkchain/libs/log"
)

func main() {
	log.Root().SetHandler(log.DiscardHandler())
	r := vk.Start("C08", "exploration")
	if r.ReplayPath != "" {
		vk.Fatalf("replay: the replay file holds the wire bytes of the base and of the failing case plus the named mutation; feed case_wire to ser.DecodeBytes and call From()")
	}
	start := time.Now()
	only := os.Getenv("C08_ONLY") // development aid: run one part only
	initKeys()
	initPool()
	initConfidentialFixture(r)

	total := 0
	if only == "" || only == "account" {
		total += runAccountSide(r)
	}
	if only == "" || only == "special" {
		total += runSpecialKinds(r)
	}
	if only == "" || only == "derive" {
		total += runCacheDerivations(r)
	}
	if only == "" || only == "conf" {
		total += runConfidentialSide(r)
	}
	if only != "" {
		r.Capped("development run restricted to part " + only)
	}
	r.Set("states", total)
	r.Set("transitions", total)
	r.Set("traces_validated_against_impl", total)
	r.Set("evaluations", total)
	r.Set("distinct_nontrivial", int(distinctTx))
	r.Set("rule", "input enumeration (depth-1 explicit-state search): every case is materialised through the wire codec into a fresh real object and asked for its sender / verified by the real code; the reference is a plain-Go predicate (identical bytes and chain parameter <=> accepted with the signer's address; range of r,s,v from constants). state = one (transaction bytes, verifying chain parameter, cache state) triple; distinct_nontrivial = distinct transactions (wire encodings) materialised; outcome classes per part are listed in the part keys")
	r.Set("wall_fixture_and_run_s", time.Since(start).Seconds())
	r.Assume("hardness of secp256k1/ed25519 discrete logs and of keccak collisions; the Bulletproof range proof is an ideal functionality in the crypto stand-in (sound and complete); every other confidential primitive (key derivation, key images, ECDH, pre-MLSAG hash, MLSAG, ring signature) is real mathematics")
	r.Assume("transactions reach a node as bytes and are decoded into fresh objects; objects are not modified in place through exported fields after their sender was first asked (the repository never does); the repository's own derivation methods Sign/WithSignature ARE enumerated on warm objects")
	r.Assume("the mempool twin is served by ONE real mempool.Mempool (real AddTx, real cache); the block path is the real verifySpecTxSign/verifyTxsOnProcess on an otherwise empty LinkApplication")
	r.Finish()
}
