package main

// Account side, generic engine. A "kind" describes one signed base transaction, how to make a deep copy of
// its plain content (the carrier), the mutation set of every payload field and how to write a signature
// into the carrier. Every case is materialised THROUGH THE WIRE: carrier -> ser bytes -> the repository's
// decoder -> a fresh object (what a node holds after receiving those bytes).
//
// Enumerated space per kind:  (<=2 field mutations) x r x s x v x verifying chain parameter x sender-cache
// state. Oracle (reference model in plain Go):
//   * identical bytes and chain parameter c   -> accepted, sender = A (non-vacuity / completeness);
//   * anything else                          -> an error, or a sender different from A;
//   * r or s outside [1,N-1], s > N/2, v not one of {35+2c', 36+2c'} -> an error (v = 27/28, the unprotected
//     form, is expected to be refused as well: decision on observation O2, own violation key);
//   * the transaction hash equals the base hash iff the bytes are identical (and is injective over all cases
//     with at most one field mutation), so a mempool-cache hit is signature-exact.

import (
	"bytes"
	"crypto/ecdsa"
	"fmt"
	"math/big"
	"sort"
	"strings"
	"sync"
	"sync/atomic"

	"verif/vk"

	"github.com/lianxiangcloud/linkchain/libs/common"
	"github.com/lianxiangcloud/linkchain/libs/crypto"
	"github.com/lianxiangcloud/linkchain/types"
)

type carrier interface{}

type fieldMut struct {
	field string // mutations of the same field are not combined with each other
	label string
	apply func(c carrier) bool // false: not applicable (value would not change)
}

type acctKind struct {
	name        string
	via         string // which recover implementation the kind uses (txdata | signdata): part of signature-only keys
	unprotected bool   // base signed over the digest WITHOUT chain parameter (v = 27/28)
	base        func() carrier
	muts        []fieldMut
	setSig      func(c carrier, r, s, v *big.Int)
	encode      func(c carrier) ([]byte, error)
	decode      func(wire []byte) (types.Tx, error)
	sender      func(tx types.Tx, signer types.STDSigner) (common.Address, error)
	checkBasic  bool // base must pass CheckBasic against theCensor and go through the real mempool
	pairs       bool // enumerate pairs of field mutations as well
	heavy       bool // large decode cost and mutation set: pairs of field mutations are combined with the axis signature alphabet only
	twinOnHit   bool // block path only when the mempool cache serves the hash (a miss would need a full UTXO store inside the app object; it is the cold path)

	r0, s0, v0 *big.Int
	badField   sync.Map // field class -> true: a single mutation of it keeps the original sender
	baseWire   []byte
	baseHash   common.Hash
}

// ---- signature / chain / cache alphabets -----------------------------------------------------------

type namedInt struct {
	name string
	v    *big.Int
}

func sub(a, b *big.Int) *big.Int { return new(big.Int).Sub(a, b) }
func add(a, b *big.Int) *big.Int { return new(big.Int).Add(a, b) }

func (k *acctKind) rSet() []namedInt {
	return []namedInt{{"r0", k.r0}, {"0", bi(0)}, {"1", bi(1)}, {"N-1", sub(secpN, bi(1))}, {"N", secpN}, {"N+1", add(secpN, bi(1))}, {"N-r0", sub(secpN, k.r0)}}
}

func (k *acctKind) sSet() []namedInt {
	return []namedInt{{"s0", k.s0}, {"0", bi(0)}, {"1", bi(1)}, {"N-1", sub(secpN, bi(1))}, {"N", secpN}, {"N+1", add(secpN, bi(1))}, {"N-s0", sub(secpN, k.s0)}}
}

func vProt(c *big.Int, rec int64) *big.Int {
	return add(add(new(big.Int).Mul(c, bi(2)), bi(35)), bi(rec))
}

func (k *acctKind) vSet() []namedInt {
	c1 := add(chainC, bi(1))
	flip := new(big.Int)
	if k.unprotected {
		flip.SetInt64(27 + 28 - k.v0.Int64())
	} else {
		rec := sub(k.v0, vProt(chainC, 0)).Int64()
		flip = vProt(chainC, 1-rec)
	}
	out := []namedInt{{"v0", k.v0}, {"flip", flip}, {"0", bi(0)}, {"1", bi(1)}, {"26", bi(26)}, {"27", bi(27)}, {"28", bi(28)}, {"29", bi(29)},
		{"35+2c", vProt(chainC, 0)}, {"36+2c", vProt(chainC, 1)}, {"37+2c", vProt(chainC, 2)}, {"35+2(c+1)", vProt(c1, 0)}, {"36+2(c+1)", vProt(c1, 1)},
		{"v0+2^8", add(k.v0, bi(256))}, {"v0+2^64", add(k.v0, two64)},
		// v - 2c - 8 = -27 / -28: the subtraction in recover() goes negative and big.Int.Uint64() returns the magnitude
		{"2c+8-27", sub(add(new(big.Int).Mul(chainC, bi(2)), bi(8)), bi(27))}, {"2c+8-28", sub(add(new(big.Int).Mul(chainC, bi(2)), bi(8)), bi(28))}}
	// drop later duplicates of v0/flip (the named forms stay in front)
	var res []namedInt
	seen := map[string]bool{}
	for _, x := range out {
		if seen[x.v.String()] {
			continue
		}
		seen[x.v.String()] = true
		res = append(res, x)
	}
	return res
}

type chainAlt struct {
	name string
	c    *big.Int
}

func chainSet() []chainAlt {
	return []chainAlt{{"c", chainC}, {"c+1", add(chainC, bi(1))}, {"0", bi(0)}}
}

const (
	cacheCold = iota // fresh object, first question
	cacheWarm        // From() under this chain's signer answered first, then the question
	cacheTwin        // block path first (mempool twin lookup + StoreFrom), then the question
	nCache
)

var cacheName = [nCache]string{"cold", "warmed-before", "mempool-twin"}

// ---- reference: is (r,s,v) inside the range the chain may accept under verifying parameter c'? ------

func refSigRange(r, s, v, c *big.Int) (ok bool, why string) {
	switch {
	case r.Sign() <= 0:
		return false, "r<1"
	case r.Cmp(secpN) >= 0:
		return false, "r>=N"
	case s.Sign() <= 0:
		return false, "s<1"
	case s.Cmp(secpN) >= 0:
		return false, "s>=N"
	case s.Cmp(secpHalfN) > 0:
		return false, "s>N/2(malleable)"
	}
	if v.Cmp(bi(27)) == 0 || v.Cmp(bi(28)) == 0 {
		return false, "v=27/28(unprotected)"
	}
	if v.Cmp(vProt(c, 0)) != 0 && v.Cmp(vProt(c, 1)) != 0 {
		return false, "v-not-for-this-chain"
	}
	return true, ""
}

const keyO2 = "chain-not-bound:unprotected-v27/28-signature-accepted-by-STDEIP155Signer"

// ---- field-combination enumeration ----------------------------------------------------------------

type combo []int // indices into kind.muts (0, 1 or 2 entries, distinct fields)

func (k *acctKind) combos(maxPair bool) []combo {
	out := []combo{{}}
	for i := range k.muts {
		out = append(out, combo{i})
	}
	if maxPair {
		for i := range k.muts {
			for j := i + 1; j < len(k.muts); j++ {
				if k.muts[i].field != k.muts[j].field {
					out = append(out, combo{i, j})
				}
			}
		}
	}
	return out
}

func (k *acctKind) comboName(cb combo) string {
	var s []string
	for _, i := range cb {
		s = append(s, k.muts[i].field+"/"+k.muts[i].label)
	}
	return strings.Join(s, " & ")
}

func (k *acctKind) comboFields(cb combo) string {
	var s []string
	for _, i := range cb {
		s = append(s, k.muts[i].field)
	}
	sort.Strings(s)
	return strings.Join(s, "+")
}

// ---- preparation -----------------------------------------------------------------------------------

func (k *acctKind) prepare(r *vk.Run) {
	tx, wire, err := k.build(k.base())
	if err != nil {
		vk.Fatalf("%s: base does not survive the wire: %v", k.name, err)
	}
	k.baseWire, k.baseHash = wire, tx.Hash()
	from, err := k.senderOf(tx, types.GlobalSTDSigner)
	if k.unprotected {
		from, err = k.sender(tx, types.STDHomesteadSigner{})
	}
	if err != nil || from != addrA {
		vk.Fatalf("%s: base sender = %x, %v; want A", k.name, from, err)
	}
	if k.checkBasic {
		fresh, _, _ := k.build(k.base())
		if err := fresh.CheckBasic(theCensor); err != nil {
			vk.Fatalf("%s: base transaction fails CheckBasic: %v", k.name, err)
		}
		twin, _, _ := k.build(k.base())
		poolAdd(k.name, twin)
	}
	// mutation set must be effective and distinct
	seen := map[string]string{string(wire): "base"}
	var usable []fieldMut
	for _, m := range k.muts {
		if safeApply(m, k.base()) {
			usable = append(usable, m) // e.g. "zero" of a field that is zero in this base is dropped
		}
	}
	k.muts = usable
	for i, m := range k.muts {
		c := k.base()
		safeApply(m, c)
		_, w, err := k.build(c)
		if err != nil {
			continue // not encodable / not decodable: rejected at the wire, still a case
		}
		if p, dup := seen[string(w)]; dup {
			vk.Fatalf("%s: mutation #%d %s/%s yields the same bytes as %s", k.name, i, m.field, m.label, p)
		}
		seen[string(w)] = m.field + "/" + m.label
	}
}

// ---- one case ----------------------------------------------------------------------------------------

// distinctTx counts the distinct transactions (wire encodings) materialised by all parts of the check.
var distinctTx int64

type acctStats struct {
	cases, accepted, acceptedA, rejected, rejectedWire, otherSender int64
}

func (k *acctKind) build(c carrier) (types.Tx, []byte, error) {
	wire, err := k.encode(c)
	if err != nil {
		return nil, nil, err
	}
	tx, err := k.decode(wire)
	return tx, wire, err
}

// senderOf: the chain's own question (From) for this chain's parameter, Sender(signer) otherwise.
func (k *acctKind) senderOf(tx types.Tx, signer types.STDSigner) (common.Address, error) {
	if signer.Equal(types.GlobalSTDSigner) {
		return tx.From()
	}
	return k.sender(tx, signer)
}

func (a *acctStats) add(b *acctStats) {
	atomic.AddInt64(&a.cases, b.cases)
	atomic.AddInt64(&a.accepted, b.accepted)
	atomic.AddInt64(&a.acceptedA, b.acceptedA)
	atomic.AddInt64(&a.rejected, b.rejected)
	atomic.AddInt64(&a.rejectedWire, b.rejectedWire)
	atomic.AddInt64(&a.otherSender, b.otherSender)
}

type sigAlt struct{ r, s, v namedInt }

func (k *acctKind) sigName(sg sigAlt) string {
	var d []string
	if sg.r.name != "r0" {
		d = append(d, "r="+sg.r.name)
	}
	if sg.s.name != "s0" {
		d = append(d, "s="+sg.s.name)
	}
	if sg.v.name != "v0" {
		d = append(d, "v="+sg.v.name)
	}
	return strings.Join(d, ",")
}

// evalSig evaluates one (field combination, signature) under every chain parameter and cache state.
func (k *acctKind) evalSig(r *vk.Run, cb combo, sg sigAlt, hashMap bool, st *acctStats) {
	c := k.base()
	for _, i := range cb {
		if !safeApply(k.muts[i], c) {
			return // second mutation became a no-op after the first one
		}
	}
	k.setSig(c, sg.r.v, sg.s.v, sg.v.v)
	chains := chainSet()
	wire, err := k.encode(c)
	var tx0 types.Tx
	if err == nil {
		tx0, err = k.decode(wire)
	}
	if err != nil {
		st.cases += int64(len(chains) * nCache)
		st.rejectedWire += int64(len(chains) * nCache)
		return
	}
	same := bytes.Equal(wire, k.baseWire)
	atomic.AddInt64(&distinctTx, 1)
	h := tx0.Hash()
	hashInexact := (h == k.baseHash) != same
	if hashInexact {
		cls := k.rootKind() + ":signature"
		if len(cb) > 0 {
			cls = k.rootKind() + ":field=" + k.blameFields(cb)
		}
		r.Violation("tx-hash-not-exact:"+cls, fmt.Sprintf("%s: transaction hash equal to the base hash=%v but bytes identical=%v (fields: %s; signature: %s)", k.name, h == k.baseHash, same, k.comboName(cb), k.sigName(sg)),
			k.replayOf(cb, sg, "", "", wire))
	}
	if hashMap {
		checkHashOwner(r, k.name, h, wire)
	}
	cached := !k.twinOnHit || thePool.GetTxFromCache(h) != nil
	for _, ch := range chains {
		signer := signerFor(ch.c)
		inRange, why := refSigRange(sg.r.v, sg.s.v, sg.v.v, ch.c)
		valid := same && ch.name == "c" && !k.unprotected
		coldBad := false
		for cs := 0; cs < nCache; cs++ {
			tx := tx0
			tx0 = nil
			if tx == nil {
				if tx, err = k.decode(wire); err != nil {
					vk.Fatalf("%s: second decode of the same bytes fails: %v", k.name, err)
				}
			}
			var procErr error
			ranBlock := false
			switch cs {
			case cacheWarm:
				tx.From()
			case cacheTwin:
				if cached {
					_, procErr = blockPath(tx)
					ranBlock = true
				}
			}
			from, err := k.senderOf(tx, signer)
			st.cases++
			switch {
			case err != nil:
				st.rejected++
			case from == addrA:
				st.accepted++
				st.acceptedA++
			default:
				st.accepted++
				st.otherSender++
			}
			if ranBlock && ch.name == "c" && procErr == nil && err != nil {
				r.Violation("block-accepted-without-sender:"+k.name, fmt.Sprintf("%s: verifyTxsOnProcess accepts the transaction but From() fails with %v", k.name, err), k.replayOf(cb, sg, ch.name, cacheName[cs], wire))
			}
			if cs == cacheCold && ch.name == "c" && err == nil {
				if m, ok := tx.(types.IMessage); ok {
					if msg, merr := m.AsMessage(); merr == nil && msg.MsgFrom() != from {
						r.Violation("charged-sender-differs-from-signer:"+k.name, fmt.Sprintf("%s: AsMessage().MsgFrom()=%x but From()=%x", k.name, msg.MsgFrom(), from), k.replayOf(cb, sg, ch.name, cacheName[cs], wire))
					}
				}
			}
			if valid {
				if err != nil || from != addrA {
					r.Violation("genuine-transaction-refused:"+k.name+":"+cacheName[cs], fmt.Sprintf("%s: the untouched signed transaction yields sender %x, err %v (cache state %s)", k.name, from, err, cacheName[cs]),
						k.replayOf(cb, sg, ch.name, cacheName[cs], wire))
				}
				continue
			}
			bad, key, what := false, "", ""
			switch {
			case err == nil && from == addrA && k.unprotected && same:
				bad, key = true, keyO2
				what = fmt.Sprintf("%s signed by A over the digest WITHOUT chain parameter (v=%v) is accepted with sender A under chain parameter %s=%v", k.name, sg.v.v, ch.name, ch.c)
			case err == nil && from == addrA:
				bad, key = true, "original-sender-accepted:"+k.devClass(cb, sg, ch.name)
				what = fmt.Sprintf("%s: still charged to A although changed after signing: fields [%s] signature [%s] verifying chain parameter %s", k.name, k.comboName(cb), k.sigName(sg), ch.name)
			case err == nil && !inRange && why == "v=27/28(unprotected)":
				bad, key = true, keyO2
				what = fmt.Sprintf("%s with v=%v (no chain parameter in the signed digest) is accepted (sender %x) under chain parameter %s", k.name, sg.v.v, from, ch.name)
			case err == nil && !inRange:
				bad, key = true, "signature-out-of-range-accepted:"+k.via+":"+why
				what = fmt.Sprintf("%s: signature values outside the accepted range (%s) yield sender %x instead of an error: signature [%s], chain parameter %s", k.name, why, from, k.sigName(sg), ch.name)
			}
			if !bad {
				continue
			}
			if cs == cacheCold {
				coldBad = true
				if len(cb) == 1 && from == addrA {
					k.badField.Store(indexRe.ReplaceAllString(k.muts[cb[0]].field, "[]"), true)
				}
			} else if coldBad {
				continue // same defect already reported for the cold object
			} else if key != keyO2 {
				// a cold object behaves correctly: the memoised / pre-filled sender is the cause
				switch {
				case cs == cacheTwin && hashInexact:
					key = "stale-sender-cache:mempool-twin-served-for-changed-transaction:" + k.rootKind()
				case ch.name != "c":
					key = "stale-sender-cache:survives-other-chain-parameter:" + k.via
				default:
					key = "stale-sender-cache:" + cacheName[cs] + ":" + k.via
				}
				what += " (cache state " + cacheName[cs] + "; a cold object behaves correctly)"
			}
			r.Violation(key, what, k.replayOf(cb, sg, ch.name, cacheName[cs], wire))
		}
	}
}

// rootKind: the transaction type without the base variant ("Transaction(creation)", "Transaction/unprotected"
// and "Transaction" share their signFields / recover implementation).
func (k *acctKind) rootKind() string {
	n := k.name
	if i := strings.IndexAny(n, "(/"); i >= 0 {
		n = n[:i]
	}
	return n
}

// blameFields: the fields of the combination that are known to break the property on their own (single-mutation
// cases run first); all fields of the combination if none is.
func (k *acctKind) blameFields(cb combo) string {
	var all, bad []string
	for _, i := range cb {
		f := indexRe.ReplaceAllString(k.muts[i].field, "[]")
		all = append(all, f)
		if _, ok := k.badField.Load(f); ok {
			bad = append(bad, f)
		}
	}
	sort.Strings(all)
	sort.Strings(bad)
	if len(bad) > 0 {
		return bad[0]
	}
	return strings.Join(all, "+")
}

// devClass: canonical class of what deviates from the signed base (root-cause oriented, no values). A changed
// field names the type and the field; a pure signature / chain-parameter deviation names the recover
// implementation and the deviating components.
func (k *acctKind) devClass(cb combo, sg sigAlt, chain string) string {
	if len(cb) > 0 {
		return k.rootKind() + ":field=" + k.blameFields(cb)
	}
	d := []string{k.via}
	if s := k.sigName(sg); s != "" {
		d = append(d, "sig["+s+"]")
	}
	if chain != "" && chain != "c" {
		d = append(d, "chain="+chain)
	}
	if k.unprotected {
		d = append(d, "unprotected-base")
	}
	return strings.Join(d, ":")
}

func (k *acctKind) replayOf(cb combo, sg sigAlt, chain, cache string, wire []byte) replay {
	return replay{"kind": k.name, "base_wire": hexb(k.baseWire), "field_mutations": k.comboName(cb), "r": sg.r.name + "=" + sg.r.v.Text(16), "s": sg.s.name + "=" + sg.s.v.Text(16),
		"v": sg.v.name + "=" + sg.v.v.String(), "verifying_chain_parameter": chain, "cache_state": cache, "case_wire": hexb(wire), "signer_A": addrA.Hex()}
}

// ---- run one kind ---------------------------------------------------------------------------------------

type kindReport struct {
	Kind                string `json:"kind"`
	FieldMutations      int    `json:"field_mutations"`
	FieldCombos         int    `json:"field_combinations"`
	SigAlternatives     int    `json:"signature_alternatives"`
	Cases               int64  `json:"cases"`
	AcceptedAsA         int64  `json:"accepted_with_original_sender"`
	AcceptedOtherSender int64  `json:"accepted_with_other_sender"`
	Rejected            int64  `json:"rejected"`
	RejectedAtWire      int64  `json:"rejected_at_decode"`
	Complete            bool   `json:"complete"`
}

// run enumerates the kind. Signature alphabets: full = r x s x v; axis = at most one of r, s, v deviates, plus
// the malleable twin (N-s0 with flipped v) and its halves; few = {untouched, twin, flipped v}.
//
//	quick:    no field mutation x full, one field mutation x axis, two field mutations x few
//	          (= every single and every pairwise deviation over the dimensions field, field, r, s, v)
//	thorough: (<=1 field mutation) x full, two field mutations x full (light kinds) or x axis (kinds marked heavy)
func (k *acctKind) run(r *vk.Run, quick bool) kindReport {
	rs, ss, vs := k.rSet(), k.sSet(), k.vSet()
	var full, axis []sigAlt
	for _, a := range rs {
		for _, b := range ss {
			for _, c := range vs {
				sg := sigAlt{a, b, c}
				full = append(full, sg)
				dev := 0
				if a.name != "r0" {
					dev++
				}
				if b.name != "s0" {
					dev++
				}
				if c.name != "v0" {
					dev++
				}
				if dev <= 1 || (a.name == "r0" && b.name == "N-s0" && c.name == "flip") {
					axis = append(axis, sg)
				}
			}
		}
	}
	few := []sigAlt{{rs[0], ss[0], vs[0]}, {rs[0], ss[6], vs[1]}, {rs[0], ss[0], vs[1]}}
	combos := k.combos(k.pairs)
	var total acctStats
	var done int64
	// combos are ordered by size: sizes 0 and 1 run to completion before the pairs (blameFields)
	nSmall := 0
	for _, cb := range combos {
		if len(cb) <= 1 {
			nSmall++
		}
	}
	work := func(i int) {
		if r.Expired() {
			return
		}
		cb := combos[i]
		var set []sigAlt
		switch {
		case quick && len(cb) == 0, !quick && len(cb) <= 1, !quick && !k.heavy:
			set = full
		case quick && len(cb) == 1, !quick:
			set = axis
		default:
			set = few
		}
		var st acctStats
		for _, sg := range set {
			k.evalSig(r, cb, sg, len(cb) <= 1, &st)
		}
		total.add(&st)
		atomic.AddInt64(&done, 1)
	}
	vk.ParallelFor(nSmall, work)
	vk.ParallelFor(len(combos)-nSmall, func(i int) { work(nSmall + i) })
	rep := kindReport{Kind: k.name, FieldMutations: len(k.muts), FieldCombos: len(combos), SigAlternatives: len(full), Cases: total.cases, AcceptedAsA: total.acceptedA,
		AcceptedOtherSender: total.otherSender, Rejected: total.rejected, RejectedAtWire: total.rejectedWire, Complete: int(done) == len(combos)}
	return rep
}

// ---- signing helpers ---------------------------------------------------------------------------------------

// signDigest signs a 32-byte digest with key and returns (r, s, recovery id).
func signDigest(h common.Hash, key *ecdsa.PrivateKey) (*big.Int, *big.Int, int64) {
	sig, err := crypto.Sign(h[:], key)
	if err != nil {
		vk.Fatalf("sign: %v", err)
	}
	return new(big.Int).SetBytes(sig[:32]), new(big.Int).SetBytes(sig[32:64]), int64(sig[64])
}
