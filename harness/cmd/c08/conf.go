package main

// Confidential side.
//   recognition   every fixture output x every wallet (3 + outsider) x key index {all sub-addresses, each single
//                 sub-address}: recognised by exactly the destination (wallet, sub-address); the decoded amount is
//                 the sent one and opens the commitment; no other view key decodes it
//   spending      every chosen output x all 27 key sets (view key of W_a, spend key of W_b, sub-address j') x R-key
//                 choice x key-image choice x ring size {3 (MLSAG), 1 (ring signature)}: the real CheckBasic accepts
//                 the spend iff the key set is the destination's
//   binding       four spend bases x every single mutation of inputs, outputs, token, R-keys, fee, extra, account
//                 signature: the prefix hash and the pre-MLSAG message change, the original ring signatures no
//                 longer verify (checkRingctSignatures in isolation) and CheckBasic refuses the transaction

import (
	"fmt"
	"math/big"
	"sort"
	"sync"
	"sync/atomic"

	"verif/vk"

	"github.com/lianxiangcloud/linkchain/libs/common"
	"github.com/lianxiangcloud/linkchain/libs/cryptonote/ringct"
	lk "github.com/lianxiangcloud/linkchain/libs/cryptonote/types"
	"github.com/lianxiangcloud/linkchain/libs/cryptonote/xcrypto"
	"github.com/lianxiangcloud/linkchain/types"
	"github.com/lianxiangcloud/linkchain/wallet/wallet"
)

// ---- spends ------------------------------------------------------------------------------------------------

type outSpec struct {
	to     *dest           // confidential destination, or
	acct   *common.Address // account destination
	amount *big.Int
}

type spendSpec struct {
	name     string
	w        int
	ins      []*fixOut
	rings    [][]uint64
	outs     []outSpec
	token    common.Address
	fee      *big.Int // token transactions only
	feePayer bool     // account A signs (pays the fee) before the ring signatures are made
	extra    []byte
}

type spendBuilt struct {
	spec     *spendSpec
	unsigned []byte // before account signature and ring signatures
	wire     []byte // complete
	sources  []*types.UTXOSourceEntry
	dests    []types.DestEntry
	mkeys    lk.KeyV
	ephs     []*types.UTXOInputEphemeral
	pubkeys  [][]lk.Ctkey // ring members per input (what the node fetches from its store)
}

func sourceOf(fo *fixOut, ring []uint64) *types.UTXOSourceEntry {
	o := fo.owned
	s := &types.UTXOSourceEntry{RKey: o.RKey, OutIndex: o.OutIndex, Amount: new(big.Int).Set(o.Amount), Mask: o.Mask}
	found := false
	for j, g := range ring {
		if g == fo.global {
			s.RingIndex, found = uint64(j), true
		}
		od, err := theStore.GetUtxoOutput(fo.token, g)
		if err != nil {
			vk.Fatalf("ring member %d: %v", g, err)
		}
		s.Ring = append(s.Ring, types.UTXORingEntry{Index: g, OTAddr: od.OTAddr, Commit: od.Commit})
	}
	if !found || !sort.SliceIsSorted(ring, func(a, b int) bool { return ring[a] < ring[b] }) {
		vk.Fatalf("ring %v for output %d", ring, fo.global)
	}
	return s
}

func ringKeys(token common.Address, ring []uint64) ([]lk.Ctkey, bool) {
	var ks []lk.Ctkey
	for _, g := range ring {
		od, err := theStore.GetUtxoOutput(token, g)
		if err != nil {
			return nil, false
		}
		ks = append(ks, lk.Ctkey{Dest: od.OTAddr, Mask: od.Commit})
	}
	return ks, true
}

func (sp *spendSpec) destEntries() []types.DestEntry {
	var de []types.DestEntry
	for i, o := range sp.outs {
		if o.to != nil {
			de = append(de, &types.UTXODestEntry{Addr: addrOf(*o.to), Amount: o.amount, IsSubaddress: o.to.j > 0, Remark: [32]byte{0x5e, byte(i)}})
		} else {
			de = append(de, &types.AccountDestEntry{To: *o.acct, Amount: o.amount})
		}
	}
	return de
}

// skeleton: the owner wallet's constructor output (inputs with key images, one-time addresses, R-keys), before
// any signature.
func (sp *spendSpec) skeleton() (*spendBuilt, error) {
	b := &spendBuilt{spec: sp, dests: sp.destEntries()}
	for i, in := range sp.ins {
		b.sources = append(b.sources, sourceOf(in, sp.rings[i]))
		pk, _ := ringKeys(sp.token, sp.rings[i])
		b.pubkeys = append(b.pubkeys, pk)
	}
	acc := wallets[sp.w]
	var tx *types.UTXOTransaction
	var rsec *lk.Key
	var err error
	if common.IsLKC(sp.token) {
		tx, b.ephs, b.mkeys, rsec, err = types.NewUinTransaction(acc.GetKeys(), acc.KeyIndex, b.sources, b.dests, sp.token, common.EmptyAddress, sp.extra)
	} else {
		tx, b.ephs, b.mkeys, rsec, err = types.NewUinTokenTransaction(acc.GetKeys(), acc.KeyIndex, b.sources, b.dests, sp.token, common.EmptyAddress, sp.fee, sp.extra)
	}
	_ = rsec
	if err != nil {
		return nil, err
	}
	b.unsigned = mustEncode(tx)
	return b, nil
}

// finish: account signature (if any) and ring signatures on a copy of the skeleton.
func (b *spendBuilt) finish(tx *types.UTXOTransaction, ephs []*types.UTXOInputEphemeral) error {
	if b.spec.feePayer && (tx.Sigs.R == nil || tx.Sigs.R.Sign() == 0) {
		if err := tx.Sign(types.GlobalSTDSigner, keyA); err != nil {
			return err
		}
	}
	return types.UInTransWithRctSig(tx, b.sources, ephs, b.dests, b.mkeys)
}

func buildSpend(sp *spendSpec) *spendBuilt {
	b, err := sp.skeleton()
	if err != nil {
		vk.Fatalf("fixture: spend %s: constructor: %v", sp.name, err)
	}
	tx := mustDecodeUTXO(b.unsigned)
	if err := b.finish(tx, b.ephs); err != nil {
		vk.Fatalf("fixture: spend %s: signatures: %v", sp.name, err)
	}
	b.wire = mustEncode(tx)
	if err := mustDecodeUTXO(b.wire).CheckBasic(theCensor); err != nil {
		vk.Fatalf("fixture: spend %s fails CheckBasic: %v", sp.name, err)
	}
	return b
}

var (
	spendBases  []*spendBuilt
	spendSpecs  []*spendSpec
	uinFeePayer *spendBuilt
	spendOnce   sync.Once
)

func pd(w, j int) *dest { return &dest{w, j} }

func initSpends() {
	spendOnce.Do(func() {
		xcrypto.VerifSetSeed(88)
		ax := addrX
		// S1: one input, ring of 3 (MLSAG), two confidential outputs
		in := fundF1[0] // (W0,0), 1e18, global 0
		pay := e18(0)
		pay.SetString("300000000000000000", 10)
		s1 := &spendSpec{name: "S1:1in(ring3)->2Uout", w: 0, ins: []*fixOut{in}, rings: [][]uint64{{0, 1, 2}},
			outs: []outSpec{{to: pd(1, 0), amount: pay}, {to: pd(0, 1), amount: sub(sub(in.amount, pay), utxoFee)}}, extra: []byte("s1")}
		// S2: two inputs with rings of ONE (ring-signature path), account output + confidential output
		i1, i2 := fundF1[4], fundF1[5] // (W1,1) 5e18 global 4, (W1,2) 6e18 global 5
		tot := add(i1.amount, i2.amount)
		s2 := &spendSpec{name: "S2:2in(ring1)->Aout+Uout", w: 1, ins: []*fixOut{i1, i2}, rings: [][]uint64{{4}, {5}},
			outs: []outSpec{{acct: &ax, amount: e18(1)}, {to: pd(2, 2), amount: sub(sub(sub(tot, e18(1)), utxoFee), lkcFee(e18(1)))}}, extra: []byte("s2")}
		// S3: token, ring of 3, the fee is paid by account A whose signature is part of the ring-signature message
		t0 := fundF3[0] // (W0,0) 4e18 token global 0
		s3 := &spendSpec{name: "S3:token,1in(ring3)->2Uout,fee-payer", w: 0, ins: []*fixOut{t0}, rings: [][]uint64{{0, 1, 2}}, token: addrTok, fee: new(big.Int).Set(utxoFee), feePayer: true,
			outs: []outSpec{{to: pd(1, 1), amount: e18(1)}, {to: pd(0, 0), amount: e18(3)}}, extra: []byte("s3")}
		// S4: two inputs with rings of 3 (two MLSAGs)
		j1, j2 := fundF1[6], fundF1[7] // (W2,0) 7e18 global 6, (W2,1) 8e18 global 7
		s4 := &spendSpec{name: "S4:2in(ring3)->2Uout", w: 2, ins: []*fixOut{j1, j2}, rings: [][]uint64{{5, 6, 8}, {6, 7, 8}},
			outs: []outSpec{{to: pd(0, 2), amount: e18(9)}, {to: pd(2, 1), amount: sub(sub(add(j1.amount, j2.amount), e18(9)), utxoFee)}}, extra: []byte("s4")}
		spendSpecs = []*spendSpec{s1, s2, s3, s4}
		for _, s := range spendSpecs {
			b := buildSpend(s)
			spendBases = append(spendBases, b)
			if s.feePayer {
				uinFeePayer = b
			}
		}
	})
}

// kindUinFeePayer: the account-side kind "confidential inputs, fee paid by account A" (sender path through
// checkTxSemantic for a non-LKC token).
func kindUinFeePayer(unprotected bool) *acctKind {
	initSpends()
	b := uinFeePayer
	return kindUTXO("UTXOTransaction(Uin,token,fee-payer)", unprotected, b.unsigned, func(tx *types.UTXOTransaction) {
		xcrypto.VerifSetSeed(89)
		if err := types.UInTransWithRctSig(tx, b.sources, b.ephs, b.dests, b.mkeys); err != nil {
			vk.Fatalf("fee-payer base: ring signatures: %v", err)
		}
	}, true, true)
}

// ---- recognition ---------------------------------------------------------------------------------------------

type recogOut struct {
	name   string
	wire   []byte
	k      int
	to     dest
	amount *big.Int
}

func recognitionTargets() []recogOut {
	var t []recogOut
	for _, fo := range fixOuts {
		t = append(t, recogOut{fo.txName, fo.wire, fo.k, fo.to, fo.amount})
	}
	for _, b := range spendBases {
		k := 0
		for _, o := range b.spec.outs {
			if o.to != nil {
				t = append(t, recogOut{b.spec.name, b.wire, k, *o.to, o.amount})
				k++
			}
		}
	}
	return t
}

func runRecognition(r *vk.Run) int {
	targets := recognitionTargets()
	type viewer struct {
		name string
		acc  *wallet.AccountBase
		w    int
	}
	var viewers []viewer
	for w := range wallets {
		viewers = append(viewers, viewer{fmt.Sprintf("W%d", w), wallets[w], w})
	}
	viewers = append(viewers, viewer{"outsider", outsider, -1})
	var cases, recognised, notRec, forced int64
	vk.ParallelFor(len(targets), func(ti int) {
		t := targets[ti]
		rep := func(extra replay) replay {
			extra["tx"], extra["output"], extra["destination"], extra["wire"] = t.name, t.k, t.to.String(), hexb(t.wire)
			return extra
		}
		for _, v := range viewers {
			// key index: all sub-addresses (-1), or one of them
			for j := -1; j < nSubs; j++ {
				ki := v.acc.KeyIndex
				if j >= 0 {
					ki = restricted(v.acc, j)
				}
				tx := mustDecodeUTXO(t.wire)
				sr := scanOne(v.acc.GetKeys(), ki, tx, t.k)
				atomic.AddInt64(&cases, 1)
				want := v.w == t.to.w && (j < 0 || j == t.to.j)
				who := fmt.Sprintf("%s/sub=%d", v.name, j)
				switch {
				case sr.recognised && !want:
					r.Violation("output-recognised-by-non-owner", fmt.Sprintf("output %d of %s sent to %v is recognised by key set %s", t.k, t.name, t.to, who), rep(replay{"viewer": who}))
				case !sr.recognised && want:
					r.Violation("output-not-recognised-by-owner", fmt.Sprintf("output %d of %s sent to %v is NOT recognised by its destination %s", t.k, t.name, t.to, who), rep(replay{"viewer": who}))
				case sr.recognised:
					atomic.AddInt64(&recognised, 1)
					if sr.own.SubIdx != uint64(t.to.j) {
						r.Violation("output-attributed-to-wrong-subaddress", fmt.Sprintf("output %d of %s sent to %v is attributed to sub-address %d", t.k, t.name, t.to, sr.own.SubIdx), rep(replay{"viewer": who}))
					}
					if !sr.opens || sr.own.Amount.Cmp(t.amount) != 0 {
						r.Violation("owner-decodes-wrong-amount", fmt.Sprintf("output %d of %s sent to %v: destination decodes %v (opens commitment: %v), sent %v", t.k, t.name, t.to, sr.own.Amount, sr.opens, t.amount), rep(replay{"viewer": who}))
					}
				default:
					atomic.AddInt64(&notRec, 1)
				}
			}
			// decoding forced with a foreign view key: every R-key of the transaction
			if v.w == t.to.w {
				continue
			}
			tx := mustDecodeUTXO(t.wire)
			unit := rateOf(tx.TokenID)
			for ri, rk := range rkeysOf(tx) {
				der, err := xcrypto.GenerateKeyDerivation(rk, v.acc.GetKeys().ViewSKey)
				if err != nil {
					continue
				}
				atomic.AddInt64(&cases, 1)
				atomic.AddInt64(&forced, 1)
				_, amount, opens := decodeWith(der, tx, t.k)
				if opens || new(big.Int).Mul(types.Hash2BigInt(amount), unit).Cmp(t.amount) == 0 {
					r.Violation("output-decoded-by-non-owner", fmt.Sprintf("output %d of %s sent to %v: view key of %s with R-key #%d decodes amount %v (opens commitment: %v)", t.k, t.name, t.to, v.name, ri, types.Hash2BigInt(amount), opens),
						rep(replay{"viewer": v.name, "rkey": ri}))
				}
			}
		}
	})
	r.Set("recognition", map[string]int64{"outputs": int64(len(targets)), "cases": cases, "recognised": recognised, "not_recognised": notRec, "forced_foreign_decodings": forced})
	fmt.Printf("conf recognition outputs=%d cases=%d recognised=%d not=%d forced=%d\n", len(targets), cases, recognised, notRec, forced)
	if recognised == 0 || notRec == 0 {
		vk.Fatalf("recognition matrix is vacuous")
	}
	return int(cases)
}

// ---- spending with every key set ------------------------------------------------------------------------------

func runSpendKeySets(r *vk.Run) int {
	var outs []*fixOut
	if r.Quick() {
		outs = []*fixOut{fundF1[1], fundF1[5], fundF2[2]} // destinations (W0,1) (W1,2) and F2's third output; main and sub-addresses, RKey and AddKeys matches
		outs = append(outs, fundF1[6])                    // (W2,0)
	} else {
		outs = append(append([]*fixOut{}, fundF1...), fundF2...)
	}
	type job struct {
		out      *fixOut
		ring     []uint64
		a, b, j  int // view key wallet, spend key wallet, sub-address index
		rk       lk.PublicKey
		rkName   string
		trueKI   bool
		ringName string
	}
	var jobs []job
	for _, fo := range outs {
		n := uint64(len(theStore.outs[fo.token]))
		lo := fo.global
		if lo+2 >= n {
			lo = n - 3
		}
		rings := map[string][]uint64{"ring3": {lo, lo + 1, lo + 2}, "ring1": {fo.global}}
		tx := mustDecodeUTXO(fo.wire)
		rks := map[string]lk.PublicKey{"matched": fo.owned.RKey}
		if fo.owned.RKey != tx.RKey {
			rks["tx.RKey"] = tx.RKey
		} else if len(tx.AddKeys) > fo.k {
			rks["AddKeys[k]"] = tx.AddKeys[fo.k]
		}
		for _, rn := range []string{"ring3", "ring1"} {
			for a := 0; a < nWallets; a++ {
				for b := 0; b < nWallets; b++ {
					for j := 0; j < nSubs; j++ {
						for _, rkn := range []string{"matched", "tx.RKey", "AddKeys[k]"} {
							rk, ok := rks[rkn]
							if !ok {
								continue
							}
							for _, tk := range []bool{false, true} {
								jobs = append(jobs, job{fo, rings[rn], a, b, j, rk, rkn, tk, rn})
							}
						}
					}
				}
			}
		}
	}
	var accepted, refused, proverRefused, ctorChecks int64
	// the constructor itself must refuse every non-owner wallet / key index
	for _, fo := range outs {
		src := []*types.UTXOSourceEntry{sourceOf(fo, []uint64{fo.global})}
		de := []types.DestEntry{&types.UTXODestEntry{Addr: addrOf(dest{0, 0}), Amount: sub(fo.amount, utxoFee)}}
		for w := 0; w <= nWallets; w++ {
			acc := outsider
			if w < nWallets {
				acc = wallets[w]
			}
			for j := -1; j < nSubs; j++ {
				ki := acc.KeyIndex
				if j >= 0 {
					ki = restricted(acc, j)
				}
				_, _, _, _, err := types.NewUinTransaction(acc.GetKeys(), ki, src, de, fo.token, common.EmptyAddress, nil)
				ctorChecks++
				want := w == fo.to.w && (j < 0 || j == fo.to.j)
				if (err == nil) != want {
					r.Violation("spend-constructor-ownership", fmt.Sprintf("NewUinTransaction for output %d (%v) with keys of wallet %d / sub %d: err=%v, owner=%v", fo.global, fo.to, w, j, err, want),
						replay{"output": fo.global, "wallet": w, "sub": j})
				}
			}
		}
	}
	vk.ParallelFor(len(jobs), func(i int) {
		if r.Expired() {
			return
		}
		jb := jobs[i]
		fo := jb.out
		xcrypto.VerifSetLocalSeed(uint64(1000 + i))
		defer xcrypto.VerifClearLocalSeed()
		view, spend := wallets[jb.a].GetKeys().ViewSKey, wallets[jb.b].GetKeys().SpendSKey
		name := fmt.Sprintf("output %d (%s#%d to %v) spent with view key of W%d, spend key of W%d, sub-address %d, R-key %s, key image %s, %s", fo.global, fo.txName, fo.k, fo.to, jb.a, jb.b, jb.j, jb.rkName,
			map[bool]string{false: "derived from the same secret", true: "of the true owner"}[jb.trueKI], jb.ringName)
		rep := replay{"case": name, "funding_wire": hexb(fo.wire)}
		// the secret a holder of this key set derives for the output (generateKeyImage's computation)
		der, err := xcrypto.GenerateKeyDerivation(jb.rk, view)
		if err != nil {
			atomic.AddInt64(&refused, 1)
			return
		}
		sk, err := xcrypto.DeriveSecretKey(der, fo.k, spend)
		if err != nil {
			atomic.AddInt64(&refused, 1)
			return
		}
		if jb.j > 0 {
			sk = xcrypto.SecretAdd(sk, xcrypto.GetSubaddressSecretKey(view, uint32(jb.j)))
		}
		pub, _ := xcrypto.SecretKeyToPublicKey(sk)
		isOwner := lk.Key(pub) == fo.otaddr // reference: the key set opens the one-time address
		if isOwner != (jb.a == fo.to.w && jb.b == fo.to.w && jb.j == fo.to.j && jb.rk == fo.owned.RKey) {
			r.Violation("one-time-key-derivable-by-non-owner", name+": derives the secret key of the one-time address", rep)
		}
		ki, err := xcrypto.GenerateKeyImage(lk.PublicKey(fo.otaddr), sk)
		if err != nil {
			atomic.AddInt64(&refused, 1)
			return
		}
		if jb.trueKI {
			if isOwner {
				return // identical to the other variant
			}
			ki = lk.KeyImage(fo.owned.KeyImage)
		}
		// the owner's constructor output is the skeleton; secret and key image are replaced
		sp := &spendSpec{name: "attempt", w: fo.to.w, ins: []*fixOut{fo}, rings: [][]uint64{jb.ring}, token: fo.token,
			outs: []outSpec{{to: pd(jb.a, 0), amount: sub(fo.amount, utxoFee)}}}
		b, err := sp.skeleton()
		if err != nil {
			vk.Fatalf("spend skeleton: %v", err)
		}
		tx := mustDecodeUTXO(b.unsigned)
		b.ephs[0].SKey, b.ephs[0].KeyImage = sk, lk.Key(ki)
		tx.Inputs[0].(*types.UTXOInput).KeyImage = lk.Key(ki)
		if err := b.finish(tx, b.ephs); err != nil {
			atomic.AddInt64(&proverRefused, 1)
			if isOwner {
				r.Violation("owner-cannot-spend", name+": "+err.Error(), rep)
			}
			return
		}
		wire := mustEncode(tx)
		atomic.AddInt64(&distinctTx, 1)
		cerr := mustDecodeUTXO(wire).CheckBasic(theCensor)
		rep["spend_wire"] = hexb(wire)
		switch {
		case cerr == nil && !isOwner:
			atomic.AddInt64(&accepted, 1)
			r.Violation("spend-accepted-with-non-owner-keys", name+": CheckBasic accepts the spend", rep)
		case cerr != nil && isOwner:
			atomic.AddInt64(&refused, 1)
			r.Violation("owner-cannot-spend", name+": CheckBasic refuses: "+cerr.Error(), rep)
		case cerr == nil:
			atomic.AddInt64(&accepted, 1)
		default:
			atomic.AddInt64(&refused, 1)
		}
	})
	if r.Expired() {
		r.Capped("spend key-set enumeration hit the deadline")
	}
	r.Set("spend_key_sets", map[string]int64{"outputs": int64(len(outs)), "attempts": int64(len(jobs)), "accepted(owner)": accepted, "refused": refused, "prover_refused": proverRefused, "constructor_checks": ctorChecks})
	fmt.Printf("conf spend outputs=%d attempts=%d accepted=%d refused=%d prover-refused=%d ctor=%d\n", len(outs), len(jobs), accepted, refused, proverRefused, ctorChecks)
	if accepted == 0 || refused == 0 {
		vk.Fatalf("spend enumeration is vacuous (accepted=%d refused=%d)", accepted, refused)
	}
	return len(jobs) + int(ctorChecks)
}

// ---- binding of the ring-signature message ---------------------------------------------------------------------

func sigMutsUTXO() []fieldMut {
	g := func(c carrier) *types.UTXOTransaction { return c.(*types.UTXOTransaction) }
	one := func(field string, get func(c carrier) **big.Int) []fieldMut {
		return []fieldMut{
			{field, "+1", func(c carrier) bool {
				p := get(c)
				if *p == nil {
					*p = bi(1)
				} else {
					*p = new(big.Int).Add(*p, bi(1))
				}
				return true
			}},
			{field, "zero", func(c carrier) bool {
				p := get(c)
				if *p == nil || (*p).Sign() == 0 {
					return false
				}
				*p = new(big.Int)
				return true
			}},
		}
	}
	return cat(one("Sigs.R", func(c carrier) **big.Int { return &g(c).Sigs.R }), one("Sigs.S", func(c carrier) **big.Int { return &g(c).Sigs.S }), one("Sigs.V", func(c carrier) **big.Int { return &g(c).Sigs.V }),
		[]fieldMut{{"Sigs", "signed-by-B", func(c carrier) bool { return g(c).Sign(types.GlobalSTDSigner, keyB) == nil }}})
}

// ringOf: the ring members the node would fetch for tx (token-agnostic: the base's token list).
func ringOf(tx *types.UTXOTransaction, token common.Address) ([][]lk.Ctkey, bool) {
	pk := make([][]lk.Ctkey, len(tx.Inputs))
	for i, in := range tx.Inputs {
		u, ok := in.(*types.UTXOInput)
		if !ok {
			continue
		}
		if len(u.KeyOffset) == 0 {
			return nil, false
		}
		abs := make([]uint64, len(u.KeyOffset))
		copy(abs, u.KeyOffset)
		for j := 1; j < len(abs); j++ {
			abs[j] += abs[j-1]
		}
		ks, ok := ringKeys(token, abs)
		if !ok {
			return nil, false
		}
		pk[i] = ks
	}
	return pk, true
}

func runBinding(r *vk.Run) int {
	var cases, reachedRing, earlier int64
	perField := sync.Map{}
	for _, b := range spendBases {
		b := b
		base := mustDecodeUTXO(b.wire)
		basePrefix := base.PrefixHash()
		if err := base.VerifC08CheckTxSemantic(theCensor); err != nil {
			vk.Fatalf("binding base %s: %v", b.spec.name, err)
		}
		if err := base.VerifC08CheckRctSigData(); err != nil {
			vk.Fatalf("binding base %s: %v", b.spec.name, err)
		}
		if err := base.VerifC08VerifyRing(b.pubkeys); err != nil {
			vk.Fatalf("binding base %s: original ring signatures do not verify: %v", b.spec.name, err)
		}
		basePre, err := ringct.GetPreMlsagHash(&base.RCTSig)
		if err != nil {
			vk.Fatalf("binding base %s: %v", b.spec.name, err)
		}
		muts := cat(payloadMutsUTXO(mustDecodeUTXO(b.wire)), sigMutsUTXO())
		var usable []fieldMut
		for _, m := range muts {
			if safeApply(m, carrier(mustDecodeUTXO(b.wire))) {
				usable = append(usable, m)
			}
		}
		muts = usable
		type cs struct{ i, j int }
		list := []cs{}
		for i := range muts {
			list = append(list, cs{i, -1})
		}
		if !r.Quick() {
			for i := range muts {
				for j := i + 1; j < len(muts); j++ {
					if muts[i].field != muts[j].field {
						list = append(list, cs{i, j})
					}
				}
			}
		}
		nSingles := len(muts)
		var bad sync.Map
		work := func(n int) {
			if r.Expired() {
				return
			}
			c := mustDecodeUTXO(b.wire)
			if !safeApply(muts[list[n].i], c) {
				return
			}
			name, fields := muts[list[n].i].field+"/"+muts[list[n].i].label, muts[list[n].i].field
			if list[n].j >= 0 {
				if !safeApply(muts[list[n].j], c) {
					return
				}
				name += " & " + muts[list[n].j].field + "/" + muts[list[n].j].label
				fields += "+" + muts[list[n].j].field
			}
			class := indexRe.ReplaceAllString(fields, "[]")
			if list[n].j >= 0 {
				fa, fb := indexRe.ReplaceAllString(muts[list[n].i].field, "[]"), indexRe.ReplaceAllString(muts[list[n].j].field, "[]")
				class = pairClass(&bad, fa, fb)[len("field="):]
			}
			violated := func(key, what string, rep replay) {
				if list[n].j < 0 {
					bad.Store(class, true)
				}
				r.Violation(key, what, rep)
			}
			atomic.AddInt64(&cases, 1)
			wire, err := encodeUTXO(c)
			if err != nil {
				atomic.AddInt64(&earlier, 1)
				return
			}
			tx, err := decodeUTXO(wire)
			if err != nil {
				atomic.AddInt64(&earlier, 1)
				return
			}
			atomic.AddInt64(&distinctTx, 1)
			rep := replay{"base": b.spec.name, "mutation": name, "base_wire": hexb(b.wire), "case_wire": hexb(wire)}
			if tx.PrefixHash() == basePrefix {
				violated("prefix-hash-does-not-cover:"+class, fmt.Sprintf("%s: PrefixHash unchanged after %s", b.spec.name, name), rep)
			}
			// the whole check, as a node runs it
			if full, _ := decodeUTXO(wire); full != nil {
				var cerr error
				if p, v := vk.Catch(func() { cerr = full.CheckBasic(theCensor) }); p {
					cerr = fmt.Errorf("panic: %v", v)
				}
				if cerr == nil {
					violated("mutated-spend-accepted:"+class, fmt.Sprintf("%s: CheckBasic accepts the transaction after %s (ring signatures were made for the original)", b.spec.name, name), rep)
				}
			}
			// the ring-signature check in isolation (CheckBasic's order up to it, without the balance equation)
			stage := ""
			var verr error
			if p, v := vk.Catch(func() {
				if err := tx.VerifC08CheckTxSemantic(theCensor); err != nil {
					stage = "checkTxSemantic: " + err.Error()
					return
				}
				if err := tx.VerifC08CheckRctSigData(); err != nil {
					stage = "checkRctSigData: " + err.Error()
					return
				}
				pk, ok := ringOf(tx, b.spec.token)
				if !ok {
					stage = "ring members do not exist"
					return
				}
				msg := tx.VerifC08RingMessage(pk)
				pre, err := ringct.GetPreMlsagHash(&tx.RCTSig)
				if err != nil {
					stage = "GetPreMlsagHash: " + err.Error()
					return
				}
				if msg == basePrefix || pre == basePre {
					violated("ring-message-does-not-cover:"+class, fmt.Sprintf("%s: the message of the ring signatures is unchanged after %s", b.spec.name, name), rep)
				}
				verr = tx.VerifC08VerifyRing(pk)
				stage = "ring"
			}); p {
				stage = fmt.Sprintf("panic: %v", v)
			}
			if stage != "ring" {
				atomic.AddInt64(&earlier, 1)
				return
			}
			atomic.AddInt64(&reachedRing, 1)
			cnt, _ := perField.LoadOrStore(class, new(int64))
			atomic.AddInt64(cnt.(*int64), 1)
			if verr == nil {
				violated("ring-signature-not-bound-to:"+class, fmt.Sprintf("%s: the ring signatures made for the original still verify after %s", b.spec.name, name), rep)
			}
		}
		vk.ParallelFor(nSingles, work)
		vk.ParallelFor(len(list)-nSingles, func(n int) { work(nSingles + n) })
	}
	if r.Expired() {
		r.Capped("binding enumeration hit the deadline")
	}
	reached := map[string]int64{}
	perField.Range(func(k, v interface{}) bool { reached[k.(string)] = *v.(*int64); return true })
	r.Set("binding", map[string]interface{}{"bases": len(spendBases), "cases": cases, "reached_ring_signature_check": reachedRing, "refused_before_it": earlier, "reached_per_field_class": reached})
	fmt.Printf("conf binding bases=%d cases=%d reached-ring-check=%d refused-earlier=%d field-classes-reaching=%d\n", len(spendBases), cases, reachedRing, earlier, len(reached))
	for _, need := range []string{"Fee", "Extra", "TokenID", "RKey", "Sigs.R", "Inputs[].KeyImage", "Outputs[].OTAddr", "AddKeys[]"} {
		if reached[need] == 0 {
			vk.Fatalf("binding: no mutation of %s reaches the ring-signature check (vacuous)", need)
		}
	}
	return int(cases)
}

func runConfidentialSide(r *vk.Run) int {
	initSpends()
	n := runRecognition(r)
	n += runSpendKeySets(r)
	n += runAuthShape(r)
	n += runBinding(r)
	r.Set("confidential_cases", n)
	return n
}
