package main

// The two account-based kinds whose sender is not recovered but stated and authorised by a signature SET:
//   ContractUpgradeTx   sender = FromAddr, authorised by secp256k1 signatures of registered signers (FromAddr's
//                       own signature included) over the main info + chain parameter;
//   MultiSignAccountTx  sender = the fixed multi-sign address, authorised by > 2/3 of the validators' ed25519
//                       signatures over the main info.
// Both bases carry EXACTLY a quorum, so every signature matters. Oracle: the transaction is authorised
// (VerifySign / CheckBasic / block path) iff main info and signature set are those of the base (a pure
// re-ordering of the signature list is the one allowed change).

import (
	"bytes"
	"fmt"
	"math/big"
	"sync"
	"sync/atomic"

	"verif/vk"

	"github.com/lianxiangcloud/linkchain/config"
	"github.com/lianxiangcloud/linkchain/libs/common"
	"github.com/lianxiangcloud/linkchain/libs/crypto"
	"github.com/lianxiangcloud/linkchain/libs/ser"
	"github.com/lianxiangcloud/linkchain/types"
)

// ---- ContractUpgradeTx ----------------------------------------------------------------------------------

var (
	cutInfo *types.SignersInfo
	cutWire []byte
	cutHash common.Hash
	wasmPay = []byte{0x00, 0x61, 0x73, 0x6d, 0x01, 0x00, 0x00, 0x00, 0xc0, 0x08}
)

func decodeCUT(wire []byte) (*types.ContractUpgradeTx, error) {
	tx := new(types.ContractUpgradeTx)
	if err := ser.DecodeBytes(wire, tx); err != nil {
		return nil, err
	}
	return tx, nil
}

func newCUT(signers ...func(tx *types.ContractUpgradeTx)) *types.ContractUpgradeTx {
	tx := types.UpgradeContractTx(&types.ContractUpgradeMainInfo{FromAddr: addrA, Recipient: config.ContractFoundationAddr, AccountNonce: 5, Payload: append([]byte{}, wasmPay...)}, nil)
	for _, s := range signers {
		s(tx)
	}
	return tx
}

func cutSignWith(signer types.STDSigner, who string) func(tx *types.ContractUpgradeTx) {
	return func(tx *types.ContractUpgradeTx) {
		k := keyA
		if who == "B" {
			k = keyB
		}
		if err := tx.Sign(signer, k); err != nil {
			vk.Fatalf("cut sign: %v", err)
		}
	}
}

// cutSignUnprotected appends a signature over the digest without chain parameter (v = 27/28).
func cutSignUnprotected(who string) func(tx *types.ContractUpgradeTx) {
	return func(tx *types.ContractUpgradeTx) {
		k := keyA
		if who == "B" {
			k = keyB
		}
		h, _ := types.VerifC08SigHash(tx, types.STDHomesteadSigner{})
		r, s, rec := signDigest(h, k)
		tx.Sign(types.GlobalSTDSigner, k) // appends an entry; its values are replaced
		e := tx.Signatures[len(tx.Signatures)-1]
		e.R, e.S, e.V = r, s, bi(27+rec)
	}
}

type cutCase struct {
	name   string
	class  string // canonical class for the violation key
	apply  func(tx *types.ContractUpgradeTx) bool
	accept bool // reference: still authorised
	o2     bool // acceptance is observation O2
}

func cutFieldMuts() []fieldMut {
	g := func(c carrier) *types.ContractUpgradeTx { return c.(*types.ContractUpgradeTx) }
	return cat(
		mutAddr("FromAddr", func(c carrier) *common.Address { return &g(c).FromAddr }, addrB),
		mutAddr("Recipient", func(c carrier) *common.Address { return &g(c).Recipient }, config.ContractPledgeAddr),
		mutU64("AccountNonce", func(c carrier) *uint64 { return &g(c).AccountNonce }),
		mutBytes("Payload", func(c carrier) *[]byte { return &g(c).Payload }),
		[]fieldMut{{"Payload", "last-byte+1", func(c carrier) bool { p := g(c).Payload; p[len(p)-1]++; return true }}},
	)
}

type specStats struct{ cases, accepted, rejected int64 }

// pairClass: class of a two-field case: the fields already known to break the property alone, else both.
func pairClass(bad *sync.Map, a, b string) string {
	_, ba := bad.Load(a)
	_, bb := bad.Load(b)
	switch {
	case ba && bb && b < a:
		return "field=" + b
	case ba:
		return "field=" + a
	case bb:
		return "field=" + b
	}
	return "field=" + a + "+" + b
}

// runJobs runs the first list to completion, then the second.
func runJobs(r *vk.Run, first, second []func()) {
	for _, l := range [][]func(){first, second} {
		l := l
		vk.ParallelFor(len(l), func(i int) {
			if !r.Expired() {
				l[i]()
			}
		})
	}
}

// evalCUT checks one candidate (already mutated carrier) in the three cache states.
func evalCUT(r *vk.Run, name, class string, carrierTx *types.ContractUpgradeTx, accept, o2 bool, st *specStats) (violated bool) {
	wire, err := ser.EncodeToBytes(carrierTx)
	if err != nil {
		atomic.AddInt64(&st.cases, nCache)
		atomic.AddInt64(&st.rejected, nCache)
		return false
	}
	atomic.AddInt64(&distinctTx, 1)
	for cs := 0; cs < nCache; cs++ {
		tx, err := decodeCUT(wire)
		atomic.AddInt64(&st.cases, 1)
		if err != nil {
			atomic.AddInt64(&st.rejected, 1)
			continue
		}
		same := bytes.Equal(wire, cutWire)
		if (tx.Hash() == cutHash) != same {
			r.Violation("tx-hash-not-exact:ContractUpgradeTx:"+class, fmt.Sprintf("ContractUpgradeTx %s: hash equal=%v bytes identical=%v", name, tx.Hash() == cutHash, same), replay{"case": name, "wire": hexb(wire)})
		}
		var verr error
		where := ""
		switch cs {
		case cacheCold:
			verr, where = tx.VerifySign(cutInfo), "VerifySign"
		case cacheWarm:
			tx.VerifySign(cutInfo)
			verr = tx.CheckBasic(theCensor)
			where = "CheckBasic after VerifySign"
		case cacheTwin:
			specErr, procErr := blockPath(tx)
			verr = specErr
			if verr == nil {
				verr = procErr
			}
			where = "block path (verifySpecTxSign + verifyTxsOnProcess)"
		}
		from, _ := tx.From()
		if verr == nil {
			atomic.AddInt64(&st.accepted, 1)
		} else {
			atomic.AddInt64(&st.rejected, 1)
		}
		switch {
		case accept && verr != nil:
			r.Violation("genuine-transaction-refused:ContractUpgradeTx:"+class, fmt.Sprintf("ContractUpgradeTx %s refused by %s: %v", name, where, verr), replay{"case": name, "wire": hexb(wire), "cache_state": cacheName[cs]})
		case !accept && verr == nil:
			violated = true
			key := "unauthorised-accepted:ContractUpgradeTx:" + class
			if o2 {
				key = keyO2
			}
			r.Violation(key, fmt.Sprintf("ContractUpgradeTx %s is authorised by %s (charged sender %x) although it is not what the signer set signed for this chain", name, where, from),
				replay{"case": name, "wire": hexb(wire), "base_wire": hexb(cutWire), "cache_state": cacheName[cs]})
		}
	}
	return
}

func runCUT(r *vk.Run) int {
	cutInfo = &types.SignersInfo{MinSignerPower: 2, Signers: []*types.SignerEntry{{Power: 1, Addr: addrA}, {Power: 1, Addr: addrB}}}
	theCensor.signers = cutInfo
	base := newCUT(cutSignWith(types.GlobalSTDSigner, "A"), cutSignWith(types.GlobalSTDSigner, "B"))
	cutWire = mustEncode(base)
	b0, err := decodeCUT(cutWire)
	if err != nil {
		vk.Fatalf("cut: %v", err)
	}
	cutHash = b0.Hash()
	if err := b0.CheckBasic(theCensor); err != nil {
		vk.Fatalf("fixture: ContractUpgradeTx base fails CheckBasic: %v", err)
	}
	twin, _ := decodeCUT(cutWire)
	poolAdd("ContractUpgradeTx", twin)
	fresh := func() *types.ContractUpgradeTx { t, _ := decodeCUT(cutWire); return t }

	var st specStats
	muts := cutFieldMuts()
	var jobs, pairs []func()
	var bad sync.Map
	// A: field mutations, single and pairwise, signatures untouched; plus identity
	jobs = append(jobs, func() { evalCUT(r, "untouched", "identity", fresh(), true, false, &st) })
	for i := range muts {
		i := i
		jobs = append(jobs, func() {
			t := fresh()
			if safeApply(muts[i], t) && evalCUT(r, muts[i].field+"/"+muts[i].label, "field="+muts[i].field, t, false, false, &st) {
				bad.Store(muts[i].field, true)
			}
		})
		for j := i + 1; j < len(muts); j++ {
			j := j
			if muts[i].field == muts[j].field {
				continue
			}
			pairs = append(pairs, func() {
				t := fresh()
				if safeApply(muts[i], t) && safeApply(muts[j], t) {
					evalCUT(r, muts[i].field+"/"+muts[i].label+" & "+muts[j].field+"/"+muts[j].label, pairClass(&bad, muts[i].field, muts[j].field), t, false, false, &st)
				}
			})
		}
	}
	// B: (<=1 field mutation) x which signature x r x s x v
	for which := 0; which < 2; which++ {
		which := which
		sg := fresh().Signatures[which]
		k := &acctKind{r0: sg.R, s0: sg.S, v0: sg.V}
		rs, ss, vs := k.rSet(), k.sSet(), k.vSet()
		for fm := -1; fm < len(muts); fm++ {
			fm := fm
			jobs = append(jobs, func() {
				for _, a := range rs {
					for _, b := range ss {
						for _, c := range vs {
							if fm >= 0 && r.Quick() {
								// quick: with a field mutation only single-axis signature deviations
								dev := 0
								for _, n := range []bool{a.name != "r0", b.name != "s0", c.name != "v0"} {
									if n {
										dev++
									}
								}
								if dev > 1 && !(a.name == "r0" && b.name == "N-s0" && c.name == "flip") {
									continue
								}
							}
							t := fresh()
							name, class := "", ""
							if fm >= 0 {
								if !safeApply(muts[fm], t) {
									continue
								}
								name, class = muts[fm].field+"/"+muts[fm].label+" & ", "field="+muts[fm].field
							}
							e := t.Signatures[which]
							e.R, e.S, e.V = a.v, b.v, c.v
							sn := k.sigName(sigAlt{a, b, c})
							ident := fm < 0 && sn == ""
							if class == "" {
								class = "sig[" + sn + "]"
							}
							evalCUT(r, fmt.Sprintf("%ssignature[%d]{%s}", name, which, sn), class, t, ident, false, &st)
						}
					}
				}
			})
		}
	}
	// C: structure of the signature list (x <=1 field mutation)
	type listOp struct {
		name   string
		f      func(t *types.ContractUpgradeTx)
		accept bool
	}
	ops := []listOp{
		{"drop-signature[0]", func(t *types.ContractUpgradeTx) { t.Signatures = t.Signatures[1:] }, false},
		{"drop-signature[1]", func(t *types.ContractUpgradeTx) { t.Signatures = t.Signatures[:1] }, false},
		{"no-signatures", func(t *types.ContractUpgradeTx) { t.Signatures = nil }, false},
		{"signature[0]-twice", func(t *types.ContractUpgradeTx) { t.Signatures = append(t.Signatures[:1], t.Signatures[0]) }, false},
		{"signature[1]-twice", func(t *types.ContractUpgradeTx) { t.Signatures = append(t.Signatures[1:], t.Signatures[1]) }, false},
		{"signature[0]-three-times", func(t *types.ContractUpgradeTx) {
			t.Signatures = append(t.Signatures[:1], t.Signatures[0], t.Signatures[0])
		}, false},
		{"reordered-signatures", func(t *types.ContractUpgradeTx) { t.Signatures[0], t.Signatures[1] = t.Signatures[1], t.Signatures[0] }, true},
	}
	for _, op := range ops {
		op := op
		for fm := -1; fm < len(muts); fm++ {
			fm := fm
			jobs = append(jobs, func() {
				t := fresh()
				name, class, acc := op.name, "siglist="+op.name, op.accept
				if fm >= 0 {
					if !safeApply(muts[fm], t) {
						return
					}
					name, class, acc = muts[fm].field+"/"+muts[fm].label+" & "+name, "field="+muts[fm].field, false
				}
				op.f(t)
				evalCUT(r, name, class, t, acc, false, &st)
			})
		}
	}
	// D: who signed for which chain: every combination of {this chain, c+1, 0, unprotected} for the two signers
	type how struct {
		name string
		f    func(who string) func(tx *types.ContractUpgradeTx)
	}
	hows := []how{
		{"c", func(w string) func(tx *types.ContractUpgradeTx) { return cutSignWith(types.GlobalSTDSigner, w) }},
		{"c+1", func(w string) func(tx *types.ContractUpgradeTx) { return cutSignWith(signerFor(add(chainC, bi(1))), w) }},
		{"0", func(w string) func(tx *types.ContractUpgradeTx) { return cutSignWith(signerFor(bi(0)), w) }},
		{"unprotected", cutSignUnprotected},
	}
	for _, ha := range hows {
		for _, hb := range hows {
			ha, hb := ha, hb
			jobs = append(jobs, func() {
				t := newCUT(ha.f("A"), hb.f("B"))
				ident := ha.name == "c" && hb.name == "c"
				o2 := !ident && (ha.name == "c" || ha.name == "unprotected") && (hb.name == "c" || hb.name == "unprotected")
				evalCUT(r, "A signs for "+ha.name+", B signs for "+hb.name, "signed-for-chain="+ha.name+"/"+hb.name, t, ident, o2, &st)
			})
		}
	}
	// E: signatures of outsiders / wrong sender
	jobs = append(jobs, func() {
		t := newCUT(cutSignWith(types.GlobalSTDSigner, "B"), cutSignWith(types.GlobalSTDSigner, "B"))
		evalCUT(r, "B signs twice, A not at all", "sender-signature-missing", t, false, false, &st)
	}, func() {
		t := newCUT(cutSignWith(types.GlobalSTDSigner, "A"))
		k := fixedKey("c08-key-outsider")
		t.Sign(types.GlobalSTDSigner, k)
		evalCUT(r, "A and an unregistered key sign", "unregistered-signer", t, false, false, &st)
	})
	runJobs(r, jobs, pairs)
	if r.Expired() {
		r.Capped("ContractUpgradeTx enumeration hit the deadline")
	}
	fmt.Printf("special ContractUpgradeTx cases=%d accepted=%d rejected=%d\n", st.cases, st.accepted, st.rejected)
	r.Set("contract_upgrade_tx", map[string]int64{"cases": st.cases, "authorised": st.accepted, "refused": st.rejected, "field_mutations": int64(len(muts))})
	if st.accepted == 0 || st.rejected == 0 {
		vk.Fatalf("ContractUpgradeTx enumeration is vacuous")
	}
	return int(st.cases)
}

// ---- MultiSignAccountTx ------------------------------------------------------------------------------------

var (
	valKeys []crypto.PrivKeyEd25519
	valSet  []*types.Validator
	mstWire []byte
	mstHash common.Hash
	edL, _  = new(big.Int).SetString("1000000000000000000000000000000014def9dea2f79cd65812631a5cf5d3ed", 16)
)

func decodeMST(wire []byte) (*types.MultiSignAccountTx, error) {
	tx := new(types.MultiSignAccountTx)
	if err := ser.DecodeBytes(wire, tx); err != nil {
		return nil, err
	}
	return tx, nil
}

func mstSign(main types.MultiSignMainInfo, i int) types.ValidatorSign {
	sb, err := types.GenMultiSignBytes(main)
	if err != nil {
		vk.Fatalf("mst sign bytes: %v", err)
	}
	sig, err := valKeys[i].Sign(sb)
	if err != nil {
		vk.Fatalf("mst sign: %v", err)
	}
	return types.ValidatorSign{Addr: []byte(valKeys[i].PubKey().Address()), Signature: sig.Bytes()}
}

func evalMST(r *vk.Run, name, class string, c *types.MultiSignAccountTx, accept bool, st *specStats) (violated bool) {
	wire, err := ser.EncodeToBytes(c)
	if err != nil {
		atomic.AddInt64(&st.cases, nCache)
		atomic.AddInt64(&st.rejected, nCache)
		return false
	}
	vs := types.NewValidatorSet(valSet)
	atomic.AddInt64(&distinctTx, 1)
	for cs := 0; cs < nCache; cs++ {
		tx, err := decodeMST(wire)
		atomic.AddInt64(&st.cases, 1)
		if err != nil {
			atomic.AddInt64(&st.rejected, 1)
			continue
		}
		same := bytes.Equal(wire, mstWire)
		if (tx.Hash() == mstHash) != same {
			r.Violation("tx-hash-not-exact:MultiSignAccountTx:"+class, fmt.Sprintf("MultiSignAccountTx %s: hash equal=%v bytes identical=%v", name, tx.Hash() == mstHash, same), replay{"case": name, "wire": hexb(wire)})
		}
		var verr error
		where := ""
		switch cs {
		case cacheCold:
			verr, where = tx.VerifySign(vs), "VerifySign"
		case cacheWarm:
			tx.VerifySign(vs)
			verr, where = tx.CheckBasic(theCensor), "CheckBasic after VerifySign"
		case cacheTwin:
			specErr, procErr := blockPath(tx)
			verr, where = specErr, "block path (verifySpecTxSign)"
			if verr == nil {
				verr = procErr
			}
		}
		if verr == nil {
			atomic.AddInt64(&st.accepted, 1)
		} else {
			atomic.AddInt64(&st.rejected, 1)
		}
		switch {
		case accept && verr != nil:
			r.Violation("genuine-transaction-refused:MultiSignAccountTx:"+class, fmt.Sprintf("MultiSignAccountTx %s refused by %s: %v", name, where, verr), replay{"case": name, "wire": hexb(wire), "cache_state": cacheName[cs]})
		case !accept && verr == nil:
			violated = true
			r.Violation("unauthorised-accepted:MultiSignAccountTx:"+class, fmt.Sprintf("MultiSignAccountTx %s is authorised by %s although fewer than a quorum of validators signed exactly this content", name, where),
				replay{"case": name, "wire": hexb(wire), "base_wire": hexb(mstWire), "cache_state": cacheName[cs]})
		}
	}
	return
}

func runMST(r *vk.Run) int {
	for i := 0; i < 4; i++ {
		k := crypto.GenPrivKeyEd25519FromSecret([]byte(fmt.Sprintf("c08-val-%d", i)))
		valKeys = append(valKeys, k)
		valSet = append(valSet, types.NewValidator(k.PubKey(), common.EmptyAddress, 10))
	}
	theCensor.vals = valSet
	main := types.MultiSignMainInfo{AccountNonce: 3, SupportTxType: types.TxContractCreateType,
		SignersInfo: types.SignersInfo{MinSignerPower: 2, Signers: []*types.SignerEntry{{Power: 1, Addr: addrA}, {Power: 1, Addr: addrB}}}}
	base := types.NewMultiSignAccountTx(&main, []types.ValidatorSign{mstSign(main, 0), mstSign(main, 1), mstSign(main, 2)}) // 30 of 40: exactly a quorum
	mstWire = mustEncode(base)
	b0, err := decodeMST(mstWire)
	if err != nil {
		vk.Fatalf("mst: %v", err)
	}
	mstHash = b0.Hash()
	if types.IsTestMode {
		vk.Fatalf("types.IsTestMode is set: MultiSignAccountTx.CheckBasic would accept everything")
	}
	if err := b0.CheckBasic(theCensor); err != nil {
		vk.Fatalf("fixture: MultiSignAccountTx base fails CheckBasic: %v", err)
	}
	twin, _ := decodeMST(mstWire)
	poolAdd("MultiSignAccountTx", twin)
	fresh := func() *types.MultiSignAccountTx {
		t, _ := decodeMST(mstWire)
		// decoded signers are fresh pointers: deep already
		return t
	}
	g := func(c carrier) *types.MultiSignAccountTx { return c.(*types.MultiSignAccountTx) }
	muts := cat(
		mutU64("AccountNonce", func(c carrier) *uint64 { return &g(c).AccountNonce }),
		[]fieldMut{
			{"SupportTxType", "other", func(c carrier) bool { g(c).SupportTxType = types.TxUpdateValidatorsType; return true }},
			{"SupportTxType", "+1", func(c carrier) bool { g(c).SupportTxType++; return true }},
			{"MinSignerPower", "+1", func(c carrier) bool { g(c).MinSignerPower++; return true }},
			{"MinSignerPower", "zero", func(c carrier) bool { g(c).MinSignerPower = 0; return true }},
			{"Signers[0].Power", "+1", func(c carrier) bool { g(c).Signers[0].Power++; return true }},
			{"Signers[1].Power", "zero", func(c carrier) bool { g(c).Signers[1].Power = 0; return true }},
			{"Signers", "drop-last", func(c carrier) bool { g(c).Signers = g(c).Signers[:1]; return true }},
			{"Signers", "append-attacker", func(c carrier) bool {
				g(c).Signers = append(g(c).Signers, &types.SignerEntry{Power: 5, Addr: addrY})
				return true
			}},
			{"Signers", "swap", func(c carrier) bool { s := g(c).Signers; s[0], s[1] = s[1], s[0]; return true }},
		},
		mutAddr("Signers[0].Addr", func(c carrier) *common.Address { return &g(c).Signers[0].Addr }, addrY),
		mutAddr("Signers[1].Addr", func(c carrier) *common.Address { return &g(c).Signers[1].Addr }, addrY),
	)
	var st specStats
	var jobs, pairs []func()
	var bad sync.Map
	jobs = append(jobs, func() { evalMST(r, "untouched", "identity", fresh(), true, &st) })
	for i := range muts {
		i := i
		jobs = append(jobs, func() {
			t := fresh()
			if safeApply(muts[i], t) && evalMST(r, muts[i].field+"/"+muts[i].label, "field="+muts[i].field, t, false, &st) {
				bad.Store(muts[i].field, true)
			}
		})
		for j := i + 1; j < len(muts); j++ {
			j := j
			if muts[i].field == muts[j].field {
				continue
			}
			pairs = append(pairs, func() {
				t := fresh()
				if safeApply(muts[i], t) && safeApply(muts[j], t) {
					evalMST(r, muts[i].field+"/"+muts[i].label+" & "+muts[j].field+"/"+muts[j].label, pairClass(&bad, muts[i].field, muts[j].field), t, false, &st)
				}
			})
		}
	}
	// signature entries: every byte of every signature (xor 1 and xor 0x80), length changes, the malleable
	// twin S+L, address changes, list structure
	nsig := len(base.Signatures)
	for s := 0; s < nsig; s++ {
		s := s
		sl := len(base.Signatures[s].Signature)
		for off := 0; off < sl; off++ {
			off := off
			for _, x := range []byte{0x01, 0x80} {
				x := x
				jobs = append(jobs, func() {
					t := fresh()
					t.Signatures[s].Signature[off] ^= x
					evalMST(r, fmt.Sprintf("signature[%d] byte %d ^ %#x", s, off, x), "signature-byte", t, false, &st)
				})
			}
		}
		jobs = append(jobs, func() {
			t := fresh()
			sg := t.Signatures[s].Signature
			t.Signatures[s].Signature = sg[:len(sg)-1]
			evalMST(r, fmt.Sprintf("signature[%d] truncated", s), "signature-length", t, false, &st)
		}, func() {
			t := fresh()
			t.Signatures[s].Signature = append(t.Signatures[s].Signature, 0)
			evalMST(r, fmt.Sprintf("signature[%d] extended", s), "signature-length", t, false, &st)
		}, func() {
			// S' = S + L: the other encoding of the same ed25519 signature (malleability)
			t := fresh()
			sg := t.Signatures[s].Signature
			sBytes := sg[len(sg)-32:]
			le := make([]byte, 32)
			for i := range le {
				le[i] = sBytes[31-i]
			}
			v := new(big.Int).Add(new(big.Int).SetBytes(le), edL)
			be := v.Bytes()
			if len(be) > 32 {
				return
			}
			for i := range sBytes {
				sBytes[i] = 0
			}
			for i := range be {
				sBytes[i] = be[len(be)-1-i]
			}
			evalMST(r, fmt.Sprintf("signature[%d] with S+L", s), "ed25519-malleable-S+L", t, false, &st)
		}, func() {
			t := fresh()
			t.Signatures[s].Addr = []byte(valKeys[3].PubKey().Address())
			evalMST(r, fmt.Sprintf("signature[%d] attributed to validator 3", s), "signature-address", t, false, &st)
		}, func() {
			t := fresh()
			t.Signatures[s].Addr = append([]byte{}, t.Signatures[(s+1)%nsig].Addr...)
			evalMST(r, fmt.Sprintf("signature[%d] attributed to its neighbour", s), "signature-address", t, false, &st)
		}, func() {
			t := fresh()
			t.Signatures[s].Addr = addrY[:]
			evalMST(r, fmt.Sprintf("signature[%d] attributed to a non-validator", s), "signature-address", t, false, &st)
		}, func() {
			t := fresh()
			t.Signatures = append(t.Signatures[:s], t.Signatures[s+1:]...)
			evalMST(r, fmt.Sprintf("signature[%d] dropped", s), "siglist=below-quorum", t, false, &st)
		}, func() {
			t := fresh()
			t.Signatures[s] = t.Signatures[(s+1)%nsig]
			evalMST(r, fmt.Sprintf("signature[%d] replaced by its neighbour", s), "siglist=duplicate", t, false, &st)
		}, func() {
			// a signature of the right validator over OTHER content
			t := fresh()
			other := main
			other.AccountNonce++
			t.Signatures[s] = mstSign(other, s)
			evalMST(r, fmt.Sprintf("signature[%d] made over another nonce", s), "signature-over-other-content", t, false, &st)
		})
	}
	jobs = append(jobs, func() {
		t := fresh()
		t.Signatures[0], t.Signatures[2] = t.Signatures[2], t.Signatures[0]
		evalMST(r, "reordered signatures", "siglist=reordered", t, true, &st)
	}, func() {
		t := fresh()
		t.Signatures = append(t.Signatures, mstSign(main, 3))
		evalMST(r, "fourth validator signs too", "siglist=more-than-quorum", t, true, &st)
	}, func() {
		t := fresh()
		t.Signatures = nil
		evalMST(r, "no signatures", "siglist=below-quorum", t, false, &st)
	})
	runJobs(r, jobs, pairs)
	fmt.Printf("special MultiSignAccountTx cases=%d accepted=%d rejected=%d\n", st.cases, st.accepted, st.rejected)
	r.Set("multi_sign_account_tx", map[string]int64{"cases": st.cases, "authorised": st.accepted, "refused": st.rejected, "field_mutations": int64(len(muts))})
	if st.accepted == 0 || st.rejected == 0 {
		vk.Fatalf("MultiSignAccountTx enumeration is vacuous")
	}
	return int(st.cases)
}

func runSpecialKinds(r *vk.Run) int {
	n := runCUT(r)
	n += runMST(r)
	r.Note("MultiSignAccountTx: the validators' sign bytes (GenMultiSignBytes) contain no chain parameter at all, so no input of this check can 'change the chain parameter' for that kind; recorded as an observation, not decided here")
	return n
}
