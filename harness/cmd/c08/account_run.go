package main

import (
	"fmt"
	"math/big"

	"verif/vk"

	"github.com/lianxiangcloud/linkchain/types"
)

// accountKinds: every kind with a recovered sender. The base values are chosen so that the base passes the
// real CheckBasic (it goes through the real mempool) and that every field is non-trivial.
func accountKinds() []*acctKind {
	to := addrX
	memo := []byte(`{"memo":"c08"}`)
	gas := types.CalNewAmountGas(e18(5), types.EverLiankeFee)
	ks := []*acctKind{
		kindTransaction("Transaction", false, &to, e18(5), memo, gas),
		kindTransaction("Transaction(creation)", false, nil, new(big.Int), []byte{0x60, 0x60, 0x01, 0x02}, 1000000),
		kindToken("TokenTransaction", false),
		kindUTXO("UTXOTransaction(Ain,LKC)", false, ainLKCUnsigned, nil, true, false),
		kindUTXO("UTXOTransaction(Ain,token)", false, ainTokUnsigned, nil, true, false),
	}
	if k := kindUinFeePayer(false); k != nil {
		ks = append(ks, k)
	}
	// the same signer, but the digest signed WITHOUT chain parameter (v = 27/28): observation O2
	ks = append(ks,
		kindTransaction("Transaction/unprotected", true, &to, e18(5), memo, gas),
		kindToken("TokenTransaction/unprotected", true),
		kindUTXO("UTXOTransaction(Ain,LKC)/unprotected", true, ainLKCUnsigned, nil, false, false),
	)
	return ks
}

func runAccountSide(r *vk.Run) int {
	kinds := accountKinds()
	var reps []kindReport
	total := int64(0)
	var acceptedA, other, rejected int64
	for _, k := range kinds {
		k.prepare(r)
	}
	reproduceO2(r, kinds)
	observeUnsignedRct(r)
	for _, k := range kinds {
		if r.Expired() {
			r.Capped("account side: deadline before kind " + k.name)
			break
		}
		rep := k.run(r, r.Quick())
		if !rep.Complete {
			r.Capped("account side: kind " + k.name + " not completed")
		}
		reps = append(reps, rep)
		total += rep.Cases
		acceptedA += rep.AcceptedAsA
		other += rep.AcceptedOtherSender
		rejected += rep.Rejected + rep.RejectedAtWire
		fmt.Printf("account %-40s muts=%d combos=%d sigs=%d cases=%d asA=%d other=%d rejected=%d wire-rejected=%d\n", rep.Kind, rep.FieldMutations, rep.FieldCombos, rep.SigAlternatives,
			rep.Cases, rep.AcceptedAsA, rep.AcceptedOtherSender, rep.Rejected, rep.RejectedAtWire)
	}
	r.Set("account_kinds", reps)
	r.Set("account_cases", int(total))
	r.Set("account_outcome_classes", map[string]int64{"accepted_with_signer_A": acceptedA, "accepted_with_other_sender": other, "rejected": rejected})
	if acceptedA == 0 || other == 0 || rejected == 0 {
		vk.Fatalf("account side is vacuous: outcomes A=%d other=%d rejected=%d", acceptedA, other, rejected)
	}
	return int(total)
}
