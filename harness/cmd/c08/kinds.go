package main

// The account-based transaction kinds with a recovered (secp256k1) sender: Transaction, TokenTransaction and
// UTXOTransaction with an account input (or an account-paid fee). Carriers:
//   * Transaction / TokenTransaction have private content: the carrier is a mirror struct with the same wire
//     layout (rawTx / rawTokenTx); the repository's decoder turns its bytes into the real object;
//   * UTXOTransaction has exported content: the carrier is a fresh decode of the signed base.

import (
	"fmt"
	"math/big"
	"regexp"

	"verif/vk"

	"github.com/lianxiangcloud/linkchain/libs/common"
	lk "github.com/lianxiangcloud/linkchain/libs/cryptonote/types"
	"github.com/lianxiangcloud/linkchain/libs/ser"
	"github.com/lianxiangcloud/linkchain/types"
)

// ---- mutation builders (the DESIGN's set: +1, zero, other value/address, append byte; plus structure) ----

func mutU64(field string, get func(c carrier) *uint64) []fieldMut {
	return []fieldMut{
		{field, "+1", func(c carrier) bool { *get(c)++; return true }},
		{field, "zero", func(c carrier) bool {
			p := get(c)
			if *p == 0 {
				return false
			}
			*p = 0
			return true
		}},
	}
}

func mutBig(field string, get func(c carrier) **big.Int) []fieldMut {
	return []fieldMut{
		{field, "+1", func(c carrier) bool { p := get(c); *p = new(big.Int).Add(*p, bi(1)); return true }},
		{field, "zero", func(c carrier) bool {
			p := get(c)
			if (*p).Sign() == 0 {
				return false
			}
			*p = new(big.Int)
			return true
		}},
		{field, "x256(append-byte)", func(c carrier) bool {
			p := get(c)
			if (*p).Sign() == 0 {
				return false
			}
			*p = new(big.Int).Lsh(*p, 8)
			return true
		}},
	}
}

func mutAddr(field string, get func(c carrier) *common.Address, other common.Address) []fieldMut {
	return []fieldMut{
		{field, "other-address", func(c carrier) bool {
			p := get(c)
			if *p == other {
				return false
			}
			*p = other
			return true
		}},
		{field, "zero-address", func(c carrier) bool {
			p := get(c)
			if *p == (common.Address{}) {
				return false
			}
			*p = common.Address{}
			return true
		}},
		{field, "last-byte+1", func(c carrier) bool { get(c)[common.AddressLength-1]++; return true }},
	}
}

func mutBytes(field string, get func(c carrier) *[]byte) []fieldMut {
	return []fieldMut{
		{field, "append-00", func(c carrier) bool { p := get(c); *p = append(append([]byte{}, *p...), 0); return true }},
		{field, "first-byte+1", func(c carrier) bool {
			p := get(c)
			if len(*p) == 0 {
				return false
			}
			n := append([]byte{}, *p...)
			n[0]++
			*p = n
			return true
		}},
		{field, "empty", func(c carrier) bool {
			p := get(c)
			if len(*p) == 0 {
				return false
			}
			*p = nil
			return true
		}},
		{field, "drop-last-byte", func(c carrier) bool {
			p := get(c)
			if len(*p) < 2 {
				return false
			}
			*p = append([]byte{}, (*p)[:len(*p)-1]...)
			return true
		}},
	}
}

// mutKey: 32-byte keys. other yields another VALID value of the same role (so that later checks are reached).
func mutKey(field string, get func(c carrier) *[32]byte, other func(c carrier) [32]byte) []fieldMut {
	m := []fieldMut{
		{field, "byte0^1", func(c carrier) bool { get(c)[0] ^= 1; return true }},
		{field, "byte31^0x80", func(c carrier) bool { get(c)[31] ^= 0x80; return true }},
		{field, "zero", func(c carrier) bool {
			p := get(c)
			if *p == ([32]byte{}) {
				return false
			}
			*p = [32]byte{}
			return true
		}},
	}
	if other != nil {
		m = append(m, fieldMut{field, "other-valid", func(c carrier) bool {
			p, o := get(c), other(c)
			if *p == o {
				return false
			}
			*p = o
			return true
		}})
	}
	return m
}

// safeApply applies m; a mutation whose target vanished through an earlier mutation of the same case (index out
// of range after a "drop") is not applicable.
func safeApply(m fieldMut, c carrier) (ok bool) {
	defer func() {
		if recover() != nil {
			ok = false
		}
	}()
	return m.apply(c)
}

func cat(l ...[]fieldMut) []fieldMut {
	var out []fieldMut
	for _, x := range l {
		out = append(out, x...)
	}
	return out
}

// ---- Transaction ------------------------------------------------------------------------------------------

type rawTx struct {
	Nonce   uint64
	Price   *big.Int
	Gas     uint64
	To      *common.Address `rlp:"nil"`
	Amount  *big.Int
	Payload []byte
	V, R, S *big.Int
}

func (t *rawTx) clone() *rawTx {
	c := *t
	c.Price, c.Amount = new(big.Int).Set(t.Price), new(big.Int).Set(t.Amount)
	c.V, c.R, c.S = new(big.Int).Set(t.V), new(big.Int).Set(t.R), new(big.Int).Set(t.S)
	c.Payload = append([]byte{}, t.Payload...)
	if t.To != nil {
		a := *t.To
		c.To = &a
	}
	return &c
}

func decodeTx(wire []byte) (types.Tx, error) {
	tx := new(types.Transaction)
	if err := ser.DecodeBytes(wire, tx); err != nil {
		return nil, err
	}
	return tx, nil
}

func toMuts(field string, get func(c carrier) **common.Address) []fieldMut {
	m := mutAddr(field, func(c carrier) *common.Address {
		p := get(c)
		if *p == nil {
			*p = new(common.Address)
		}
		return *p
	}, addrY)
	m = append(m, fieldMut{field, "nil(contract-creation)", func(c carrier) bool {
		p := get(c)
		if *p == nil {
			return false
		}
		*p = nil
		return true
	}})
	return m
}

// signBase fills (r,s,v) of the carrier: EIP155 form for this chain, or the unprotected form (digest without
// chain parameter, v = 27/28) when unprotected is set. The digest is the repository's own (hook VerifC08SigHash).
func signBase(k *acctKind, unsigned carrier) (r, s, v *big.Int) {
	k.setSig(unsigned, bi(0), bi(0), bi(0))
	tx, _, err := k.build(unsigned)
	if err != nil {
		vk.Fatalf("%s: unsigned base: %v", k.name, err)
	}
	var signer types.STDSigner = types.GlobalSTDSigner
	if k.unprotected {
		signer = types.STDHomesteadSigner{}
	}
	h, ok := types.VerifC08SigHash(tx, signer)
	if !ok {
		vk.Fatalf("%s: no signing digest", k.name)
	}
	r, s, rec := signDigest(h, keyA)
	if k.unprotected {
		return r, s, bi(27 + rec)
	}
	return r, s, vProt(chainC, rec)
}

func kindTransaction(name string, unprotected bool, to *common.Address, amount *big.Int, payload []byte, gas uint64) *acctKind {
	base := &rawTx{Nonce: 7, Price: bi(types.ParGasPrice), Gas: gas, To: to, Amount: amount, Payload: payload, V: bi(0), R: bi(0), S: bi(0)}
	g := func(c carrier) *rawTx { return c.(*rawTx) }
	k := &acctKind{name: name, via: "txdata", unprotected: unprotected, checkBasic: !unprotected, pairs: !unprotected,
		setSig: func(c carrier, r, s, v *big.Int) { g(c).R, g(c).S, g(c).V = r, s, v },
		encode: func(c carrier) ([]byte, error) { return ser.EncodeToBytes(g(c)) },
		decode: decodeTx,
		sender: func(tx types.Tx, sg types.STDSigner) (common.Address, error) {
			return tx.(*types.Transaction).Sender(sg)
		},
	}
	k.muts = cat(
		mutU64("AccountNonce", func(c carrier) *uint64 { return &g(c).Nonce }),
		mutBig("Price", func(c carrier) **big.Int { return &g(c).Price }),
		mutU64("GasLimit", func(c carrier) *uint64 { return &g(c).Gas }),
		mutBig("Amount", func(c carrier) **big.Int { return &g(c).Amount }),
		mutBytes("Payload", func(c carrier) *[]byte { return &g(c).Payload }),
	)
	if to != nil {
		k.muts = append(k.muts, toMuts("Recipient", func(c carrier) **common.Address { return &g(c).To })...)
	} else {
		k.muts = append(k.muts, fieldMut{"Recipient", "nil->address", func(c carrier) bool { a := addrY; g(c).To = &a; return true }},
			fieldMut{"Recipient", "nil->zero-address", func(c carrier) bool { g(c).To = new(common.Address); return true }})
	}
	k.r0, k.s0, k.v0 = signBase(k, base.clone())
	base.R, base.S, base.V = k.r0, k.s0, k.v0
	k.base = func() carrier { return base.clone() }
	return k
}

// ---- TokenTransaction ---------------------------------------------------------------------------------------

type rawSig struct{ V, R, S *big.Int }

type rawTokenTx struct {
	Token   common.Address
	Nonce   uint64
	Price   *big.Int
	Gas     uint64
	To      *common.Address `rlp:"nil"`
	Amount  *big.Int
	Payload []byte
	Sig     rawSig
}

func (t *rawTokenTx) clone() *rawTokenTx {
	c := *t
	c.Price, c.Amount = new(big.Int).Set(t.Price), new(big.Int).Set(t.Amount)
	c.Sig = rawSig{new(big.Int).Set(t.Sig.V), new(big.Int).Set(t.Sig.R), new(big.Int).Set(t.Sig.S)}
	c.Payload = append([]byte{}, t.Payload...)
	if t.To != nil {
		a := *t.To
		c.To = &a
	}
	return &c
}

func kindToken(name string, unprotected bool) *acctKind {
	to := addrX
	base := &rawTokenTx{Token: addrTok, Nonce: 7, Price: bi(types.ParGasPrice), Gas: uint64(types.MinGasLimit), To: &to, Amount: e18(5), Payload: []byte(`{"memo":"c08"}`),
		Sig: rawSig{bi(0), bi(0), bi(0)}}
	g := func(c carrier) *rawTokenTx { return c.(*rawTokenTx) }
	k := &acctKind{name: name, via: "signdata", unprotected: unprotected, checkBasic: !unprotected, pairs: !unprotected,
		setSig: func(c carrier, r, s, v *big.Int) { g(c).Sig = rawSig{v, r, s} },
		encode: func(c carrier) ([]byte, error) { return ser.EncodeToBytes(g(c)) },
		decode: func(wire []byte) (types.Tx, error) {
			tx := new(types.TokenTransaction)
			if err := ser.DecodeBytes(wire, tx); err != nil {
				return nil, err
			}
			return tx, nil
		},
		sender: func(tx types.Tx, sg types.STDSigner) (common.Address, error) {
			return tx.(*types.TokenTransaction).Sender(sg)
		},
	}
	k.muts = cat(
		mutAddr("TokenAddress", func(c carrier) *common.Address { return &g(c).Token }, addrTok2),
		mutU64("AccountNonce", func(c carrier) *uint64 { return &g(c).Nonce }),
		mutBig("Price", func(c carrier) **big.Int { return &g(c).Price }),
		mutU64("GasLimit", func(c carrier) *uint64 { return &g(c).Gas }),
		toMuts("Recipient", func(c carrier) **common.Address { return &g(c).To }),
		mutBig("Amount", func(c carrier) **big.Int { return &g(c).Amount }),
		mutBytes("Payload", func(c carrier) *[]byte { return &g(c).Payload }),
	)
	k.r0, k.s0, k.v0 = signBase(k, base.clone())
	base.Sig = rawSig{k.v0, k.r0, k.s0}
	k.base = func() carrier { return base.clone() }
	return k
}

// ---- UTXOTransaction (account input / account-paid fee) --------------------------------------------------------

func decodeUTXO(wire []byte) (*types.UTXOTransaction, error) {
	tx := new(types.UTXOTransaction)
	if err := ser.DecodeBytes(wire, tx); err != nil {
		return nil, err
	}
	return tx, nil
}

func mustDecodeUTXO(wire []byte) *types.UTXOTransaction {
	tx, err := decodeUTXO(wire)
	if err != nil {
		vk.Fatalf("decode utxo transaction: %v", err)
	}
	return tx
}

func mustEncode(v interface{}) []byte {
	b, err := ser.EncodeToBytes(v)
	if err != nil {
		vk.Fatalf("encode: %v", err)
	}
	return b
}

// payloadMutsUTXO: every field the account signature and the ring-signature message are meant to cover
// (inputs, outputs, token, R-keys, fee, extra); shared by the account side and by the binding enumeration
// of the confidential side. proto is only inspected for its shape.
func payloadMutsUTXO(proto *types.UTXOTransaction) []fieldMut {
	g := func(c carrier) *types.UTXOTransaction { return c.(*types.UTXOTransaction) }
	k32 := func(p interface{}) *[32]byte {
		switch x := p.(type) {
		case *lk.Key:
			return (*[32]byte)(x)
		case *lk.PublicKey:
			return (*[32]byte)(x)
		}
		panic("k32")
	}
	var m []fieldMut
	nUout := 0
	for i := range proto.Inputs {
		i := i
		f := fmt.Sprintf("Inputs[%d]", i)
		switch proto.Inputs[i].(type) {
		case *types.AccountInput:
			in := func(c carrier) *types.AccountInput { return g(c).Inputs[i].(*types.AccountInput) }
			m = append(m, mutU64(f+".Nonce", func(c carrier) *uint64 { return &in(c).Nonce })...)
			m = append(m, mutBig(f+".Amount", func(c carrier) **big.Int { return &in(c).Amount })...)
			m = append(m, fieldMut{f + ".Amount", "+1unit", func(c carrier) bool {
				in(c).Amount = new(big.Int).Add(in(c).Amount, bi(types.UTXO_COMMITMENT_CHANGE_RATE))
				return true
			}})
			m = append(m, mutKey(f+".CF", func(c carrier) *[32]byte { return k32(&in(c).CF) }, nil)...)
			m = append(m, mutKey(f+".Commit", func(c carrier) *[32]byte { return k32(&in(c).Commit) }, func(c carrier) [32]byte { return [32]byte(g(c).RKey) })...)
		case *types.UTXOInput:
			in := func(c carrier) *types.UTXOInput { return g(c).Inputs[i].(*types.UTXOInput) }
			m = append(m, mutKey(f+".KeyImage", func(c carrier) *[32]byte { return k32(&in(c).KeyImage) }, func(c carrier) [32]byte { return otherKeyImage })...)
			for j := range proto.Inputs[i].(*types.UTXOInput).KeyOffset {
				j := j
				m = append(m, fieldMut{fmt.Sprintf("%s.KeyOffset[%d]", f, j), "+1", func(c carrier) bool { in(c).KeyOffset[j]++; return true }})
			}
			m = append(m, fieldMut{f + ".KeyOffset", "drop-last", func(c carrier) bool {
				if len(in(c).KeyOffset) < 2 {
					return false
				}
				in(c).KeyOffset = in(c).KeyOffset[:len(in(c).KeyOffset)-1]
				return true
			}}, fieldMut{f + ".KeyOffset", "append-1", func(c carrier) bool { in(c).KeyOffset = append(in(c).KeyOffset, 1); return true }})
		}
	}
	if len(proto.Inputs) > 1 {
		m = append(m, fieldMut{"Inputs", "swap-0-1", func(c carrier) bool { t := g(c); t.Inputs[0], t.Inputs[1] = t.Inputs[1], t.Inputs[0]; return true }})
	}
	m = append(m, fieldMut{"Inputs", "duplicate-last", func(c carrier) bool { t := g(c); t.Inputs = append(t.Inputs, t.Inputs[len(t.Inputs)-1]); return true }})
	if len(proto.Inputs) > 1 {
		m = append(m, fieldMut{"Inputs", "drop-last", func(c carrier) bool { t := g(c); t.Inputs = t.Inputs[:len(t.Inputs)-1]; return true }})
	}
	for i := range proto.Outputs {
		i := i
		f := fmt.Sprintf("Outputs[%d]", i)
		switch proto.Outputs[i].(type) {
		case *types.UTXOOutput:
			nUout++
			o := func(c carrier) *types.UTXOOutput { return g(c).Outputs[i].(*types.UTXOOutput) }
			m = append(m, mutKey(f+".OTAddr", func(c carrier) *[32]byte { return k32(&o(c).OTAddr) }, func(c carrier) [32]byte { return [32]byte(g(c).RKey) })...)
			m = append(m, fieldMut{f + ".Amount", "+1", func(c carrier) bool { o(c).Amount = new(big.Int).Add(o(c).Amount, bi(1)); return true }},
				fieldMut{f + ".Amount", "=10^10", func(c carrier) bool { o(c).Amount = bi(types.UTXO_COMMITMENT_CHANGE_RATE); return true }})
			m = append(m, fieldMut{f + ".Remark", "byte0^1", func(c carrier) bool { o(c).Remark[0] ^= 1; return true }},
				fieldMut{f + ".Remark", "zero", func(c carrier) bool {
					if o(c).Remark == ([32]byte{}) {
						return false
					}
					o(c).Remark = [32]byte{}
					return true
				}})
		case *types.AccountOutput:
			o := func(c carrier) *types.AccountOutput { return g(c).Outputs[i].(*types.AccountOutput) }
			m = append(m, mutAddr(f+".To", func(c carrier) *common.Address { return &o(c).To }, addrY)...)
			m = append(m, mutBig(f+".Amount", func(c carrier) **big.Int { return &o(c).Amount })...)
			m = append(m, fieldMut{f + ".Amount", "+1unit", func(c carrier) bool {
				o(c).Amount = new(big.Int).Add(o(c).Amount, bi(types.UTXO_COMMITMENT_CHANGE_RATE))
				return true
			}})
			m = append(m, mutBytes(f+".Data", func(c carrier) *[]byte { return &o(c).Data })...)
			m = append(m, mutKey(f+".Commit", func(c carrier) *[32]byte { return k32(&o(c).Commit) }, func(c carrier) [32]byte { return [32]byte(g(c).RKey) })...)
		}
	}
	if len(proto.Outputs) > 1 {
		m = append(m, fieldMut{"Outputs", "swap-0-1", func(c carrier) bool { t := g(c); t.Outputs[0], t.Outputs[1] = t.Outputs[1], t.Outputs[0]; return true }},
			fieldMut{"Outputs", "drop-last", func(c carrier) bool { t := g(c); t.Outputs = t.Outputs[:len(t.Outputs)-1]; return true }})
	}
	m = append(m, fieldMut{"Outputs", "duplicate-last", func(c carrier) bool {
		t := g(c)
		t.Outputs = append(t.Outputs, t.Outputs[len(t.Outputs)-1])
		return true
	}})
	m = append(m, mutAddr("TokenID", func(c carrier) *common.Address { return &g(c).TokenID }, addrTok2)...)
	m = append(m, mutKey("RKey", func(c carrier) *[32]byte { return k32(&g(c).RKey) }, func(c carrier) [32]byte { return [32]byte(g(c).AddKeys[0]) })...)
	for i := range proto.AddKeys {
		i := i
		m = append(m, mutKey(fmt.Sprintf("AddKeys[%d]", i), func(c carrier) *[32]byte { return k32(&g(c).AddKeys[i]) }, func(c carrier) [32]byte { return [32]byte(g(c).RKey) })...)
	}
	m = append(m, fieldMut{"AddKeys", "drop-last", func(c carrier) bool {
		t := g(c)
		if len(t.AddKeys) == 0 {
			return false
		}
		t.AddKeys = t.AddKeys[:len(t.AddKeys)-1]
		return true
	}}, fieldMut{"AddKeys", "append-RKey", func(c carrier) bool { t := g(c); t.AddKeys = append(t.AddKeys, t.RKey); return true }})
	if len(proto.AddKeys) > 1 {
		m = append(m, fieldMut{"AddKeys", "swap-0-1", func(c carrier) bool { t := g(c); t.AddKeys[0], t.AddKeys[1] = t.AddKeys[1], t.AddKeys[0]; return true }})
	}
	m = append(m, mutBig("Fee", func(c carrier) **big.Int { return &g(c).Fee })...)
	m = append(m, fieldMut{"Fee", "+1gas", func(c carrier) bool { g(c).Fee = new(big.Int).Add(g(c).Fee, bi(types.ParGasPrice)); return true }})
	m = append(m, mutBytes("Extra", func(c carrier) *[]byte { return &g(c).Extra })...)
	_ = nUout
	return m
}

// otherKeyImage: a valid key image (prime-order point) that belongs to another output; set by the
// confidential fixture.
var otherKeyImage [32]byte

// kindUTXO wraps a signed-by-A confidential transaction. unsignedWire: the transaction before the account
// signature (RCT part complete when it does not depend on the signature).
func kindUTXO(name string, unprotected bool, unsignedWire []byte, finish func(tx *types.UTXOTransaction), checkBasic, twinOnHit bool) *acctKind {
	g := func(c carrier) *types.UTXOTransaction { return c.(*types.UTXOTransaction) }
	k := &acctKind{name: name, via: "signdata", unprotected: unprotected, checkBasic: checkBasic, pairs: !unprotected, twinOnHit: twinOnHit, heavy: true,
		setSig: func(c carrier, r, s, v *big.Int) { g(c).Sigs.R, g(c).Sigs.S, g(c).Sigs.V = r, s, v },
		encode: func(c carrier) ([]byte, error) { return ser.EncodeToBytes(g(c)) },
		decode: func(wire []byte) (types.Tx, error) {
			tx, err := decodeUTXO(wire)
			if err != nil {
				return nil, err
			}
			return tx, nil
		},
		sender: func(tx types.Tx, sg types.STDSigner) (common.Address, error) {
			return tx.(*types.UTXOTransaction).Sender(sg)
		},
	}
	proto := mustDecodeUTXO(unsignedWire)
	k.muts = payloadMutsUTXO(proto)
	k.r0, k.s0, k.v0 = signBase(k, mustDecodeUTXO(unsignedWire))
	signed := mustDecodeUTXO(unsignedWire)
	signed.Sigs.R, signed.Sigs.S, signed.Sigs.V = k.r0, k.s0, k.v0
	if finish != nil {
		finish(signed) // ring signatures are made over a message that includes the account signature
	}
	signedWire := mustEncode(signed)
	k.base = func() carrier { return mustDecodeUTXO(signedWire) }
	return k
}

var indexRe = regexp.MustCompile(`\[\d+\]`)

func encodeUTXO(tx *types.UTXOTransaction) ([]byte, error) { return ser.EncodeToBytes(tx) }
