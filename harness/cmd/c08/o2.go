package main

// Observation O2 of the DESIGN, reproduced precisely and decided.
//
// STDEIP155Signer.Sender hands every signature with v = 27/28 to STDHomesteadSigner, whose digest is
// rlpHash(signFields) WITHOUT the chain parameter. The statement of C08 says the charged sender is the holder of the
// key "that signed exactly those fields FOR THIS CHAIN" and that changing "the chain parameter ... yields a different
// sender or a rejection". For such a signature neither holds: the same bytes are accepted, with the same sender,
// by the signer of every chain parameter (main net 29153, test net 29154, 0, ...). Decision: VIOLATION of the
// statement (key keyO2). Nothing in the repository produces such signatures (SignatureValues always yields
// 35+2c+{0,1} because SignParam != 0), so refusing them costs nothing.

import (
	"fmt"

	"verif/vk"

	"github.com/lianxiangcloud/linkchain/types"
)

func reproduceO2(r *vk.Run, kinds []*acctKind) {
	for _, k := range kinds {
		if !k.unprotected {
			continue
		}
		var accepted []string
		for _, ch := range chainSet() {
			tx, _, err := k.build(k.base())
			if err != nil {
				vk.Fatalf("O2: %v", err)
			}
			from, err := k.senderOf(tx, signerFor(ch.c))
			if err == nil && from == addrA {
				accepted = append(accepted, fmt.Sprintf("%s=%v", ch.name, ch.c))
			}
		}
		r.Set("O2_"+k.name, map[string]interface{}{"signed_digest": "rlpHash(signFields), no chain parameter", "v": k.v0.String(), "accepted_with_sender_A_under_chain_parameters": accepted})
		if len(accepted) > 0 {
			r.Violation(keyO2, fmt.Sprintf("%s: A signs the digest WITHOUT chain parameter (v=%v); the very same bytes are accepted with sender A by the chain's signer under chain parameters %v (From()/GlobalSTDSigner included): the sender did not sign for this chain, and changing the chain parameter changes nothing",
				k.name, k.v0, accepted), replay{"kind": k.name, "wire": hexb(k.baseWire), "A": addrA.Hex(), "accepted_under": accepted,
				"reproduce": "h := STDHomesteadSigner{}.Hash(tx); sig := crypto.Sign(h, keyA); tx.WithSignature(STDHomesteadSigner{}, sig); tx.Sender(MakeSTDSigner(29153)) == tx.Sender(MakeSTDSigner(29154)) == A"})
		}
	}
	_ = types.SignParam
}

// observeUnsignedRct: recorded, NOT part of the statement (the statement speaks of "any signed field"): for a
// transaction with an account input and no confidential input, nothing signs the RCT part (EcdhInfo, OutPk,
// range proof): a relay can replace the encrypted amount of an output; sender, validity and charge are unchanged,
// only the transaction hash changes, and the recipient can no longer decode the output.
func observeUnsignedRct(r *vk.Run) {
	tx := mustDecodeUTXO(signA(ainLKCUnsigned))
	h0 := tx.Hash()
	m := mustDecodeUTXO(signA(ainLKCUnsigned))
	m.RCTSig.EcdhInfo[0].Amount[0] ^= 1
	m2 := mustDecodeUTXO(mustEncode(m))
	err := m2.CheckBasic(theCensor)
	from, ferr := m2.From()
	acc := wallets[0]
	sr := scanOne(acc.GetKeys(), acc.KeyIndex, m2, 0)
	r.Set("observation_unsigned_rct_part", map[string]interface{}{"mutation": "RCTSig.EcdhInfo[0].Amount byte0^1 on Ain->Uout", "CheckBasic_error": fmt.Sprint(err), "sender_still_A": ferr == nil && from == addrA,
		"hash_changed": m2.Hash() != h0, "recipient_recognises": sr.recognised, "recipient_decodes_amount_opening_commitment": sr.opens})
	if err == nil && ferr == nil && from == addrA {
		r.Note("observation (outside the statement): the RCT part (EcdhInfo/OutPk/range proof) of an account-input confidential transaction is not covered by the account signature and there is no ring signature; a relay can corrupt the encrypted amount without invalidating the transaction (recipient recognises the output: %v, can decode it: %v)", sr.recognised, sr.opens)
	}
}
