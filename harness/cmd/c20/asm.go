package main

import (
	"encoding/hex"
	"strings"

	"github.com/lianxiangcloud/linkchain/libs/common"
	"github.com/lianxiangcloud/linkchain/vm/evm"
)

// ---- tiny assembler ----

func op(o evm.OpCode) []byte { return []byte{byte(o)} }

func push1(b byte) []byte { return []byte{byte(evm.PUSH1), b} }

// pushN pushes the big-endian bytes v with the shortest PUSHn (v non-empty, <= 32 bytes).
func pushN(v []byte) []byte {
	if len(v) == 0 || len(v) > 32 {
		panic("pushN")
	}
	return append([]byte{byte(evm.PUSH1) + byte(len(v)-1)}, v...)
}

func pushAddr(a common.Address) []byte { return pushN(a.Bytes()) }

func cat(parts ...[]byte) []byte {
	var out []byte
	for _, p := range parts {
		out = append(out, p...)
	}
	return out
}

// ---- instructions of the program alphabet ----

// instr is one symbol of a program alphabet: a name and the bytes it assembles to. Plain symbols are a
// single opcode (or PUSH1 x); macro symbols push their own operands first, so that operations with many
// operands (calls, create) are reachable by short programs.
type instr struct {
	name string
	code []byte
}

func (i instr) String() string { return i.name }

type program []instr

func (p program) bytes() []byte {
	var out []byte
	for _, i := range p {
		out = append(out, i.code...)
	}
	return out
}

func (p program) String() string {
	names := make([]string, len(p))
	for i, in := range p {
		names[i] = in.name
	}
	return strings.Join(names, " ")
}

func hx(b []byte) string { return hex.EncodeToString(b) }

// gas operand modes of a call macro
const (
	gasAll   = iota // GAS opcode: "all I have" (the 63/64 rule caps it)
	gasZero         // 0: only the stipend (if value > 0)
	gasSmall        // 0xff: not enough for a storage write
)

var gasModeName = []string{"all", "0", "255"}

// callMacro assembles  <retSize=0x20> <retOff=0> <inSize=0> <inOff=0> [value] <addr> <gas> OP.
// target == nil means ADDRESS (the executing account itself).
func callMacro(kind evm.OpCode, target *common.Address, value byte, gasMode int) []byte {
	var b []byte
	b = append(b, push1(0x20)...) // retSize
	b = append(b, push1(0)...)    // retOffset
	b = append(b, push1(0)...)    // inSize
	b = append(b, push1(0)...)    // inOffset
	if kind == evm.CALL || kind == evm.CALLCODE {
		b = append(b, push1(value)...)
	}
	if target == nil {
		b = append(b, byte(evm.ADDRESS))
	} else {
		b = append(b, pushAddr(*target)...)
	}
	switch gasMode {
	case gasAll:
		b = append(b, byte(evm.GAS))
	case gasZero:
		b = append(b, push1(0)...)
	case gasSmall:
		b = append(b, push1(0xff)...)
	}
	return append(b, byte(kind))
}

// createMacro stores initcode (<= 32 bytes) at memory 0 and CREATEs with it:
// PUSHn initcode; PUSH1 0; MSTORE; PUSH1 len; PUSH1 32-len; PUSH1 value; CREATE
func createMacro(initcode []byte, value byte) []byte {
	if len(initcode) == 0 {
		return cat(push1(0), push1(0), push1(value), op(evm.CREATE))
	}
	return cat(pushN(initcode), push1(0), op(evm.MSTORE), push1(byte(len(initcode))), push1(byte(32-len(initcode))), push1(value), op(evm.CREATE))
}

func create2Macro(initcode []byte, value byte, salt byte) []byte {
	return cat(pushN(initcode), push1(0), op(evm.MSTORE), push1(salt), push1(byte(len(initcode))), push1(byte(32-len(initcode))), push1(value), op(evm.CREATE2))
}

var max256 = func() []byte {
	b := make([]byte, 32)
	for i := range b {
		b[i] = 0xff
	}
	return b
}()

// opINVALID is the designated invalid instruction (0xfe); the repository has no constant for it.
const opINVALID = evm.OpCode(0xfe)
