package main

import (
	"fmt"
	"math/big"
	"strings"
	"time"

	"github.com/lianxiangcloud/linkchain/libs/common"
	"github.com/lianxiangcloud/linkchain/state"
	"github.com/lianxiangcloud/linkchain/types"
	"github.com/lianxiangcloud/linkchain/vm/evm"
)

// probe is the observation layer of the instrumented run: a types.StateDB that forwards every call to the
// real *state.StateDB and
//   - dumps the world (every state object in memory, as a delta against the pre-state) at every Snapshot()
//     and compares it with the world right after the matching RevertToSnapshot(): a frame that fails must
//     leave nothing behind,
//   - together with the tracer, checks that a frame which ended with an interpreter error was reverted at all.
type probe struct {
	*state.StateDB
	ref *state.StateDB // untouched twin at the same pre-state
	vm  *evm.EVM

	recs   []snapRec
	nsnap  int
	failed map[int]string
	lastOp map[int]evm.OpCode
	viols  [][2]string

	steps, budget uint64
	exceeded      bool
	// steps executed inside a UTXO change-rate query (EVM.GetUTXOChangeRate: a STATICCALL from the zero address
	// that the interpreter issues itself after a frame that executed ISSUE). They are counted apart from the
	// steps the program pays for, so that work done on the query's own gas gets its own violation key.
	rqSteps, rqBudget uint64
	rqDepth           int
	rqExceeded        bool
	maxDepth          int
	nframes           int
	nreverts          int
	ndumps            int

	curOp  evm.OpCode // the operation being executed (the last one traced)
	curSet bool

	depth2Err string // error of the last frame at depth 2 that failed (layer F: how the child failed)

	// jump-validity reference (see jumpref.go)
	pendJump      map[int]*jumpPend // depth -> JUMP/JUMPI that has been traced and whose verdict is not known yet
	zeroJumpers   map[string]bool   // distinct codes that ran with a zero CodeHash and executed a jump
	curShared     bool              // the operation being executed is a jump in zero-hash code after another zero-hash code jumped
	refCode       []byte            // cache of the last fresh analysis
	refData       []bool
	pending       []pendingTrim
	ghostRecords  int    // observation (not judged): balance records of a reverted nested frame that survive in EVM.GetOTxs()
	ghostOpener   string // what opened the first such frame
	firstID       int    // id of the first snapshot of the run (the outermost frame's)
	firstReverted bool   // ... and whether it was reverted
}

type snapRec struct {
	id     int
	depth  int // depth of the frame this snapshot protects
	d      *delta
	otxLen int // number of balance records when the snapshot was taken
}

// pendingTrim: a nested frame was reverted; when its caller continues, the balance records the frame emitted
// should be gone as well (observation only, see ghostRecords).
type pendingTrim struct {
	depth  int
	otxLen int
	opener string
}

func newProbe(st, ref *state.StateDB, budget, rqBudget uint64) *probe {
	return &probe{StateDB: st, ref: ref, failed: map[int]string{}, lastOp: map[int]evm.OpCode{}, budget: budget, rqBudget: rqBudget}
}

func (p *probe) violation(key, what string) {
	for _, v := range p.viols {
		if v[0] == key {
			return
		}
	}
	p.viols = append(p.viols, [2]string{key, what})
}

// ---- frame-level atomicity ----

// dumpDepthLimit bounds the depth up to which the world is dumped at frame entry (a 1024-deep recursion
// would otherwise dump it 1024 times); deeper frames are still checked for "failed => reverted".
const dumpDepthLimit = 8

// dumpCountLimit bounds the number of frames per run whose entry world is dumped (a program that calls itself
// twice per frame opens thousands of frames); later frames are still checked for "failed => reverted".
const dumpCountLimit = 48

func (p *probe) Snapshot() int {
	id := p.StateDB.Snapshot()
	p.nsnap++
	p.nframes++
	if p.nsnap == 1 {
		p.firstID = id
	}
	rec := snapRec{id: id, depth: p.vm.VerifDepth() + 1, otxLen: len(p.vm.GetOTxs())}
	if rec.depth > p.maxDepth {
		p.maxDepth = rec.depth
	}
	// The outermost snapshot is covered by the top-level oracle (delta against the pre-state must be empty,
	// root must be the pre-state root); dumping it again here would only repeat that work for every program.
	if !(p.nsnap == 1 && rec.depth == 1) && rec.depth <= dumpDepthLimit && p.ndumps < dumpCountLimit {
		rec.d = takeDelta(p.StateDB, p.ref)
		p.ndumps++
	}
	p.recs = append(p.recs, rec)
	return id
}

func (p *probe) RevertToSnapshot(id int) {
	p.StateDB.RevertToSnapshot(id)
	p.nreverts++
	if p.nsnap > 0 && id == p.firstID {
		p.firstReverted = true
	}
	idx := -1
	for i := len(p.recs) - 1; i >= 0; i-- {
		if p.recs[i].id == id {
			idx = i
			break
		}
	}
	if idx < 0 {
		p.violation("revert-of-unknown-snapshot", fmt.Sprintf("RevertToSnapshot(%d) without a matching Snapshot()", id))
		return
	}
	rec := p.recs[idx]
	p.recs = p.recs[:idx]
	delete(p.failed, rec.depth)
	if rec.depth > 1 {
		p.pending = append(p.pending, pendingTrim{rec.depth, rec.otxLen, p.opener(rec.depth)})
	}
	if rec.d == nil {
		return
	}
	after := takeDelta(p.StateDB, p.ref)
	if cl, det := rec.d.diff(after); len(cl) > 0 {
		for _, c := range residueClasses(cl) {
			p.violation("failed-frame-leaves-state:"+c,
				fmt.Sprintf("frame at depth %d (opened by %s) failed and was reverted, but the world (first = at its Snapshot, second = after RevertToSnapshot; both as differences to the pre-state) differs: %s",
					rec.depth, p.opener(rec.depth), det))
		}
	}
}

// opener names what opened the frame at the given depth.
func (p *probe) opener(depth int) string {
	if depth <= 1 {
		return "entry"
	}
	return p.lastOp[depth-1].String()
}

// residueClasses: one violation key per kind of residue. The "credits" counter moves with every balance
// change, so it is only named when it is the only thing left behind.
func residueClasses(cl []string) []string {
	var out []string
	hasBal := false
	for _, c := range cl {
		if c == "balance" || c == "token-balance" {
			hasBal = true
		}
	}
	for _, c := range cl {
		if c == "credits" && hasBal {
			continue
		}
		out = append(out, c)
	}
	return out
}

// ---- tracer ----

func (p *probe) frameFailed(depth int, err error) {
	if depth == 2 {
		p.depth2Err = err.Error()
	}
	p.failed[depth] = err.Error()
}

// resumeAt: an operation executes at depth d, hence every deeper frame has ended.
func (p *probe) resumeAt(d int) {
	for k, e := range p.failed {
		if k > d {
			p.violation("failed-frame-not-reverted:"+p.opener(k),
				fmt.Sprintf("frame at depth %d opened by %s ended with %q but no RevertToSnapshot followed before the caller continued", k, p.opener(k), e))
			delete(p.failed, k)
		}
	}
	for len(p.recs) > 0 && p.recs[len(p.recs)-1].depth > d {
		p.recs = p.recs[:len(p.recs)-1]
	}
	if len(p.pending) > 0 {
		keep := p.pending[:0]
		n := len(p.vm.GetOTxs())
		for _, t := range p.pending {
			if t.depth <= d {
				keep = append(keep, t)
				continue
			}
			if n > t.otxLen {
				if p.ghostRecords == 0 {
					p.ghostOpener = t.opener
				}
				p.ghostRecords++
			}
		}
		p.pending = keep
	}
}

func (p *probe) finish() {
	p.resumeAt(0)
}

func (p *probe) CaptureStart(from common.Address, to common.Address, call bool, input []byte, gas uint64, value *big.Int) error {
	return nil
}

func (p *probe) CaptureEnd(output []byte, gasUsed uint64, t time.Duration, err error) error {
	return nil
}

func (p *probe) CaptureState(env *evm.EVM, pc uint64, op evm.OpCode, gas, cost uint64, memory *evm.Memory, stack *evm.Stack, contract *evm.Contract, depth int, err error) error {
	// inside a rate query? (the top-level caller is never the zero address, and no code lives at it)
	if contract.CallerAddress == (common.Address{}) {
		if p.rqDepth == 0 || depth < p.rqDepth {
			p.rqDepth = depth
		}
	} else if p.rqDepth != 0 && depth <= p.rqDepth {
		p.rqDepth = 0
	}
	if p.rqDepth != 0 && depth >= p.rqDepth {
		p.rqSteps++
		if p.rqSteps > p.rqBudget && !p.rqExceeded {
			p.rqExceeded = true
			env.Cancel()
		}
	} else {
		p.steps++
		if p.steps > p.budget && !p.exceeded {
			p.exceeded = true
			env.Cancel()
		}
	}
	if err != nil {
		// deferred report: the operation failed validation / gas charging before it was logged; a jump that
		// was pending at this depth has therefore been accepted
		p.settleJump(depth, pc, true)
		p.frameFailed(depth, err)
		return nil
	}
	p.settleJump(depth, pc, true)
	p.resumeAt(depth)
	p.lastOp[depth] = op
	p.curOp, p.curSet, p.curShared = op, true, false
	if op == evm.JUMP || op == evm.JUMPI {
		p.traceJump(op, pc, stack, contract, depth)
	}
	return nil
}

func (p *probe) CaptureFault(env *evm.EVM, pc uint64, op evm.OpCode, gas, cost uint64, memory *evm.Memory, stack *evm.Stack, contract *evm.Contract, depth int, err error) error {
	p.settleJump(depth, pc, !strings.HasPrefix(err.Error(), "invalid jump destination"))
	p.frameFailed(depth, err)
	return nil
}

var _ types.StateDB = (*probe)(nil)
var _ evm.Tracer = (*probe)(nil)
