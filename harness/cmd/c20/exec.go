package main

import (
	"bytes"
	"fmt"
	"math/big"
	"strings"
	"sync/atomic"
	"time"

	"verif/vk"

	"github.com/lianxiangcloud/linkchain/libs/common"
	"github.com/lianxiangcloud/linkchain/state"
	"github.com/lianxiangcloud/linkchain/types"
	"github.com/lianxiangcloud/linkchain/vm/evm"
)

// ---- how a program is entered ----

type entryKind int

const (
	entCall      entryKind = iota // evm.Call from the origin account, value in LKC
	entUTXOCall                   // evm.UTXOCall: the way app/state_transition.go enters a contract (value already debited)
	entCreate                     // evm.Create: the program is init code (the way state_transition deploys)
	entStatic                     // evm.StaticCall
	entTokenCall                  // evm.Call carrying token aTkn instead of LKC
)

var entryName = []string{"Call", "UTXOCall", "Create", "StaticCall", "TokenCall"}

type config struct {
	entry entryKind
	gas   uint64
	value int64
	input []byte
	to    *common.Address // nil: the program account aSelf; otherwise the entry goes straight to this account (layer P)
}

func (c config) String() string {
	s := fmt.Sprintf("%s gas=%d value=%d", entryName[c.entry], c.gas, c.value)
	if len(c.input) > 0 {
		s += " input=" + hx(c.input)
	}
	if c.to != nil {
		s += " to=" + nameOf(*c.to)
	}
	return s
}

var coinbase = addr("0xc01bba5e00000000000000000000000000000000")

func newEVM(st types.StateDB, c config, tr evm.Tracer) *evm.EVM {
	ctx := evm.Context{
		CanTransfer: evm.CanTransfer, Transfer: evm.Transfer, UnsafeTransfer: evm.UnsafeTransfer,
		GetHash:     func(uint64) common.Hash { return common.EmptyHash },
		Origin:      aOrigin,
		Coinbase:    coinbase,
		BlockNumber: big.NewInt(10),
		Time:        big.NewInt(1000),
		Difficulty:  big.NewInt(1),
		GasLimit:    100000000,
		GasPrice:    big.NewInt(1),
	}
	if c.entry == entTokenCall {
		ctx.Token = aTkn
	}
	vmc := evm.Config{}
	if tr != nil {
		vmc.Debug = true
		vmc.Tracer = tr
	}
	return evm.NewEVM(ctx, st, vmc)
}

// ---- one run ----

type result struct {
	panicked bool
	panicVal string
	canceled bool // the watchdog or the step budget aborted the run: nothing else is meaningful

	ret        []byte
	left       uint64
	bcg        uint64
	err        string
	created    common.Address
	refundFee  uint64 // what state_transition adds back to the gas on success
	refundAll  uint64 // ... and on failure
	otxs       string
	post       *delta // difference of the final world to the pre-state (explicit dump of every loaded object)
	preRoot    common.Hash
	root       common.Hash
	stateError string

	// instrumented run only
	notReverted bool   // the outermost frame returned an error after taking a snapshot that it never reverted
	faultOp     string // the operation that was executing when the run panicked
	childErr    string // error of the last failed frame at depth 2 (layer F)
	ghosts      int    // observation: reverted nested frames whose balance records survived
	ghostOpener string
	steps       uint64
	rqSteps     uint64
	exceeded    bool
	rqExceeded  bool
	frames      int
	maxDepth    int
	reverts     int
	viols       [][2]string
}

// watchdog: the run in progress, for the wall-clock safety net (never an oracle for normal cases)
var (
	curVM    atomic.Value // *evm.EVM
	curStart int64        // unix nano, 0 = idle
	curHit   int32
)

const watchdogLimit = 120 * time.Second

func startWatchdog() {
	go func() {
		for {
			time.Sleep(250 * time.Millisecond)
			s := atomic.LoadInt64(&curStart)
			if s != 0 && time.Since(time.Unix(0, s)) > watchdogLimit {
				if v, ok := curVM.Load().(*evm.EVM); ok && v != nil {
					atomic.StoreInt32(&curHit, 1)
					v.Cancel()
				}
			}
		}
	}()
}

func otxString(o []types.BalanceRecord) string {
	var b strings.Builder
	for _, r := range o {
		fmt.Fprintf(&b, "%s>%s:%s:%s:%v;", nameOf(r.From), nameOf(r.To), r.Type, nameOf(r.TokenID), r.Amount)
	}
	return b.String()
}

func sum(xs []uint64) (s uint64) {
	for _, x := range xs {
		s += x
	}
	return
}

// run modes
const (
	modeObserved = iota // fresh EVM, probing StateDB + tracer
	modeReused          // plain production path on the worker's long-lived EVM after Reset()+SetToken(), the way
	// app/state_transition.go re-uses the block's EVM for every transaction
	modeFresh // plain production path on a fresh EVM
)

// reusedVM is the worker's long-lived plain EVM (one per block in production).
var reusedVM *evm.EVM

// run executes code under config c on a fresh StateDB of world w in one of the three modes above.
func run(w *world, ref *state.StateDB, preRoot common.Hash, code []byte, c config, mode int) *result {
	instrumented := mode == modeObserved
	r := &result{preRoot: preRoot}
	var st *state.StateDB
	if c.entry == entCreate {
		st = w.open(nil)
	} else {
		st = w.open(code)
	}

	var sdb types.StateDB = st
	var p *probe
	var tr evm.Tracer
	if instrumented {
		p = newProbe(st, ref, stepBudget(c.gas), rateQueryBudget(c.gas))
		sdb, tr = p, p
	}
	var vm *evm.EVM
	if mode == modeReused {
		if reusedVM == nil {
			reusedVM = newEVM(sdb, config{entry: entCall}, nil)
		}
		vm = reusedVM
		vm.StateDB = sdb
		token := common.EmptyAddress
		if c.entry == entTokenCall {
			token = aTkn
		}
		vm.Reset(types.NewMessage(aOrigin, nil, token, st.GetNonce(aOrigin), nil, 0, big.NewInt(1), nil))
		vm.SetToken(token)
	} else {
		vm = newEVM(sdb, c, tr)
	}
	if p != nil {
		p.vm = vm
	}
	value := big.NewInt(c.value)
	from := evm.AccountRef(aOrigin)
	to := aSelf
	if c.to != nil {
		to = *c.to
	}
	var err error
	curVM.Store(vm)
	atomic.StoreInt32(&curHit, 0)
	atomic.StoreInt64(&curStart, time.Now().UnixNano())
	r.panicked, r.panicVal = catch(func() {
		switch c.entry {
		case entCall:
			r.ret, r.left, r.bcg, err = vm.Call(from, to, common.EmptyAddress, c.input, c.gas, value)
		case entTokenCall:
			r.ret, r.left, r.bcg, err = vm.Call(from, to, aTkn, c.input, c.gas, value)
		case entUTXOCall:
			r.ret, r.left, r.bcg, err = vm.UTXOCall(from, to, common.EmptyAddress, c.input, c.gas, value)
		case entCreate:
			r.ret, r.created, r.left, err = vm.Create(from, code, c.gas, value)
		case entStatic:
			r.ret, r.left, r.bcg, err = vm.StaticCall(from, to, c.input, c.gas)
		}
	})
	atomic.StoreInt64(&curStart, 0)
	if atomic.LoadInt32(&curHit) != 0 {
		r.canceled = true
	}
	if p != nil {
		r.steps, r.exceeded, r.frames, r.maxDepth, r.reverts = p.steps, p.exceeded, p.nframes, p.maxDepth, p.nreverts
		r.ghosts, r.ghostOpener = p.ghostRecords, p.ghostOpener
		r.childErr = p.depth2Err
		if r.panicked && p.curSet {
			r.faultOp = p.curOp.String()
			if strings.HasPrefix(r.faultOp, "Missing") {
				r.faultOp = fmt.Sprintf("0x%02x", byte(p.curOp))
			}
			if p.curShared { // root cause visible in the trace, see jumpref.go
				r.faultOp += sharedTag
			}
		}
		r.rqSteps, r.rqExceeded = p.rqSteps, p.rqExceeded
		if p.exceeded || p.rqExceeded {
			r.canceled = true
		}
	}
	if r.panicked || r.canceled {
		return r
	}
	if err != nil {
		r.err = err.Error()
	}
	if p != nil {
		p.finish()
		if err != nil && p.nsnap > 0 && !p.firstReverted {
			r.notReverted = true
			p.violation("failed-frame-not-reverted:entry", fmt.Sprintf("the outermost frame returned %q after taking a snapshot, but never reverted to it", err))
		}
		r.viols = p.viols
	}
	r.ret = append([]byte{}, r.ret...)
	r.refundFee = vm.RefundFee()
	r.refundAll = vm.RefundAllFee()
	r.otxs = otxString(vm.GetOTxs())
	r.post = takeDelta(st, ref)
	if e := st.Error(); e != nil {
		r.stateError = e.Error()
	}
	r.root = st.IntermediateRoot(false)
	return r
}

// stepBudget: every interpreter step costs at least 1 gas, except the halting instructions (one per frame,
// and a frame costs its caller >= 700 gas) and TRANSFERTOKEN of amount 0 (whose three operands cost >= 6 gas
// to produce). gas + gas/256 + 2000 is therefore never reached by a metered execution. For the huge gas
// values of the depth layer the budget is clamped (see stepCap); reaching the clamp is reported under a
// different key.
const stepCap = 400000000

func stepBudget(gas uint64) uint64 {
	if gas > stepCap {
		return stepCap
	}
	return gas + gas/256 + 2000
}

// rateQueryBudget bounds the interpreter steps spent inside UTXO change-rate queries. A query is triggered by
// ISSUE (25000 gas); an honest decimals() getter takes a few dozen steps. "No more steps than gas supplied"
// is a generous allowance that a query running on its own, unpaid gas exceeds by orders of magnitude.
func rateQueryBudget(gas uint64) uint64 {
	if gas > stepCap {
		return stepCap
	}
	return gas + 2000
}

func catch(f func()) (bool, string) {
	p, v := vk.Catch(f)
	if !p {
		return false, ""
	}
	return true, fmt.Sprint(v)
}

// ---- oracles ----

type finding struct {
	key, what string
}

// panicClass canonicalises a panic value into a root-cause class.
func panicClass(v string) string {
	v = strings.ToLower(v)
	switch {
	case strings.Contains(v, "index out of range"):
		return "index-out-of-range"
	case strings.Contains(v, "slice bounds out of range"):
		return "slice-bounds"
	case strings.Contains(v, "makeslice") || strings.Contains(v, "len out of range") || strings.Contains(v, "cap out of range"):
		return "makeslice"
	case strings.Contains(v, "nil pointer"):
		return "nil-deref"
	case strings.Contains(v, "invalid memory: store empty"):
		return "memory-store-unresized"
	case strings.Contains(v, "cannot be reverted"):
		return "revision-cannot-be-reverted"
	case strings.Contains(v, "refund counter below zero"):
		return "refund-below-zero"
	case strings.Contains(v, "interface conversion"):
		return "interface-conversion"
	}
	if len(v) > 40 {
		v = v[:40]
	}
	return strings.Map(func(r rune) rune {
		if r >= 'a' && r <= 'z' || r >= '0' && r <= '9' {
			return r
		}
		return '-'
	}, v)
}

// opClass names the kind of program for panic keys: the sorted set of "interesting" opcodes it contains.
func opClass(code []byte) string {
	seen := map[string]bool{}
	for pc := 0; pc < len(code); pc++ {
		o := evm.OpCode(code[pc])
		if o >= evm.PUSH1 && o <= evm.PUSH32 {
			pc += int(o-evm.PUSH1) + 1
			continue
		}
		switch {
		case o >= evm.DUP1 && o <= evm.DUP16, o >= evm.SWAP1 && o <= evm.SWAP16, o == evm.POP, o == evm.JUMPDEST, o == evm.GAS, o == evm.ADDRESS, o == evm.STOP:
			continue
		}
		n := o.String()
		if strings.HasPrefix(n, "Missing") {
			n = fmt.Sprintf("0x%02x", byte(o))
		}
		seen[n] = true
	}
	var l []string
	for s := range seen {
		l = append(l, s)
	}
	sortStrings(l)
	if len(l) > 4 {
		l = l[:4]
	}
	return strings.Join(l, "+")
}

// evaluate runs the program twice from equal pre-states (observed and plain) and applies every oracle.
// It returns the findings, the outcome class of the case (for non-vacuity statistics) and the observed run.
func evaluate(w *world, ref *state.StateDB, preRoot common.Hash, code []byte, c config) ([]finding, string, *result, int) {
	var fs []finding
	add := func(key, format string, a ...interface{}) {
		for _, f := range fs {
			if f.key == key {
				return
			}
		}
		fs = append(fs, finding{key, fmt.Sprintf(format, a...)})
	}
	nruns := 2
	a := run(w, ref, preRoot, code, c, modeObserved)
	if a.panicked {
		at := a.faultOp
		if at == "" {
			at = opClass(code)
		}
		add("panic:"+panicClass(a.panicVal)+":"+at, "interpreter panicked while executing %s: %s", at, a.panicVal)
		return fs, "panic", a, 1
	}
	if a.rqExceeded {
		add("unmetered-execution:utxo-rate-query-on-unpaid-gas", "the UTXO change-rate query that follows ISSUE executed more than %d interpreter steps (gas + 2000) although only gas=%d was supplied: it runs on 1e10 gas nobody pays for", rateQueryBudget(c.gas), c.gas)
		return fs, "unmetered", a, 1
	}
	if a.exceeded {
		if c.gas > stepCap {
			add("no-termination-within-step-cap", "executed more than %d interpreter steps (gas=%d)", uint64(stepCap), c.gas)
		} else {
			add("unmetered-execution:steps-exceed-gas", "executed more than %d interpreter steps (gas + gas/256 + 2000) with gas=%d: the work done is not bounded by the gas supplied", stepBudget(c.gas), c.gas)
		}
		return fs, "unmetered", a, 1
	}
	if a.canceled {
		add("no-termination-within-watchdog", "did not return within %v for gas=%d", watchdogLimit, c.gas)
		return fs, "timeout", a, 1
	}
	b := run(w, ref, preRoot, code, c, modeReused)
	if b.panicked {
		add("panic:"+panicClass(b.panicVal)+":"+opClass(code), "interpreter panicked (plain run only): %s", b.panicVal)
		return fs, "panic", a, 2
	}
	if b.canceled {
		add("no-termination-within-watchdog", "plain run did not return within %v for gas=%d", watchdogLimit, c.gas)
		return fs, "timeout", a, 2
	}
	for _, v := range a.viols {
		add(v[0], "%s", v[1])
	}

	// determinism: two runs from equal pre-states. The second run re-uses a long-lived EVM the way the application
	// does; if they differ, a third run on a fresh plain EVM tells whether the re-use is what matters.
	if k, wh := compareRuns(a, b); k != "" {
		// attributed to the re-use only if it is reproducible as a function of it: two more fresh runs agree with
		// the first run and two more re-used runs agree with the second (a random difference rarely does)
		reuse := true
		for i := 0; i < 2 && reuse; i++ {
			f := run(w, ref, preRoot, code, c, modeFresh)
			u := run(w, ref, preRoot, code, c, modeReused)
			nruns += 2
			kf, _ := compareRuns(a, f)
			ku, _ := compareRuns(b, u)
			if kf != "" || ku != "" || f.panicked || f.canceled || u.panicked || u.canceled {
				reuse = false
			}
		}
		if reuse {
			add("nondeterministic:evm-reuse:"+k, "a fresh EVM and an EVM re-used after Reset() give (reproducibly) different results: %s", wh)
		} else {
			add("nondeterministic:"+k, "%s", wh)
		}
	}
	// A memoised StateDB database error (EXTCODESIZE of a code-less account looks the empty code hash up in the
	// database) has no consumer in the repository (StateDB.Error() is never called) and no effect on results; it
	// is counted as an observation, not judged.

	for _, r := range []*result{a, b} {
		// metering: never more gas than supplied. The application adds RefundFee() (success) or RefundAllFee()
		// (failure) to the gas left over (app/state_transition.go transitOutputs).
		if r.left > c.gas {
			add("gas-left-exceeds-gas-supplied", "left over gas %d > supplied %d (err=%q)", r.left, c.gas, r.err)
		} else {
			back := r.refundFee
			if r.err != "" {
				back = r.refundAll
			}
			if r.left+back > c.gas || r.left+back < r.left {
				add("gas-left-plus-fee-refund-exceeds-gas-supplied", "left over gas %d + fee refund %d > supplied %d (err=%q)", r.left, back, c.gas, r.err)
			}
		}
		// atomicity of the outermost frame
		if r.err != "" && !a.notReverted {
			if cl := r.post.classes(); len(cl) > 0 {
				for _, c := range residueClasses(cl) {
					add("failed-frame-leaves-state:"+c, "the outermost frame failed with %q but the world changed: %s", r.err, r.post)
				}
			} else if r.root != r.preRoot {
				add("failed-frame-leaves-state:root-only", "the outermost frame failed with %q, the explicit dump is unchanged but the state root moved %x -> %x", r.err, r.preRoot[:4], r.root[:4])
			}
			// "value sent into a failed call stays with the caller" is part of this equality: the delta covers the
			// caller's and every recipient's balance and token balances (field class "balance" / "token-balance")
		}
	}

	// outcome class
	cls := "ok"
	if a.err != "" {
		cls = a.err
		if i := strings.Index(cls, "("); i > 0 { // "invalid jump destination (PUSH1) 255"
			cls = strings.TrimSpace(cls[:i])
		}
		if strings.HasPrefix(cls, "invalid opcode") {
			cls = "invalid opcode"
		}
		if strings.HasPrefix(cls, "stack underflow") {
			cls = "stack underflow"
		}
		if strings.HasPrefix(cls, "stack limit reached") {
			cls = "stack limit reached"
		}
	} else if a.root != a.preRoot {
		cls = "ok+state-change"
	}
	return fs, cls, a, nruns
}

// compareRuns returns the first observable in which two runs differ ("" if none).
func compareRuns(a, b *result) (key, what string) {
	switch {
	case !bytes.Equal(a.ret, b.ret):
		return "return-data", fmt.Sprintf("two runs returned %x and %x", a.ret, b.ret)
	case a.left != b.left || a.bcg != b.bcg:
		return "gas", fmt.Sprintf("two runs left gas %d/%d (bytecode gas %d/%d)", a.left, b.left, a.bcg, b.bcg)
	case a.err != b.err:
		return "error", fmt.Sprintf("two runs ended with %q and %q", a.err, b.err)
	case a.created != b.created:
		return "created-address", fmt.Sprintf("two runs created %x and %x", a.created, b.created)
	case a.refundFee != b.refundFee || a.refundAll != b.refundAll:
		return "fee-refund", fmt.Sprintf("two runs refund fees %d/%d and %d/%d", a.refundFee, a.refundAll, b.refundFee, b.refundAll)
	case a.otxs != b.otxs:
		return "balance-records", fmt.Sprintf("two runs produced balance records %q and %q", a.otxs, b.otxs)
	case a.root != b.root:
		cl, det := a.post.diff(b.post)
		if len(cl) == 0 {
			cl = []string{"root-only"}
		}
		return "state:" + strings.Join(cl, "+"), fmt.Sprintf("two runs ended in different states (roots %x / %x): %s", a.root[:4], b.root[:4], det)
	}
	if cl, det := a.post.diff(b.post); len(cl) > 0 {
		return "state:" + strings.Join(cl, "+"), fmt.Sprintf("two runs ended in different states with EQUAL roots: %s", det)
	}
	return "", ""
}

func sortStrings(l []string) {
	for i := 1; i < len(l); i++ {
		for j := i; j > 0 && l[j] < l[j-1]; j-- {
			l[j], l[j-1] = l[j-1], l[j]
		}
	}
}

// compareWithControl (layer F): a is the run whose child is <prefix>;<failure>, ctl the control run whose child is
// the bare <failure>. If a's child failed (the parent stored status 0, i.e. did not write slot 1 - or the whole
// transaction failed), everything observable must equal the control run: error, return data, world (storage,
// balances, token balances, nonces, code, existence, self-destruct marks), logs, refund counter and - unless the
// failure is REVERT, which returns the gas the prefix did not use - the gas left. Zero-valued token entries are
// not compared here: what a reverted frame does to them is judged under the narrow keys
// failed-frame-leaves-state:token-zero-entry-left / -lost.
func compareWithControl(a, ctl *result, revertKind bool) (string, string) {
	if ctl.post == nil || ctl.panicked || ctl.canceled {
		return "", ""
	}
	for _, l := range a.post.lines {
		if strings.HasPrefix(l, "self/storage/01:") {
			return "", "" // the child succeeded (the prefix halted it): not a failed child
		}
	}
	switch {
	case a.err != ctl.err:
		return "error", fmt.Sprintf("parent ends with %q, but with %q when the failing child does nothing before failing (world: %s / control: %s)", a.err, ctl.err, a.post, ctl.post)
	case !bytes.Equal(a.ret, ctl.ret):
		return "return-data", fmt.Sprintf("parent returns %x, control %x", a.ret, ctl.ret)
	}
	cl, det := a.post.diff(ctl.post)
	var keep []string
	for _, c := range cl {
		if !strings.HasPrefix(c, "token-zero-entry") {
			keep = append(keep, c)
		}
	}
	if len(keep) > 0 {
		return "state:" + strings.Join(residueClasses(keep), "+"), "the world after the transaction differs from the control run (first = with prefix, second = control): " + det
	}
	// Gas left is NOT compared: a prefix can turn the child's failure into a revert-type one that returns the
	// unused gas (TRANSFERTOKEN without funds; ISSUE followed by a successful end, which the interpreter converts
	// into ExecutionReverted when the child does not answer decimals()), so the child's consumption legitimately
	// depends on the prefix. Gas is the one thing a failed frame may leave behind.
	_ = revertKind
	return "", ""
}
