package main

import (
	"fmt"
	"os"
	"runtime/pprof"
	"time"

	"github.com/lianxiangcloud/linkchain/libs/log"
	"github.com/lianxiangcloud/linkchain/vm/evm"
)

func main() {
	log.Root().SetHandler(log.DiscardHandler())
	startWatchdog()
	w := buildWorld()
	fmt.Printf("world root %x\n", w.root)
	progs := [][]byte{
		cat(push1(1), push1(0), op(evm.SSTORE)),
		cat(push1(1), op(evm.ADD)),
		cat(push1(5), op(evm.ISSUE)),
		callMacro(evm.CALL, &aReverter, 1, gasAll),
		callMacro(evm.CALL, &aTokUser, 0, gasAll),
		callMacro(evm.CALL, &aIssuer, 0, gasAll),
		callMacro(evm.DELEGATECALL, &aIssueLib, 0, gasAll),
		cat(op(evm.JUMPDEST), push1(0), op(evm.JUMP)),
		callMacro(evm.CALL, nil, 0, gasAll),
	}
	for _, p := range progs {
		for _, c := range []config{{entCall, 10000000, 1, nil}, {entCreate, 10000000, 1, nil}, {entUTXOCall, 50000, 0, nil}, {entTokenCall, 10000000, 1, nil}} {
			t0 := time.Now()
			ref := w.pristine
			if c.entry != entCreate {
				ref = w.open(p)
			}
			fs, cls, a := evaluate(w, ref, p, c)
			fmt.Printf("%x %v -> %s steps=%d frames=%d depth=%d left=%d (%v)\n", p, c, cls, a.steps, a.frames, a.maxDepth, a.left, time.Since(t0))
			for _, f := range fs {
				fmt.Printf("   FINDING %s :: %s\n", f.key, f.what)
			}
		}
	}
	if len(os.Args) > 1 {
		fh, _ := os.Create("/tmp/C20-dev/cpu.prof")
		pprof.StartCPUProfile(fh)
		defer pprof.StopCPUProfile()
		// throughput
		p := cat(push1(1), push1(0), op(evm.SSTORE))
		c := config{entCall, 50000, 0, nil}
		t0 := time.Now()
		n := 20000
		ref := w.open(p)
		for i := 0; i < n; i++ {
			evaluate(w, ref, p, c)
		}
		fmt.Printf("evaluate: %v per case\n", time.Since(t0)/time.Duration(n))
		t0 = time.Now()
		for i := 0; i < n; i++ {
			run(w, ref, p, c, false)
		}
		fmt.Printf("plain run: %v per case\n", time.Since(t0)/time.Duration(n))
		p = cat(push1(1), op(evm.ADD))
		ref = w.open(p)
		t0 = time.Now()
		for i := 0; i < n; i++ {
			run(w, ref, p, c, false)
		}
		fmt.Printf("plain run (underflow): %v per case\n", time.Since(t0)/time.Duration(n))
	}
}
