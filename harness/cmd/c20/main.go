// C20 — contract execution is metered, atomic and crash-free for arbitrary programs.
//
// Bounded exhaustive enumeration of EVM programs x entry configurations on the REAL interpreter
// (vm/evm over a real state.StateDB), every case executed twice from equal pre-states (once on a fresh EVM
// observed through a probing StateDB + tracer, once on the plain production path on a long-lived EVM that is
// re-used after Reset() like the application's) and judged by the oracles in exec.go. The program families
// ("layers") are defined in layers.go, the fixed world and the explicit world dump in world.go.
//
// Process structure: the check binary is a supervisor that re-executes itself as W single-threaded worker
// processes (address-space limited), because the property includes "does not crash the node": a Go fatal error
// (out of memory, stack exhaustion) cannot be recovered in-process. A worker publishes the case it is about to
// run in a shared-memory slot. If it dies, the supervisor runs that case alone in a fresh process (twice): only
// if that dies too is the case reported as a violation (a worker can also die because the machine ran out of
// memory); the worker is restarted from its last statistics snapshot and skips the judged case.
//
// Environment knobs: VERIF_WORKERS (number of worker processes, default NumCPU); development only: C20_ONLY
// (comma list of layer names; the run is then reported as capped), C20_PROF, C20_MEMDBG.
package main

import (
	"bufio"
	"encoding/binary"
	"encoding/hex"
	"encoding/json"
	"fmt"
	"os"
	"os/exec"
	"path/filepath"
	"runtime"
	"runtime/debug"
	"runtime/pprof"
	"sort"
	"strconv"
	"strings"
	"sync"
	"syscall"
	"time"

	"verif/vk"

	"github.com/lianxiangcloud/linkchain/libs/common"
	"github.com/lianxiangcloud/linkchain/libs/log"
	"github.com/lianxiangcloud/linkchain/state"
	"github.com/lianxiangcloud/linkchain/types"
)

// ---- the layers of a tier ----

func buildLayers(w *world, thorough bool) []layer {
	var ls []layer
	// D: deep recursion
	dp := depthPrograms()
	dm := depthMatrix()
	ls = append(ls, layer{name: "D", what: fmt.Sprintf("%d self-recursive programs (CALL/CALLCODE/DELEGATECALL/STATICCALL to self with all gas, CREATE/CREATE2 of own code, stack-limit loop; 4 tails) x %d configurations with gas up to 2^64-1: the 1024 call-depth limit is reached", len(dp), len(dm)),
		n: len(dp), gen: func(i int) (string, []byte) { return dp[i].name, dp[i].code }, configs: func(int) []config { return dm }})
	// P: the entry goes straight to a fixture account / precompile (no program of ours involved)
	pt := directTargets()
	pm := directMatrix()
	ls = append(ls, layer{name: "P", what: fmt.Sprintf("direct entry (Call, UTXOCall, StaticCall, TokenCall) into each of %d fixture accounts / precompiles x 5 gas levels x 3 values", len(pt)),
		n: len(pt), gen: func(i int) (string, []byte) { return "direct:" + nameOf(pt[i]), nil },
		configs: func(i int) []config {
			out := make([]config, len(pm))
			for k, c := range pm {
				c.to = &pt[i]
				out[k] = c
			}
			return out
		}})
	// F: a failed child must not influence its parent through anything but gas
	fp := failPrograms()
	fm := failMatrix()
	ls = append(ls, layer{name: "F", what: fmt.Sprintf("%d parent/child pairs: parent = CALL|CALL+value|CALLCODE|DELEGATECALL|STATICCALL(child, 2,000,000 gas); SSTORE(1:=status); SSTORE(0:=1), child = every prefix of <= 2 symbols of the 38-symbol prefix alphabet followed by each of 5 failure kinds (INVALID, REVERT, out of gas, stack underflow, bad jump); x %d configurations; every case whose child failed is compared with the control run whose child is the bare failure", len(fp), len(fm)),
		n: len(fp), gen: func(i int) (string, []byte) { return fp[i].name, fp[i].parent }, configs: func(int) []config { return fm },
		aux: func(i int) []byte { return fp[i].child }, control: func(i int) (string, []byte) { return fp[i].controlKey, fp[i].controlCode }})
	// K: several creates in one call tree
	kp := createPrograms()
	km := createMatrix()
	ls = append(ls, layer{name: "K", what: fmt.Sprintf("%d programs creating 1, 2 (all ordered pairs) or 3 (all ordered triples of the 7 basic init codes) contracts in one frame: CREATE/CREATE2 x 19 init codes (no jump, jump low, jump beyond position 40, jump into PUSH data, jump to a JUMPDEST where a sibling has PUSH data, returning jumping runtime code that is then CALLed, 12 init codes that themselves CREATE a jumping child with/without own jumps), with and without a jump of the creating frame; x %d configurations (as factory contract through Call, as depth-0 init code through evm.Create)", len(kp), len(km)),
		n: len(kp), gen: func(i int) (string, []byte) { return kp[i].name, kp[i].code }, configs: func(int) []config { return km }})
	// B1 and the short sequences first: cheap and diverse
	full := fullMatrix()
	ls = append(ls, byteLayer(1, full))
	for l := 0; l <= 2; l++ {
		ls = append(ls, seqLayer(l, full, "full matrix"))
	}
	// C: call structures
	cp := callPrograms(thorough)
	cm := callMatrix()
	cmSmall := smallGasOnly(cm)
	ls = append(ls, layer{name: "C", what: fmt.Sprintf("%d call-structure programs: [pre] CALLKIND(target,value,gas) [post] over 4 call kinds x 18 targets x 3 values x 3 gas operands x 4 pre x 7 post, and pairs of all-gas calls x 2 post (quick tier: pairs without the self target, the value-255 and CALLCODE-v0 variants); x %d configurations (programs that reach the spinner fixture only at gas <= 50000)", len(cp), len(cm)),
		n: len(cp), gen: func(i int) (string, []byte) { return cp[i].name, cp[i].code },
		configs: func(i int) []config {
			if cp[i].spinner {
				return cmSmall
			}
			return cm
		}})
	// V: operand sweep; the arity of every opcode is measured on the real interpreter
	ar := measureArity(w)
	sp := sweepPrograms(ar, thorough)
	sm := sweepMatrix()
	ls = append(ls, layer{name: "V", what: fmt.Sprintf("%d operand-sweep programs: every opcode byte 0x00..0xff x every operand vector over boundary values (10 values for <=3 operands, 6 for 4; for 6-7 operands 3 values in the quick tier, 4-5 in the thorough tier), with and without a warm-up call; x %d configurations", len(sp), len(sm)),
		n: len(sp), gen: func(i int) (string, []byte) { return sp[i].name, sp[i].code }, configs: func(int) []config { return sm }})
	// B2: all two-byte codes
	ls = append(ls, byteLayer(2, []config{{entry: entCall, gas: 10000000, value: 1}, {entry: entCreate, gas: 10000000, value: 0}}))
	// S: the longer instruction sequences
	red := reducedMatrix(thorough)
	deep := 4
	if thorough {
		deep = 5
	}
	for l := 3; l < deep; l++ {
		ls = append(ls, seqLayer(l, full, "full matrix"))
	}
	ls = append(ls, seqLayer(deep, red, "reduced matrix"))
	// development knob: C20_ONLY=S3,V restricts the run to some layers (the supervisor then reports a cap)
	if only := os.Getenv("C20_ONLY"); only != "" {
		var keep []layer
		for _, l := range ls {
			for _, n := range strings.Split(only, ",") {
				if l.name == n {
					keep = append(keep, l)
				}
			}
		}
		ls = keep
	}
	return ls
}

// measureArity determines, on the real interpreter, how many stack items each opcode byte needs: the smallest
// k such that PUSH1 0 (x k); OP does not fail with a stack underflow.
func measureArity(w *world) [256]int {
	var ar [256]int
	for b := 0; b < 256; b++ {
		for k := 0; k <= 17; k++ {
			var code []byte
			for i := 0; i < k; i++ {
				code = append(code, push1(0)...)
			}
			code = append(code, byte(b))
			r := run(w, w.open(code), common.Hash{}, code, config{entry: entCall, gas: 100000, value: 0}, modeFresh)
			if r.panicked || !strings.HasPrefix(r.err, "stack underflow") {
				ar[b] = k
				break
			}
		}
	}
	return ar
}

// ---- worker ----

type layerStats struct {
	Name     string         `json:"layer"`
	What     string         `json:"bound"`
	Programs int            `json:"programs"`
	Cases    int            `json:"cases"`
	Runs     int            `json:"runs_on_real_code"`
	Steps    uint64         `json:"interpreter_steps_observed"`
	Frames   int            `json:"call_frames_observed"`
	Reverts  int            `json:"frame_reverts_observed"`
	MaxDepth int            `json:"max_call_depth"`
	Outcomes map[string]int `json:"outcomes"`
	Sigs     map[string]int `json:"-"`
	Complete bool           `json:"complete"`
	Total    int            `json:"programs_in_layer"`
	CPU      float64        `json:"cpu_s"`
	DBErrs   int            `json:"observed_memoised_statedb_errors"`
	Ghosts   map[string]int `json:"observed_cases_with_balance_records_of_reverted_nested_frames"`
}

type wmsg struct {
	T       string                   `json:"t"`
	Key     string                   `json:"key,omitempty"`
	What    string                   `json:"what,omitempty"`
	Prog    int                      `json:"prog,omitempty"`
	Cfg     int                      `json:"cfg,omitempty"`
	Replay  map[string]interface{}   `json:"replay,omitempty"`
	Stats   []*layerStats            `json:"stats,omitempty"`
	Sigs    []string                 `json:"sigs,omitempty"`
	Counts  map[string]int           `json:"counts,omitempty"`
	Capped  string                   `json:"capped,omitempty"`
	Next    int                      `json:"next,omitempty"` // stats snapshot: the program index this incarnation runs next
	Samples []map[string]interface{} `json:"samples,omitempty"`
}

// the child codes of the program being run (for replay records)
var curAux, curControlAux []byte

func replayOf(l *layer, name string, code []byte, c config) map[string]interface{} {
	m := map[string]interface{}{"layer": l.name, "program": name, "code": hx(code), "entry": entryName[c.entry], "gas": c.gas, "value": c.value, "input": hx(c.input)}
	if l.aux != nil {
		m["child_code"] = hx(curAux)
		if l.control != nil {
			m["control_child_code"] = hx(curControlAux)
		}
	}
	if c.to != nil {
		m["to"] = hx(c.to[:])
	}
	return m
}

var memdbg = os.Getenv("C20_MEMDBG") != ""

func workerMain(spec string) {
	parts := strings.Split(spec, "/")
	shard, _ := strconv.Atoi(parts[0])
	nw, _ := strconv.Atoi(parts[1])
	start, _ := strconv.Atoi(os.Getenv("C20_START"))
	startCfg, _ := strconv.Atoi(os.Getenv("C20_STARTCFG")) // with C20_ONECASE: the configuration to run
	oneCase := os.Getenv("C20_ONECASE") != ""              // run exactly the case (start, startCfg): crash confirmation
	skip := map[[2]int]bool{}                              // cases judged separately (after a worker death)
	for _, s := range strings.Split(os.Getenv("C20_SKIP"), ",") {
		var g, c int
		if n, _ := fmt.Sscanf(s, "%d:%d", &g, &c); n == 2 {
			skip[[2]int{g, c}] = true
		}
	}
	deadlineNs, _ := strconv.ParseInt(os.Getenv("C20_DEADLINE"), 10, 64)
	deadline := time.Unix(0, deadlineNs)
	thorough := os.Getenv("C20_TIER") == "thorough"
	// address-space limit: a runaway allocation must kill this worker, not the machine
	lim := uint64(8 << 30)
	syscall.Setrlimit(syscall.RLIMIT_AS, &syscall.Rlimit{Cur: lim, Max: lim})
	debug.SetGCPercent(1600)
	debug.SetMemoryLimit(2 << 30) // soft: collect harder instead of growing towards the hard limit
	debug.SetMaxStack(256 << 20)  // 1024 nested EVM frames need a few MB of Go stack; unbounded recursion dies sooner than at the default 1 GB
	var slot []byte
	if p := os.Getenv("C20_SLOTS"); p != "" {
		f, err := os.OpenFile(p, os.O_RDWR, 0644)
		if err == nil {
			m, err := syscall.Mmap(int(f.Fd()), 0, 16*nw, syscall.PROT_READ|syscall.PROT_WRITE, syscall.MAP_SHARED)
			if err == nil {
				slot = m[16*shard : 16*shard+16]
			}
			f.Close()
		}
	}
	out := bufio.NewWriterSize(os.Stdout, 1<<16)
	enc := json.NewEncoder(out)
	if pf := os.Getenv("C20_PROF"); pf != "" && shard == 0 {
		if fh, err := os.Create(pf); err == nil {
			pprof.StartCPUProfile(fh)
			defer pprof.StopCPUProfile()
		}
	}
	startWatchdog()
	w := buildWorld()
	layers := buildLayers(w, thorough)
	var stats []*layerStats
	counts := map[string]int{}
	sigs := map[string]bool{}
	controls := map[string]*result{}
	var samples []map[string]interface{}
	capped := ""
	base := 0
	lastSnap := time.Now()
outer:
	for li := range layers {
		l := &layers[li]
		ls := &layerStats{Name: l.name, What: l.what, Outcomes: map[string]int{}, Total: l.n, Complete: true}
		stats = append(stats, ls)
		t0 := cpuNow()
		for i := 0; i < l.n; i++ {
			gi := base + i
			if shardOf(gi, nw) != shard || gi < start {
				continue
			}
			if oneCase && gi != start {
				break outer
			}
			if time.Since(lastSnap) > 5*time.Second {
				// cumulative statistics of this incarnation, at a program boundary: if the process dies later the
				// supervisor still has what was covered up to here
				lastSnap = time.Now()
				ls.CPU = cpuNow() - t0
				enc.Encode(wmsg{T: "stats", Stats: stats, Sigs: sigList(sigs), Counts: counts, Samples: samples, Next: gi})
				out.Flush()
			}
			if time.Now().After(deadline) {
				capped = fmt.Sprintf("deadline in layer %s at program %d of %d", l.name, i, l.n)
				ls.Complete = false
				ls.CPU = cpuNow() - t0
				for _, l2 := range layers[li+1:] {
					stats = append(stats, &layerStats{Name: l2.name, What: l2.what, Outcomes: map[string]int{}, Total: l2.n})
				}
				break outer
			}
			name, code := l.gen(i)
			w.aux, curAux, curControlAux = nil, nil, nil
			if l.aux != nil {
				w.aux = l.aux(i)
				curAux = w.aux
				if l.control != nil {
					_, curControlAux = l.control(i)
				}
			}
			if !oneCase { // the single case of a confirmation run belongs to a program the restarted worker counts
				ls.Programs++
			}
			var refSelf *state.StateDB
			var rootSelf common.Hash
			for ci, c := range l.configs(i) {
				if oneCase && ci != startCfg || !oneCase && skip[[2]int{gi, ci}] {
					continue
				}
				if slot != nil && !oneCase {
					binary.LittleEndian.PutUint64(slot[0:], uint64(gi)+1)
					binary.LittleEndian.PutUint64(slot[8:], uint64(ci))
				}
				ref, preRoot := w.pristine, w.root
				if c.entry != entCreate {
					if refSelf == nil {
						refSelf = w.open(code)
						rootSelf = w.open(code).IntermediateRoot(false)
					}
					ref, preRoot = refSelf, rootSelf
				}
				fs, cls, a, nruns := evaluate(w, ref, preRoot, code, c)
				if l.control != nil && a.post != nil && !a.panicked && !a.canceled {
					// differential against the control run (child = the bare failure), cached per parent/failure/config
					ckey, caux := l.control(i)
					ckey += "|" + c.String()
					ctl := controls[ckey]
					if ctl == nil {
						saved := w.aux
						w.aux = caux
						ctl = run(w, w.open(code), w.open(code).IntermediateRoot(false), code, c, modeFresh)
						w.aux = saved
						controls[ckey] = ctl
						nruns++
					}
					if k, wh := compareWithControl(a, ctl, strings.Contains(ckey, "REVERT")); k != "" {
						fs = append(fs, finding{"failed-child-leaks-into-parent:" + k, wh})
					}
				}
				ls.Cases++
				if memdbg && ls.Cases%20000 == 0 {
					var ms runtime.MemStats
					runtime.ReadMemStats(&ms)
					fmt.Fprintf(os.Stderr, "MEM layer=%s cases=%d heapAlloc=%dMB heapSys=%dMB nextGC=%dMB numGC=%d sys=%dMB\n", l.name, ls.Cases, ms.HeapAlloc>>20, ms.HeapSys>>20, ms.NextGC>>20, ms.NumGC, ms.Sys>>20)
				}
				ls.Runs += nruns
				ls.Steps += a.steps + a.rqSteps
				ls.Frames += a.frames
				ls.Reverts += a.reverts
				if a.maxDepth > ls.MaxDepth {
					ls.MaxDepth = a.maxDepth
				}
				if a.stateError != "" {
					ls.DBErrs++
				}
				if a.ghosts > 0 {
					if ls.Ghosts == nil {
						ls.Ghosts = map[string]int{}
					}
					ls.Ghosts["frame opened by "+a.ghostOpener]++
				}
				ls.Outcomes[cls]++
				if sg := signature(cls, a); !sigs[sg] {
					sigs[sg] = true
					if len(samples) < 40 {
						sm := replayOf(l, name, code, c)
						sm["outcome"] = sg
						sm["gas_left"] = a.left
						if a.post != nil {
							sm["world_delta"] = a.post.String()
						}
						samples = append(samples, sm)
					}
				}
				for _, f := range fs {
					counts[f.key]++
					if counts[f.key] <= 2 {
						enc.Encode(wmsg{T: "viol", Key: f.key, What: f.what, Prog: gi, Cfg: ci, Replay: replayOf(l, name, code, c)})
						out.Flush()
					}
				}
			}
		}
		base += l.n
		ls.CPU = cpuNow() - t0
	}
	if slot != nil && !oneCase {
		binary.LittleEndian.PutUint64(slot[0:], 0)
	}
	enc.Encode(wmsg{T: "done", Stats: stats, Sigs: sigList(sigs), Counts: counts, Capped: capped, Samples: samples})
	out.Flush()
}

func sigList(sigs map[string]bool) []string {
	var sl []string
	for s := range sigs {
		sl = append(sl, s)
	}
	sort.Strings(sl)
	return sl
}

// shardOf assigns a program (by its global index) to a worker. A multiplicative hash instead of the plain
// remainder: the index of a sequence program is its digit string, so index mod W would correlate with the last
// symbols of the program (and with its cost).
func shardOf(gi, nw int) int {
	x := uint64(gi)*0x9e3779b97f4a7c15 + 0x7f4a7c15
	x ^= x >> 31
	x *= 0xbf58476d1ce4e5b9
	x ^= x >> 29
	return int(x % uint64(nw))
}

// cpuNow returns the CPU seconds (user+system) this process has consumed.
func cpuNow() float64 {
	var ru syscall.Rusage
	syscall.Getrusage(syscall.RUSAGE_SELF, &ru)
	return float64(ru.Utime.Sec) + float64(ru.Utime.Usec)/1e6 + float64(ru.Stime.Sec) + float64(ru.Stime.Usec)/1e6
}

// signature: a coarse behaviour class of a case, for the non-vacuity statistics.
func signature(cls string, a *result) string {
	d := "-"
	if a.post != nil {
		d = strings.Join(a.post.classes(), "+")
	}
	fr := a.frames
	if fr > 3 {
		fr = 3
	}
	rl := len(a.ret)
	if rl > 1 {
		rl = 2
	}
	return fmt.Sprintf("%s|%s|frames%d|ret%d|rev%v|otx%v", cls, d, fr, rl, a.reverts > 0, a.otxs != "")
}

// ---- supervisor ----

type workerState struct {
	shard    int
	start    int
	startCfg int
	skip     []string // "gi:ci" cases the restarted worker must not run again
	crashes  int
	spurious int     // worker deaths that did not reproduce when the case was run alone
	done     *wmsg   // final message of the incarnation that finished
	last     *wmsg   // latest cumulative statistics of the running incarnation
	dead     []*wmsg // latest statistics of incarnations that died
	viols    []wmsg
}

func crashClass(stderrTail string, ws syscall.WaitStatus) string {
	s := stderrTail
	switch {
	case strings.Contains(s, "out of memory") || strings.Contains(s, "cannot allocate memory"):
		return "out-of-memory"
	case strings.Contains(s, "stack overflow") || strings.Contains(s, "goroutine stack exceeds"):
		return "stack-overflow"
	case strings.Contains(s, "concurrent map"):
		return "concurrent-map-access"
	case strings.Contains(s, "SIGSEGV") || strings.Contains(s, "segmentation"):
		return "segfault"
	case strings.Contains(s, "all goroutines are asleep"):
		return "deadlock"
	case strings.Contains(s, "HARNESS-ERROR"):
		return "harness-error"
	}
	if ws.Signaled() {
		return "signal-" + ws.Signal().String()
	}
	return "exit-" + strconv.Itoa(ws.ExitStatus())
}

type tailBuf struct {
	mu  sync.Mutex
	buf []byte
}

func (t *tailBuf) Write(p []byte) (int, error) {
	t.mu.Lock()
	defer t.mu.Unlock()
	t.buf = append(t.buf, p...)
	if len(t.buf) > 1<<16 {
		t.buf = t.buf[len(t.buf)-1<<15:]
	}
	return len(p), nil
}

func (t *tailBuf) String() string {
	t.mu.Lock()
	defer t.mu.Unlock()
	// the head of a Go fatal error is what classifies it
	s := string(t.buf)
	if i := strings.Index(s, "fatal error"); i >= 0 {
		s = s[i:]
	} else if i := strings.Index(s, "panic:"); i >= 0 {
		s = s[i:]
	}
	if len(s) > 600 {
		s = s[:600]
	}
	return s
}

func main() {
	log.Root().SetHandler(log.DiscardHandler())
	// node option save_balance_record: with it off GenBalanceRecord returns empty records and the balance
	// records of an execution (part of its result) could not be compared between runs
	types.SaveBalanceRecord = true
	if spec := os.Getenv("C20_WORKER"); spec != "" {
		workerMain(spec)
		return
	}
	r := vk.Start("C20", "model_checking")
	if r.ReplayPath != "" {
		replayMain(r)
		return
	}
	nw := runtime.NumCPU()
	if w, err := strconv.Atoi(os.Getenv("VERIF_WORKERS")); err == nil && w > 0 {
		nw = w
	}
	self, err := os.Executable()
	if err != nil {
		vk.Fatalf("os.Executable: %v", err)
	}
	scratch := fmt.Sprintf("/dev/shm/C20-%d", os.Getpid())
	if err := os.MkdirAll(scratch, 0755); err != nil {
		scratch = fmt.Sprintf("/tmp/C20-%d", os.Getpid())
		os.MkdirAll(scratch, 0755)
	}
	defer os.RemoveAll(scratch)
	slots := filepath.Join(scratch, "slots")
	if err := os.WriteFile(slots, make([]byte, 16*nw), 0644); err != nil {
		vk.Fatalf("slots: %v", err)
	}
	margin := 20 * time.Second
	if !r.Quick() {
		margin = 60 * time.Second
	}
	deadline := time.Now().Add(r.Remaining() - margin)

	// the layers, for decoding crash slots and for totals (the supervisor runs no case itself, except the arity probe)
	startWatchdog()
	w := buildWorld()
	layers := buildLayers(w, !r.Quick())
	locate := func(gi int) (*layer, int) {
		for li := range layers {
			if gi < layers[li].n {
				return &layers[li], gi
			}
			gi -= layers[li].n
		}
		return nil, 0
	}

	states := make([]*workerState, nw)
	var mu sync.Mutex
	type crash struct {
		key, what string
		prog, cfg int
		replay    map[string]interface{}
	}
	var crashes []crash
	var spurious []string
	gaveUp := false
	// runWorker starts one worker incarnation (or, with one=true, a process that runs exactly the case
	// (ws.start, ws.startCfg)) and collects its messages.
	runWorker := func(ws *workerState, one bool) (*tailBuf, error) {
		cmd := exec.Command(self)
		cmd.Env = append(os.Environ(), fmt.Sprintf("C20_WORKER=%d/%d", ws.shard, nw), fmt.Sprintf("C20_START=%d", ws.start), fmt.Sprintf("C20_STARTCFG=%d", ws.startCfg),
			fmt.Sprintf("C20_DEADLINE=%d", deadline.UnixNano()), "C20_TIER="+r.Tier, "C20_SLOTS="+slots, "GOMAXPROCS=2", "C20_SKIP="+strings.Join(ws.skip, ","))
		if one {
			cmd.Env = append(cmd.Env, "C20_ONECASE=1", fmt.Sprintf("C20_DEADLINE=%d", time.Now().Add(time.Hour).UnixNano()))
		}
		stdout, _ := cmd.StdoutPipe()
		tail := &tailBuf{}
		cmd.Stderr = tail
		if err := cmd.Start(); err != nil {
			vk.Fatalf("start worker: %v", err)
		}
		rd := bufio.NewReaderSize(stdout, 1<<20)
		for {
			line, err := rd.ReadBytes('\n')
			if len(line) > 0 {
				var m wmsg
				if json.Unmarshal(line, &m) == nil {
					mu.Lock()
					switch m.T {
					case "viol":
						ws.viols = append(ws.viols, m)
					case "stats":
						if !one {
							mm := m
							ws.last = &mm
						}
					case "done":
						mm := m
						if one {
							ws.dead = append(ws.dead, &mm) // the single case counts like a finished incarnation
						} else {
							ws.done, ws.last = &mm, nil
						}
					}
					mu.Unlock()
				}
			}
			if err != nil {
				break
			}
		}
		return tail, cmd.Wait()
	}
	var wg sync.WaitGroup
	for s := 0; s < nw; s++ {
		states[s] = &workerState{shard: s}
		wg.Add(1)
		go func(ws *workerState) {
			defer wg.Done()
			outside := 0
			for {
				// the slot must not still name the last case of a previous incarnation
				if f, err := os.OpenFile(slots, os.O_WRONLY, 0644); err == nil {
					f.WriteAt(make([]byte, 16), int64(16*ws.shard))
					f.Close()
				}
				tail, werr := runWorker(ws, false)
				if werr == nil && ws.done != nil {
					return
				}
				// The incarnation died. What it covered up to its last statistics snapshot is kept; the next
				// incarnation continues from that snapshot (re-doing at most a few seconds of work).
				resume := ws.start
				mu.Lock()
				if ws.last != nil {
					ws.dead = append(ws.dead, ws.last)
					resume = ws.last.Next
					ws.last = nil
				}
				mu.Unlock()
				// the worker died: which case was it running?
				data, _ := os.ReadFile(slots)
				gi1 := binary.LittleEndian.Uint64(data[16*ws.shard:])
				ci := int(binary.LittleEndian.Uint64(data[16*ws.shard+8:]))
				var wstat syscall.WaitStatus
				if ee, ok := werr.(*exec.ExitError); ok {
					wstat, _ = ee.Sys().(syscall.WaitStatus)
				}
				cls := crashClass(tail.String(), wstat)
				if cls == "harness-error" {
					vk.Fatalf("worker %d: %s", ws.shard, tail.String())
				}
				if gi1 == 0 {
					// died outside a case (while building its world or between cases): nothing to attribute it to
					mu.Lock()
					ws.spurious++
					outside++
					spurious = append(spurious, fmt.Sprintf("worker %d died outside a case (%s): %s", ws.shard, cls, strings.Split(tail.String(), "\n")[0]))
					mu.Unlock()
					if outside >= 5 {
						vk.Fatalf("worker %d died outside a case %d times (%s): %s", ws.shard, outside, cls, tail.String())
					}
					ws.start, ws.startCfg, ws.done = resume, 0, nil
					continue
				}
				gi := int(gi1 - 1)
				l, i := locate(gi)
				name, code := l.gen(i)
				cfgs := l.configs(i)
				c := cfgs[ci%len(cfgs)]
				// Believe the death only if the case also kills a fresh process that runs nothing else (twice): a
				// worker can also die because the machine as a whole ran out of memory.
				ws.start, ws.startCfg, ws.done = gi, ci, nil
				confirmed := true
				var ctail *tailBuf
				for attempt := 0; attempt < 2 && confirmed; attempt++ {
					var cerr error
					ctail, cerr = runWorker(ws, true)
					if cerr == nil {
						confirmed = false
					}
				}
				mu.Lock()
				if confirmed {
					var cstat syscall.WaitStatus
					ccls := crashClass(ctail.String(), cstat)
					if ccls == "exit-0" {
						ccls = cls
					}
					crashes = append(crashes, crash{"process-crash:" + ccls,
						fmt.Sprintf("the process executing the program died (%s), also when the case is run alone in a fresh process: %s", ccls, strings.Split(ctail.String(), "\n")[0]), gi, ci, replayOf(l, name, code, c)})
					ws.crashes++
				} else {
					ws.spurious++
					spurious = append(spurious, fmt.Sprintf("worker %d died (%s) while running program %d cfg %d (%s [%s]); the case runs to completion alone, so the death is attributed to the environment", ws.shard, cls, gi, ci, name, c))
				}
				tooMany := ws.crashes+ws.spurious >= 40
				if tooMany {
					gaveUp = true
				}
				mu.Unlock()
				if tooMany {
					return
				}
				// the case itself has been judged by the confirmation run, or is reported as a crash
				ws.skip = append(ws.skip, fmt.Sprintf("%d:%d", gi, ci))
				ws.start, ws.startCfg = resume, 0
			}
		}(states[s])
	}
	wg.Wait()

	// ---- merge ----
	type v struct {
		key, what string
		prog, cfg int
		replay    map[string]interface{}
	}
	var all []v
	total := map[string]int{}
	for _, c := range crashes {
		all = append(all, v{c.key, c.what, c.prog, c.cfg, c.replay})
		total[c.key]++
	}
	merged := map[string]*layerStats{}
	var order []string
	sigs := map[string]bool{}
	for _, ws := range states {
		for _, m := range ws.viols {
			all = append(all, v{m.Key, m.What, m.Prog, m.Cfg, m.Replay})
		}
		parts := append([]*wmsg{}, ws.dead...)
		if ws.done != nil {
			parts = append(parts, ws.done)
		} else if ws.last != nil {
			parts = append(parts, ws.last)
		}
		for _, part := range parts {
			for k, n := range part.Counts {
				total[k] += n
			}
			for _, s := range part.Sigs {
				sigs[s] = true
			}
			for _, ls := range part.Stats {
				m, ok := merged[ls.Name]
				if !ok {
					m = &layerStats{Name: ls.Name, What: ls.What, Outcomes: map[string]int{}, Complete: true, Total: ls.Total}
					merged[ls.Name] = m
					order = append(order, ls.Name)
				}
				m.Programs += ls.Programs
				m.Cases += ls.Cases
				m.Runs += ls.Runs
				m.Steps += ls.Steps
				m.Frames += ls.Frames
				m.Reverts += ls.Reverts
				m.CPU += ls.CPU
				m.DBErrs += ls.DBErrs
				for k, n := range ls.Ghosts {
					if m.Ghosts == nil {
						m.Ghosts = map[string]int{}
					}
					m.Ghosts[k] += n
				}
				if ls.MaxDepth > m.MaxDepth {
					m.MaxDepth = ls.MaxDepth
				}
				for k, n := range ls.Outcomes {
					m.Outcomes[k] += n
				}
			}
		}
		if ws.done == nil {
			continue
		}
		if ws.shard == 0 {
			seen := map[string]bool{}
			for _, sm := range ws.done.Samples {
				cls := strings.SplitN(fmt.Sprint(sm["outcome"]), "|", 2)[0]
				if !seen[cls] {
					seen[cls] = true
					r.Sample(sm)
				}
			}
		}
		if ws.done.Capped != "" {
			r.Capped(fmt.Sprintf("worker %d/%d: %s", ws.shard, nw, ws.done.Capped))
		}
	}
	if os.Getenv("C20_ONLY") != "" {
		r.Capped("C20_ONLY=" + os.Getenv("C20_ONLY") + ": only some layers were run (development knob)")
	}
	if gaveUp {
		r.Capped("a worker died 40 times and was not restarted again; its shard is incomplete")
	}
	for _, s := range spurious {
		r.Note("%s", s)
	}
	r.Set("worker_deaths_not_reproduced_in_isolation", len(spurious))
	sort.SliceStable(all, func(i, j int) bool {
		if all[i].prog != all[j].prog {
			return all[i].prog < all[j].prog
		}
		return all[i].cfg < all[j].cfg
	})
	reported := map[string]int{}
	dup := map[string]bool{}
	for _, x := range all {
		id := fmt.Sprintf("%s|%d|%d", x.key, x.prog, x.cfg)
		if dup[id] { // a restarted worker re-does the few seconds before its predecessor's death
			continue
		}
		dup[id] = true
		r.Violation(x.key, x.what, x.replay)
		reported[x.key]++
	}
	// make the printed case count the true one (workers forward only their first two cases per key)
	for k, n := range total {
		for i := reported[k]; i < n && i < 1000000; i++ {
			r.Violation(k, "", nil)
		}
	}
	var per []interface{}
	programs, cases, runs, frames, reverts, maxDepth := 0, 0, 0, 0, 0, 0
	var steps uint64
	outcomes := map[string]int{}
	for _, n := range order {
		m := merged[n]
		if m.Programs < m.Total {
			m.Complete = false
		}
		per = append(per, m)
		programs += m.Programs
		cases += m.Cases
		runs += m.Runs
		steps += m.Steps
		frames += m.Frames
		reverts += m.Reverts
		if m.MaxDepth > maxDepth {
			maxDepth = m.MaxDepth
		}
		for k, c := range m.Outcomes {
			outcomes[k] += c
		}
	}
	nontrivial := 0
	for s := range sigs {
		if !strings.HasPrefix(s, "stack underflow|") && !strings.HasPrefix(s, "invalid opcode|") {
			nontrivial++
		}
	}
	r.Set("layers", per)
	r.Set("states", programs)
	r.Set("transitions", cases)
	r.Set("traces_validated_against_impl", runs)
	r.Set("evaluations", cases)
	r.Set("programs", programs)
	r.Set("cases_program_x_configuration", cases)
	r.Set("interpreter_steps_observed", steps)
	r.Set("call_frames_observed", frames)
	r.Set("frame_reverts_checked", reverts)
	r.Set("max_call_depth_reached", maxDepth)
	r.Set("outcome_classes", outcomes)
	r.Set("distinct_nontrivial", nontrivial)
	r.Set("distinct_behaviour_signatures", len(sigs))
	r.Set("violation_cases", total)
	r.Set("workers", nw)
	r.Set("rule", "every program of every layer x every configuration of that layer is executed on the real EVM twice from equal pre-states (observed run on a fresh EVM with probing StateDB + tracer; plain run on a long-lived EVM re-used after Reset()+SetToken() as app/state_transition.go does; further runs only to classify a difference); "+
		"oracles: no panic / no process death (confirmed by running the case alone in a fresh process); interpreter steps <= gas + gas/256 + 2000, steps inside UTXO change-rate queries (counted apart) <= gas + 2000; gas left (+ fee refund the application adds) <= gas supplied; every executed JUMP/JUMPI verdict equals a fresh analysis of the code actually running (independent reference, jumpref.go); both runs identical in return data, gas, error, fee refunds, balance records, "+
		"explicit world delta and state root; a failing outermost frame leaves an empty delta and the pre-state root; every nested frame that fails is reverted and the world after RevertToSnapshot equals the world at its Snapshot; "+
		"non-trivial = behaviour signatures (error class, changed field classes, frames, return size, reverts, balance records) other than an immediate stack underflow / invalid opcode")
	r.Assume("world = 20 fixed accounts (caller, program account, 10 fixture contracts, precompiles 1-4, small addresses 0x00/0x01/0x20/0xff, one token id); block context fixed (number 10, time 1000); gas price 1")
	r.Assume("the explicit world dump is the set of state objects the StateDB holds in memory (add-only hook state.VerifLoaded) compared field by field with an untouched twin; objects not in memory equal the committed pre-state by construction of StateDB; the state root is compared in addition")
	r.Assume("IntermediateRoot(false) as the application calls it; database = state.NewDatabase over the copying MemDB")
	r.Assume("the observed run uses evm.Config{Debug:true, Tracer}; it is compared against the plain run of the same case, so the tracer path is not trusted")
	r.Assume("wall-clock is used only as a 120 s safety net per case; the termination oracle is the deterministic step budget")
	r.Assume("types.SaveBalanceRecord = true (node option save_balance_record) so that the balance records an execution emits are real and comparable between the two runs")
	os.RemoveAll(scratch) // r.Finish exits the process, deferred calls do not run
	r.Assume("WASM contracts, the app-level state transition around the EVM (buyGas, refundGas, nonce), precompile internals and tracing APIs are outside this check")
	r.Finish()
}

// ---- replay ----

func replayMain(r *vk.Run) {
	var rp struct {
		Program string `json:"program"`
		Code    string `json:"code"`
		Entry   string `json:"entry"`
		Gas     uint64 `json:"gas"`
		Value   int64  `json:"value"`
		Input   string `json:"input"`
		To      string `json:"to"`
		Child   string `json:"child_code"`
		Control string `json:"control_child_code"`
	}
	r.LoadReplay(&rp)
	code, _ := hex.DecodeString(rp.Code)
	in, _ := hex.DecodeString(rp.Input)
	c := config{gas: rp.Gas, value: rp.Value, input: in}
	if rp.To != "" {
		t := common.HexToAddress(rp.To)
		c.to = &t
	}
	for i, n := range entryName {
		if n == rp.Entry {
			c.entry = entryKind(i)
		}
	}
	lim := uint64(6 << 30)
	syscall.Setrlimit(syscall.RLIMIT_AS, &syscall.Rlimit{Cur: lim, Max: lim})
	startWatchdog()
	w := buildWorld()
	if rp.Child != "" {
		w.aux, _ = hex.DecodeString(rp.Child)
	}
	ref, preRoot := w.pristine, w.root
	if c.entry != entCreate {
		ref = w.open(code)
		preRoot = w.open(code).IntermediateRoot(false)
	}
	fmt.Printf("replay: %s  [%s]  code=%s\n", rp.Program, c, rp.Code)
	fs, cls, a, _ := evaluate(w, ref, preRoot, code, c)
	if rp.Control != "" && a.post != nil {
		saved := w.aux
		w.aux, _ = hex.DecodeString(rp.Control)
		ctl := run(w, w.open(code), w.open(code).IntermediateRoot(false), code, c, modeFresh)
		w.aux = saved
		fmt.Printf("control: err=%q left=%d world delta: %s\n", ctl.err, ctl.left, ctl.post)
		if k, wh := compareWithControl(a, ctl, strings.Contains(rp.Program, "REVERT")); k != "" {
			fs = append(fs, finding{"failed-child-leaks-into-parent:" + k, wh})
		}
	}
	fmt.Printf("outcome=%s err=%q left=%d ret=%x steps=%d frames=%d depth=%d\n", cls, a.err, a.left, a.ret, a.steps, a.frames, a.maxDepth)
	if a.post != nil {
		fmt.Printf("world delta: %s\n", a.post)
		fmt.Printf("balance records: %s  fee refunds: %d/%d\n", a.otxs, a.refundFee, a.refundAll)
	}
	for _, f := range fs {
		r.Violation(f.key, f.what, map[string]interface{}{"program": rp.Program, "code": rp.Code, "entry": rp.Entry, "gas": rp.Gas, "value": rp.Value, "input": rp.Input})
	}
	r.Set("states", 1)
	r.Set("transitions", 1)
	r.Set("traces_validated_against_impl", 2)
	r.Finish()
}
