package main

import (
	"fmt"
	"math/big"

	"github.com/lianxiangcloud/linkchain/libs/common"
	"github.com/lianxiangcloud/linkchain/vm/evm"
)

// Independent jump-validity reference.
//
// For every JUMP (and every JUMPI whose condition is non-zero) the observed run records the code that is actually
// running, the target on the stack, and what a FRESH analysis of exactly that code says: the target is valid iff it
// lies inside the code, the byte there is JUMPDEST (0x5b) and it is not an operand byte of a PUSH. The interpreter's
// own verdict is then read off the trace: the next event at the same depth is either a fault "invalid jump
// destination" (refused) or the next operation (accepted). The two must agree. The reference below is a plain scan
// written for the harness; it shares nothing with vm/evm/analysis.go.

type jumpPend struct {
	valid  bool   // the reference verdict
	why    string // for an invalid target: beyond-code | non-jumpdest | push-data
	target uint64
	pc     uint64
	shared bool // zero-CodeHash code, and a different zero-CodeHash code has already jumped in this call tree
	code   []byte
}

// pushData marks the bytes of code that are PUSH operands.
func pushData(code []byte) []bool {
	d := make([]bool, len(code))
	for pc := 0; pc < len(code); pc++ {
		if b := code[pc]; b >= 0x60 && b <= 0x7f {
			n := int(b) - 0x5f
			for k := 1; k <= n && pc+k < len(code); k++ {
				d[pc+k] = true
			}
			pc += n
		}
	}
	return d
}

func sameSlice(a, b []byte) bool {
	return len(a) == len(b) && (len(a) == 0 || &a[0] == &b[0])
}

func (p *probe) refVerdict(code []byte, target *big.Int) (bool, string) {
	if target.BitLen() > 31 || target.Uint64() >= uint64(len(code)) {
		return false, "beyond-code"
	}
	t := target.Uint64()
	if code[t] != 0x5b {
		return false, "non-jumpdest"
	}
	if !sameSlice(code, p.refCode) {
		p.refCode, p.refData = code, pushData(code)
	}
	if p.refData[t] {
		return false, "push-data"
	}
	return true, ""
}

func (p *probe) traceJump(op evm.OpCode, pc uint64, stack *evm.Stack, contract *evm.Contract, depth int) {
	data := stack.Data()
	if op == evm.JUMPI && (len(data) < 2 || data[len(data)-2].Sign() == 0) {
		return // falls through, no verdict involved
	}
	if len(data) < 1 {
		return
	}
	target := data[len(data)-1]
	valid, why := p.refVerdict(contract.Code, target)
	pj := &jumpPend{valid: valid, why: why, target: target.Uint64(), pc: pc, code: contract.Code}
	if contract.CodeHash == (common.Hash{}) {
		// Code that runs without a code hash (CREATE init code). Its JUMPDEST analysis is cached under the zero
		// hash in a map the whole call tree shares; remember whether a DIFFERENT such code has jumped before.
		if p.zeroJumpers == nil {
			p.zeroJumpers = map[string]bool{}
		}
		key := string(contract.Code)
		for k := range p.zeroJumpers {
			if k != key {
				pj.shared = true
			}
		}
		p.zeroJumpers[key] = true
	}
	p.curShared = pj.shared
	if p.pendJump == nil {
		p.pendJump = map[int]*jumpPend{}
	}
	p.pendJump[depth] = pj
}

const sharedTag = ":shared-jumpdest-analysis-of-sibling-init-code"

// settleJump: the verdict of the jump pending at depth is known (accepted: the frame went on; refused: it
// faulted with "invalid jump destination").
func (p *probe) settleJump(depth int, nextPC uint64, accepted bool) {
	pj := p.pendJump[depth]
	if pj == nil {
		return
	}
	delete(p.pendJump, depth)
	tag := ""
	if pj.shared {
		tag = sharedTag
	}
	code := pj.code
	if len(code) > 64 {
		code = code[:64]
	}
	switch {
	case accepted && !pj.valid:
		p.violation("wrong-jump-verdict:"+pj.why+"-accepted"+tag,
			fmt.Sprintf("jump at pc %d to %d was accepted although a fresh analysis of the running code (%x, %d bytes) says the target is %s", pj.pc, pj.target, code, len(pj.code), pj.why))
	case !accepted && pj.valid:
		p.violation("wrong-jump-verdict:valid-jumpdest-refused"+tag,
			fmt.Sprintf("jump at pc %d to %d was refused (invalid jump destination) although the target is a JUMPDEST outside PUSH data of the running code (%x, %d bytes)", pj.pc, pj.target, code, len(pj.code)))
	case accepted && nextPC != pj.target:
		p.violation("wrong-jump-verdict:landed-elsewhere"+tag, fmt.Sprintf("jump at pc %d to %d continued at pc %d", pj.pc, pj.target, nextPC))
	}
}
